/-
  C16: the LEGACY helper encoder `encode_array` of cspuz/puzzle/util.py (`Cspuz.Codecs.encodeArray`) emits exactly the
  text of the combinator codec `Seq(OneOf(Spaces(empty, m), HexInt()), n)` / `Grid(OneOf(Spaces(empty, m), HexInt()))`
  of cspuz/problem_serializer.py on the data both accept (the empty marker, or an int in 0..4095), for every
  one-character marker `m` in `0-9a-z` (in particular `m = 'g'`, the default); and examples where they differ.
-/
import CspuzModel.Model.PuzzleCodecs
import CspuzModel.Proofs.C15Leaves
import CspuzModel.Proofs.C15Comp
set_option linter.unusedVariables false
namespace Cspuz.Proofs.C16Legacy
open Cspuz Cspuz.Ser Cspuz.Codecs

/-- the data on which the two encoder families agree: the empty marker, or an int 0..4095 -/
def LegacyItem (empty v : PyVal) : Prop := v = empty ∨ ∃ n : Int, v = .int n ∧ 0 ≤ n ∧ n ≤ 4095

/-! ### the legacy loop: a pending run can be extended in one jump, and flushed early -/

/-- `run` more empty cells are absorbed into the pending counter as long as the total stays within `36 - idx`. -/
theorem encodeCells_jump (idx : Nat) (empty : PyVal) : ∀ (l : List PyVal) (run : Nat) (acc : Str),
    run ≤ 36 - idx →
    encodeCells idx empty l run acc =
      encodeCells idx empty (l.drop (countRun empty l (36 - idx - run))) (run + countRun empty l (36 - idx - run)) acc := by
  intro l
  induction l with
  | nil =>
    intro run acc _
    cases hl : 36 - idx - run <;> simp [countRun]
  | cons v rest ih =>
    intro run acc hrun
    cases hl : 36 - idx - run with
    | zero => simp [countRun]
    | succ lim =>
      simp only [countRun]
      cases hv : pyEq v empty with
      | false => simp
      | true =>
        simp only [if_true]
        have hlt : ¬ (run + 1 - 1 + idx ≥ 36) := by omega
        rw [show 1 + countRun empty rest lim = countRun empty rest lim + 1 by omega, List.drop_succ_cons]
        conv => lhs; rw [encodeCells]
        simp only [hv, if_true, hlt, if_false]
        have := ih (run + 1) acc (by omega)
        rw [show 36 - idx - (run + 1) = lim by omega] at this
        rw [this]
        congr 1
        omega

/-- a pending run may be written out early when it is full, or when the next cell is not empty (or there is none). -/
theorem encodeCells_flush (idx : Nat) (hidx : idx ≤ 35) (empty : PyVal) (l : List PyVal) (m : Nat) (acc : Str)
    (hm : m = 36 - idx ∨ ∀ v rest, l = v :: rest → pyEq v empty = false) :
    encodeCells idx empty l m acc = encodeCells idx empty l 0 (acc ++ flushRun idx m) := by
  cases l with
  | nil => simp [encodeCells, flushRun]
  | cons v rest =>
    cases hv : pyEq v empty with
    | true =>
      have hm' : m = 36 - idx := by
        rcases hm with h | h
        · exact h
        · have := h v rest rfl; rw [hv] at this; cases this
      have h1 : m + 1 - 1 + idx ≥ 36 := by omega
      have h2 : ¬ (0 + 1 - 1 + idx ≥ 36) := by omega
      have h3 : m > 0 := by omega
      have h4 : digitChar (m - 1 + idx) = 122 := by
        rw [show m - 1 + idx = 35 by omega]; rfl
      rw [encodeCells, encodeCells]
      simp only [hv, if_true, h1, h2, if_false, flushRun, h3, h4]
    | false =>
      rw [encodeCells, encodeCells]
      simp only [hv, Bool.false_eq_true, if_false]
      simp [flushRun]

/-- `countRun` stops at the limit, at the end of the list, or in front of a cell that is not `==` to the space. -/
theorem countRun_maximal (sp : PyVal) : ∀ (l : List PyVal) (lim : Nat),
    countRun sp l lim = lim ∨ ∀ v rest, l.drop (countRun sp l lim) = v :: rest → pyEq v sp = false
  | _, 0 => by simp [countRun]
  | [], _ + 1 => by simp [countRun]
  | x :: r, lim + 1 => by
    simp only [countRun]
    cases hx : pyEq x sp with
    | true =>
      simp only [if_true]
      rw [show 1 + countRun sp r lim = countRun sp r lim + 1 by omega, List.drop_succ_cons]
      rcases countRun_maximal sp r lim with h | h
      · left; omega
      · right; exact h
    | false =>
      right
      intro v rest h
      simp at h
      rw [← h.1]; exact hx

/-! ### one item -/

/-- the text both families emit for an int `0 ≤ n ≤ 4095` -/
def hexText (n : Int) : Str :=
  (if 16 ≤ n && n < 256 then [45] else if 256 ≤ n then [43] else []) ++ toBase 16 n.toNat

theorem encodeIntOrStr_int (n : Int) (h0 : 0 ≤ n) (h1 : n ≤ 4095) : encodeIntOrStr (.int n) = .ok (hexText n) := by
  have hneg : ¬ n < 0 := by omega
  simp only [encodeIntOrStr, asInt?, hexTail, hneg, if_false, hexText]
  by_cases a : n ≤ 15
  · have b : ¬ (16 ≤ n) := by omega
    have c : ¬ (256 ≤ n) := by omega
    simp [a, b, c]
  · by_cases b : n ≤ 255
    · have c : 16 ≤ n := by omega
      have d : n < 256 := by omega
      simp [a, b, c, d]
    · have c : ¬ (n < 256) := by omega
      have d : 256 ≤ n := by omega
      simp [a, b, c, d, h1]

theorem getElem?_of_drop {α} (xs : List α) (p : Nat) (v : α) (rest : List α) (h : xs.drop p = v :: rest) :
    xs[p]? = some v ∧ p < xs.length ∧ xs.drop (p + 1) = rest := by
  have hp : p < xs.length := by
    rcases Nat.lt_or_ge p xs.length with h' | h'
    · exact h'
    · rw [List.drop_eq_nil_of_le h'] at h; cases h
  rw [List.drop_eq_getElem_cons hp] at h
  simp only [List.cons.injEq] at h
  exact ⟨by rw [List.getElem?_eq_getElem hp, h.1], hp, h.2⟩

/-- `OneOf(Spaces(empty, m), HexInt())` on an empty cell: the whole run (at most `36 - idx` cells) as one character -/
theorem oneOf_spaces (idx : Nat) (hidx : idx ≤ 35) (empty : PyVal) (xs : List PyVal) (p : Nat) (v : PyVal)
    (rest : List PyVal) (hd : xs.drop p = v :: rest) (hv : pyEq v empty = true) :
    oneOfF [spacesSer empty ((idx : Int) - 1), hexIntSer] xs p =
      .ok (1 + countRun empty rest (35 - idx), [digitChar (idx + countRun empty rest (35 - idx))]) := by
  obtain ⟨hget, hp, hdrop⟩ := getElem?_of_drop xs p v rest hd
  have hne : ¬ p = xs.length := by omega
  have hlim : (35 - ((idx : Int) - 1) - 1).toNat = 35 - idx := by omega
  have hc := countRun_le_lim empty rest (35 - idx)
  have hnn : ¬ ((idx : Int) - 1 + ((1 + countRun empty rest (35 - idx) : Nat) : Int) < 0) := by omega
  have htn : ((idx : Int) - 1 + ((1 + countRun empty rest (35 - idx) : Nat) : Int)).toNat
      = idx + countRun empty rest (35 - idx) := by omega
  simp only [oneOfF, spacesSer, withItem, hne, if_false, hget, hv, Bool.not_true, Bool.false_eq_true, hdrop, hlim,
    toBase36, hnn, htn]
  rw [toBase_of_lt 36 _ (by omega) (by omega)]
  rfl

/-- `OneOf(Spaces(empty, m), HexInt())` on an int cell that is not the empty marker -/
theorem oneOf_hex (off : Int) (empty : PyVal) (xs : List PyVal) (p : Nat) (n : Int)
    (rest : List PyVal) (hd : xs.drop p = .int n :: rest) (hv : pyEq (.int n) empty = false)
    (h0 : 0 ≤ n) (h1 : n ≤ 4095) :
    oneOfF [spacesSer empty off, hexIntSer] xs p = .ok (1, hexText n) := by
  obtain ⟨hget, hp, hdrop⟩ := getElem?_of_drop xs p _ rest hd
  have hne : ¬ p = xs.length := by omega
  simp only [oneOfF, spacesSer, hexIntSer, withItem, hne, if_false, hget, hv, Bool.not_false, if_true, asInt?,
    hexText]
  simp [h0, h1]

/-! ### the two loops -/

/-- the legacy loop never fails on legacy items -/
theorem encodeCells_total (idx : Nat) (empty : PyVal) (he : empty.noBool = true) : ∀ (l : List PyVal) (run : Nat) (acc : Str),
    (∀ v ∈ l, LegacyItem empty v) → ∃ t, encodeCells idx empty l run acc = .ok t := by
  intro l
  induction l with
  | nil => intro run acc _; exact ⟨_, by rw [encodeCells]⟩
  | cons v rest ih =>
    intro run acc hx
    have hrest : ∀ u ∈ rest, LegacyItem empty u := fun u hu => hx u (List.mem_cons_of_mem _ hu)
    rw [encodeCells]
    cases hv : pyEq v empty with
    | true =>
      simp only [if_true]
      split
      · exact ih _ _ hrest
      · exact ih _ _ hrest
    | false =>
      rcases hx v (List.mem_cons_self) with rfl | ⟨n, rfl, h0, h1⟩
      · rw [(pyEq_iff_eq v v he he).mpr rfl] at hv; cases hv
      · simp only [Bool.false_eq_true, if_false, encodeIntOrStr_int n h0 h1, Outcome.bind_ok]
        exact ih _ _ hrest

/-- **The loop of `Seq(OneOf(Spaces(empty, m), HexInt()), n)` and the loop of `encode_array` agree** from every
position reached by the combinator (where the legacy loop has no pending run). -/
theorem loop_eq (idx : Nat) (hidx : idx ≤ 35) (empty : PyVal) (he : empty.noBool = true) (xs : List PyVal)
    (hx : ∀ v ∈ xs, LegacyItem empty v) :
    ∀ (fuel p : Nat) (acc : Str), p ≤ xs.length → xs.length - p < fuel →
      seqSerLoop (oneOfF [spacesSer empty ((idx : Int) - 1), hexIntSer]) xs xs.length fuel p acc =
        encodeCells idx empty (xs.drop p) 0 acc := by
  intro fuel
  induction fuel with
  | zero => intro p acc _ h; omega
  | succ fuel ih =>
    intro p acc hp hfu
    rw [seqSerLoop]
    by_cases hlt : p < xs.length
    · simp only [hlt, if_true]
      cases hd : xs.drop p with
      | nil =>
        have := congrArg List.length hd
        simp at this; omega
      | cons v rest =>
        have hmem : v ∈ xs := List.mem_of_mem_drop (by rw [hd]; exact List.mem_cons_self)
        obtain ⟨_, _, hdrop⟩ := getElem?_of_drop xs p v rest hd
        cases hv : pyEq v empty with
        | true =>
          rw [oneOf_spaces idx hidx empty xs p v rest hd hv]
          have hc := countRun_le_lim empty rest (35 - idx)
          have hcl := countRun_le_length empty rest (35 - idx)
          have hlen : rest.length = xs.length - (p + 1) := by rw [← hdrop]; simp
          have hk0 : ¬ (1 + countRun empty rest (35 - idx) = 0) := by omega
          simp only [hk0, if_false]
          rw [ih _ _ (by omega) (by omega)]
          -- the legacy side: jump over the run, then flush it
          have hcr : countRun empty (v :: rest) (36 - idx - 0) = 1 + countRun empty rest (35 - idx) := by
            rw [show 36 - idx - 0 = (35 - idx) + 1 by omega]
            simp [countRun, hv]
          have hj := encodeCells_jump idx empty (v :: rest) 0 acc (by omega)
          rw [hcr] at hj
          rw [hj]
          have hmax : 0 + (1 + countRun empty rest (35 - idx)) = 36 - idx ∨
              ∀ u r, (v :: rest).drop (1 + countRun empty rest (35 - idx)) = u :: r → pyEq u empty = false := by
            have := countRun_maximal empty (v :: rest) (36 - idx - 0)
            rw [hcr] at this
            rcases this with h | h
            · left; omega
            · right; exact h
          rw [encodeCells_flush idx hidx empty _ _ acc hmax]
          have hdd : xs.drop (p + (1 + countRun empty rest (35 - idx)))
              = (v :: rest).drop (1 + countRun empty rest (35 - idx)) := by
            rw [← hd, List.drop_drop]
          have hfl : flushRun idx (0 + (1 + countRun empty rest (35 - idx)))
              = [digitChar (idx + countRun empty rest (35 - idx))] := by
            have : 0 + (1 + countRun empty rest (35 - idx)) > 0 := by omega
            simp only [flushRun, this, if_true]
            congr 2
            omega
          rw [hdd, hfl]
        | false =>
          rcases hx v hmem with rfl | ⟨n, rfl, h0, h1⟩
          · rw [(pyEq_iff_eq v v he he).mpr rfl] at hv; cases hv
          · rw [oneOf_hex _ empty xs p n rest hd hv h0 h1]
            simp only [Nat.one_ne_zero, if_false]
            rw [ih _ _ (by omega) (by omega), hdrop]
            conv => rhs; rw [encodeCells]
            simp only [hv, Bool.false_eq_true, if_false, encodeIntOrStr_int n h0 h1, Outcome.bind_ok, flushRun,
              Nat.lt_irrefl, gt_iff_lt, List.append_nil]
    · have hpe : p = xs.length := by omega
      subst hpe
      simp [encodeCells, flushRun]

/-! ### the marker -/

theorem charVal_le (m : Nat) (hm : isAlnumLower m = true) : charVal m ≤ 35 := by
  simp only [isAlnumLower, Bool.or_eq_true, Bool.and_eq_true, decide_eq_true_eq] at hm
  unfold charVal
  split <;> omega

/-! ### flat arrays (`dim = 1`) -/

/-- `encode_array(xs, m, empty, dim=1)` is `serialize_problem(Seq(OneOf(Spaces(empty, m), HexInt()), len(xs)), xs)`,
for every marker `m` in `0-9a-z`, and both return a text. -/
theorem legacy_encode_array_flat_marker (m : Nat) (hm : isAlnumLower m = true) (empty : PyVal)
    (he : empty.noBool = true) (xs : List PyVal) (hx : ∀ v ∈ xs, LegacyItem empty v) (h w : Nat) :
    ∃ t, encodeArray xs m empty (some 1) = .ok t ∧
      serProblem (.seq (.oneOf [.spaces empty ((charVal m : Int) - 1), .hexInt]) xs.length) (.list xs) h w = .ok t := by
  obtain ⟨t, ht⟩ := encodeCells_total (charVal m) empty he xs 0 [] hx
  have hloop := loop_eq (charVal m) (charVal_le m hm) empty he xs hx (xs.length + 1) 0 [] (by omega) (by omega)
  rw [List.drop_zero, ht] at hloop
  refine ⟨t, ?_, ?_⟩
  · simp [encodeArray, hm, ht]
  · simp [serProblem, ser, serL, seqSer, withItem, hloop]

/-- the default marker `'g'` (code point 103): `Spaces(empty, 'g')` has offset `int('g', 36) - 1 = 15` -/
theorem legacy_encode_array_flat (empty : PyVal) (he : empty.noBool = true) (xs : List PyVal)
    (hx : ∀ v ∈ xs, LegacyItem empty v) (h w : Nat) :
    encodeArray xs 103 empty (some 1) =
      serProblem (.seq (.oneOf [.spaces empty 15, .hexInt]) xs.length) (.list xs) h w := by
  obtain ⟨t, h1, h2⟩ := legacy_encode_array_flat_marker 103 (by decide) empty he xs hx h w
  rw [show ((charVal 103 : Nat) : Int) - 1 = 15 by decide] at h2
  rw [h1, h2]

/-! ### two-dimensional arrays (`dim` inferred, or `dim = 2`) -/

theorem all_isListVal (rows : List (List PyVal)) : (rows.map PyVal.list).all isListVal = true := by
  induction rows with
  | nil => rfl
  | cons r rows ih => simp [isListVal]

theorem flattenLists_map (rows : List (List PyVal)) : flattenLists (rows.map PyVal.list) = .ok rows.flatten := by
  induction rows with
  | nil => rfl
  | cons r rows ih => simp [flattenLists, ih]

theorem rowsFlat_map (rows : List (List PyVal)) : rowsFlat (rows.map PyVal.list) = rows.flatten := by
  induction rows with
  | nil => rfl
  | cons r rows ih => simp [rowsFlat, ih]

/-- `encode_array(rows, m, empty)` on a list of `h` lists of `w` items each is
`serialize_problem(Grid(OneOf(Spaces(empty, m), HexInt())), rows)` on an `h × w` board, for every marker `m` in `0-9a-z`
(`dim = None` infers 2 because every row is a list; `dim = 2` gives the same), and both return a text. -/
theorem legacy_encode_array_grid_marker (m : Nat) (hm : isAlnumLower m = true) (empty : PyVal)
    (he : empty.noBool = true) (rows : List (List PyVal)) (h w : Nat)
    (hshape : rows.length = h ∧ ∀ r ∈ rows, r.length = w) (hx : ∀ r ∈ rows, ∀ v ∈ r, LegacyItem empty v)
    (dim : Option Nat) (hdim : dim = none ∨ dim = some 2) :
    ∃ t, encodeArray (rows.map PyVal.list) m empty dim = .ok t ∧
      serProblem (.grid (.oneOf [.spaces empty ((charVal m : Int) - 1), .hexInt]) none) (.list (rows.map PyVal.list)) h w
        = .ok t := by
  have hx' : ∀ v ∈ rows.flatten, LegacyItem empty v := by
    intro v hv
    obtain ⟨r, hr, hvr⟩ := List.mem_flatten.mp hv
    exact hx r hr v hvr
  have hgs : GridShape h w (rows.map PyVal.list) := by
    refine ⟨by simpa using hshape.1, ?_⟩
    intro r hr
    obtain ⟨l, hl, rfl⟩ := List.mem_map.mp hr
    exact ⟨l, rfl, hshape.2 l hl⟩
  obtain ⟨hflat, hlen⟩ := gridFlatten_shape h w _ hgs
  rw [rowsFlat_map] at hflat hlen
  obtain ⟨t, ht⟩ := encodeCells_total (charVal m) empty he rows.flatten 0 [] hx'
  have hloop := loop_eq (charVal m) (charVal_le m hm) empty he rows.flatten hx' (rows.flatten.length + 1) 0 []
    (by omega) (by omega)
  rw [List.drop_zero, ht, hlen] at hloop
  refine ⟨t, ?_, ?_⟩
  · rcases hdim with rfl | rfl
    · simp [encodeArray, hm, isListVal, flattenLists_map, ht]
    · simp [encodeArray, hm, flattenLists_map, ht]
  · simp [serProblem, ser, serL, gridSer, gridDims, seqSer, withItem, hflat, hloop]

theorem legacy_encode_array_grid (empty : PyVal) (he : empty.noBool = true) (rows : List (List PyVal)) (h w : Nat)
    (hshape : rows.length = h ∧ ∀ r ∈ rows, r.length = w) (hx : ∀ r ∈ rows, ∀ v ∈ r, LegacyItem empty v) :
    encodeArray (rows.map PyVal.list) 103 empty none =
      serProblem (.grid (.oneOf [.spaces empty 15, .hexInt]) none) (.list (rows.map PyVal.list)) h w := by
  obtain ⟨t, h1, h2⟩ :=
    legacy_encode_array_grid_marker 103 (by decide) empty he rows h w hshape hx none (Or.inl rfl)
  rw [show ((charVal 103 : Nat) : Int) - 1 = 15 by decide] at h2
  rw [h1, h2]

/-- marker-general equalities (`Spaces(empty, m)` is `.spaces empty (int(m, 36) - 1)`) -/
theorem legacy_encode_array_flat_general (m : Nat) (hm : isAlnumLower m = true) (empty : PyVal)
    (he : empty.noBool = true) (xs : List PyVal) (hx : ∀ v ∈ xs, LegacyItem empty v) (h w : Nat) :
    encodeArray xs m empty (some 1) =
      serProblem (.seq (.oneOf [.spaces empty ((charVal m : Int) - 1), .hexInt]) xs.length) (.list xs) h w := by
  obtain ⟨t, h1, h2⟩ := legacy_encode_array_flat_marker m hm empty he xs hx h w
  rw [h1, h2]

theorem legacy_encode_array_grid_general (m : Nat) (hm : isAlnumLower m = true) (empty : PyVal)
    (he : empty.noBool = true) (rows : List (List PyVal)) (h w : Nat)
    (hshape : rows.length = h ∧ ∀ r ∈ rows, r.length = w) (hx : ∀ r ∈ rows, ∀ v ∈ r, LegacyItem empty v) :
    encodeArray (rows.map PyVal.list) m empty none =
      serProblem (.grid (.oneOf [.spaces empty ((charVal m : Int) - 1), .hexInt]) none) (.list (rows.map PyVal.list)) h w := by
  obtain ⟨t, h1, h2⟩ := legacy_encode_array_grid_marker m hm empty he rows h w hshape hx none (Or.inl rfl)
  rw [h1, h2]

/-! ### corner cases inside the common domain (both sides, by evaluation) -/

/-- the codec the legacy default corresponds to -/
abbrev cellComb (empty : PyVal) : Comb := .oneOf [.spaces empty 15, .hexInt]

-- the empty array: the empty text on both sides
example : encodeArray [] 103 .none (some 1) = .ok [] := rfl
example : serProblem (.seq (cellComb .none) 0) (.list []) 3 3 = .ok [] := rfl
-- a run of 21 empty cells: `"zg"` (20 + 1) on both sides
example : encodeArray (List.replicate 21 .none) 103 .none (some 1) = .ok [122, 103] := rfl
example : serProblem (.seq (cellComb .none) 21) (.list (List.replicate 21 .none)) 3 3 = .ok [122, 103] := rfl
-- `empty = 0` (sudoku): the value 0 is an empty cell on both sides, `[0, 0, 5, 16, 256, 0]` is `"h5-10+100g"`
example : encodeArray [.int 0, .int 0, .int 5, .int 16, .int 256, .int 0] 103 (.int 0) (some 1)
    = .ok [104, 53, 45, 49, 48, 43, 49, 48, 48, 103] := rfl
example : serProblem (.seq (cellComb (.int 0)) 6) (.list [.int 0, .int 0, .int 5, .int 16, .int 256, .int 0]) 3 3
    = .ok [104, 53, 45, 49, 48, 43, 49, 48, 48, 103] := rfl

/-! ### where the two families DIFFER on the same data (outside `LegacyItem`) -/

-- a negative int: the legacy encoder emits the garbage `"x1"` (`hex(-1)[2:]`), the combinator refuses
example : encodeArray [.int (-1)] 103 .none (some 1) = .ok [120, 49] := rfl
example : serProblem (.seq (cellComb .none) 1) (.list [.int (-1)]) 1 1 = .raised .assertionError := rfl
-- … also when the negative int sits in a grid
example : encodeArray [.list [.int (-1), .none]] 103 .none none = .ok [120, 49, 103] := rfl
example : serProblem (.grid (cellComb .none) none) (.list [.list [.int (-1), .none]]) 1 2 = .raised .assertionError := rfl
-- an int above 4095: `ValueError` against `AssertionError`
example : encodeArray [.int 4096] 103 .none (some 1) = .raised .valueError := rfl
example : serProblem (.seq (cellComb .none) 1) (.list [.int 4096]) 1 1 = .raised .assertionError := rfl
-- a `str` item (`"."`): emitted as-is by the legacy encoder, refused by the combinator
example : encodeArray [.str [46]] 103 .none (some 1) = .ok [46] := rfl
example : serProblem (.seq (cellComb .none) 1) (.list [.str [46]]) 1 1 = .raised .assertionError := rfl
-- a tuple item (a compass clue `(1, ".", 2, 300)`): its parts are concatenated, `"1.2+12c"`; refused by the combinator
example : encodeArray [.tuple [.int 1, .str [46], .int 2, .int 300]] 103 .none (some 1)
    = .ok [49, 46, 50, 43, 49, 50, 99] := rfl
example : serProblem (.seq (cellComb .none) 1) (.list [.tuple [.int 1, .str [46], .int 2, .int 300]]) 1 1
    = .raised .assertionError := rfl
-- `None` as an item when `empty` is something else: `TypeError` (`None <= 15`) against `AssertionError`
example : encodeArray [.none, .int 5] 103 (.int 0) (some 1) = .raised .typeError := rfl
example : serProblem (.seq (cellComb (.int 0)) 2) (.list [.none, .int 5]) 1 1 = .raised .assertionError := rfl
-- a ragged array (why `legacy_encode_array_grid` needs the shape): the legacy encoder does not look at the board size
example : encodeArray [.list [.int 1, .int 2], .list [.int 3]] 103 .none none = .ok [49, 50, 51] := rfl
example : serProblem (.grid (cellComb .none) none) (.list [.list [.int 1, .int 2], .list [.int 3]]) 2 2
    = .raised .assertionError := rfl
-- a marker outside `0-9a-z`, e.g. `'G'`: `_BASE36.index` raises `ValueError` (the marker-general theorems assume
-- `isAlnumLower m`)
example : encodeArray [.none] 71 .none (some 1) = .raised .valueError := rfl

end Cspuz.Proofs.C16Legacy
