/-
  C17, second half ("whenever a problem is returned by a decoder, serializing it succeeds and decoding that canonical
  text returns the same problem again"), for `Grid` / `Seq` over *flat* bases and for the six grid puzzles of the
  regenerated table.

  * `FlatBase b`, `closedBase b`, `AccLeaf` / `AccItem`: defined in Spec/SerializerReenc.lean.
  * serve (`serAlts_total`, `multiDigitSer_digits`): on a `bool`-free list of accepted items the base serializer
    succeeds at every position, so the `Seq` loop does (`seqSerLoop_served`);
  * closure (`deAlts_closed`, `multiDigitDe_closed`): every decoded item is accepted and `bool`-free, and the `Seq`
    loop keeps that invariant (`seqDeLoop_all`);
  * the decoded grid has the right shape and is tight (`gridRows_shape`, `tightAlts`), hence lies in `Dom`
    (`grid_reencodable`), and the round trip (`roundtrip`) applies (`grid_reencodable'`).
  Helper lemmas live in the namespace `Cspuz.Ser.Reenc`.
-/
import CspuzModel.Proofs.C15Roundtrip
import CspuzModel.Proofs.C15Term
import CspuzModel.Spec.SerializerReenc
import CspuzModel.Gen.PuzzleCombinators
set_option linter.unusedVariables false
namespace Cspuz.Ser
open Cspuz

namespace Reenc

/-- the value cannot make `YajilinClue.serialize` raise, and is canonical if it is a clue -/
def YOk (v : PyVal) : Prop :=
  ∀ c rest, v = .str (c :: rest) → rest.all isDecimal = false ∨ ∃ n, n < 256 ∧ rest = toBase 10 n

/-! ### small facts -/

theorem noBoolL_iff : ∀ l : List PyVal, noBoolL l = true ↔ ∀ v ∈ l, v.noBool = true
  | [] => by simp [noBoolL]
  | x :: r => by simp [noBoolL, noBoolL_iff r]

theorem toBase10_length_le3 (n : Nat) (h : n < 1000) : (toBase 10 n).length ≤ 3 := by
  rw [toBase_length]
  by_cases h1 : n < 10
  · rw [digits_length_of_lt 10 n (by omega) h1]; omega
  · rw [digits_length_of_ge 10 n (by omega) (by omega)]
    by_cases h2 : n / 10 < 10
    · rw [digits_length_of_lt 10 _ (by omega) h2]; omega
    · rw [digits_length_of_ge 10 _ (by omega) (by omega), digits_length_of_lt 10 _ (by omega) (by omega)]; omega

theorem pyInt_toBase10_small (n : Nat) (h : n < 1000) : pyInt (toBase 10 n) = .ok n :=
  pyInt_toBase10 n (by have := toBase10_length_le3 n h; omega)

theorem all_isDecimal_of_ascii (rest : Str) (h : rest.all isAsciiDigit = true) : rest.all isDecimal = true := by
  rw [List.all_eq_true] at h ⊢
  intro c hc
  have := h c hc
  simp only [isAsciiDigit, Bool.and_eq_true, decide_eq_true_eq] at this
  exact isDecimal_ascii c this.1 this.2

theorem all_isAscii_toBase10 (n : Nat) : (toBase 10 n).all isAsciiDigit = true := by
  rw [List.all_eq_true]
  intro c hc
  have := toBase10_ascii n c hc
  simp [isAsciiDigit, this.1, this.2]

theorem YOk_of_acc_yaj (v : PyVal) (h : AccLeaf .yajilinClue v) : YOk v := by
  intro c rest hv
  rcases h with h | ⟨c', n, _, hn, h⟩
  · rw [h] at hv
    simp only [qq, PyVal.str.injEq, List.cons.injEq] at hv
    left
    rw [← hv.2]
    decide
  · rw [h] at hv
    simp only [PyVal.str.injEq, List.cons.injEq] at hv
    exact Or.inr ⟨n, hn, hv.2.symm⟩

theorem YajilinCanon_of_YOk (d : List PyVal) (i : Nat) (h : ∀ v, d[i]? = some v → YOk v) : YajilinCanon d i := by
  intro c rest n hd hp
  rcases h _ hd c rest rfl with h1 | ⟨m, hm, rfl⟩
  · unfold pyInt at hp
    split at hp
    · cases hp
    · simp [h1] at hp
  · rw [pyInt_toBase10_small m (by omega)] at hp
    cases hp; rfl

/-! ### the serializers of flat leaves on accepted items -/

theorem dictSerFind_total (v : PyVal) : ∀ (b : List PyVal) (a : List Str), b.length = a.length →
    (dictSerFind v b a = .none ∧ ∀ x ∈ b, pyEq v x = false) ∨ ∃ t, dictSerFind v b a = .ok (1, t)
  | [], a, _ => by left; cases a <;> simp [dictSerFind]
  | x :: b, [], h => by simp at h
  | x :: b, t :: a, h => by
    unfold dictSerFind
    by_cases hx : pyEq v x = true
    · right; exact ⟨t, by simp [hx]⟩
    · simp only [hx, if_false, Bool.false_eq_true]
      rcases dictSerFind_total v b a (by simpa using h) with ⟨h1, h2⟩ | h1
      · left
        refine ⟨h1, ?_⟩
        intro y hy
        rcases List.mem_cons.mp hy with rfl | hy
        · simpa using hx
        · exact h2 y hy
      · right; exact h1

def OkOrNone {α} (o : Outcome α) : Prop := o = .none ∨ ∃ r, o = .ok r

theorem withItem_some {β} (L : List PyVal) (p : Nat) (v : PyVal) (hv : L[p]? = some v) (k : PyVal → Outcome β) :
    withItem L p k = k v := by
  have hp := getElem?_lt hv
  unfold withItem
  have : ¬ p = L.length := by omega
  simp [this, hv]

theorem dictSer_total (b : List PyVal) (a : List Str) (hw : wf (.dict b a) = true) (L : List PyVal) (p : Nat) (v : PyVal)
    (hv : L[p]? = some v) (hnb : v.noBool = true) :
    OkOrNone (dictSer b a L p) ∧ (v ∈ b → ∃ r, dictSer b a L p = .ok r) := by
  simp only [wf, Bool.and_eq_true, beq_iff_eq] at hw
  obtain ⟨⟨⟨⟨hlen, _⟩, _⟩, _⟩, hnbb⟩ := hw
  unfold dictSer
  rw [withItem_some L p v hv]
  rcases dictSerFind_total v b a hlen with ⟨h1, h2⟩ | ⟨t, h1⟩
  · refine ⟨Or.inl h1, ?_⟩
    intro hm
    have := h2 v hm
    have hvv : pyEq v v = true := (pyEq_iff_eq v v hnb hnb).mpr rfl
    simp [hvv] at this
  · exact ⟨Or.inr ⟨_, h1⟩, fun _ => ⟨_, h1⟩⟩

theorem spacesSer_total (sp : PyVal) (o : Int) (hw : wf (.spaces sp o) = true) (L : List PyVal) (p : Nat) (v : PyVal)
    (hv : L[p]? = some v) (hnb : v.noBool = true) :
    OkOrNone (spacesSer sp o L p) ∧ (v = sp → ∃ r, spacesSer sp o L p = .ok r) := by
  simp only [wf, Bool.and_eq_true, decide_eq_true_eq] at hw
  obtain ⟨⟨ho, _⟩, hsp⟩ := hw
  unfold spacesSer
  rw [withItem_some L p v hv]
  by_cases he : pyEq v sp = true
  · have hok : ∃ r, (if (!pyEq v sp) = true then Outcome.none
        else
          let n := 1 + countRun sp (List.drop (p + 1) L) (35 - o - 1).toNat
          (toBase36 (o + ↑n)).bind fun t => Outcome.ok (n, t)) = .ok r := by
      simp only [he, Bool.not_true, Bool.false_eq_true, if_false]
      unfold toBase36
      have : ¬ (o + ((1 + countRun sp (List.drop (p + 1) L) (35 - o - 1).toNat : Nat) : Int) < 0) := by omega
      simp only [this, if_false]
      exact ⟨_, rfl⟩
    exact ⟨Or.inr hok, fun _ => hok⟩
  · have he' : pyEq v sp = false := by simpa using he
    refine ⟨Or.inl (by simp [he']), ?_⟩
    intro h
    subst h
    have : pyEq v v = true := (pyEq_iff_eq v v hnb hnb).mpr rfl
    simp [this] at he

theorem hexIntSer_total (L : List PyVal) (p : Nat) (v : PyVal) (hv : L[p]? = some v) :
    OkOrNone (hexIntSer L p) ∧ (AccLeaf .hexInt v → ∃ r, hexIntSer L p = .ok r) := by
  unfold hexIntSer
  rw [withItem_some L p v hv]
  constructor
  · cases asInt? v with
    | none => exact Or.inl rfl
    | some n =>
      simp only
      split
      · exact Or.inl rfl
      · exact Or.inr ⟨_, rfl⟩
  · rintro ⟨n, rfl, h0, h1⟩
    simp only [asInt?]
    have : (0 ≤ n && n ≤ 4095) = true := by simp [h0, h1]
    simp only [this, Bool.not_true, Bool.false_eq_true, if_false]
    exact ⟨_, rfl⟩

theorem intSpacesSer_total (sp : PyVal) (mi ms : Nat) (L : List PyVal) (p : Nat) (v : PyVal) (hv : L[p]? = some v) :
    OkOrNone (intSpacesSer sp mi ms L p) ∧ (AccLeaf (.intSpaces sp mi ms) v → ∃ r, intSpacesSer sp mi ms L p = .ok r) := by
  unfold intSpacesSer
  rw [withItem_some L p v hv]
  constructor
  · cases asInt? v with
    | none => exact Or.inl rfl
    | some n =>
      simp only
      split
      · exact Or.inl rfl
      · exact Or.inr ⟨_, rfl⟩
  · rintro ⟨n, rfl, h0, h1⟩
    simp only [asInt?]
    have : (0 ≤ n && n ≤ (mi : Int)) = true := by simp [h0, h1]
    simp only [this, Bool.not_true, Bool.false_eq_true, if_false]
    exact ⟨_, rfl⟩

/-- what `YajilinClue.serialize` does with the item at the index -/
def yajilinSerItem (v : PyVal) : Outcome (Nat × Str) :=
  if pyEq v (.str [46, 46]) then .none
  else if pyEq v (.str qq) then .ok (1, [48, 46])
  else match v with
    | .str (c :: rest) =>
      match dirOfChar c with
      | Option.none => .none
      | some dir =>
        if rest.isEmpty || !rest.all isAsciiDigit then .none else
        (pyInt rest).bind fun n =>
          if n < 16 then .ok (1, (48 + dir) :: toBase 16 n)
          else if n < 256 then .ok (1, (48 + dir + 5) :: toBase 16 n)
          else .none
    | _ => .none

theorem yajilinSer_unfold (L : List PyVal) (p : Nat) (v : PyVal) (hv : L[p]? = some v) :
    yajilinSer L p = yajilinSerItem v := by
  have hp := getElem?_lt hv
  unfold yajilinSer yajilinSerItem
  have : ¬ p ≥ L.length := by omega
  simp only [this, if_false, hv]
  rfl

theorem yajilinSer_total (L : List PyVal) (p : Nat) (v : PyVal) (hv : L[p]? = some v) (hY : YOk v) :
    OkOrNone (yajilinSer L p) := by
  rw [yajilinSer_unfold L p v hv]
  unfold yajilinSerItem
  split
  · exact Or.inl rfl
  · split
    · exact Or.inr ⟨_, rfl⟩
    · split
      · rename_i c rest _ _
        split
        · exact Or.inl rfl
        · split
          · exact Or.inl rfl
          · rename_i hc
            simp only [Bool.or_eq_true, Bool.not_eq_true', not_or, Bool.not_eq_false] at hc
            rcases hY c rest rfl with h1 | ⟨n, hn, rfl⟩
            · rw [all_isDecimal_of_ascii rest hc.2] at h1; cases h1
            · rw [pyInt_toBase10_small n (by omega)]
              simp only [Outcome.bind_ok]
              split
              · exact Or.inr ⟨_, rfl⟩
              · exact Or.inr ⟨_, rfl⟩
      · exact Or.inl rfl

theorem dirOfChar_46 : dirOfChar 46 = none := by decide
theorem dirOfChar_63 : dirOfChar 63 = none := by decide

theorem yajilinSer_acc (L : List PyVal) (p : Nat) (v : PyVal) (hv : L[p]? = some v) (ha : AccLeaf .yajilinClue v) :
    ∃ r, yajilinSer L p = .ok r := by
  rw [yajilinSer_unfold L p v hv]
  unfold yajilinSerItem
  rcases ha with rfl | ⟨c, n, hc, hn, rfl⟩
  · have h1 : pyEq (.str qq) (.str [46, 46]) = false := by decide
    have h2 : pyEq (.str qq) (.str qq) = true := by decide
    simp only [h1, h2, if_true, if_false, Bool.false_eq_true]
    exact ⟨_, rfl⟩
  · have h1 : pyEq (.str (c :: toBase 10 n)) (.str [46, 46]) = false := by
      simp only [pyEq, beq_eq_false_iff_ne, ne_eq, List.cons.injEq, not_and]
      intro h; subst h; exact absurd dirOfChar_46 hc
    have h2 : pyEq (.str (c :: toBase 10 n)) (.str qq) = false := by
      simp only [pyEq, qq, beq_eq_false_iff_ne, ne_eq, List.cons.injEq, not_and]
      intro h; subst h; exact absurd dirOfChar_63 hc
    simp only [h1, h2, if_false, Bool.false_eq_true]
    cases hd : dirOfChar c with
    | none => exact absurd hd hc
    | some dir =>
      simp only
      have h3 : (toBase 10 n).isEmpty = false := by
        cases h : toBase 10 n with
        | nil => exact absurd h (toBase_ne_nil 10 n (by omega))
        | cons _ _ => rfl
      simp only [h3, all_isAscii_toBase10 n, Bool.not_true, Bool.or_self, Bool.false_eq_true, if_false,
        pyInt_toBase10_small n (by omega), Outcome.bind_ok]
      split
      · exact ⟨_, rfl⟩
      · exact ⟨_, rfl⟩

/-- **a flat leaf never raises on a `bool`-free item, and succeeds on an accepted one** -/
theorem serLeaf_total (env : Env) (c : Comb) (hfl : flatLeaf c = true) (hwf : wf c = true) (L : List PyVal) (p : Nat)
    (v : PyVal) (hv : L[p]? = some v) (hnb : v.noBool = true) (hY : isYaj c = true → YOk v) :
    OkOrNone (ser c env L p) ∧ (AccLeaf c v → ∃ r, ser c env L p = .ok r) := by
  cases c with
  | dict b a => simp only [ser, AccLeaf]; exact dictSer_total b a hwf L p v hv hnb
  | spaces sp o => simp only [ser, AccLeaf]; exact spacesSer_total sp o hwf L p v hv hnb
  | hexInt => simp only [ser]; exact hexIntSer_total L p v hv
  | intSpaces sp mi ms => simp only [ser]; exact intSpacesSer_total sp mi ms L p v hv
  | yajilinClue =>
    simp only [ser]
    exact ⟨yajilinSer_total L p v hv (hY rfl), yajilinSer_acc L p v hv⟩
  | _ => simp [flatLeaf] at hfl

theorem oneOfF_total {A B : Type} (a : A) (i : Nat) : ∀ (fs : List (A → Nat → Outcome B)),
    (∀ f ∈ fs, OkOrNone (f a i)) → (∃ f ∈ fs, ∃ r, f a i = .ok r) → ∃ r, oneOfF fs a i = .ok r
  | [], _, h2 => by obtain ⟨f, hf, _⟩ := h2; cases hf
  | f :: fs, h1, h2 => by
    unfold oneOfF
    rcases h1 f (by simp) with h | ⟨r, h⟩
    · rw [h]
      simp only
      refine oneOfF_total a i fs (fun g hg => h1 g (by simp [hg])) ?_
      obtain ⟨g, hg, r, hr⟩ := h2
      rcases List.mem_cons.mp hg with rfl | hg
      · rw [h] at hr; cases hr
      · exact ⟨g, hg, r, hr⟩
    · rw [h]; exact ⟨r, rfl⟩

theorem serAlts_total (env : Env) (cs : List Comb) (hfl : ∀ c ∈ cs, flatLeaf c = true) (hwf : ∀ c ∈ cs, wf c = true)
    (L : List PyVal) (p : Nat) (v : PyVal) (hv : L[p]? = some v) (hnb : v.noBool = true)
    (hacc : ∃ c ∈ cs, AccLeaf c v) (hY : cs.any isYaj = true → YOk v) :
    ∃ r, oneOfF (serL cs env) L p = .ok r := by
  have hY' : ∀ c ∈ cs, isYaj c = true → YOk v := fun c hc hy => hY (List.any_eq_true.mpr ⟨c, hc, hy⟩)
  rw [serL_eq_map]
  apply oneOfF_total
  · intro f hf
    obtain ⟨c, hc, rfl⟩ := List.mem_map.mp hf
    exact (serLeaf_total env c (hfl c hc) (hwf c hc) L p v hv hnb (hY' c hc)).1
  · obtain ⟨c, hc, ha⟩ := hacc
    exact ⟨ser c env, List.mem_map.mpr ⟨c, hc, rfl⟩,
      (serLeaf_total env c (hfl c hc) (hwf c hc) L p v hv hnb (hY' c hc)).2 ha⟩

/-! ### `MultiDigit` on lists of digits -/

theorem mdPack_digits (base : Nat) : ∀ (k : Nat) (items : List PyVal) (acc : Nat),
    (∀ v ∈ items, AccLeaf (.multiDigit base 0) v) → ∃ r, mdPack base k items acc = .ok r
  | 0, _, acc, _ => ⟨acc, rfl⟩
  | k + 1, [], acc, h => by simp only [mdPack]; exact mdPack_digits base k [] _ h
  | k + 1, x :: r, acc, h => by
    obtain ⟨n, rfl, h0, h1⟩ := h x (by simp)
    have : (0 ≤ n && n < (base : Int)) = true := by simp [h0, h1]
    simp only [mdPack, asInt?, this, if_true]
    exact mdPack_digits base k r _ (fun v hv => h v (by simp [hv]))

theorem multiDigitSer_digits (base nd : Nat) (L : List PyVal) (hL : ∀ v ∈ L, AccLeaf (.multiDigit base nd) v)
    (p : Nat) (hp : p < L.length) : ∃ r, multiDigitSer base nd L p = .ok r := by
  unfold multiDigitSer
  have h1 : ¬ p = L.length := by omega
  have h2 : ¬ p > L.length := by omega
  simp only [h1, h2, if_false]
  obtain ⟨r, hr⟩ := mdPack_digits base nd (L.drop p) 0 (fun v hv => hL v (List.mem_of_mem_drop hv))
  exact ⟨_, by rw [hr]; rfl⟩

/-! ### what the decoders of flat leaves return -/

theorem charVal_lt16 (c : Nat) (h : isHex c = true) : charVal c < 16 := by
  unfold isHex at h
  simp only [Bool.or_eq_true, Bool.and_eq_true, decide_eq_true_eq] at h
  unfold charVal
  split <;> omega

theorem foldl_hex_lt : ∀ (s : Str) (a m : Nat), s.all isHex = true → a < 16 ^ m →
    s.foldl (fun a c => a * 16 + charVal c) a < 16 ^ (m + s.length)
  | [], a, m, _, h => by simpa using h
  | c :: s, a, m, hs, h => by
    simp only [List.all_cons, Bool.and_eq_true] at hs
    simp only [List.foldl_cons, List.length_cons]
    have h16 := charVal_lt16 c hs.1
    have := foldl_hex_lt s (a * 16 + charVal c) (m + 1) hs.2 (by rw [Nat.pow_succ]; omega)
    rw [show m + (s.length + 1) = m + 1 + s.length by omega]
    exact this

/-- the value of `k` hexadecimal digits is below `16 ^ k` -/
theorem fromBase16_lt (s : Str) (h : s.all isHex = true) : fromBase 16 s < 16 ^ s.length := by
  have := foldl_hex_lt s 0 0 h (by simp)
  simpa [fromBase] using this

theorem slice_len_le (data : Str) (idx n : Nat) : (slice data idx n).length ≤ n := by
  simp [slice, List.length_take]; omega

theorem fromBase16_slice_lt (data : Str) (idx n : Nat) (h : (slice data idx n).all isHex = true) :
    fromBase 16 (slice data idx n) < 16 ^ n :=
  Nat.lt_of_lt_of_le (fromBase16_lt _ h) (Nat.pow_le_pow_right (by omega) (slice_len_le data idx n))

/-- what a flat leaf's decoder may return: an accepted item, or the padding value of `IntSpaces` -/
def DecItem (c : Comb) (v : PyVal) : Prop :=
  AccLeaf c v ∨ ∃ sp mi ms, c = .intSpaces sp mi ms ∧ ms ≠ 0 ∧ v = sp

theorem dictDeFind_mem (s : Str) (i k : Nat) (items : List PyVal) :
    ∀ (b : List PyVal) (a : List Str), dictDeFind s i b a = .ok (k, items) → ∃ x ∈ b, items = [x]
  | [], a, h => by simp [dictDeFind] at h
  | _ :: _, [], h => by simp [dictDeFind] at h
  | v :: bs, t :: as, h => by
    unfold dictDeFind at h
    split at h
    · cases h; exact ⟨v, by simp, rfl⟩
    · obtain ⟨x, hx, he⟩ := dictDeFind_mem s i k items bs as h
      exact ⟨x, by simp [hx], he⟩

theorem dictDe_closed (b : List PyVal) (a : List Str) (hw : wf (.dict b a) = true) (s : Str) (i k : Nat)
    (items : List PyVal) (h : dictDe b a s i = .ok (k, items)) : ∀ v ∈ items, v.noBool = true ∧ v ∈ b := by
  simp only [wf, Bool.and_eq_true] at hw
  have hnb := (noBoolL_iff b).mp hw.2
  unfold dictDe at h
  split at h
  · cases h
  · obtain ⟨x, hx, rfl⟩ := dictDeFind_mem s i k items b a h
    intro v hv
    simp only [List.mem_singleton] at hv
    subst hv
    exact ⟨hnb v hx, hx⟩

theorem spacesDe_closed (sp : PyVal) (o : Int) (s : Str) (i k : Nat) (items : List PyVal)
    (h : spacesDe sp o s i = .ok (k, items)) : ∀ v ∈ items, v = sp := by
  unfold spacesDe at h
  obtain ⟨c, _, h⟩ := withChar_eq_ok.1 h
  split at h
  · cases h
  · dsimp only at h
    split at h
    · cases h
      intro v hv
      exact List.eq_of_mem_replicate hv
    · cases h

theorem hexIntDe_closed (s : Str) (i k : Nat) (items : List PyVal) (h : hexIntDe s i = .ok (k, items)) :
    ∀ v ∈ items, AccLeaf .hexInt v := by
  unfold hexIntDe at h
  obtain ⟨c, _, h⟩ := withChar_eq_ok.1 h
  split at h
  · split at h
    · cases h
    · rename_i hc
      simp only [Bool.or_eq_true, decide_eq_true_eq, not_or, Bool.not_eq_true', Bool.not_eq_false] at hc
      cases h
      intro v hv
      simp only [List.mem_singleton] at hv
      have := fromBase16_slice_lt s (i + 1) 2 hc.2
      exact ⟨_, hv, by omega, by omega⟩
  · split at h
    · split at h
      · cases h
      · rename_i hc
        simp only [Bool.or_eq_true, decide_eq_true_eq, not_or, Bool.not_eq_true', Bool.not_eq_false] at hc
        cases h
        intro v hv
        simp only [List.mem_singleton] at hv
        have := fromBase16_slice_lt s (i + 1) 3 hc.2
        exact ⟨_, hv, by omega, by omega⟩
    · split at h
      · rename_i hc
        cases h
        intro v hv
        simp only [List.mem_singleton] at hv
        have := charVal_lt16 c hc
        exact ⟨_, hv, by omega, by omega⟩
      · cases h

theorem intSpacesDe_closed (sp : PyVal) (mi ms : Nat) (s : Str) (i k : Nat) (items : List PyVal)
    (h : intSpacesDe sp mi ms s i = .ok (k, items)) : ∀ v ∈ items, DecItem (.intSpaces sp mi ms) v := by
  unfold intSpacesDe at h
  obtain ⟨c, _, h⟩ := withChar_eq_ok.1 h
  split at h
  · cases h
  · dsimp only at h
    split at h
    · cases h
    · rename_i hlt
      simp only [Bool.not_eq_true', decide_eq_false_iff_not, Nat.not_lt] at hlt
      cases h
      intro v hv
      rcases List.mem_cons.mp hv with rfl | hv
      · left
        have := Nat.mod_lt (charVal c) (show 0 < mi + 1 by omega)
        exact ⟨_, rfl, by omega, by omega⟩
      · right
        refine ⟨sp, mi, ms, rfl, ?_, List.eq_of_mem_replicate hv⟩
        intro hms
        subst hms
        have : charVal c / (mi + 1) = 0 := Nat.div_eq_of_lt (by simpa using hlt)
        rw [this] at hv
        simp at hv

theorem dirOfChar_charOfDir (d : Nat) : dirOfChar (charOfDir d) ≠ none := by
  unfold charOfDir
  split
  · decide
  · split
    · decide
    · split <;> decide

theorem yajilinDe_closed (s : Str) (i k : Nat) (items : List PyVal) (h : yajilinDe s i = .ok (k, items)) :
    ∀ v ∈ items, AccLeaf .yajilinClue v := by
  have hq : ∀ v ∈ [PyVal.str qq], AccLeaf .yajilinClue v := by
    intro v hv
    simp only [List.mem_singleton] at hv
    exact Or.inl hv
  unfold yajilinDe at h
  split at h
  · cases h
  · split at h
    · rename_i dir n _ _
      split at h
      · cases h; exact hq
      · split at h
        · split at h
          · cases h; exact hq
          · split at h
            · cases h
            · rename_i hx
              simp only [Bool.not_eq_true', Bool.not_eq_false] at hx
              cases h
              intro v hv
              simp only [List.mem_singleton] at hv
              have := charVal_lt16 n hx
              exact Or.inr ⟨_, charVal n, dirOfChar_charOfDir _, by omega, hv⟩
        · split at h
          · split at h
            · cases h
            · split at h
              · cases h
              · rename_i hx
                simp only [Bool.not_eq_true', Bool.not_eq_false] at hx
                split at h
                · cases h; exact hq
                · cases h
                  intro v hv
                  simp only [List.mem_singleton] at hv
                  have := fromBase16_slice_lt s (i + 1) 2 hx
                  exact Or.inr ⟨_, _, dirOfChar_charOfDir _, by omega, hv⟩
          · cases h
    · cases h

theorem noBool_of_accInt {v : PyVal} (h : ∃ n : Int, v = .int n ∧ True) : v.noBool = true := by
  obtain ⟨n, rfl, _⟩ := h; rfl

/-- **what the decoder of a flat leaf returns is `bool`-free and accepted (or the padding of `IntSpaces`)** -/
theorem deLeaf_closed (env : Env) (c : Comb) (hfl : flatLeaf c = true) (hwf : wf c = true) (s : Str) (i k : Nat)
    (items : List PyVal) (h : de c env s i = .ok (k, items)) : ∀ v ∈ items, v.noBool = true ∧ DecItem c v := by
  cases c with
  | dict b a =>
    simp only [de] at h
    intro v hv
    have := dictDe_closed b a hwf s i k items h v hv
    exact ⟨this.1, Or.inl this.2⟩
  | spaces sp o =>
    simp only [de] at h
    simp only [wf, Bool.and_eq_true] at hwf
    intro v hv
    have := spacesDe_closed sp o s i k items h v hv
    subst this
    exact ⟨hwf.2, Or.inl rfl⟩
  | hexInt =>
    simp only [de] at h
    intro v hv
    have := hexIntDe_closed s i k items h v hv
    obtain ⟨n, rfl, _⟩ := this
    exact ⟨rfl, Or.inl (hexIntDe_closed s i k items h _ hv)⟩
  | intSpaces sp mi ms =>
    simp only [de] at h
    simp only [wf, Bool.and_eq_true] at hwf
    intro v hv
    have := intSpacesDe_closed sp mi ms s i k items h v hv
    refine ⟨?_, this⟩
    rcases this with ⟨n, rfl, _⟩ | ⟨sp', mi', ms', he, _, rfl⟩
    · rfl
    · cases he; exact hwf.2
  | yajilinClue =>
    simp only [de] at h
    intro v hv
    have := yajilinDe_closed s i k items h v hv
    refine ⟨?_, Or.inl this⟩
    rcases this with rfl | ⟨c, n, _, _, rfl⟩ <;> rfl
  | _ => simp [flatLeaf] at hfl

/-! ### closed lists of alternatives -/

theorem accLeafB_sound (c : Comb) (v : PyVal) (hwf : wf c = true) (hnb : v.noBool = true)
    (h : accLeafB c v = true) : AccLeaf c v := by
  cases c with
  | dict b a =>
    simp only [wf, Bool.and_eq_true] at hwf
    have hb := (noBoolL_iff b).mp hwf.2
    simp only [accLeafB, List.any_eq_true] at h
    obtain ⟨x, hx, he⟩ := h
    have := (pyEq_iff_eq v x hnb (hb x hx)).mp he
    subst this
    exact hx
  | spaces sp o =>
    simp only [wf, Bool.and_eq_true] at hwf
    simp only [accLeafB] at h
    exact (pyEq_iff_eq v sp hnb hwf.2).mp h
  | hexInt =>
    cases v with
    | int n =>
      simp only [accLeafB, Bool.and_eq_true, decide_eq_true_eq] at h
      exact ⟨n, rfl, h.1, h.2⟩
    | _ => simp [accLeafB] at h
  | intSpaces sp mi ms =>
    cases v with
    | int n =>
      simp only [accLeafB, Bool.and_eq_true, decide_eq_true_eq] at h
      exact ⟨n, rfl, h.1, h.2⟩
    | _ => simp [accLeafB] at h
  | _ => simp [accLeafB] at h

theorem YOk_of_yajOk (v : PyVal) (h : yajOk v = true) : YOk v := by
  intro c rest hv
  subst hv
  simp only [yajOk, Bool.not_eq_true'] at h
  exact Or.inl h

theorem YOk_int (n : Int) : YOk (.int n) := by
  intro c rest hv; cases hv

theorem YOk_of_acc (c : Comb) (v : PyVal) (hfl : flatLeaf c = true) (ha : AccLeaf c v)
    (hv : (leafVals c).all yajOk = true) : YOk v := by
  rw [List.all_eq_true] at hv
  cases c with
  | dict b a => exact YOk_of_yajOk v (hv v ha)
  | spaces sp o =>
    simp only [AccLeaf] at ha
    subst ha
    exact YOk_of_yajOk v (hv v (by simp [leafVals]))
  | hexInt => obtain ⟨n, rfl, _⟩ := ha; exact YOk_int n
  | intSpaces sp mi ms => obtain ⟨n, rfl, _⟩ := ha; exact YOk_int n
  | yajilinClue => exact YOk_of_acc_yaj v ha
  | _ => simp [flatLeaf] at hfl

/-- the items a list of flat alternatives accepts without raising -/
def ItemOK (cs : List Comb) (v : PyVal) : Prop :=
  v.noBool = true ∧ (∃ c ∈ cs, AccLeaf c v) ∧ (cs.any isYaj = true → YOk v)

theorem mem_deL {cs : List Comb} {env : Env} {f : DeF} (h : f ∈ deL cs env) : ∃ c ∈ cs, f = de c env := by
  rw [deL_eq_map] at h
  obtain ⟨c, hc, rfl⟩ := List.mem_map.mp h
  exact ⟨c, hc, rfl⟩

theorem oneOfF_ok_mem {A B : Type} (fs : List (A → Nat → Outcome B)) (a : A) (i : Nat) (b : B)
    (h : oneOfF fs a i = .ok b) : ∃ f ∈ fs, f a i = .ok b := by
  obtain ⟨pre, f, post, rfl, hf, _⟩ := oneOfF_eq_ok' fs a i b h
  exact ⟨f, by simp, hf⟩

/-- **closure**: whatever a closed list of well-formed flat alternatives decodes is accepted by one of them -/
theorem deAlts_closed (env : Env) (cs : List Comb) (hfl : ∀ c ∈ cs, flatLeaf c = true) (hwf : ∀ c ∈ cs, wf c = true)
    (hcl : closedAlts cs = true) (s : Str) (i k : Nat) (items : List PyVal)
    (h : oneOfF (deL cs env) s i = .ok (k, items)) : ∀ v ∈ items, ItemOK cs v := by
  simp only [closedAlts, Bool.and_eq_true, List.all_eq_true, Bool.or_eq_true, Bool.not_eq_true'] at hcl
  obtain ⟨hpad, hyaj⟩ := hcl
  obtain ⟨f, hf, hok⟩ := oneOfF_ok_mem _ s i _ h
  obtain ⟨c, hc, rfl⟩ := mem_deL hf
  intro v hv
  obtain ⟨hnb, hdec⟩ := deLeaf_closed env c (hfl c hc) (hwf c hc) s i k items hok v hv
  have hacc : ∃ c' ∈ cs, AccLeaf c' v := by
    rcases hdec with ha | ⟨sp, mi, ms, rfl, hms, rfl⟩
    · exact ⟨c, hc, ha⟩
    · have := hpad _ hc
      simp only [padOk, Bool.or_eq_true, beq_iff_eq, hms, false_or, List.any_eq_true] at this
      obtain ⟨c', hc', hb⟩ := this
      exact ⟨c', hc', accLeafB_sound c' v (hwf c' hc') hnb hb⟩
  refine ⟨hnb, hacc, ?_⟩
  intro hy
  rcases hyaj with hyaj | hyaj
  · rw [hyaj] at hy; cases hy
  · obtain ⟨c', hc', ha⟩ := hacc
    exact YOk_of_acc c' v (hfl c' hc') ha (List.all_eq_true.mpr (hyaj c' hc'))

theorem tight_flatLeaf (env : Env) (c : Comb) (hfl : flatLeaf c = true) (L : List PyVal) (p : Nat)
    (h : isYaj c = true → YajilinCanon L p) : Tight c env L p := by
  cases c with
  | yajilinClue => simp only [Tight]; exact h rfl
  | dict _ _ => simp [Tight]
  | spaces _ _ => simp [Tight]
  | hexInt => simp [Tight]
  | intSpaces _ _ _ => simp [Tight]
  | _ => simp [flatLeaf] at hfl

theorem tightAll_of_forall (env : Env) (L : List PyVal) (p : Nat) : ∀ cs : List Comb,
    (∀ c ∈ cs, Tight c env L p) → TightAll cs env L p
  | [], _ => by simp [TightAll]
  | c :: cs, h => by
    simp only [TightAll]
    exact ⟨h c (by simp), tightAll_of_forall env L p cs (fun c' hc' => h c' (by simp [hc']))⟩

theorem getElem?_mem' {L : List PyVal} {p : Nat} {v : PyVal} (h : L[p]? = some v) : v ∈ L :=
  List.mem_of_getElem? h

theorem tightAlts (env : Env) (cs : List Comb) (hfl : ∀ c ∈ cs, flatLeaf c = true) (L : List PyVal)
    (hL : ∀ v ∈ L, ItemOK cs v) (p : Nat) : TightAll cs env L p := by
  apply tightAll_of_forall
  intro c hc
  apply tight_flatLeaf env c (hfl c hc)
  intro hy
  apply YajilinCanon_of_YOk
  intro v hv
  exact (hL v (getElem?_mem' hv)).2.2 (List.any_eq_true.mpr ⟨c, hc, hy⟩)

/-! ### the interface of a base, and its instances -/

/-- a base whose decoded items (`P`) are `bool`-free, served by its serializer at every position, and tight -/
structure BaseOK (f : SerF) (g : DeF) (T : List PyVal → Nat → Prop) (P : PyVal → Prop) : Prop where
  closed : ∀ s i k items, g s i = .ok (k, items) → ∀ v ∈ items, P v
  nobool : ∀ v, P v → v.noBool = true
  serve : ∀ L, (∀ v ∈ L, P v) → ∀ p, p < L.length → ∃ r, f L p = .ok r
  tight : ∀ L, (∀ v ∈ L, P v) → ∀ p, T L p

theorem baseOK_alts (env : Env) (cs : List Comb) (hfl : ∀ c ∈ cs, flatLeaf c = true) (hwf : ∀ c ∈ cs, wf c = true)
    (hcl : closedAlts cs = true) :
    BaseOK (oneOfF (serL cs env)) (oneOfF (deL cs env)) (TightAll cs env) (ItemOK cs) where
  closed := deAlts_closed env cs hfl hwf hcl
  nobool := fun v h => h.1
  serve := by
    intro L hL p hp
    have hv : L[p]? = some L[p] := List.getElem?_eq_getElem hp
    obtain ⟨hnb, hacc, hY⟩ := hL _ (getElem?_mem' hv)
    exact serAlts_total env cs hfl hwf L p _ hv hnb hacc hY
  tight := tightAlts env cs hfl

theorem oneOfF_single {A B : Type} (f : A → Nat → Outcome B) : oneOfF [f] = f := by
  funext a i
  simp only [oneOfF]
  cases f a i <;> rfl

theorem mdUnpack_digits (base nd : Nat) (hb : 0 < base) : ∀ (k v : Nat) (acc : List PyVal),
    (∀ x ∈ acc, AccLeaf (.multiDigit base nd) x) → ∀ x ∈ mdUnpack base k v acc, AccLeaf (.multiDigit base nd) x
  | 0, _, acc, h => by simpa [mdUnpack] using h
  | k + 1, v, acc, h => by
    unfold mdUnpack
    apply mdUnpack_digits base nd hb k
    intro x hx
    rcases List.mem_cons.mp hx with rfl | hx
    · have := Nat.mod_lt v hb
      exact ⟨_, rfl, by omega, by omega⟩
    · exact h x hx

theorem multiDigitDe_closed (base nd : Nat) (hw : wf (.multiDigit base nd) = true) (s : Str) (i k : Nat)
    (items : List PyVal) (h : multiDigitDe base nd s i = .ok (k, items)) :
    ∀ v ∈ items, AccLeaf (.multiDigit base nd) v := by
  simp only [wf, Bool.and_eq_true, decide_eq_true_eq] at hw
  unfold multiDigitDe at h
  obtain ⟨c, _, h⟩ := withChar_eq_ok.1 h
  split at h
  · cases h
  · dsimp only at h
    split at h
    · cases h
    · rename_i hlt
      simp only [Bool.not_eq_true', decide_eq_false_iff_not, Decidable.not_not] at hlt
      cases h
      have hb : 0 < base := by
        rcases Nat.eq_zero_or_pos base with rfl | hb
        · rw [Nat.zero_pow (by omega)] at hlt; omega
        · exact hb
      exact mdUnpack_digits base nd hb nd _ [] (by simp)

theorem baseOK_multiDigit (base nd : Nat) (hw : wf (.multiDigit base nd) = true) :
    BaseOK (multiDigitSer base nd) (multiDigitDe base nd) (fun _ _ => True) (ItemOK [.multiDigit base nd]) where
  closed := by
    intro s i k items h v hv
    have ha := multiDigitDe_closed base nd hw s i k items h v hv
    refine ⟨?_, ⟨_, by simp, ha⟩, fun hy => by simp [isYaj] at hy⟩
    obtain ⟨n, rfl, _⟩ := ha; rfl
  nobool := fun v h => h.1
  serve := by
    intro L hL p hp
    refine multiDigitSer_digits base nd L (fun v hv => ?_) p hp
    obtain ⟨_, ⟨c, hc, ha⟩, _⟩ := hL v hv
    simp only [List.mem_singleton] at hc
    subst hc
    exact ha
  tight := fun _ _ _ => trivial

/-- **every well-formed closed flat base satisfies the interface** -/
theorem baseOK_flat (env : Env) (b : Comb) (hw : wf b = true) (hf : FlatBase b) (hc : closedBase b = true) :
    BaseOK (ser b env) (de b env) (Tight b env) (ItemOK (alts b)) := by
  cases b with
  | multiDigit base nd =>
    have := baseOK_multiDigit base nd hw
    simpa only [ser, de, Tight, alts] using this
  | oneOf cs =>
    simp only [FlatBase, flatBase, List.all_eq_true] at hf
    simp only [wf, Bool.and_eq_true] at hw
    simp only [closedBase, alts] at hc
    have := baseOK_alts env cs hf (wfAll_mem cs hw.1) hc
    simpa only [ser, de, Tight, alts] using this
  | dict b a =>
    have := baseOK_alts env [.dict b a] (by simpa [FlatBase, flatBase] using hf) (by simpa using hw) hc
    simp only [serL, deL, oneOfF_single, ser, de] at this
    exact ⟨this.closed, this.nobool, this.serve, fun L hL p => by simp [Tight]⟩
  | spaces sp o =>
    have := baseOK_alts env [.spaces sp o] (by simpa [FlatBase, flatBase] using hf) (by simpa using hw) hc
    simp only [serL, deL, oneOfF_single, ser, de] at this
    exact ⟨this.closed, this.nobool, this.serve, fun L hL p => by simp [Tight]⟩
  | hexInt =>
    have := baseOK_alts env [.hexInt] (by simpa [FlatBase, flatBase] using hf) (by simpa using hw) hc
    simp only [serL, deL, oneOfF_single, ser, de] at this
    exact ⟨this.closed, this.nobool, this.serve, fun L hL p => by simp [Tight]⟩
  | intSpaces sp mi ms =>
    have := baseOK_alts env [.intSpaces sp mi ms] (by simpa [FlatBase, flatBase] using hf) (by simpa using hw) hc
    simp only [serL, deL, oneOfF_single, ser, de] at this
    exact ⟨this.closed, this.nobool, this.serve, fun L hL p => by simp [Tight]⟩
  | yajilinClue =>
    have := baseOK_alts env [.yajilinClue] (by simpa [FlatBase, flatBase] using hf) (by simpa using hw) hc
    simp only [serL, deL, oneOfF_single, ser, de] at this
    exact ⟨this.closed, this.nobool, this.serve, fun L hL p => by
      have := this.tight L hL p
      simp only [TightAll] at this
      exact this.1⟩
  | _ => simp [FlatBase, flatBase, flatLeaf] at hf

/-! ### the `Seq` / `Grid` loops -/

/-- loop invariant of `Seq.deserialize`: every collected item comes from a successful base call -/
theorem seqDeLoop_all (f : DeF) (P : PyVal → Prop)
    (hf : ∀ s i k items, f s i = .ok (k, items) → ∀ v ∈ items, P v) (s : Str) (i n : Nat) :
    ∀ (fuel nread : Nat) (ret : List PyVal) (k : Nat) (out : List PyVal), (∀ v ∈ ret, P v) →
      seqDeLoop f s i n fuel nread ret = .ok (k, out) → ∃ l, out = [.list l] ∧ l.length = n ∧ ∀ v ∈ l, P v
  | 0, _, _, _, _, _, h => by simp [seqDeLoop] at h
  | fuel + 1, nread, ret, k, out, hret, h => by
    unfold seqDeLoop at h
    split at h
    · split at h
      · rename_i ofs d heq
        split at h
        · cases h
        · refine seqDeLoop_all f P hf s i n fuel _ _ k out ?_ h
          intro v hv
          rcases List.mem_append.mp hv with hv | hv
          · exact hret v hv
          · exact hf _ _ _ _ heq v hv
      · cases h
      · cases h
      · cases h
    · rename_i hge
      cases h
      refine ⟨ret.take n, rfl, ?_, fun v hv => hret v (List.mem_of_mem_take hv)⟩
      rw [List.length_take]; omega

theorem seqDe_all (f : DeF) (P : PyVal → Prop)
    (hf : ∀ s i k items, f s i = .ok (k, items) → ∀ v ∈ items, P v) (n : Nat) (s : Str) (i k : Nat)
    (out : List PyVal) (h : seqDe f n s i = .ok (k, out)) : ∃ l, out = [.list l] ∧ l.length = n ∧ ∀ v ∈ l, P v :=
  seqDeLoop_all f P hf s i n _ 0 [] k out (by simp) h

theorem gridDe_all (f : DeF) (P : PyVal → Prop)
    (hf : ∀ s i k items, f s i = .ok (k, items) → ∀ v ∈ items, P v) (h w : Nat) (s : Str) (i k : Nat)
    (out : List PyVal) (he : gridDe f h w s i = .ok (k, out)) :
    ∃ d2, out = [.list (gridRows w d2 h 0)] ∧ d2.length = h * w ∧ ∀ v ∈ d2, P v := by
  unfold gridDe at he
  obtain ⟨⟨k', out'⟩, hr, he⟩ := Outcome.bind_eq_ok.1 he
  obtain ⟨l, rfl, hl, hP⟩ := seqDe_all f P hf (h * w) s i k' out' hr
  simp only [hl, ne_eq, not_true_eq_false, if_false] at he
  cases he
  exact ⟨l, rfl, hl, hP⟩

theorem gridRows_length (w : Nat) (d2 : List PyVal) : ∀ h i, (gridRows w d2 h i).length = h
  | 0, _ => rfl
  | h + 1, i => by simp [gridRows, gridRows_length w d2 h]

theorem gridRows_rows (w : Nat) (d2 : List PyVal) : ∀ h i, (i + h) * w ≤ d2.length →
    ∀ r ∈ gridRows w d2 h i, ∃ l, r = .list l ∧ l.length = w ∧ ∀ v ∈ l, v ∈ d2
  | 0, _, _ => by simp [gridRows]
  | h + 1, i, hle => by
    intro r hr
    simp only [gridRows, List.mem_cons] at hr
    rcases hr with rfl | hr
    · refine ⟨_, rfl, ?_, fun v hv => List.mem_of_mem_drop (List.mem_of_mem_take hv)⟩
      rw [List.length_take, List.length_drop]
      have : (i + (h + 1)) * w = i * w + h * w + w := by rw [Nat.add_mul, Nat.add_mul]; omega
      omega
    · exact gridRows_rows w d2 h (i + 1) (by rw [show i + 1 + h = i + (h + 1) by omega]; exact hle) r hr

theorem rowsFlat_gridRows (w : Nat) (d2 : List PyVal) : ∀ h i,
    rowsFlat (gridRows w d2 h i) = (d2.drop (i * w)).take (h * w)
  | 0, _ => by simp [gridRows, rowsFlat]
  | h + 1, i => by
    simp only [gridRows, rowsFlat]
    rw [rowsFlat_gridRows w d2 h (i + 1), show (h + 1) * w = w + h * w by rw [Nat.add_mul]; omega, List.take_add,
      List.drop_drop, show (i + 1) * w = i * w + w by rw [Nat.add_mul]; omega]

theorem gridRows_shape (h w : Nat) (d2 : List PyVal) (hl : d2.length = h * w) :
    GridShape h w (gridRows w d2 h 0) ∧ rowsFlat (gridRows w d2 h 0) = d2 := by
  refine ⟨⟨gridRows_length w d2 h 0, ?_⟩, ?_⟩
  · intro r hr
    obtain ⟨l, rfl, hlen, _⟩ := gridRows_rows w d2 h 0 (by rw [Nat.zero_add]; omega) r hr
    exact ⟨l, rfl, hlen⟩
  · rw [rowsFlat_gridRows]
    simp only [Nat.zero_mul, List.drop_zero]
    exact List.take_of_length_le (by omega)

theorem noBoolL_gridRows (h w : Nat) (d2 : List PyVal) (hl : d2.length = h * w) (hnb : noBoolL d2 = true) :
    noBoolL (gridRows w d2 h 0) = true := by
  rw [noBoolL_iff] at hnb ⊢
  intro r hr
  obtain ⟨l, rfl, _, hmem⟩ := gridRows_rows w d2 h 0 (by rw [Nat.zero_add]; omega) r hr
  simp only [PyVal.noBool]
  rw [noBoolL_iff]
  exact fun v hv => hnb v (hmem v hv)

/-- the serialize loop succeeds on a list of served items of the expected length -/
theorem seqSerLoop_served (env : Env) (b : Comb) (hp : productive b = true) (L : List PyVal)
    (hs : ∀ p, p < L.length → ∃ r, ser b env L p = .ok r) :
    ∃ t, seqSerLoop (ser b env) L L.length (L.length + 1) 0 [] = .ok t := by
  refine seqSerLoop_total (ser b env) L ?_ (L.length + 1) 0 [] (by omega) (by omega)
  intro p hpl
  obtain ⟨⟨k, t⟩, hr⟩ := hs p hpl
  exact ⟨k, t, hr, ser_productive env b hp L p k t hr, ser_bounded env b L p k t hr (by omega)⟩

/-! ### decoded problems are in the domain of the serializer -/

theorem deProblem_eq_ok {c : Comb} {s : Str} {h w : Nat} {p : PyVal} (hde : deProblem c s h w = .ok p) :
    ∃ k, de c ⟨h, w⟩ s 0 = .ok (k, [p]) := by
  unfold deProblem at hde
  obtain ⟨⟨k, out⟩, hr, hm⟩ := Outcome.bind_eq_ok.1 hde
  match out, hm with
  | [x], hm => cases hm; exact ⟨k, hr⟩

theorem grid_dom_of_baseOK (b : Comb) (dims : Option (Nat × Nat)) (h w : Nat) (P : PyVal → Prop)
    (hw : wf (.grid b dims) = true) (hB : BaseOK (ser b ⟨h, w⟩) (de b ⟨h, w⟩) (Tight b ⟨h, w⟩) P)
    (s : Str) (p : PyVal) (hde : deProblem (.grid b dims) s h w = .ok p) :
    Dom (.grid b dims) h w p ∧
      ∃ d2, p = .list (gridRows (gridDims ⟨h, w⟩ dims).2 d2 (gridDims ⟨h, w⟩ dims).1 0) ∧
        d2.length = (gridDims ⟨h, w⟩ dims).1 * (gridDims ⟨h, w⟩ dims).2 ∧ ∀ v ∈ d2, P v := by
  simp only [wf, Bool.and_eq_true] at hw
  obtain ⟨⟨hwb, hpb⟩, _⟩ := hw
  obtain ⟨k, hk⟩ := deProblem_eq_ok hde
  simp only [de] at hk
  obtain ⟨d2, hout, hlen, hP⟩ := gridDe_all _ P hB.closed _ _ s 0 k _ hk
  simp only [List.cons.injEq, and_true] at hout
  subst hout
  refine ⟨?_, d2, rfl, hlen, hP⟩
  have hnb : noBoolL d2 = true := (noBoolL_iff d2).mpr (fun v hv => hB.nobool v (hP v hv))
  obtain ⟨hshape, hflat⟩ := gridRows_shape _ _ d2 hlen
  refine ⟨⟨?_, ?_⟩, ?_⟩
  · simp only [noBoolL, PyVal.noBool, Bool.and_true]
    exact noBoolL_gridRows _ _ d2 hlen hnb
  · simp only [Tight]
    intro rows hrows
    simp only [List.getElem?_cons_zero, Option.some.injEq, PyVal.list.injEq] at hrows
    subst hrows
    refine ⟨hshape, fun q => ?_⟩
    rw [hflat]
    exact hB.tight d2 hP q
  · obtain ⟨hfl, _⟩ := gridFlatten_shape _ _ _ hshape
    rw [hflat] at hfl
    obtain ⟨t, ht⟩ := seqSerLoop_served ⟨h, w⟩ b hpb d2 (hB.serve d2 hP)
    refine ⟨t, ?_⟩
    simp only [ser, gridSer, withItem]
    simp [hfl, seqSer, withItem, ← hlen, ht]

theorem seq_dom_of_baseOK (b : Comb) (n : Nat) (h w : Nat) (P : PyVal → Prop)
    (hw : wf (.seq b n) = true) (hB : BaseOK (ser b ⟨h, w⟩) (de b ⟨h, w⟩) (Tight b ⟨h, w⟩) P)
    (s : Str) (p : PyVal) (hde : deProblem (.seq b n) s h w = .ok p) :
    Dom (.seq b n) h w p ∧ ∃ l, p = .list l ∧ l.length = n ∧ ∀ v ∈ l, P v := by
  simp only [wf, Bool.and_eq_true] at hw
  obtain ⟨⟨hwb, hpb⟩, _⟩ := hw
  obtain ⟨k, hk⟩ := deProblem_eq_ok hde
  simp only [de] at hk
  obtain ⟨l, hout, hlen, hP⟩ := seqDe_all _ P hB.closed n s 0 k _ hk
  simp only [List.cons.injEq, and_true] at hout
  subst hout
  refine ⟨?_, l, rfl, hlen, hP⟩
  have hnb : noBoolL l = true := (noBoolL_iff l).mpr (fun v hv => hB.nobool v (hP v hv))
  refine ⟨⟨?_, ?_⟩, ?_⟩
  · simp only [noBoolL, PyVal.noBool, Bool.and_true]
    exact hnb
  · simp only [Tight]
    intro l' hl'
    simp only [List.getElem?_cons_zero, Option.some.injEq, PyVal.list.injEq] at hl'
    subst hl'
    exact ⟨by omega, fun q => hB.tight _ hP q⟩
  · obtain ⟨t, ht⟩ := seqSerLoop_served ⟨h, w⟩ b hpb l (hB.serve l hP)
    refine ⟨t, ?_⟩
    simp only [ser, seqSer, withItem]
    simp [← hlen, ht]

theorem noRooms_flatLeaf (c : Comb) (h : flatLeaf c = true) : noRooms c = true := by
  cases c <;> simp [flatLeaf] at h <;> simp [noRooms]

theorem noRoomsL_flat : ∀ cs : List Comb, (∀ c ∈ cs, flatLeaf c = true) → noRoomsL cs = true
  | [], _ => rfl
  | c :: cs, h => by
    simp only [noRoomsL, Bool.and_eq_true]
    exact ⟨noRooms_flatLeaf c (h c (by simp)), noRoomsL_flat cs (fun c' hc' => h c' (by simp [hc']))⟩

theorem noRooms_flat (b : Comb) (hf : FlatBase b) : noRooms b = true := by
  cases b with
  | oneOf cs =>
    simp only [FlatBase, flatBase, List.all_eq_true] at hf
    simp only [noRooms]
    exact noRoomsL_flat cs hf
  | multiDigit _ _ => rfl
  | _ => first | rfl | simp [FlatBase, flatBase, flatLeaf] at hf

end Reenc
open Reenc

/-! ### main theorems -/

/-- **a problem returned by a `Grid` decoder over a closed flat base is accepted by the serializer, without surplus** -/
theorem grid_reencodable (b : Comb) (dims : Option (Nat × Nat)) (hw : wf (.grid b dims) = true) (hf : FlatBase b)
    (hc : closedBase b = true) (s : Str) (h w : Nat) (p : PyVal) (hde : deProblem (.grid b dims) s h w = .ok p) :
    Dom (.grid b dims) h w p := by
  have hwb : wf b = true := by simp only [wf, Bool.and_eq_true] at hw; exact hw.1.1
  exact (grid_dom_of_baseOK b dims h w _ hw (baseOK_flat ⟨h, w⟩ b hwb hf hc) s p hde).1

/-- **… so serializing it succeeds and decoding that canonical text returns the same problem** -/
theorem grid_reencodable' (b : Comb) (dims : Option (Nat × Nat)) (hw : wf (.grid b dims) = true) (hf : FlatBase b)
    (hc : closedBase b = true) (s : Str) (h w : Nat) (p : PyVal) (hde : deProblem (.grid b dims) s h w = .ok p) :
    ∃ s', serProblem (.grid b dims) p h w = .ok s' ∧ deProblem (.grid b dims) s' h w = .ok p := by
  obtain ⟨t, h1, _, h2⟩ := roundtrip (.grid b dims) h w p hw (by simp only [noRooms]; exact noRooms_flat b hf) rfl
    (grid_reencodable b dims hw hf hc s h w p hde)
  exact ⟨t, h1, h2⟩

/-- the shape of a decoded grid: `h` rows of `w` accepted items each -/
theorem grid_decoded_shape (b : Comb) (dims : Option (Nat × Nat)) (hw : wf (.grid b dims) = true) (hf : FlatBase b)
    (hc : closedBase b = true) (s : Str) (h w : Nat) (p : PyVal) (hde : deProblem (.grid b dims) s h w = .ok p) :
    ∃ rows, p = .list rows ∧ GridShape (gridDims ⟨h, w⟩ dims).1 (gridDims ⟨h, w⟩ dims).2 rows ∧
      ∀ v ∈ rowsFlat rows, v.noBool = true ∧ AccItem b v := by
  have hwb : wf b = true := by simp only [wf, Bool.and_eq_true] at hw; exact hw.1.1
  obtain ⟨_, d2, rfl, hlen, hP⟩ := grid_dom_of_baseOK b dims h w _ hw (baseOK_flat ⟨h, w⟩ b hwb hf hc) s p hde
  obtain ⟨hshape, hflat⟩ := gridRows_shape _ _ d2 hlen
  refine ⟨_, rfl, hshape, ?_⟩
  rw [hflat]
  intro v hv
  obtain ⟨hnb, hacc, _⟩ := hP v hv
  refine ⟨hnb, ?_⟩
  cases b <;> first | exact hacc | (obtain ⟨c, hc', ha⟩ := hacc; simp only [alts, List.mem_singleton] at hc'; subst hc'; exact ha)

theorem seq_reencodable (b : Comb) (n : Nat) (hw : wf (.seq b n) = true) (hf : FlatBase b)
    (hc : closedBase b = true) (s : Str) (h w : Nat) (p : PyVal) (hde : deProblem (.seq b n) s h w = .ok p) :
    Dom (.seq b n) h w p := by
  have hwb : wf b = true := by simp only [wf, Bool.and_eq_true] at hw; exact hw.1.1
  exact (seq_dom_of_baseOK b n h w _ hw (baseOK_flat ⟨h, w⟩ b hwb hf hc) s p hde).1

theorem seq_reencodable' (b : Comb) (n : Nat) (hw : wf (.seq b n) = true) (hf : FlatBase b)
    (hc : closedBase b = true) (s : Str) (h w : Nat) (p : PyVal) (hde : deProblem (.seq b n) s h w = .ok p) :
    ∃ s', serProblem (.seq b n) p h w = .ok s' ∧ deProblem (.seq b n) s' h w = .ok p := by
  obtain ⟨t, h1, _, h2⟩ := roundtrip (.seq b n) h w p hw (by simp only [noRooms]; exact noRooms_flat b hf) rfl
    (seq_reencodable b n hw hf hc s h w p hde)
  exact ⟨t, h1, h2⟩

/-! ### the URL layer and the regenerated table -/

/-- a problem returned by `deserialize_problem_as_url` (without `return_size`) was returned by
`deserialize_problem` on the body of the URL with the height and width read from it -/
theorem deProblemAsUrl_eq_ok (c : Comb) (url : Str) (allowed : Option (List Str)) (af : Bool) (p : PyVal)
    (h : deProblemAsUrl c url allowed af false = .ok p) :
    ∃ name wd hd body hh ww, matchUrl url = some (name, wd, hd, body) ∧ pyInt hd = .ok hh ∧ pyInt wd = .ok ww ∧
      deProblem c body hh ww = .ok p := by
  unfold deProblemAsUrl at h
  split at h
  · split at h <;> cases h
  · rename_i name wd hd body hm
    obtain ⟨ww, hw, h⟩ := Outcome.bind_eq_ok.1 h
    obtain ⟨hh, hh', h⟩ := Outcome.bind_eq_ok.1 h
    obtain ⟨_, _, h⟩ := Outcome.bind_eq_ok.1 h
    obtain ⟨p', hp', h⟩ := Outcome.bind_eq_ok.1 h
    simp only [Bool.false_eq_true, if_false, Outcome.ok.injEq] at h
    subst h
    exact ⟨name, wd, hd, body, hh, ww, hm, hh', hw, hp'⟩

/-- the six grid puzzles of the regenerated table: well-formed grids over closed flat bases -/
theorem puzzles_side : ∀ pc ∈ [Gen.nurikabeCodec, Gen.masyuCodec, Gen.slitherlinkCodec, Gen.sudokuCodec,
      Gen.nurimisakiCodec, Gen.yajilinCodec],
    ∃ b dims, pc.comb = .grid b dims ∧ wf (.grid b dims) = true ∧ flatBase b = true ∧ closedBase b = true := by
  intro pc hpc
  simp only [List.mem_cons, List.mem_nil_iff, or_false] at hpc
  rcases hpc with rfl | rfl | rfl | rfl | rfl | rfl
  · exact ⟨_, _, rfl, by decide, by decide, by decide⟩
  · exact ⟨_, _, rfl, by decide, by decide, by decide⟩
  · exact ⟨_, _, rfl, by decide, by decide, by decide⟩
  · exact ⟨_, _, rfl, by decide, by decide, by decide⟩
  · exact ⟨_, _, rfl, by decide, by decide, by decide⟩
  · exact ⟨_, _, rfl, by decide, by decide, by decide⟩

/-- **C17, second half, on the shipped grid puzzles**: whenever a problem is returned by the decoder, serializing it
succeeds and decoding that canonical text returns the same problem again -/
theorem puzzles_reencodable : ∀ pc ∈ [Gen.nurikabeCodec, Gen.masyuCodec, Gen.slitherlinkCodec, Gen.sudokuCodec,
      Gen.nurimisakiCodec, Gen.yajilinCodec],
    ∀ s h w p, deProblem pc.comb s h w = .ok p →
      ∃ s', serProblem pc.comb p h w = .ok s' ∧ deProblem pc.comb s' h w = .ok p := by
  intro pc hpc s h w p hde
  obtain ⟨b, dims, he, hw, hf, hc⟩ := puzzles_side pc hpc
  rw [he] at hde ⊢
  exact grid_reencodable' b dims hw hf hc s h w p hde

theorem puzzles_reencodable_url : ∀ pc ∈ [Gen.nurikabeCodec, Gen.masyuCodec, Gen.slitherlinkCodec, Gen.sudokuCodec,
      Gen.nurimisakiCodec, Gen.yajilinCodec],
    ∀ url p, deProblemAsUrl pc.comb url pc.allowed pc.allowFailure pc.returnSize = .ok p →
      ∃ name wd hd body hh ww, matchUrl url = some (name, wd, hd, body) ∧ pyInt hd = .ok hh ∧ pyInt wd = .ok ww ∧
        ∃ s', serProblem pc.comb p hh ww = .ok s' ∧ deProblem pc.comb s' hh ww = .ok p := by
  intro pc hpc url p hde
  have hrs : pc.returnSize = false := by
    simp only [List.mem_cons, List.mem_nil_iff, or_false] at hpc
    rcases hpc with rfl | rfl | rfl | rfl | rfl | rfl <;> rfl
  rw [hrs] at hde
  obtain ⟨name, wd, hd, body, hh, ww, h1, h2, h3, h4⟩ := deProblemAsUrl_eq_ok _ _ _ _ _ hde
  exact ⟨name, wd, hd, body, hh, ww, h1, h2, h3, puzzles_reencodable pc hpc body hh ww p h4⟩

end Cspuz.Ser
