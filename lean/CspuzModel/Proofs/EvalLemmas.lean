/-
  Reusable lemmas about the reference semantics `eval`, the DSL constructors (`countTrue`, `andPy`,
  `thenRaw`, comparisons), well-typedness (`wtB`/`wtI`), variable locality (`varsBelow`), and
  `List.mapM` in the `Except` monad.  Core Lean only.
-/
import CspuzModel.Model.Graph
import CspuzModel.Spec.Sat
namespace Cspuz.Proofs
open Cspuz Cspuz.Spec

/-! ### `Except` / `List.mapM` -/

theorem bind_eq_ok {ε α β : Type} {x : Except ε α} {f : α → Except ε β} {b : β} :
    (x >>= f) = .ok b ↔ ∃ a, x = .ok a ∧ f a = .ok b := by
  cases x with
  | error e => simp [bind, Except.bind]
  | ok a => simp [bind, Except.bind]

theorem mapM_eq_ok_iff {ε α β : Type} {f : α → Except ε β} :
    ∀ {l : List α} {r : List β}, l.mapM f = .ok r ↔
      r.length = l.length ∧ ∀ i (h₁ : i < l.length) (h₂ : i < r.length), f l[i] = .ok r[i]
  | [], r => by
    cases r <;> simp [pure, Except.pure]
  | x :: l, r => by
    rw [List.mapM_cons, bind_eq_ok]
    constructor
    · rintro ⟨y, hy, h⟩
      rw [bind_eq_ok] at h
      obtain ⟨ys, hys, h⟩ := h
      cases h
      obtain ⟨hl, hi⟩ := mapM_eq_ok_iff.1 hys
      refine ⟨by simp [hl], ?_⟩
      intro i h₁ h₂
      cases i with
      | zero => simpa using hy
      | succ i => simpa using hi i (by simpa using h₁) (by simpa using h₂)
    · rintro ⟨hl, hi⟩
      cases r with
      | nil => simp at hl
      | cons y ys =>
        refine ⟨y, hi 0 (by simp) (by simp), ?_⟩
        have : l.mapM f = .ok ys := mapM_eq_ok_iff.2 ⟨by simpa using hl, fun i h₁ h₂ =>
          hi (i+1) (by simpa using h₁) (by simpa using h₂)⟩
        rw [this]; rfl

/-! ### evaluation equations -/

theorem evalList_eq_map (σ : Asg) : ∀ l : List Expr, evalList σ l = l.map (eval σ)
  | [] => by simp [evalList]
  | e :: r => by simp [evalList, evalList_eq_map σ r]

@[simp] theorem eval_node (σ : Asg) (op : Op) (args : List Expr) :
    eval σ (.node op args) = evalOp op (args.map (eval σ)) := by
  rw [eval, evalList_eq_map]

@[simp] theorem eval_bvar (σ : Asg) (id : Nat) : eval σ (.bvar id) = some (.b (σ.b id)) := by rw [eval]
@[simp] theorem eval_ivar (σ : Asg) (id : Nat) : eval σ (.ivar id) = some (.i (σ.i id)) := by rw [eval]
@[simp] theorem eval_litB (σ : Asg) (b : Bool) : eval σ (.litB b) = some (.b b) := by rw [eval]
@[simp] theorem eval_litI (σ : Asg) (n : Int) : eval σ (.litI n) = some (.i n) := by rw [eval]
@[simp] theorem eval_litNone (σ : Asg) : eval σ .litNone = none := by rw [eval]

@[simp] theorem allInts_map_some (ns : List Int) : allInts (ns.map fun n => some (.i n)) = some ns := by
  induction ns with
  | nil => rfl
  | cons n r ih => simp [allInts, ih]

@[simp] theorem allBools_map_some (bs : List Bool) : allBools (bs.map fun b => some (.b b)) = some bs := by
  induction bs with
  | nil => rfl
  | cons n r ih => simp [allBools, ih]

theorem foldl_add_eq_sum (r : List Int) : ∀ a : Int, r.foldl (· + ·) a = a + r.sum := by
  induction r with
  | nil => simp
  | cons x r ih => intro a; simp [ih]; omega

/-- `ADD` node over integer-valued operands. -/
theorem evalOp_add_ints {ns : List Int} (h : ns ≠ []) :
    evalOp .add (ns.map fun n => some (.i n)) = some (.i ns.sum) := by
  cases ns with
  | nil => exact absurd rfl h
  | cons a r =>
    have := allInts_map_some (a :: r)
    simp only [List.map_cons] at this
    simp [evalOp, this, foldl_add_eq_sum]

theorem evalOp_cmp {op : Op} (h : op.isCmp = true) (a b : Int) :
    evalOp op [some (.i a), some (.i b)] = some (.b (cmpOp op a b)) := by
  cases op <;> simp [Op.isCmp] at h <;> simp [evalOp, allInts]

theorem evalOp_and (bs : List Bool) :
    evalOp .and (bs.map fun b => some (.b b)) = some (.b (bs.all id)) := by
  simp [evalOp]

theorem evalOp_or (bs : List Bool) :
    evalOp .or (bs.map fun b => some (.b b)) = some (.b (bs.any id)) := by
  simp [evalOp]

theorem evalOp_imp (a b : Bool) : evalOp .imp [some (.b a), some (.b b)] = some (.b (!a || b)) := by
  simp [evalOp, allBools]

/-! ### `count_true` -/

/-- Non-literal operands of `count_true`, each wrapped as `x.cond(1, 0)`. -/
def ctOps : List Expr → List Expr
  | [] => []
  | .litB _ :: r => ctOps r
  | x :: r => .node .ite [x, .litI 1, .litI 0] :: ctOps r

/-- Number of Python `True` literals among the operands (constant-folded by `count_true`). -/
def ctConst : List Expr → Nat
  | [] => 0
  | .litB true :: r => ctConst r + 1
  | _ :: r => ctConst r

/-- The expression `count_true` returns on Boolean operands. -/
def countTrueE (xs : List Expr) : Expr :=
  let ops := if ctConst xs > 0 then ctOps xs ++ [.litI (ctConst xs)] else ctOps xs
  if ops.isEmpty then .node .intConst [.litI 0] else .node .add ops

theorem isBoolLike_iff (x : Expr) : x.isBoolLike = ((match x with | .litB _ => true | _ => false) || x.isBoolExpr) := by
  cases x <;> simp [Expr.isBoolLike, Expr.isBoolExpr]

theorem countTrue_go_eq (xs : List Expr) : ∀ (c : Nat) (acc : List Expr),
    countTrue.go xs c acc =
      if xs.all Expr.isBoolLike then .ok (c + ctConst xs, acc.reverse ++ ctOps xs) else .error .typeError := by
  induction xs with
  | nil => intro c acc; simp [countTrue.go, ctConst, ctOps]
  | cons x r ih =>
    intro c acc
    cases x with
    | litB b =>
      cases b
      · simp [countTrue.go, ih, ctConst, ctOps, Expr.isBoolLike]
      · simp [countTrue.go, ih, ctConst, ctOps, Expr.isBoolLike]
        rw [show c + 1 + ctConst r = c + (ctConst r + 1) by omega]
    | bvar id => simp [countTrue.go, ih, ctConst, ctOps, Expr.isBoolLike, Expr.isBoolExpr]
    | ivar id => simp [countTrue.go, Expr.isBoolLike, Expr.isBoolExpr]
    | litI n => simp [countTrue.go, Expr.isBoolLike, Expr.isBoolExpr]
    | litNone => simp [countTrue.go, Expr.isBoolLike, Expr.isBoolExpr]
    | node op args =>
      by_cases h : (Expr.node op args).isBoolExpr = true
      · have h' : (Expr.node op args).isBoolLike = true := h
        simp [countTrue.go, ih, ctConst, ctOps, h, h']
      · have h' : ¬ (Expr.node op args).isBoolLike = true := h
        simp [countTrue.go, h, h']

/-- Closed form of `count_true`: it succeeds exactly on `BoolExpr`/`bool` operands. -/
theorem countTrue_eq (xs : List Expr) :
    countTrue xs = if xs.all Expr.isBoolLike then .ok (countTrueE xs) else .error .typeError := by
  unfold countTrue
  rw [countTrue_go_eq]
  by_cases h : xs.all Expr.isBoolLike = true
  · simp only [h, if_true]
    simp only [bind, Except.bind, countTrueE, Nat.zero_add, List.reverse_nil, List.nil_append]
    generalize (if ctConst xs > 0 then ctOps xs ++ [Expr.litI (ctConst xs : Nat)] else ctOps xs) = ops
    split <;> rfl
  · simp only [h]
    simp [bind, Except.bind]

theorem countTrue_ok_of_boolLike {xs : List Expr} (h : ∀ x ∈ xs, x.isBoolLike = true) :
    countTrue xs = .ok (countTrueE xs) := by
  rw [countTrue_eq, if_pos (by simpa using h)]

theorem countTrue_ok_iff {xs : List Expr} {e : Expr} :
    countTrue xs = .ok e ↔ (∀ x ∈ xs, x.isBoolLike = true) ∧ e = countTrueE xs := by
  rw [countTrue_eq]
  by_cases h : xs.all Expr.isBoolLike = true
  · simp only [h, if_true]
    constructor
    · intro h'; cases h'; exact ⟨by simpa using h, rfl⟩
    · rintro ⟨_, rfl⟩; rfl
  · simp only [h]
    constructor
    · intro h'; cases h'
    · rintro ⟨h', _⟩; exact absurd (by simpa using h') h

theorem countTrue_typeError {xs : List Expr} (h : ∃ x ∈ xs, x.isBoolLike = false) :
    countTrue xs = .error .typeError := by
  rw [countTrue_eq, if_neg]
  simpa using h

theorem evalOp_ite (c : Bool) (t f : Int) :
    evalOp .ite [some (.b c), some (.i t), some (.i f)] = some (.i (if c then t else f)) := by
  simp [evalOp]

theorem eval_ite {σ : Asg} {c t f : Expr} {b : Bool} {x y : Int} (hc : eval σ c = some (.b b))
    (ht : eval σ t = some (.i x)) (hf : eval σ f = some (.i y)) :
    eval σ (.node .ite [c, t, f]) = some (.i (if b then x else y)) := by
  simp [hc, ht, hf, evalOp_ite]

theorem eval_ctOps {σ : Asg} : ∀ (xs : List Expr) (bs : List Bool),
    xs.map (eval σ) = bs.map (fun b => some (.b b)) →
    ∃ ns : List Int, (ctOps xs).map (eval σ) = ns.map (fun n => some (.i n)) ∧
      (ctConst xs : Int) + ns.sum = (bs.count true : Nat)
  | [], bs, h => by
    cases bs with
    | nil => exact ⟨[], by simp [ctOps, ctConst]⟩
    | cons b bs => simp at h
  | x :: r, bs, h => by
    cases bs with
    | nil => simp at h
    | cons b bs =>
      simp only [List.map_cons, List.cons.injEq] at h
      obtain ⟨ns, hns, hsum⟩ := eval_ctOps r bs h.2
      have hx := h.1
      cases x with
      | litB v =>
        refine ⟨ns, by simpa [ctOps] using hns, ?_⟩
        simp at hx
        subst hx
        cases v <;> simp [ctConst] <;> omega
      | bvar id =>
        refine ⟨(if b then 1 else 0) :: ns, ?_, ?_⟩
        · simp only [ctOps, List.map_cons, hns]
          rw [eval_ite hx (eval_litI σ 1) (eval_litI σ 0)]
        · cases b <;> simp [ctConst] <;> omega
      | node op args =>
        refine ⟨(if b then 1 else 0) :: ns, ?_, ?_⟩
        · simp only [ctOps, List.map_cons, hns]
          rw [eval_ite hx (eval_litI σ 1) (eval_litI σ 0)]
        · cases b <;> simp [ctConst] <;> omega
      | ivar id => simp at hx
      | litI n => simp at hx
      | litNone => simp at hx

/-- `count_true` evaluates to the number of true operands. -/
theorem eval_countTrueE {σ : Asg} {xs : List Expr} (bs : List Bool)
    (h : xs.map (eval σ) = bs.map (fun b => some (.b b))) :
    eval σ (countTrueE xs) = some (.i (bs.count true : Nat)) := by
  obtain ⟨ns, hns, hsum⟩ := eval_ctOps xs bs h
  unfold countTrueE
  by_cases hc : ctConst xs > 0
  · simp only [hc, if_true]
    have hne : (ctOps xs ++ [Expr.litI (ctConst xs : Nat)]).isEmpty = false := by simp
    rw [hne]
    simp only [Bool.false_eq_true, if_false, eval_node, List.map_append, hns, List.map_cons, eval_litI, List.map_nil]
    have := evalOp_add_ints (ns := ns ++ [(ctConst xs : Int)]) (by simp)
    simp only [List.map_append, List.map_cons, List.map_nil] at this
    rw [this]
    simp; omega
  · simp only [hc, if_false]
    have hc0 : ctConst xs = 0 := by omega
    cases hns' : ctOps xs with
    | nil =>
      rw [hns'] at hns
      cases ns with
      | nil => simp [evalOp]; simp [hc0] at hsum; omega
      | cons n ns => simp at hns
    | cons y ys =>
      rw [hns'] at hns
      simp only [List.isEmpty_cons, Bool.false_eq_true, if_false, eval_node, hns]
      rw [evalOp_add_ints (by intro h0; subst h0; simp at hns)]
      simp [hc0] at hsum
      simp; omega

theorem eval_countTrue {σ : Asg} {xs : List Expr} {e : Expr} (bs : List Bool)
    (he : countTrue xs = .ok e) (h : xs.map (eval σ) = bs.map (fun b => some (.b b))) :
    eval σ e = some (.i (bs.count true : Nat)) := by
  rw [(countTrue_ok_iff.1 he).2]; exact eval_countTrueE bs h

/-- Functional form: every operand `x` evaluates to the Boolean `f x`. -/
theorem eval_countTrue_of_forall {σ : Asg} {xs : List Expr} {e : Expr} (f : Expr → Bool)
    (he : countTrue xs = .ok e) (h : ∀ x ∈ xs, eval σ x = some (.b (f x))) :
    eval σ e = some (.i ((xs.filter f).length : Nat)) := by
  have := eval_countTrue (σ := σ) (xs.map f) he (by
    rw [List.map_map]; exact List.map_congr_left h)
  rw [this, List.count_eq_countP, List.countP_map, List.countP_eq_length_filter]
  congr 4
  apply List.filter_congr
  intro x _; simp

/-! ### well-typed trees evaluate -/

theorem wtB_isBoolLike : ∀ e : Expr, wtB e = true → e.isBoolLike = true
  | .bvar _, _ => rfl
  | .litB _, _ => rfl
  | .ivar _, h => by simp [wtB] at h
  | .litI _, h => by simp [wtB] at h
  | .litNone, h => by simp [wtB] at h
  | .node op args, h => by
    cases op <;> first | rfl | (simp [wtB] at h)

theorem wtI_isIntLike : ∀ e : Expr, wtI e = true → e.isIntLike = true
  | .ivar _, _ => rfl
  | .litI _, _ => rfl
  | .bvar _, h => by simp [wtI] at h
  | .litB _, h => by simp [wtI] at h
  | .litNone, h => by simp [wtI] at h
  | .node op args, h => by
    cases op <;> first | rfl | (simp [wtI] at h)

mutual
theorem wtB_eval (σ : Asg) : ∀ e : Expr, wtB e = true → ∃ b, eval σ e = some (.b b)
  | .bvar _, _ => ⟨_, eval_bvar ..⟩
  | .litB _, _ => ⟨_, eval_litB ..⟩
  | .ivar _, h => by simp [wtB] at h
  | .litI _, h => by simp [wtB] at h
  | .litNone, h => by simp [wtB] at h
  | .node op args, h => by
    rw [eval_node]
    cases op <;> simp only [wtB, Bool.and_eq_true, beq_iff_eq, Bool.false_eq_true] at h
    case boolConst =>
      split at h
      · simp [evalOp]
      · cases h
    case eq | ne | le | lt | ge | gt =>
      all_goals
        obtain ⟨ns, hns⟩ := wtIs_eval σ args h.2
        rw [hns]
        have hl : ns.length = 2 := by
          have := congrArg List.length hns; simp at this; omega
        match ns, hl with
        | [a, b], _ => exact ⟨_, evalOp_cmp rfl a b⟩
    case not =>
      obtain ⟨bs, hbs⟩ := wtBs_eval σ args h.2
      rw [hbs]
      have hl : bs.length = 1 := by
        have := congrArg List.length hbs; simp at this; omega
      match bs, hl with
      | [a], _ => simp [evalOp]
    case and =>
      obtain ⟨bs, hbs⟩ := wtBs_eval σ args h
      rw [hbs]; exact ⟨_, evalOp_and bs⟩
    case or =>
      obtain ⟨bs, hbs⟩ := wtBs_eval σ args h
      rw [hbs]; exact ⟨_, evalOp_or bs⟩
    case iff | xor | imp =>
      all_goals
        obtain ⟨bs, hbs⟩ := wtBs_eval σ args h.2
        rw [hbs]
        have hl : bs.length = 2 := by
          have := congrArg List.length hbs; simp at this; omega
        match bs, hl with
        | [a, b], _ => simp [evalOp, allBools]
    case alldiff =>
      obtain ⟨ns, hns⟩ := wtIs_eval σ args h
      rw [hns]; simp [evalOp]
theorem wtI_eval (σ : Asg) : ∀ e : Expr, wtI e = true → ∃ n, eval σ e = some (.i n)
  | .ivar _, _ => ⟨_, eval_ivar ..⟩
  | .litI _, _ => ⟨_, eval_litI ..⟩
  | .bvar _, h => by simp [wtI] at h
  | .litB _, h => by simp [wtI] at h
  | .litNone, h => by simp [wtI] at h
  | .node op args, h => by
    cases op <;> (try simp only [wtI, Bool.and_eq_true, beq_iff_eq, bne_iff_ne, Bool.false_eq_true] at h)
    case intConst =>
      rw [eval_node]
      split at h
      · simp [evalOp]
      · cases h
    case neg =>
      rw [eval_node]
      obtain ⟨ns, hns⟩ := wtIs_eval σ args h.2
      rw [hns]
      have hl : ns.length = 1 := by
        have := congrArg List.length hns; simp at this; omega
      match ns, hl with
      | [a], _ => simp [evalOp]
    case add =>
      rw [eval_node]
      obtain ⟨ns, hns⟩ := wtIs_eval σ args h.2
      rw [hns]
      have hl : ns ≠ [] := by
        intro h0; subst h0; simp at hns; exact h.1 (by simp [hns])
      exact ⟨_, evalOp_add_ints hl⟩
    case sub =>
      rw [eval_node]
      obtain ⟨ns, hns⟩ := wtIs_eval σ args h.2
      rw [hns]
      cases ns with
      | nil => simp at hns; exact absurd (by simp [hns]) h.1
      | cons a r =>
        have := allInts_map_some (a :: r)
        simp only [List.map_cons] at this
        simp [evalOp, this]
    case ite =>
      match args, h with
      | [], h | [_], h | [_, _], h | _ :: _ :: _ :: _ :: _, h => simp [wtI] at h
      | [c, t, f], h =>
        simp only [wtI, Bool.and_eq_true] at h
        obtain ⟨b, hb⟩ := wtB_eval σ c h.1.1
        obtain ⟨x, hx⟩ := wtI_eval σ t h.1.2
        obtain ⟨y, hy⟩ := wtI_eval σ f h.2
        exact ⟨_, eval_ite hb hx hy⟩
theorem wtBs_eval (σ : Asg) : ∀ l : List Expr, wtBs l = true →
    ∃ bs : List Bool, l.map (eval σ) = bs.map (fun b => some (.b b))
  | [], _ => ⟨[], rfl⟩
  | e :: r, h => by
    simp only [wtBs, Bool.and_eq_true] at h
    obtain ⟨b, hb⟩ := wtB_eval σ e h.1
    obtain ⟨bs, hbs⟩ := wtBs_eval σ r h.2
    exact ⟨b :: bs, by simp [hb, hbs]⟩
theorem wtIs_eval (σ : Asg) : ∀ l : List Expr, wtIs l = true →
    ∃ ns : List Int, l.map (eval σ) = ns.map (fun n => some (.i n))
  | [], _ => ⟨[], rfl⟩
  | e :: r, h => by
    simp only [wtIs, Bool.and_eq_true] at h
    obtain ⟨n, hn⟩ := wtI_eval σ e h.1
    obtain ⟨ns, hns⟩ := wtIs_eval σ r h.2
    exact ⟨n :: ns, by simp [hn, hns]⟩
end

/-! ### locality: only the variables below `base` matter -/

mutual
theorem eval_congr_of_varsBelow {base : Nat} {σ σ' : Asg} (h : AgreeBelow base σ σ') :
    ∀ e : Expr, e.varsBelow base = true → eval σ e = eval σ' e
  | .bvar id, hv => by
    simp only [Expr.varsBelow, decide_eq_true_eq] at hv
    simp [(h id hv).1]
  | .ivar id, hv => by
    simp only [Expr.varsBelow, decide_eq_true_eq] at hv
    simp [(h id hv).2]
  | .litB _, _ => by simp
  | .litI _, _ => by simp
  | .litNone, _ => by simp
  | .node op args, hv => by
    simp only [Expr.varsBelow] at hv
    rw [eval_node, eval_node, evalList_congr_of_varsBelow h args hv]
theorem evalList_congr_of_varsBelow {base : Nat} {σ σ' : Asg} (h : AgreeBelow base σ σ') :
    ∀ l : List Expr, Expr.varsBelow.varsBelowList base l = true → l.map (eval σ) = l.map (eval σ')
  | [], _ => rfl
  | e :: r, hv => by
    simp only [Expr.varsBelow.varsBelowList, Bool.and_eq_true] at hv
    simp [eval_congr_of_varsBelow h e hv.1, evalList_congr_of_varsBelow h r hv.2]
end

theorem AgreeBelow.refl (base : Nat) (σ : Asg) : AgreeBelow base σ σ := fun _ _ => ⟨rfl, rfl⟩

/-- A caller-supplied Boolean argument evaluates, under any extension `σ'` of `σ`, to its `truthAt`. -/
theorem eval_boolArg {base : Nat} {σ σ' : Asg} {l : List Expr} (hl : BoolArgs base l)
    (h : AgreeBelow base σ σ') {j : Nat} (hj : j < l.length) :
    eval σ' l[j] = some (.b (truthAt σ l j)) := by
  have hm : l[j] ∈ l := List.getElem_mem hj
  obtain ⟨hw, hv⟩ := hl _ hm
  rw [← eval_congr_of_varsBelow h _ hv]
  obtain ⟨b, hb⟩ := wtB_eval σ _ hw
  simp only [truthAt, List.getElem?_eq_getElem hj, hb]
  cases b <;> rfl

theorem boolArg_isBoolLike {base : Nat} {l : List Expr} (hl : BoolArgs base l) {j : Nat}
    (hj : j < l.length) : l[j].isBoolLike = true :=
  wtB_isBoolLike _ (hl _ (List.getElem_mem hj)).1

/-! ### DSL constructors -/

theorem getE_eq_ok {l : List Expr} {i : Nat} (h : i < l.length) : getE l i = .ok l[i] := by
  simp [getE, List.getElem?_eq_getElem h]

theorem getE_ok_iff {l : List Expr} {i : Nat} {e : Expr} :
    getE l i = .ok e ↔ ∃ h : i < l.length, l[i] = e := by
  unfold getE
  by_cases h : i < l.length
  · simp [h]
  · simp [h]

/-- `a & b` with a non-literal left operand builds an `AND` node. -/
theorem andPy_node {op : Op} {args : List Expr} {b : Expr}
    (ha : (Expr.node op args).isBoolLike = true) (hb : b.isBoolLike = true) :
    andPy (.node op args) b = .ok (.node .and [.node op args, b]) := by
  simp [andPy, ha, hb]

theorem andPy_bvar {id : Nat} {b : Expr} (hb : b.isBoolLike = true) :
    andPy (.bvar id) b = .ok (.node .and [.bvar id, b]) := by
  have ha : (Expr.bvar id).isBoolLike = true := rfl
  simp [andPy, ha, hb]

/-- Whatever form `a & b` takes (folded literal or `AND` node), it evaluates to the conjunction. -/
theorem eval_andPy {σ : Asg} {a b e : Expr} {x y : Bool} (h : andPy a b = .ok e)
    (ha : eval σ a = some (.b x)) (hb : eval σ b = some (.b y)) : eval σ e = some (.b (x && y)) := by
  unfold andPy at h
  split at h
  · cases h; simp at ha hb; simp [ha, hb]
  · split at h
    · cases h; simp [ha, hb, evalOp, allBools]
    · cases h

theorem andPy_ok_of_boolLike {a b : Expr} (ha : a.isBoolLike = true) (hb : b.isBoolLike = true) :
    ∃ e, andPy a b = .ok e ∧ e.isBoolLike = true := by
  unfold andPy
  split
  · exact ⟨_, rfl, rfl⟩
  · rw [ha, hb]; exact ⟨_, rfl, rfl⟩

theorem eval_and2 {σ : Asg} {a b : Expr} {x y : Bool}
    (ha : eval σ a = some (.b x)) (hb : eval σ b = some (.b y)) :
    eval σ (.node .and [a, b]) = some (.b (x && y)) := by
  simp [ha, hb, evalOp, allBools]

theorem eval_thenRaw {σ : Asg} {a b : Expr} {x y : Bool}
    (ha : eval σ a = some (.b x)) (hb : eval σ b = some (.b y)) :
    eval σ (thenRaw a b) = some (.b (!x || y)) := by
  simp [thenRaw, ha, hb, evalOp_imp]

theorem eval_cmp {σ : Asg} {op : Op} (hop : op.isCmp = true) {a b : Expr} {x y : Int}
    (ha : eval σ a = some (.i x)) (hb : eval σ b = some (.i y)) :
    eval σ (.node op [a, b]) = some (.b (cmpOp op x y)) := by
  simp [ha, hb, evalOp_cmp hop]

theorem eval_not {σ : Asg} {a : Expr} {x : Bool} (ha : eval σ a = some (.b x)) :
    eval σ (.node .not [a]) = some (.b (!x)) := by
  simp [ha, evalOp]

@[simp] theorem cmpOp_lt (a b : Int) : cmpOp .lt a b = decide (a < b) := rfl
@[simp] theorem cmpOp_le (a b : Int) : cmpOp .le a b = decide (a ≤ b) := rfl
@[simp] theorem cmpOp_gt (a b : Int) : cmpOp .gt a b = decide (a > b) := rfl
@[simp] theorem cmpOp_ge (a b : Int) : cmpOp .ge a b = decide (a ≥ b) := rfl
@[simp] theorem cmpOp_eq (a b : Int) : cmpOp .eq a b = (a == b) := rfl
@[simp] theorem cmpOp_ne (a b : Int) : cmpOp .ne a b = (a != b) := rfl

/-! ### `mapM` helpers -/

/-- Transport a pointwise relation through a successful `mapM`. -/
theorem map_eq_map_of_mapM_ok {ε α β γ : Type} {f : α → Except ε β} {g : β → γ} {h : α → γ}
    {l : List α} {r : List β} (hm : l.mapM f = .ok r)
    (hp : ∀ x ∈ l, ∀ y, f x = .ok y → g y = h x) : r.map g = l.map h := by
  obtain ⟨hl, hi⟩ := mapM_eq_ok_iff.1 hm
  apply List.ext_getElem (by simp [hl])
  intro i h₁ h₂
  simp only [List.getElem_map]
  simp only [List.length_map] at h₁ h₂
  exact hp _ (List.getElem_mem h₂) _ (hi i h₂ h₁)

theorem mem_of_mapM_ok {ε α β : Type} {f : α → Except ε β} {l : List α} {r : List β}
    (hm : l.mapM f = .ok r) {y : β} (hy : y ∈ r) : ∃ x ∈ l, f x = .ok y := by
  obtain ⟨hl, hi⟩ := mapM_eq_ok_iff.1 hm
  obtain ⟨i, hi', rfl⟩ := List.getElem_of_mem hy
  exact ⟨l[i]'(by omega), List.getElem_mem _, hi i (by omega) hi'⟩

/-- `mapM` succeeds when every call succeeds. -/
theorem mapM_ok_of_forall {ε α β : Type} {f : α → Except ε β} :
    ∀ {l : List α}, (∀ x ∈ l, ∃ y, f x = .ok y) → ∃ r, l.mapM f = .ok r
  | [], _ => ⟨[], rfl⟩
  | x :: l, h => by
    obtain ⟨y, hy⟩ := h x (by simp)
    obtain ⟨r, hr⟩ := mapM_ok_of_forall (l := l) (fun x hx => h x (by simp [hx]))
    exact ⟨y :: r, by rw [List.mapM_cons, hy, hr]; rfl⟩

/-- `mapM` of a function that is pointwise `.ok (g x)` on the list is `.ok (l.map g)`. -/
theorem mapM_eq_ok_map {ε α β : Type} {f : α → Except ε β} {g : α → β} :
    ∀ {l : List α}, (∀ x ∈ l, f x = .ok (g x)) → l.mapM f = .ok (l.map g)
  | [], _ => rfl
  | x :: l, h => by
    rw [List.mapM_cons, h x (by simp), mapM_eq_ok_map (l := l) (fun x hx => h x (by simp [hx]))]; rfl

@[simp] theorem ok_bind {ε α β : Type} (a : α) (f : α → Except ε β) : (Except.ok a >>= f) = f a := rfl
@[simp] theorem error_bind {ε α β : Type} (e : ε) (f : α → Except ε β) :
    ((Except.error e : Except ε α) >>= f) = .error e := rfl

/-! ### graph incidence -/


theorem mem_incident {g : Graph} {v : Nat} {je : Nat × Nat} :
    je ∈ g.incident v ↔ ∃ a b, g.edges[je.2]? = some (a, b) ∧ ((a = v ∧ je.1 = b) ∨ (b = v ∧ je.1 = a)) := by
  unfold Graph.incident
  simp only [List.mem_flatMap, List.mem_append, Prod.exists, List.mem_zipIdx_iff_getElem?]
  constructor
  · rintro ⟨a, b, e, he, h⟩
    rcases h with h | h
    · split at h
      · simp at h; subst h; exact ⟨a, b, he, .inl ⟨by assumption, rfl⟩⟩
      · simp at h
    · split at h
      · simp at h; subst h; exact ⟨a, b, he, .inr ⟨by assumption, rfl⟩⟩
      · simp at h
  · rintro ⟨a, b, he, h⟩
    refine ⟨a, b, je.2, he, ?_⟩
    rcases h with ⟨h1, h2⟩ | ⟨h1, h2⟩
    · left; simp [h1, ← h2]
    · right; simp [h1, ← h2]

theorem incident_bounds {g : Graph} (hwf : g.wf = true) {v : Nat} {je : Nat × Nat}
    (h : je ∈ g.incident v) : je.1 < g.n ∧ je.2 < g.edges.length ∧ v < g.n := by
  obtain ⟨a, b, he, h⟩ := mem_incident.1 h
  have hlt : je.2 < g.edges.length := by
    rcases Nat.lt_or_ge je.2 g.edges.length with h | h
    · exact h
    · rw [List.getElem?_eq_none h] at he; cases he
  have hm : (a, b) ∈ g.edges := List.mem_of_getElem? he
  have := List.all_eq_true.1 hwf _ hm
  simp only [Bool.and_eq_true, decide_eq_true_eq] at this
  rcases h with ⟨h1, h2⟩ | ⟨h1, h2⟩ <;> (subst h1; rw [h2]; exact ⟨by omega, hlt, by omega⟩)

/-! ### declarations -/

/-- Bounds demanded by a block of `int_array` declarations followed by Boolean ones. -/
theorem sat_rank_decls {n : Nat} {lo hi : Int} {rest : List VarDecl} (hrest : ∀ d ∈ rest, d = .bool)
    (r : Nat → Int) :
    (∀ k lo' hi', (List.replicate n (VarDecl.int lo hi) ++ rest)[k]? = some (.int lo' hi') →
        lo' ≤ r k ∧ r k ≤ hi') ↔ ∀ i, i < n → lo ≤ r i ∧ r i ≤ hi := by
  constructor
  · intro h i hi'
    apply h i lo hi
    rw [List.getElem?_append_left (by simpa using hi')]
    simp [hi']
  · intro h k lo' hi' hk
    by_cases hkn : k < n
    · rw [List.getElem?_append_left (by simpa using hkn)] at hk
      simp [hkn] at hk
      obtain ⟨rfl, rfl⟩ := hk
      exact h k hkn
    · rw [List.getElem?_append_right (by simpa using hkn)] at hk
      have := hrest _ (List.mem_of_getElem? hk)
      cases this

end Cspuz.Proofs
