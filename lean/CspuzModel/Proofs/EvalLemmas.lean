/-
  Reusable lemmas about the reference semantics `eval`, the DSL constructors (`countTrue`, `andPy`,
  `thenRaw`, comparisons), well-typedness (`wtB`/`wtI`), variable locality (`varsBelow`), and
  `List.mapM` in the `Except` monad.  Core Lean only.
-/
import CspuzModel.Model.Graph
import CspuzModel.Spec.Sat
namespace Cspuz.Proofs
open Cspuz Cspuz.Spec

/-! ### `Except` / `List.mapM` -/

theorem bind_eq_ok {ε α β : Type} {x : Except ε α} {f : α → Except ε β} {b : β} :
    (x >>= f) = .ok b ↔ ∃ a, x = .ok a ∧ f a = .ok b := by
  cases x with
  | error e => simp [bind, Except.bind]
  | ok a => simp [bind, Except.bind]

theorem mapM_eq_ok_iff {ε α β : Type} {f : α → Except ε β} :
    ∀ {l : List α} {r : List β}, l.mapM f = .ok r ↔ List.Forall₂ (fun x y => f x = .ok y) l r
  | [], r => by
    cases r <;> simp [pure, Except.pure]
  | x :: l, r => by
    rw [List.mapM_cons, bind_eq_ok]
    constructor
    · rintro ⟨y, hy, h⟩
      rw [bind_eq_ok] at h
      obtain ⟨ys, hys, h⟩ := h
      cases h
      exact List.Forall₂.cons hy (mapM_eq_ok_iff.1 hys)
    · intro h
      cases h with
      | cons hy hys =>
        exact ⟨_, hy, by rw [mapM_eq_ok_iff.2 hys]; rfl⟩

end Cspuz.Proofs
