/-
  C16 / compass: the URL round trip of cspuz/puzzle/compass.py (`to_puzz_link_url` / `parse_puzz_link_url`, with patch D13:
  width and height bound in the right order), and the reading of the written body by the independent pzpr decoder.

  * C16CompassA: the explicit body `bodyOf h w pos` (gaps `g`..`z`, clue cells of four number tokens).
  * C16CompassB: `compass_url`   – the encoder writes that body.
  * C16CompassC: `compass_parse` – the parser reads it back as `(h, w, pos)`.
  * C16CompassD: `compass_pzpr`  – `Pzpr.decodeCompass` reads it as `compassBoard h w pos`.

  Numbers: -1 (none) or 0..4095 (`CompassClueOk`).  `encode_array` writes a number in 256..4095 as `+xxx`; the unchanged
  `parse_puzz_link_url` cannot read that form (`int("+", 16)` raises `ValueError`, defect D14).  The model follows the
  FIXED parser (patch D14: a `+` branch reading three hexadecimal digits), so the round trip covers the whole range;
  `plus_form_written` / `plus_form_read` / `plus_form_pzpr` below show the `+100...` URL going round.
-/
import CspuzModel.Proofs.C16CompassB
import CspuzModel.Proofs.C16CompassC
import CspuzModel.Proofs.C16CompassD
namespace Cspuz.Proofs.C16Compass
open Cspuz Cspuz.Ser Cspuz.Codecs Cspuz.C16F Cspuz.Proofs.C16CompassA

theorem compass_url (h w : Nat) (pos : List CompassClue) (hok : ∀ c ∈ pos, CompassClueOk h w c)
    (hs : CompassSorted w pos) :
    compassToPuzzLinkUrl h w pos
      = .ok (puzzLinkPrefix ++ strOfString "compass" ++ [47] ++ toBase 10 w ++ [47] ++ toBase 10 h ++ [47]
          ++ bodyOf h w pos) :=
  C16CompassB.compass_url h w pos hok hs

theorem compass_parse (h w : Nat) (pos : List CompassClue) (hok : ∀ c ∈ pos, CompassClueOk h w c)
    (hs : CompassSorted w pos) (hdh : DecimalOk h) (hdw : DecimalOk w) :
    compassParsePuzzLinkUrl (puzzLinkPrefix ++ strOfString "compass" ++ [47] ++ toBase 10 w ++ [47] ++ toBase 10 h ++ [47]
        ++ bodyOf h w pos)
      = .ok ((h : Int), (w : Int), pos) :=
  C16CompassC.compass_parse h w pos hok hs hdh hdw

theorem compass_pzpr (h w : Nat) (pos : List CompassClue) (hok : ∀ c ∈ pos, CompassClueOk h w c)
    (hs : CompassSorted w pos) :
    Pzpr.decodeCompass h w (bodyOf h w pos) = some (compassBoard h w pos) :=
  C16CompassD.compass_pzpr h w pos hok hs

/-- the round trip: what `to_puzz_link_url` writes, `parse_puzz_link_url` reads back as the same problem, and the
independent pzpr decoder reads the body as the same board -/
theorem compass_roundtrip (h w : Nat) (pos : List CompassClue) (hok : ∀ c ∈ pos, CompassClueOk h w c)
    (hs : CompassSorted w pos) (hdh : DecimalOk h) (hdw : DecimalOk w) :
    ∃ body, compassToPuzzLinkUrl h w pos
        = .ok (puzzLinkPrefix ++ strOfString "compass" ++ [47] ++ toBase 10 w ++ [47] ++ toBase 10 h ++ [47] ++ body) ∧
      compassParsePuzzLinkUrl (puzzLinkPrefix ++ strOfString "compass" ++ [47] ++ toBase 10 w ++ [47] ++ toBase 10 h ++ [47] ++ body)
        = .ok ((h : Int), (w : Int), pos) ∧
      Pzpr.decodeCompass h w body = some (compassBoard h w pos) :=
  ⟨bodyOf h w pos, compass_url h w pos hok hs, compass_parse h w pos hok hs hdh hdw, compass_pzpr h w pos hok hs⟩

/-! ### the `+xxx` form (numbers 256..4095; readable since patch D14) -/

/-- `to_puzz_link_url(1, 1, [(0, 0, 256, -1, -1, -1)])` is `https://puzz.link/p?compass/1/1/+100...` -/
theorem plus_form_written : compassToPuzzLinkUrl 1 1 [⟨0, 0, 256, -1, -1, -1⟩]
    = .ok (puzzLinkPrefix ++ strOfString "compass" ++ [47] ++ toBase 10 1 ++ [47] ++ toBase 10 1 ++ [47]
        ++ strOfString "+100...") := by rfl

/-- … and the (patched) `parse_puzz_link_url` reads that URL back -/
theorem plus_form_read :
    compassParsePuzzLinkUrl (puzzLinkPrefix ++ strOfString "compass" ++ [47] ++ toBase 10 1 ++ [47] ++ toBase 10 1 ++ [47]
        ++ strOfString "+100...") = .ok (1, 1, [⟨0, 0, 256, -1, -1, -1⟩]) := by rfl

/-- … as does the pzpr decoder -/
theorem plus_form_pzpr :
    Pzpr.decodeCompass 1 1 (strOfString "+100...") = some [[some (256, -1, -1, -1)]] := by rfl

/-- what the unchanged parser stumbled over: `int("+", 16)` -/
example : pyIntHex (strOfString "+") = .raised .valueError := by rfl

end Cspuz.Proofs.C16Compass
