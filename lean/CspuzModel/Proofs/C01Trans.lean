/-
  C01, translation layer: `_convert_expr` (model `convertExpr`) is faithful on well-typed trees.
-/
import CspuzModel.Proofs.EvalLemmas
import CspuzModel.Model.Solver
namespace Cspuz.Proofs.C01Trans
open Cspuz Cspuz.Proofs

/-! ### z3 term semantics -/

theorem zevalList_eq_map (σ : Asg) : ∀ l : List ZT, zevalList σ l = l.map (zeval σ)
  | [] => by simp [zevalList]
  | a :: r => by simp [zevalList, zevalList_eq_map σ r]

@[simp] theorem zeval_term (σ : Asg) (r : ZV) : zeval σ r.term = r.val σ := by
  cases r <;> simp [ZV.term, ZV.val, zeval]

@[simp] theorem val_t (σ : Asg) (x : ZT) : (ZV.t x).val σ = zeval σ x := rfl
@[simp] theorem val_pyB (σ : Asg) (b : Bool) : (ZV.pyB b).val σ = some (.b b) := rfl
@[simp] theorem val_pyI (σ : Asg) (n : Int) : (ZV.pyI n).val σ = some (.i n) := rfl

theorem zevalList_terms (σ : Asg) (rs : List ZV) :
    zevalList σ (rs.map ZV.term) = rs.map (ZV.val σ) := by
  rw [zevalList_eq_map, List.map_map]
  apply List.map_congr_left
  intro r _; simp

/-- The list of values of converted operands, when they are integers. -/
def IntVals (σ : Asg) (rs : List ZV) (ns : List Int) : Prop :=
  rs.map (ZV.val σ) = ns.map fun n => some (.i n)

def BoolVals (σ : Asg) (rs : List ZV) (bs : List Bool) : Prop :=
  rs.map (ZV.val σ) = bs.map fun b => some (.b b)

/-! ### arithmetic -/

theorem zArith_spec (σ : Asg) (sub : Bool) {a b : ZV} {x y : Int}
    (ha : a.val σ = some (.i x)) (hb : b.val σ = some (.i y)) :
    ∃ r, zArith sub a b = .ok r ∧ r.val σ = some (.i (if sub then x - y else x + y)) := by
  cases a with
  | pyB v => simp [ZV.val] at ha
  | pyI n =>
    cases b with
    | pyB v => simp [ZV.val] at hb
    | pyI m =>
      simp only [ZV.val, Option.some.injEq, Val.i.injEq] at ha hb
      subst ha hb
      exact ⟨_, rfl, rfl⟩
    | t q =>
      refine ⟨_, rfl, ?_⟩
      simp only [ZV.val, Option.some.injEq, Val.i.injEq] at ha hb
      subst ha
      cases sub <;> simp [ZV.val, zeval, ZV.term, hb]
  | t p =>
    cases b with
    | pyB v => simp [ZV.val] at hb
    | pyI m =>
      refine ⟨_, rfl, ?_⟩
      simp only [ZV.val, Option.some.injEq, Val.i.injEq] at ha hb
      subst hb
      cases sub <;> simp [ZV.val, zeval, ZV.term, ha]
    | t q =>
      refine ⟨_, rfl, ?_⟩
      simp only [ZV.val] at ha hb
      cases sub <;> simp [ZV.val, zeval, ZV.term, ha, hb]

theorem zFold_spec (σ : Asg) (sub : Bool) : ∀ (rs : List ZV) (ns : List Int) (acc : ZV) (a : Int),
    acc.val σ = some (.i a) → IntVals σ rs ns →
    ∃ r, zFold sub acc rs = .ok r ∧
      r.val σ = some (.i (ns.foldl (fun x y => if sub then x - y else x + y) a))
  | [], ns, acc, a, ha, h => by
    cases ns with
    | nil => exact ⟨acc, rfl, by simpa using ha⟩
    | cons n ns => simp [IntVals] at h
  | x :: rs, ns, acc, a, ha, h => by
    cases ns with
    | nil => simp [IntVals] at h
    | cons n ns =>
      simp only [IntVals, List.map_cons, List.cons.injEq] at h
      obtain ⟨r1, h1, v1⟩ := zArith_spec σ sub ha h.1
      obtain ⟨r, h2, v2⟩ := zFold_spec σ sub rs ns r1 _ v1 h.2
      refine ⟨r, ?_, by simpa using v2⟩
      rw [zFold, h1]; exact h2

theorem convertOp_add (σ : Asg) {rs : List ZV} {ns : List Int} (h : IntVals σ rs ns) (hne : rs ≠ []) :
    ∃ r, convertOp .add rs = .ok r ∧ r.val σ = evalOp .add (rs.map (ZV.val σ)) := by
  cases rs with
  | nil => exact absurd rfl hne
  | cons x rs =>
    cases ns with
    | nil => simp [IntVals] at h
    | cons n ns =>
      rw [h]
      have h' := h
      simp only [IntVals, List.map_cons, List.cons.injEq] at h'
      obtain ⟨r, hr, hv⟩ := zFold_spec σ false rs ns x n h'.1 h'.2
      refine ⟨r, hr, ?_⟩
      have := allInts_map_some (n :: ns)
      simp only [List.map_cons] at this
      simp only [List.map_cons, evalOp, this]
      simpa using hv

theorem convertOp_sub (σ : Asg) {rs : List ZV} {ns : List Int} (h : IntVals σ rs ns) (hne : rs ≠ []) :
    ∃ r, convertOp .sub rs = .ok r ∧ r.val σ = evalOp .sub (rs.map (ZV.val σ)) := by
  cases rs with
  | nil => exact absurd rfl hne
  | cons x rs =>
    cases ns with
    | nil => simp [IntVals] at h
    | cons n ns =>
      rw [h]
      have h' := h
      simp only [IntVals, List.map_cons, List.cons.injEq] at h'
      obtain ⟨r, hr, hv⟩ := zFold_spec σ true rs ns x n h'.1 h'.2
      refine ⟨r, hr, ?_⟩
      have := allInts_map_some (n :: ns)
      simp only [List.map_cons] at this
      simp only [List.map_cons, evalOp, this]
      simpa using hv

theorem convertOp_neg (σ : Asg) {x : ZV} {n : Int} (h : x.val σ = some (.i n)) :
    ∃ r, convertOp .neg [x] = .ok r ∧ r.val σ = evalOp .neg [x.val σ] := by
  rw [h]
  cases x with
  | pyB v => simp [ZV.val] at h
  | pyI m =>
    simp only [ZV.val, Option.some.injEq, Val.i.injEq] at h
    subst h
    exact ⟨_, rfl, rfl⟩
  | t p =>
    refine ⟨_, rfl, ?_⟩
    simp only [ZV.val] at h
    simp [ZV.val, zeval, h, evalOp]

/-! ### comparisons -/

theorem zCmp_spec (σ : Asg) (op : Op) {a b : ZV} {x y : Int}
    (ha : a.val σ = some (.i x)) (hb : b.val σ = some (.i y)) :
    ∃ r, zCmp op a b = .ok r ∧ r.val σ = some (.b (cmpOp op x y)) := by
  cases a with
  | pyB v => simp [ZV.val] at ha
  | pyI n =>
    cases b with
    | pyB v => simp [ZV.val] at hb
    | pyI m =>
      simp only [ZV.val, Option.some.injEq, Val.i.injEq] at ha hb
      subst ha hb
      exact ⟨_, rfl, rfl⟩
    | t q =>
      refine ⟨_, rfl, ?_⟩
      simp only [ZV.val, Option.some.injEq, Val.i.injEq] at ha hb
      subst ha
      simp [ZV.val, zeval, ZV.term, hb]
  | t p =>
    cases b with
    | pyB v => simp [ZV.val] at hb
    | pyI m =>
      refine ⟨_, rfl, ?_⟩
      simp only [ZV.val, Option.some.injEq, Val.i.injEq] at ha hb
      subst hb
      simp [ZV.val, zeval, ZV.term, ha]
    | t q =>
      refine ⟨_, rfl, ?_⟩
      simp only [ZV.val] at ha hb
      simp [ZV.val, zeval, ZV.term, ha, hb]

theorem convertOp_cmp (σ : Asg) {op : Op} (hop : op.isCmp = true) {a b : ZV} {x y : Int}
    (ha : a.val σ = some (.i x)) (hb : b.val σ = some (.i y)) :
    ∃ r, convertOp op [a, b] = .ok r ∧ r.val σ = evalOp op [a.val σ, b.val σ] := by
  obtain ⟨r, hr, hv⟩ := zCmp_spec σ op ha hb
  refine ⟨r, ?_, ?_⟩
  · cases op <;> simp [Op.isCmp] at hop <;> exact hr
  · rw [ha, hb, evalOp_cmp hop]; exact hv

/-! ### Boolean connectives -/

theorem convertOp_and (σ : Asg) (rs : List ZV) :
    ∃ r, convertOp .and rs = .ok r ∧ r.val σ = evalOp .and (rs.map (ZV.val σ)) := by
  refine ⟨.t (.and (rs.map ZV.term)), by simp [convertOp], ?_⟩
  simp only [val_t, zeval, zevalList_terms, evalOp]
  rfl

theorem convertOp_or (σ : Asg) (rs : List ZV) :
    ∃ r, convertOp .or rs = .ok r ∧ r.val σ = evalOp .or (rs.map (ZV.val σ)) := by
  refine ⟨.t (.or (rs.map ZV.term)), by simp [convertOp], ?_⟩
  simp only [val_t, zeval, zevalList_terms, evalOp]
  rfl

theorem convertOp_not (σ : Asg) {x : ZV} {v : Bool} (h : x.val σ = some (.b v)) :
    ∃ r, convertOp .not [x] = .ok r ∧ r.val σ = evalOp .not [x.val σ] := by
  refine ⟨_, rfl, ?_⟩
  simp [zeval, h, evalOp]

theorem convertOp_xor (σ : Asg) {a b : ZV} {x y : Bool}
    (ha : a.val σ = some (.b x)) (hb : b.val σ = some (.b y)) :
    ∃ r, convertOp .xor [a, b] = .ok r ∧ r.val σ = evalOp .xor [a.val σ, b.val σ] := by
  refine ⟨_, rfl, ?_⟩
  simp [zeval, ha, hb, evalOp, allBools]

theorem convertOp_imp (σ : Asg) {a b : ZV} {x y : Bool}
    (ha : a.val σ = some (.b x)) (hb : b.val σ = some (.b y)) :
    ∃ r, convertOp .imp [a, b] = .ok r ∧ r.val σ = evalOp .imp [a.val σ, b.val σ] := by
  refine ⟨_, rfl, ?_⟩
  simp [zeval, zevalList, ha, hb, evalOp, allBools]

theorem convertOp_iff (σ : Asg) {a b : ZV} {x y : Bool}
    (ha : a.val σ = some (.b x)) (hb : b.val σ = some (.b y)) :
    ∃ r, convertOp .iff [a, b] = .ok r ∧ r.val σ = evalOp .iff [a.val σ, b.val σ] := by
  rw [ha, hb]
  cases a with
  | pyI n => simp [ZV.val] at ha
  | pyB v =>
    cases b with
    | pyI m => simp [ZV.val] at hb
    | pyB w =>
      simp only [ZV.val, Option.some.injEq, Val.b.injEq] at ha hb
      subst ha hb
      exact ⟨_, rfl, by simp [ZV.val, evalOp, allBools]⟩
    | t q =>
      refine ⟨_, rfl, ?_⟩
      simp only [ZV.val, Option.some.injEq, Val.b.injEq] at ha hb
      subst ha
      simp [ZV.val, zeval, ZV.term, hb, evalOp, allBools]
  | t p =>
    refine ⟨.t (.beq p b.term), by cases b <;> rfl, ?_⟩
    simp only [val_t] at ha
    simp [zeval, ha, hb, evalOp, allBools]

theorem convertOp_ite (σ : Asg) {c a b : ZV} {v : Bool} {x y : Int}
    (hc : c.val σ = some (.b v)) (ha : a.val σ = some (.i x)) (hb : b.val σ = some (.i y)) :
    ∃ r, convertOp .ite [c, a, b] = .ok r ∧ r.val σ = evalOp .ite [c.val σ, a.val σ, b.val σ] := by
  refine ⟨_, rfl, ?_⟩
  simp [zeval, hc, ha, hb, evalOp]

/-! ### alldiff -/

theorem pyDistinct_spec (σ : Asg) : ∀ (rs : List ZV) (ns : List Int), IntVals σ rs ns →
    rs.any ZV.isTerm = false → pyDistinct rs = some ns
  | [], ns, h, _ => by
    cases ns with
    | nil => rfl
    | cons n ns => simp [IntVals] at h
  | x :: rs, ns, h, ht => by
    cases ns with
    | nil => simp [IntVals] at h
    | cons n ns =>
      simp only [IntVals, List.map_cons, List.cons.injEq] at h
      simp only [List.any_cons, Bool.or_eq_false_iff] at ht
      have ih := pyDistinct_spec σ rs ns h.2 ht.2
      cases x with
      | pyB v => simp [ZV.val] at h
      | t p => simp [ZV.isTerm] at ht
      | pyI m =>
        have : m = n := by simpa [ZV.val] using h.1
        subst this
        simp [pyDistinct, ih]

theorem convertOp_alldiff (σ : Asg) {rs : List ZV} {ns : List Int} (h : IntVals σ rs ns) :
    ∃ r, convertOp .alldiff rs = .ok r ∧ r.val σ = evalOp .alldiff (rs.map (ZV.val σ)) := by
  have hev : evalOp .alldiff (rs.map (ZV.val σ)) = some (.b (allDistinct ns)) := by
    rw [h]; simp [evalOp]
  rw [hev]
  by_cases ht : rs.any ZV.isTerm = true
  · refine ⟨.t (.distinct (rs.map ZV.term)), by simp [convertOp, ht], ?_⟩
    simp only [val_t, zeval, zevalList_terms]
    rw [h]; simp
  · have ht' : rs.any ZV.isTerm = false := by simpa using ht
    refine ⟨.pyB (allDistinct ns), ?_, rfl⟩
    simp only [convertOp, ht', Bool.false_eq_true, if_false, pyDistinct_spec σ rs ns h ht']

/-! ### the structural induction -/

theorem convertExpr_node (op : Op) (args : List Expr) {rs : List ZV} (h : convertList args = .ok rs) :
    convertExpr (.node op args) = convertOp op rs := by
  rw [convertExpr, h]; rfl

mutual
theorem convB (σ : Asg) : ∀ e : Expr, wtB e = true → ∃ r, convertExpr e = .ok r ∧ r.val σ = eval σ e
  | .bvar _, _ => ⟨_, by rw [convertExpr], by simp [ZV.val, zeval]⟩
  | .litB _, _ => ⟨_, by rw [convertExpr], by simp [ZV.val]⟩
  | .ivar _, h => by simp [wtB] at h
  | .litI _, h => by simp [wtB] at h
  | .litNone, h => by simp [wtB] at h
  | .node op args, h => by
    rw [eval_node]
    cases op <;> simp only [wtB, Bool.and_eq_true, beq_iff_eq, Bool.false_eq_true] at h
    case boolConst =>
      split at h
      · rename_i b
        exact ⟨.pyB b, by simp [convertExpr, convertList, convertOp, bind, Except.bind], by simp [evalOp]⟩
      · cases h
    case eq | ne | le | lt | ge | gt =>
      all_goals
        obtain ⟨rs, hrs, hv⟩ := convIs σ args h.2
        obtain ⟨ns, hns⟩ := wtIs_eval σ args h.2
        rw [convertExpr_node _ _ hrs, ← hv]
        have hl : rs.length = 2 := by
          have := congrArg List.length hv; simp at this; omega
        have hiv : IntVals σ rs ns := hv.trans hns
        match rs, ns, hl, hiv with
        | [a, b], [x, y], _, hiv =>
          simp only [IntVals, List.map_cons, List.map_nil, List.cons.injEq, and_true] at hiv
          exact convertOp_cmp σ rfl hiv.1 hiv.2
        | [a, b], [], _, hiv => simp [IntVals] at hiv
        | [a, b], [_], _, hiv => simp [IntVals] at hiv
        | [a, b], _ :: _ :: _ :: _, _, hiv => simp [IntVals] at hiv
    case not =>
      obtain ⟨rs, hrs, hv⟩ := convBs σ args h.2
      obtain ⟨bs, hbs⟩ := wtBs_eval σ args h.2
      rw [convertExpr_node _ _ hrs, ← hv]
      have hl : rs.length = 1 := by
        have := congrArg List.length hv; simp at this; omega
      have hiv : BoolVals σ rs bs := hv.trans hbs
      match rs, bs, hl, hiv with
      | [a], [x], _, hiv =>
        simp only [BoolVals, List.map_cons, List.map_nil, List.cons.injEq, and_true] at hiv
        exact convertOp_not σ hiv
      | [a], [], _, hiv => simp [BoolVals] at hiv
      | [a], _ :: _ :: _, _, hiv => simp [BoolVals] at hiv
    case and =>
      obtain ⟨rs, hrs, hv⟩ := convBs σ args h
      rw [convertExpr_node _ _ hrs, ← hv]
      exact convertOp_and σ rs
    case or =>
      obtain ⟨rs, hrs, hv⟩ := convBs σ args h
      rw [convertExpr_node _ _ hrs, ← hv]
      exact convertOp_or σ rs
    case iff | xor | imp =>
      all_goals
        obtain ⟨rs, hrs, hv⟩ := convBs σ args h.2
        obtain ⟨bs, hbs⟩ := wtBs_eval σ args h.2
        rw [convertExpr_node _ _ hrs, ← hv]
        have hl : rs.length = 2 := by
          have := congrArg List.length hv; simp at this; omega
        have hiv : BoolVals σ rs bs := hv.trans hbs
        match rs, bs, hl, hiv with
        | [a, b], [x, y], _, hiv =>
          simp only [BoolVals, List.map_cons, List.map_nil, List.cons.injEq, and_true] at hiv
          first
            | exact convertOp_iff σ hiv.1 hiv.2
            | exact convertOp_xor σ hiv.1 hiv.2
            | exact convertOp_imp σ hiv.1 hiv.2
        | [a, b], [], _, hiv => simp [BoolVals] at hiv
        | [a, b], [_], _, hiv => simp [BoolVals] at hiv
        | [a, b], _ :: _ :: _ :: _, _, hiv => simp [BoolVals] at hiv
    case alldiff =>
      obtain ⟨rs, hrs, hv⟩ := convIs σ args h
      obtain ⟨ns, hns⟩ := wtIs_eval σ args h
      rw [convertExpr_node _ _ hrs, ← hv]
      exact convertOp_alldiff σ (hv.trans hns)
theorem convI (σ : Asg) : ∀ e : Expr, wtI e = true → ∃ r, convertExpr e = .ok r ∧ r.val σ = eval σ e
  | .ivar _, _ => ⟨_, by rw [convertExpr], by simp [ZV.val, zeval]⟩
  | .litI _, _ => ⟨_, by rw [convertExpr], by simp [ZV.val]⟩
  | .bvar _, h => by simp [wtI] at h
  | .litB _, h => by simp [wtI] at h
  | .litNone, h => by simp [wtI] at h
  | .node op args, h => by
    cases op <;> (try simp only [wtI, Bool.and_eq_true, beq_iff_eq, bne_iff_ne, Bool.false_eq_true] at h)
    case intConst =>
      rw [eval_node]
      split at h
      · rename_i n
        exact ⟨.pyI n, by simp [convertExpr, convertList, convertOp, bind, Except.bind], by simp [evalOp]⟩
      · cases h
    case neg =>
      rw [eval_node]
      obtain ⟨rs, hrs, hv⟩ := convIs σ args h.2
      obtain ⟨ns, hns⟩ := wtIs_eval σ args h.2
      rw [convertExpr_node _ _ hrs, ← hv]
      have hl : rs.length = 1 := by
        have := congrArg List.length hv; simp at this; omega
      have hiv : IntVals σ rs ns := hv.trans hns
      match rs, ns, hl, hiv with
      | [a], [x], _, hiv =>
        simp only [IntVals, List.map_cons, List.map_nil, List.cons.injEq, and_true] at hiv
        exact convertOp_neg σ hiv
      | [a], [], _, hiv => simp [IntVals] at hiv
      | [a], _ :: _ :: _, _, hiv => simp [IntVals] at hiv
    case add =>
      rw [eval_node]
      obtain ⟨rs, hrs, hv⟩ := convIs σ args h.2
      obtain ⟨ns, hns⟩ := wtIs_eval σ args h.2
      rw [convertExpr_node _ _ hrs, ← hv]
      refine convertOp_add σ (hv.trans hns) ?_
      intro h0; subst h0
      have := congrArg List.length hv; simp at this
      exact h.1 this.symm
    case sub =>
      rw [eval_node]
      obtain ⟨rs, hrs, hv⟩ := convIs σ args h.2
      obtain ⟨ns, hns⟩ := wtIs_eval σ args h.2
      rw [convertExpr_node _ _ hrs, ← hv]
      refine convertOp_sub σ (hv.trans hns) ?_
      intro h0; subst h0
      have := congrArg List.length hv; simp at this
      exact h.1 this.symm
    case ite =>
      match args, h with
      | [], h | [_], h | [_, _], h | _ :: _ :: _ :: _ :: _, h => simp [wtI] at h
      | [c, t, f], h =>
        simp only [wtI, Bool.and_eq_true] at h
        obtain ⟨rc, hrc, hvc⟩ := convB σ c h.1.1
        obtain ⟨rt, hrt, hvt⟩ := convI σ t h.1.2
        obtain ⟨rf, hrf, hvf⟩ := convI σ f h.2
        obtain ⟨b, hb⟩ := wtB_eval σ c h.1.1
        obtain ⟨x, hx⟩ := wtI_eval σ t h.1.2
        obtain ⟨y, hy⟩ := wtI_eval σ f h.2
        have hl : convertList [c, t, f] = .ok [rc, rt, rf] := by
          simp [convertList, hrc, hrt, hrf, bind, Except.bind]
        rw [convertExpr_node _ _ hl, eval_node]
        simp only [List.map_cons, List.map_nil, ← hvc, ← hvt, ← hvf]
        exact convertOp_ite σ (hvc.trans hb) (hvt.trans hx) (hvf.trans hy)
theorem convBs (σ : Asg) : ∀ l : List Expr, wtBs l = true →
    ∃ rs, convertList l = .ok rs ∧ rs.map (ZV.val σ) = l.map (eval σ)
  | [], _ => ⟨[], by rw [convertList], rfl⟩
  | e :: r, h => by
    simp only [wtBs, Bool.and_eq_true] at h
    obtain ⟨x, hx, vx⟩ := convB σ e h.1
    obtain ⟨xs, hxs, vxs⟩ := convBs σ r h.2
    exact ⟨x :: xs, by rw [convertList, hx, hxs]; rfl, by simp [vx, vxs]⟩
theorem convIs (σ : Asg) : ∀ l : List Expr, wtIs l = true →
    ∃ rs, convertList l = .ok rs ∧ rs.map (ZV.val σ) = l.map (eval σ)
  | [], _ => ⟨[], by rw [convertList], rfl⟩
  | e :: r, h => by
    simp only [wtIs, Bool.and_eq_true] at h
    obtain ⟨x, hx, vx⟩ := convI σ e h.1
    obtain ⟨xs, hxs, vxs⟩ := convIs σ r h.2
    exact ⟨x :: xs, by rw [convertList, hx, hxs]; rfl, by simp [vx, vxs]⟩
end

theorem translation_faithful :
    ∀ (e : Expr) (σ : Asg), (wtB e = true ∨ wtI e = true) →
      ∃ r, convertExpr e = .ok r ∧ r.val σ = eval σ e := by
  intro e σ h
  rcases h with h | h
  · exact convB σ e h
  · exact convI σ e h

/-- A list of well-typed constraints converts, pointwise faithfully. -/
theorem convertList_wtB (σ : Asg) : ∀ cs : List Expr, (∀ c ∈ cs, wtB c = true) →
    ∃ zs, convertList cs = .ok zs ∧ zs.map (ZV.val σ) = cs.map (eval σ) := by
  intro cs h
  apply convBs
  induction cs with
  | nil => rfl
  | cons c cs ih =>
    simp only [wtBs, Bool.and_eq_true]
    exact ⟨h c (by simp), ih (fun c hc => h c (by simp [hc]))⟩

end Cspuz.Proofs.C01Trans
