/-
  C15: first-character analysis of combinator terms (what a term can emit, what its decoder can accept) and the
  bound on consumed items; the semantic content of `distinguishable`, `startsND`.
-/
import CspuzModel.Proofs.C15Comp
import CspuzModel.Proofs.C15Leaves
set_option linter.unusedVariables false
namespace Cspuz.Ser
open Cspuz

/-! ### ranges -/

theorem Ranges.mem_append (x : Nat) (a b : Ranges) : Ranges.mem x (a ++ b) = (Ranges.mem x a || Ranges.mem x b) := by
  simp [Ranges.mem, List.any_append]

theorem Ranges.mem_of_disjoint {a b : Ranges} (h : Ranges.disjoint a b = true) {x : Nat} (hx : Ranges.mem x a = true) :
    Ranges.mem x b = false := by
  simp only [Ranges.disjoint, List.all_eq_true] at h
  simp only [Ranges.mem, List.any_eq_true] at hx
  obtain ⟨r, hr, hrx⟩ := hx
  simp only [Ranges.mem]
  rw [Bool.eq_false_iff]
  intro hb
  simp only [List.any_eq_true] at hb
  obtain ⟨q, hq, hqx⟩ := hb
  have := h r hr q hq
  simp at hrx hqx this
  omega

theorem Ranges.mem_headRange (s : Str) (x : Nat) (r : Str) (h : s = x :: r) : Ranges.mem x (headRange s) = true := by
  subst h; simp [headRange, Ranges.mem]

theorem Ranges.mem_headRange_iff (s : Str) (x : Nat) : Ranges.mem x (headRange s) = true ↔ s.head? = some x := by
  cases s with
  | nil => simp [headRange, Ranges.mem]
  | cons c r => simp [headRange, Ranges.mem]; omega

theorem mem_digitCharRanges (lo hi v : Nat) (h1 : lo ≤ v) (h2 : v ≤ hi) (h3 : hi ≤ 35) :
    Ranges.mem (digitChar v) (digitCharRanges lo hi) = true := by
  unfold digitCharRanges digitChar Ranges.mem
  rw [List.any_append]
  by_cases hv : v < 10
  · have hlo : lo ≤ 9 := by omega
    simp only [hv, hlo, if_true, List.any_cons, List.any_nil, Bool.or_false, Bool.or_eq_true, Bool.and_eq_true, decide_eq_true_eq]
    left
    constructor <;> omega
  · have hhi : 10 ≤ hi := by omega
    simp only [hv, hhi, if_true, if_false, List.any_cons, List.any_nil, Bool.or_false, Bool.or_eq_true, Bool.and_eq_true, decide_eq_true_eq]
    right
    constructor <;> omega

theorem not_mem_digitCharRanges (lo hi c : Nat) (hc : isAlnumLower c = true) (h3 : hi ≤ 35)
    (h : Ranges.mem c (digitCharRanges lo hi) = false) : ¬ (lo ≤ charVal c ∧ charVal c ≤ hi) := by
  unfold digitCharRanges Ranges.mem at h
  unfold isAlnumLower at hc
  unfold charVal
  simp at h hc
  intro ⟨h1, h2⟩
  rcases hc with hc | hc
  · have hle : c ≤ 57 := hc.2
    simp [hle] at h1 h2
    have := h.1 (by omega)
    omega
  · have hle : ¬ c ≤ 57 := by omega
    simp [hle] at h1 h2
    have := h.2 (by omega)
    omega

theorem mem_alnumRanges (c : Nat) : Ranges.mem c alnumRanges = isAlnumLower c := by
  simp [Ranges.mem, alnumRanges, isAlnumLower]

/-! ### numerals -/

theorem digitsAux_all_lt (b : Nat) (hb : 0 < b) : ∀ fuel n acc, (∀ x ∈ acc, x < b) → ∀ x ∈ digitsAux b fuel n acc, x < b := by
  intro fuel
  induction fuel with
  | zero => intro n acc h; simpa [digitsAux] using h
  | succ fuel ih =>
    intro n acc h
    unfold digitsAux
    split
    · intro x hx
      cases hx with
      | head => assumption
      | tail _ hx => exact h x hx
    · apply ih
      intro x hx
      cases hx with
      | head => exact Nat.mod_lt _ hb
      | tail _ hx => exact h x hx

theorem digitsAux_ne_nil (b : Nat) : ∀ fuel n acc, (fuel ≠ 0 ∨ acc ≠ []) → digitsAux b fuel n acc ≠ [] := by
  intro fuel
  induction fuel with
  | zero => intro n acc h; simpa [digitsAux] using h
  | succ fuel ih =>
    intro n acc h
    unfold digitsAux
    split
    · simp
    · apply ih; right; simp

theorem digits_all_lt (b n : Nat) (hb : 0 < b) : ∀ x ∈ digits b n, x < b :=
  digitsAux_all_lt b hb (n + 1) n [] (by simp)

theorem digits_ne_nil' (b n : Nat) : digits b n ≠ [] := digitsAux_ne_nil b (n + 1) n [] (Or.inl (by omega))

theorem toBase_small (b n : Nat) (h : n < b) : toBase b n = [digitChar n] := by
  simp [toBase, digits, digitsAux, h]

/-- the first character of a numeral -/
theorem toBase_head (b n : Nat) (hb : 0 < b) : ∃ d r, toBase b n = digitChar d :: r ∧ d < b := by
  unfold toBase
  have hne := digits_ne_nil' b n
  have hlt := digits_all_lt b n hb
  cases hd : digits b n with
  | nil => exact absurd hd hne
  | cons d r => exact ⟨d, r.map digitChar, by simp, hlt d (by simp [hd])⟩

theorem countRun_le (sp : PyVal) : ∀ l lim, countRun sp l lim ≤ l.length ∧ countRun sp l lim ≤ lim := by
  intro l
  induction l with
  | nil => intro lim; cases lim <;> simp [countRun]
  | cons v r ih =>
    intro lim
    cases lim with
    | zero => simp [countRun]
    | succ lim =>
      simp only [countRun]
      split
      · have := ih lim; simp; omega
      · simp

theorem mdPack_bound (base : Nat) : ∀ k items acc v, (1 ≤ base ∨ k = 0) → mdPack base k items acc = .ok v →
    v + 1 ≤ (acc + 1) * base ^ k := by
  intro k
  induction k with
  | zero => intro items acc v _ h; simp [mdPack] at h; subst h; simp
  | succ k ih =>
    intro items acc v hb h
    have hb1 : 1 ≤ base := by omega
    cases items with
    | nil =>
      simp only [mdPack] at h
      have := ih [] (acc * base) v (Or.inl hb1) h
      calc v + 1 ≤ (acc * base + 1) * base ^ k := this
        _ ≤ ((acc + 1) * base) * base ^ k := by
            apply Nat.mul_le_mul_right
            rw [Nat.add_mul]; omega
        _ = (acc + 1) * base ^ (k + 1) := by rw [Nat.pow_succ, Nat.mul_assoc, Nat.mul_comm base]
    | cons x r =>
      simp only [mdPack] at h
      split at h
      · simp at h
      · rename_i n hn
        split at h
        · rename_i hr
          simp at hr
          have := ih r (acc * base + n.toNat) v (Or.inl hb1) h
          have hnb : n.toNat + 1 ≤ base := by omega
          calc v + 1 ≤ (acc * base + n.toNat + 1) * base ^ k := this
            _ ≤ ((acc + 1) * base) * base ^ k := by
                apply Nat.mul_le_mul_right
                rw [Nat.add_mul]; omega
            _ = (acc + 1) * base ^ (k + 1) := by rw [Nat.pow_succ, Nat.mul_assoc, Nat.mul_comm base]
        · simp at h

/-- what `emitHeads` / `mayEmitEmpty` promise about an emitted text -/
def EmitOK (c : Comb) (t : Str) : Prop :=
  (t = [] → mayEmitEmpty c = true) ∧ ∀ x r, t = x :: r → Ranges.mem x (emitHeads c) = true

theorem oneOfF_eq_ok' {A B : Type} (fs : List (A → Nat → Outcome B)) (a : A) (i : Nat) (b : B)
    (h : oneOfF fs a i = .ok b) : ∃ pre f post, fs = pre ++ f :: post ∧ f a i = .ok b ∧ ∀ g ∈ pre, g a i = .none := by
  induction fs with
  | nil => simp [oneOfF] at h
  | cons f r ih =>
    unfold oneOfF at h
    cases hf : f a i with
    | none =>
      simp only [hf] at h
      obtain ⟨pre, g, post, rfl, hg, hpre⟩ := ih h
      exact ⟨f :: pre, g, post, rfl, hg, by
        intro g' hg'
        cases hg' with
        | head => exact hf
        | tail _ h' => exact hpre g' h'⟩
    | ok r' =>
      simp only [hf] at h
      cases h
      exact ⟨[], f, r, rfl, hf, by simp⟩
    | raised e => simp [hf] at h
    | diverge => simp [hf] at h

theorem isAlnum_toBase36_head (n : Nat) : ∀ x r, toBase 36 n = x :: r → isAlnumLower x = true := by
  intro x r h
  obtain ⟨d, r', hd, hlt⟩ := toBase_head 36 n (by omega)
  rw [hd] at h
  cases h
  exact isAlnumLower_digitChar d hlt

theorem toBase36_eq_ok {n : Int} {t : Str} (h : toBase36 n = .ok t) : 0 ≤ n ∧ t = toBase 36 n.toNat := by
  unfold toBase36 at h
  split at h
  · simp at h
  · cases h; exact ⟨by omega, rfl⟩

/-! #### leaves -/

theorem emit_fixStr (s : Str) (d i k t) (h : fixStrSer s d i = .ok (k, t)) : EmitOK (.fixStr s) t := by
  simp [fixStrSer] at h
  obtain ⟨_, rfl⟩ := h
  constructor
  · intro h; simp [mayEmitEmpty, h]
  · intro x r h; simp [emitHeads]; exact Ranges.mem_headRange _ x r h

theorem dictSerFind_mem (v : PyVal) : ∀ b a k t, dictSerFind v b a = .ok (k, t) → k = 1 ∧ t ∈ a := by
  intro b
  induction b with
  | nil => intro a k t h; simp [dictSerFind] at h
  | cons x b ih =>
    intro a k t h
    cases a with
    | nil => simp [dictSerFind] at h
    | cons y a =>
      simp only [dictSerFind] at h
      split at h
      · cases h; simp
      · have := ih a k t h; exact ⟨this.1, by simp [this.2]⟩

theorem emit_dict (b a d i k t) (h : dictSer b a d i = .ok (k, t)) : EmitOK (.dict b a) t := by
  obtain ⟨v, _, hv⟩ := withItem_eq_ok.mp h
  obtain ⟨_, hta⟩ := dictSerFind_mem v b a k t hv
  constructor
  · intro h0; subst h0; simp only [mayEmitEmpty, List.any_eq_true]; exact ⟨[], hta, by simp⟩
  · intro x r hx
    simp only [emitHeads, Ranges.mem, List.any_eq_true, List.mem_flatMap]
    exact ⟨(x, x), ⟨t, hta, by subst hx; simp [headRange]⟩, by simp⟩

theorem emit_spaces (sp o d i k t) (h : spacesSer sp o d i = .ok (k, t)) : EmitOK (.spaces sp o) t := by
  obtain ⟨v, _, hv⟩ := withItem_eq_ok.mp h
  split at hv
  · simp at hv
  · obtain ⟨t', ht', heq⟩ := Outcome.bind_eq_ok.mp hv
    cases heq
    obtain ⟨hn, rfl⟩ := toBase36_eq_ok ht'
    have hc := (countRun_le sp (d.drop (i + 1)) ((35 - o) - 1).toNat).2
    generalize countRun sp (d.drop (i + 1)) ((35 - o) - 1).toNat = m at *
    constructor
    · intro h0; exact absurd h0 (by simpa [toBase] using digits_ne_nil' 36 _)
    · intro x r hx
      simp only [emitHeads]
      split
      · rename_i ho
        simp at ho
        have hv : (o + ((1 + m : Nat) : Int)).toNat < 36 := by omega
        rw [toBase_small 36 _ hv] at hx
        cases hx
        apply mem_digitCharRanges <;> omega
      · rw [mem_alnumRanges]; exact isAlnum_toBase36_head _ x r hx

theorem emit_decInt (d i k t) (h : decIntSer d i = .ok (k, t)) : EmitOK .decInt t := by
  obtain ⟨v, _, hv⟩ := withItem_eq_ok.mp h
  cases v with
  | int n =>
    simp only at hv
    split at hv
    · simp at hv
    · split at hv
      · simp at hv
      · cases hv
        obtain ⟨dd, r', hd, hlt⟩ := toBase_head 10 n.toNat (by omega)
        constructor
        · intro h0; rw [hd] at h0; simp at h0
        · intro x r hx
          rw [hd] at hx; cases hx
          simp [emitHeads, Ranges.mem, digitChar, show dd < 10 from hlt]
          omega
  | bool b =>
    cases hv
    cases b <;> (constructor <;> simp [boolStr, emitHeads, Ranges.mem, mayEmitEmpty]) 
  | _ => simp at hv

theorem emit_hexInt (d i k t) (h : hexIntSer d i = .ok (k, t)) : EmitOK .hexInt t := by
  obtain ⟨v, _, hv⟩ := withItem_eq_ok.mp h
  split at hv
  · simp at hv
  · rename_i n hn
    split at hv
    · simp at hv
    · rename_i hr
      simp at hr
      cases hv
      by_cases h16 : n < 16
      · have : ¬ (16 ≤ n ∧ n < 256) := by omega
        have h2 : ¬ (256 ≤ n) := by omega
        simp only [Bool.and_eq_true, decide_eq_true_eq, this, if_false, h2, List.nil_append]
        rw [toBase_small 16 _ (by omega)]
        constructor
        · simp
        · intro x r hx; cases hx
          have : n.toNat < 16 := by omega
          by_cases h10 : n.toNat < 10
          · simp [emitHeads, Ranges.mem, digitChar, h10]; omega
          · simp [emitHeads, Ranges.mem, digitChar, h10]; omega
      · by_cases h256 : n < 256
        · have : (16 ≤ n ∧ n < 256) := by omega
          simp only [Bool.and_eq_true, decide_eq_true_eq, this, and_self, if_true]
          constructor
          · intro h0; exact absurd h0 (by simp)
          · intro x r hx
            have hx1 : x = 45 := by have := (List.cons.inj hx).1; exact this.symm
            subst hx1; simp [emitHeads, Ranges.mem]
        · have : ¬ (16 ≤ n ∧ n < 256) := by omega
          have h2 : (256 ≤ n) := by omega
          simp only [Bool.and_eq_true, decide_eq_true_eq, this, if_false, h2, if_true]
          constructor
          · intro h0; exact absurd h0 (by simp)
          · intro x r hx
            have hx1 : x = 43 := by have := (List.cons.inj hx).1; exact this.symm
            subst hx1; simp [emitHeads, Ranges.mem]

theorem emit_toBase36_lt (v bound : Nat) (hb : bound ≤ 36) (hv : v < bound) (hb1 : 1 ≤ bound) :
    ∀ x r, toBase 36 v = x :: r → Ranges.mem x (digitCharRanges 0 (bound - 1)) = true := by
  intro x r hx
  rw [toBase_small 36 v (by omega)] at hx
  cases hx
  apply mem_digitCharRanges <;> omega

theorem emit_intSpaces (sp mi ms d i k t) (h : intSpacesSer sp mi ms d i = .ok (k, t)) :
    EmitOK (.intSpaces sp mi ms) t := by
  obtain ⟨v, _, hv⟩ := withItem_eq_ok.mp h
  split at hv
  · simp at hv
  · rename_i n hn
    split at hv
    · simp at hv
    · rename_i hr
      simp at hr
      cases hv
      have hc := (countRun_le sp (d.drop (i + 1)) ms).2
      generalize countRun sp (d.drop (i + 1)) ms = m at *
      constructor
      · intro h0; exact absurd h0 (by simpa [toBase] using digits_ne_nil' 36 _)
      · intro x r hx
        simp only [emitHeads]
        split
        · rename_i hle
          have hlt : m * (mi + 1) + n.toNat < (mi + 1) * (ms + 1) := by
            have h1 : m * (mi + 1) ≤ ms * (mi + 1) := Nat.mul_le_mul_right _ hc
            have h2 : n.toNat ≤ mi := by omega
            calc m * (mi + 1) + n.toNat ≤ ms * (mi + 1) + mi := by omega
              _ < (mi + 1) * (ms + 1) := by rw [Nat.mul_comm (mi + 1), Nat.add_mul]; omega
          exact emit_toBase36_lt _ _ hle hlt (by omega) x r hx
        · rw [mem_alnumRanges]; exact isAlnum_toBase36_head _ x r hx

theorem emit_multiDigit (b kk d i k t) (h : multiDigitSer b kk d i = .ok (k, t)) : EmitOK (.multiDigit b kk) t := by
  unfold multiDigitSer at h
  split at h
  · simp at h
  · split at h
    · simp at h
    · obtain ⟨v, hv, heq⟩ := Outcome.bind_eq_ok.mp h
      cases heq
      constructor
      · intro h0; exact absurd h0 (by simpa [toBase] using digits_ne_nil' 36 _)
      · intro x r hx
        simp only [emitHeads]
        split
        · rename_i hle
          simp at hle
          have hb : 1 ≤ b ∨ kk = 0 := by
            rcases Nat.eq_zero_or_pos b with hb0 | hb0
            · subst hb0
              rcases Nat.eq_zero_or_pos kk with hk0 | hk0
              · exact Or.inr hk0
              · have : 0 ^ kk = 0 := Nat.zero_pow hk0
                omega
            · exact Or.inl hb0
          have := mdPack_bound b kk (d.drop i) 0 v hb hv
          simp at this
          exact emit_toBase36_lt _ _ hle.2 (by omega) hle.1 x r hx
        · rw [mem_alnumRanges]; exact isAlnum_toBase36_head _ x r hx

theorem emit_yajilin (d i k t) (h : yajilinSer d i = .ok (k, t)) : EmitOK .yajilinClue t := by
  unfold yajilinSer at h
  split at h
  · simp at h
  · split at h
    · simp at h
    · rename_i v hv
      split at h
      · simp at h
      · split at h
        · cases h
          constructor <;> simp [emitHeads, Ranges.mem, mayEmitEmpty]
        · split at h
          · rename_i c rest
            split at h
            · simp at h
            · rename_i dir hdir
              split at h
              · simp at h
              · obtain ⟨n, hn, heq⟩ := Outcome.bind_eq_ok.mp h
                have hdir' : 1 ≤ dir ∧ dir ≤ 4 := by
                  unfold dirOfChar at hdir
                  split at hdir
                  · cases hdir; omega
                  · split at hdir
                    · cases hdir; omega
                    · split at hdir
                      · cases hdir; omega
                      · split at hdir
                        · cases hdir; omega
                        · simp at hdir
                split at heq
                · cases heq
                  constructor
                  · simp
                  · intro x r hx; cases hx; simp [emitHeads, Ranges.mem]; omega
                · split at heq
                  · cases heq
                    constructor
                    · simp
                    · intro x r hx; cases hx; simp [emitHeads, Ranges.mem]; omega
                  · simp at heq
          · simp at h

/-! #### composites: what is emitted -/

theorem emit_oneOf (cs : List Comb) (env : Env) (ih : ∀ c ∈ cs, ∀ d i k t, ser c env d i = .ok (k, t) → EmitOK c t)
    (d i k t) (h : ser (.oneOf cs) env d i = .ok (k, t)) : EmitOK (.oneOf cs) t := by
  simp only [ser, serL_eq_map] at h
  obtain ⟨pre, f, post, hfs, hf, _⟩ := oneOfF_eq_ok' _ d i (k, t) h
  have hmem : f ∈ cs.map (ser · env) := by rw [hfs]; simp
  obtain ⟨c, hc, rfl⟩ := List.mem_map.mp hmem
  have hE := ih c hc d i k t hf
  clear h hfs hf hmem
  induction cs with
  | nil => cases hc
  | cons c' cs ihcs =>
    simp only [mayEmitEmpty, emitHeads, EmitOK] at *
    cases hc with
    | head =>
      constructor
      · intro h0; simp [mayEmitEmptyAny, hE.1 h0]
      · intro x r hx; simp [emitHeadsAny, Ranges.mem_append, hE.2 x r hx]
    | tail _ hc' =>
      have := ihcs (fun c hc => ih c (List.mem_cons_of_mem _ hc)) hc'
      constructor
      · intro h0; simp [mayEmitEmptyAny, this.1 h0]
      · intro x r hx; simp [emitHeadsAny, Ranges.mem_append, this.2 x r hx]

theorem emit_tuplParts (env : Env) : ∀ (es : List Comb) (comps : List PyVal) (t : Str),
    (∀ c ∈ es, ∀ d i k t, ser c env d i = .ok (k, t) → EmitOK c t) →
    tuplSerParts (serL es env) comps = .ok t →
    (t = [] → mayEmitEmptyAll es = true) ∧ ∀ x r, t = x :: r → Ranges.mem x (emitHeadsSeq es) = true := by
  intro es
  induction es with
  | nil => intro comps t _ h; simp [serL, tuplSerParts] at h; subst h; simp [mayEmitEmptyAll]
  | cons e es ih =>
    intro comps t hE h
    cases comps with
    | nil => simp [serL, tuplSerParts] at h
    | cons c comps =>
      simp only [serL, tuplSerParts] at h
      split at h
      · simp at h
      · rename_i l hl
        obtain ⟨r1, hr1, h⟩ := Outcome.bind_eq_ok.mp h
        obtain ⟨t2, ht2, h⟩ := Outcome.bind_eq_ok.mp h
        cases h
        obtain ⟨k1, t1⟩ := r1
        have he := hE e (by simp) l 0 k1 t1 hr1
        have hrest := ih comps t2 (fun c hc => hE c (List.mem_cons_of_mem _ hc)) ht2
        constructor
        · intro h0
          have h1 : t1 = [] := (List.append_eq_nil_iff.mp h0).1
          have h2 : t2 = [] := (List.append_eq_nil_iff.mp h0).2
          simp [mayEmitEmptyAll, he.1 h1, hrest.1 h2]
        · intro x r hx
          simp only [emitHeadsSeq, Ranges.mem_append]
          cases t1 with
          | nil =>
            simp at hx
            simp [he.1 rfl, hrest.2 x r hx]
          | cons y t1' =>
            simp at hx
            simp [he.2 y t1' rfl, ← hx.1]

theorem emit_tupl (es : List Comb) (env : Env) (ih : ∀ c ∈ es, ∀ d i k t, ser c env d i = .ok (k, t) → EmitOK c t)
    (d i k t) (h : ser (.tupl es) env d i = .ok (k, t)) : EmitOK (.tupl es) t := by
  simp only [ser, tuplSer] at h
  obtain ⟨v, _, hv⟩ := withItem_eq_ok.mp h
  cases v with
  | tuple comps =>
    simp only at hv
    split at hv
    · simp at hv
    · obtain ⟨t', ht', heq⟩ := Outcome.bind_eq_ok.mp hv
      cases heq
      simpa [EmitOK, mayEmitEmpty, emitHeads] using emit_tuplParts env es comps t ih ht'
  | _ => simp at hv

/-- the text of a `Seq` loop: starts like a base text, and is empty only if no step was made or a step emitted nothing -/
theorem emit_seqLoop (f : SerF) (b : Comb) (hf : ∀ d i k t, f d i = .ok (k, t) → EmitOK b t) (l : List PyVal) (n : Nat) :
    ∀ fuel p acc t, seqSerLoop f l n fuel p acc = .ok t →
      ∃ t', t = acc ++ t' ∧ (t' = [] → n ≤ p ∨ mayEmitEmpty b = true) ∧
        ∀ x r, t' = x :: r → Ranges.mem x (emitHeads b) = true := by
  intro fuel
  induction fuel with
  | zero => intro p acc t h; simp [seqSerLoop] at h
  | succ fuel ih =>
    intro p acc t h
    unfold seqSerLoop at h
    split at h
    · rename_i hpn
      cases hfp : f l p with
      | none => simp [hfp] at h
      | raised e => simp [hfp] at h
      | diverge => simp [hfp] at h
      | ok r =>
        obtain ⟨k, tk⟩ := r
        simp only [hfp] at h
        split at h
        · simp at h
        · obtain ⟨t'', ht'', h0, hh⟩ := ih (p + k) (acc ++ tk) t h
          have he := hf l p k tk hfp
          refine ⟨tk ++ t'', by simp [ht'', List.append_assoc], ?_, ?_⟩
          · intro hnil
            right
            exact he.1 (List.append_eq_nil_iff.mp hnil).1
          · intro x r hx
            cases tk with
            | nil =>
              simp at hx
              exact hh x r hx
            | cons y tk' =>
              simp at hx
              rw [← hx.1]; exact he.2 y tk' rfl
    · split at h
      · cases h
        exact ⟨[], by simp, fun _ => Or.inl (by omega), by simp⟩
      · simp at h

theorem emit_seq (b : Comb) (n : Nat) (env : Env) (ih : ∀ d i k t, ser b env d i = .ok (k, t) → EmitOK b t)
    (d i k t) (h : ser (.seq b n) env d i = .ok (k, t)) : EmitOK (.seq b n) t := by
  simp only [ser] at h
  obtain ⟨l, _, _, hloop⟩ := seqSer_eq_ok h
  obtain ⟨t', ht', h0, hh⟩ := emit_seqLoop (ser b env) b ih l n (n + 1) 0 [] t hloop
  simp at ht'; subst ht'
  constructor
  · intro hn
    rcases h0 hn with h1 | h1
    · simp [mayEmitEmpty]; left; omega
    · simp [mayEmitEmpty, h1]
  · intro x r hx; simpa [emitHeads] using hh x r hx

theorem emit_grid (b : Comb) (dims : Option (Nat × Nat)) (env : Env)
    (ih : ∀ d i k t, ser b env d i = .ok (k, t) → EmitOK b t)
    (d i k t) (h : ser (.grid b dims) env d i = .ok (k, t)) : EmitOK (.grid b dims) t := by
  simp only [ser, gridSer] at h
  obtain ⟨v, _, hv⟩ := withItem_eq_ok.mp h
  cases v with
  | list rows =>
    simp only at hv
    obtain ⟨flat, _, hs⟩ := Outcome.bind_eq_ok.mp hv
    obtain ⟨l, _, _, hloop⟩ := seqSer_eq_ok hs
    obtain ⟨t', ht', h0, hh⟩ := emit_seqLoop (ser b env) b ih l _ _ 0 [] t hloop
    simp at ht'; subst ht'
    constructor
    · intro hn
      rcases h0 hn with h1 | h1
      · cases dims with
        | none => simp [mayEmitEmpty]
        | some hw =>
          obtain ⟨hh', ww⟩ := hw
          simp [mayEmitEmpty, gridDims] at h1 ⊢
          left; omega
      · simp [mayEmitEmpty, h1]
    · intro x r hx; simpa [emitHeads] using hh x r hx
  | _ => simp at hv

/-- **what a term emits** starts with a character of `emitHeads`, and is empty only if `mayEmitEmpty` -/
theorem emit_heads (env : Env) : ∀ c, noRooms c = true → ∀ d i k t, ser c env d i = .ok (k, t) → EmitOK c t := by
  intro c
  induction c using Comb.ind with
  | fixStr s => intro _ d i k t h; exact emit_fixStr s d i k t (by simpa [ser] using h)
  | dict b a => intro _ d i k t h; exact emit_dict b a d i k t (by simpa [ser] using h)
  | spaces sp o => intro _ d i k t h; exact emit_spaces sp o d i k t (by simpa [ser] using h)
  | decInt => intro _ d i k t h; exact emit_decInt d i k t (by simpa [ser] using h)
  | hexInt => intro _ d i k t h; exact emit_hexInt d i k t (by simpa [ser] using h)
  | intSpaces sp mi ms => intro _ d i k t h; exact emit_intSpaces sp mi ms d i k t (by simpa [ser] using h)
  | multiDigit b kk => intro _ d i k t h; exact emit_multiDigit b kk d i k t (by simpa [ser] using h)
  | oneOf cs ih =>
    intro hn d i k t h
    have hnl : ∀ c ∈ cs, noRooms c = true := by
      simp only [noRooms] at hn
      clear ih h
      induction cs with
      | nil => simp
      | cons c cs ihc =>
        simp only [noRoomsL, Bool.and_eq_true] at hn
        intro c' hc'
        cases hc' with
        | head => exact hn.1
        | tail _ h' => exact ihc hn.2 c' h'
    exact emit_oneOf cs env (fun c hc => ih c hc (hnl c hc)) d i k t h
  | tupl es ih =>
    intro hn d i k t h
    have hnl : ∀ c ∈ es, noRooms c = true := by
      simp only [noRooms] at hn
      clear ih h
      induction es with
      | nil => simp
      | cons c cs ihc =>
        simp only [noRoomsL, Bool.and_eq_true] at hn
        intro c' hc'
        cases hc' with
        | head => exact hn.1
        | tail _ h' => exact ihc hn.2 c' h'
    exact emit_tupl es env (fun c hc => ih c hc (hnl c hc)) d i k t h
  | seq b n ih => intro hn d i k t h; exact emit_seq b n env (ih (by simpa [noRooms] using hn)) d i k t h
  | grid b dims ih => intro hn d i k t h; exact emit_grid b dims env (ih (by simpa [noRooms] using hn)) d i k t h
  | rooms s a => intro hn; simp [noRooms] at hn
  | valuedRooms v s a ih => intro hn; simp [noRooms] at hn
  | yajilinClue => intro _ d i k t h; exact emit_yajilin d i k t (by simpa [ser] using h)

/-! ### what a decoder accepts -/

/-- no character at `i`, or one outside `a` -/
def Rejects (a : Ranges) (s : Str) (i : Nat) : Prop := ∀ x, s[i]? = some x → Ranges.mem x a = false

theorem withChar_none_of_rejects {β} (a : Ranges) (s : Str) (i : Nat) (hi : i ≤ s.length) (k : Nat → Outcome β)
    (hk : ∀ c, s[i]? = some c → Ranges.mem c a = false → k c = .none) (hr : Rejects a s i) :
    withChar s i k = .none := by
  unfold withChar
  split
  · rfl
  · rename_i hne
    have hlt : i < s.length := by omega
    rw [List.getElem?_eq_getElem hlt]
    exact hk _ (List.getElem?_eq_getElem hlt) (hr _ (List.getElem?_eq_getElem hlt))

theorem slice_head (s : Str) (i n : Nat) (x : Nat) (r : Str) (h : slice s i n = x :: r) : s[i]? = some x := by
  unfold slice at h
  have : (s.drop i).head? = some x := by
    cases hd : s.drop i with
    | nil => simp [hd] at h
    | cons y ys =>
      simp [hd] at h
      cases n with
      | zero => simp at h
      | succ n => simp at h; simp [h.1]
  simpa [List.head?_drop] using this

theorem accept_fixStr (s : Str) (a : Ranges) (h : acceptHeads (.fixStr s) = some a) (t : Str) (i : Nat)
    (hr : Rejects a t i) : fixStrDe s t i = .none := by
  simp only [acceptHeads] at h
  split at h
  · simp at h
  · cases h
    unfold fixStrDe
    split
    · rfl
    · split
      · rename_i heq
        cases s with
        | nil => simp at *
        | cons x r =>
          have := slice_head t i _ x r heq
          have := hr x this
          simp [headRange, Ranges.mem] at this
      · rfl

theorem accept_dictFind (t : Str) (i : Nat) : ∀ (b : List PyVal) (a : List Str),
    Rejects (a.flatMap headRange) t i → (∀ x ∈ a, x ≠ []) → b.length ≤ a.length → dictDeFind t i b a = .none := by
  intro b
  induction b with
  | nil => intro a _ _ _; simp [dictDeFind]
  | cons v b ih =>
    intro a hr hne hlen
    cases a with
    | nil => simp at hlen
    | cons y a =>
      simp only [dictDeFind]
      split
      · rename_i hm
        simp at hm
        exfalso
        cases y with
        | nil => exact hne [] (by simp) rfl
        | cons x r =>
          have := slice_head t i _ x r hm.2
          have := hr x this
          simp [headRange, Ranges.mem] at this
      · apply ih
        · intro x hx
          have := hr x hx
          simp only [List.flatMap_cons, Ranges.mem_append, Bool.or_eq_false_iff] at this
          exact this.2
        · intro x hx; exact hne x (by simp [hx])
        · simpa using hlen

theorem charVal_range_of_alnum (c lo hi : Nat) (hc : isAlnumLower c = true) (hhi : hi ≤ 35)
    (h : Ranges.mem c (digitCharRanges lo hi) = false) : charVal c < lo ∨ hi < charVal c := by
  have := not_mem_digitCharRanges lo hi c hc hhi h
  omega

theorem charVal_le_35 (c : Nat) (hc : isAlnumLower c = true) : charVal c ≤ 35 := by
  unfold isAlnumLower at hc
  unfold charVal
  simp at hc
  split <;> omega

theorem accept_spaces (sp : PyVal) (o : Int) (a : Ranges) (h : acceptHeads (.spaces sp o) = some a) (t : Str) (i : Nat)
    (hi : i ≤ t.length) (hr : Rejects a t i) : spacesDe sp o t i = .none := by
  simp only [acceptHeads] at h
  unfold spacesDe
  apply withChar_none_of_rejects a t i hi _ _ hr
  intro c _ hc
  by_cases hal : isAlnumLower c = true
  · simp only [hal, Bool.not_true, Bool.false_eq_true, if_false]
    split at h
    · rename_i ho
      simp at ho
      cases h
      have := charVal_range_of_alnum c _ 35 hal (by omega) hc
      have h35 := charVal_le_35 c hal
      have : ¬ ((charVal c : Int) > o) := by omega
      simp [this]
    · cases h
      rw [mem_alnumRanges] at hc
      simp [hal] at hc
  · simp [hal]

theorem accept_decInt (a : Ranges) (h : acceptHeads .decInt = some a) (t : Str) (i : Nat)
    (hr : Rejects a t i) : decIntDe t i = .none := by
  simp only [acceptHeads] at h
  cases h
  unfold decIntDe
  split
  · rfl
  · have : (t.drop i).takeWhile isDigit = [] := by
      cases hd : t.drop i with
      | nil => simp
      | cons x r =>
        have hx : t[i]? = some x := by
          have : (t.drop i).head? = some x := by simp [hd]
          simpa [List.head?_drop] using this
        have := hr x hx
        have hdx : isDigit x = false := by simpa [isDigit, Ranges.mem] using this
        simp [List.takeWhile, hdx]
    simp [this]

theorem accept_hexInt (a : Ranges) (h : acceptHeads .hexInt = some a) (t : Str) (i : Nat)
    (hi : i ≤ t.length) (hr : Rejects a t i) : hexIntDe t i = .none := by
  simp only [acceptHeads] at h
  cases h
  unfold hexIntDe
  apply withChar_none_of_rejects _ t i hi _ _ hr
  intro c _ hc
  simp [Ranges.mem] at hc
  have h45 : c ≠ 45 := by omega
  have h43 : c ≠ 43 := by omega
  have hhex : isHex c = false := by
    simp [isHex]
    omega
  simp [h45, h43, hhex]

theorem accept_intSpaces (sp : PyVal) (mi ms : Nat) (a : Ranges) (h : acceptHeads (.intSpaces sp mi ms) = some a)
    (t : Str) (i : Nat) (hi : i ≤ t.length) (hr : Rejects a t i) : intSpacesDe sp mi ms t i = .none := by
  simp only [acceptHeads] at h
  unfold intSpacesDe
  apply withChar_none_of_rejects a t i hi _ _ hr
  intro c _ hc
  by_cases hal : isAlnumLower c = true
  · simp only [hal, Bool.not_true, Bool.false_eq_true, if_false]
    split at h
    · rename_i hle
      cases h
      have hpos : 1 ≤ (mi + 1) * (ms + 1) := Nat.mul_pos (by omega) (by omega)
      have := charVal_range_of_alnum c 0 _ hal (by omega) hc
      have : ¬ (charVal c < (mi + 1) * (ms + 1)) := by omega
      simp [this]
    · cases h
      rw [mem_alnumRanges] at hc
      simp [hal] at hc
  · simp [hal]

theorem accept_multiDigit (b k : Nat) (a : Ranges) (h : acceptHeads (.multiDigit b k) = some a)
    (t : Str) (i : Nat) (hi : i ≤ t.length) (hr : Rejects a t i) : multiDigitDe b k t i = .none := by
  simp only [acceptHeads] at h
  unfold multiDigitDe
  apply withChar_none_of_rejects a t i hi _ _ hr
  intro c _ hc
  by_cases hal : isAlnumLower c = true
  · simp only [hal, Bool.not_true, Bool.false_eq_true, if_false]
    split at h
    · rename_i hle
      simp at hle
      cases h
      have := charVal_range_of_alnum c 0 _ hal (by omega) hc
      have : ¬ (charVal c < b ^ k) := by omega
      simp [this]
    · cases h
      rw [mem_alnumRanges] at hc
      simp [hal] at hc
  · simp [hal]

theorem accept_yajilin (a : Ranges) (h : acceptHeads .yajilinClue = some a) (t : Str) (i : Nat)
    (hr : Rejects a t i) : yajilinDe t i = .none := by
  simp only [acceptHeads] at h
  cases h
  unfold yajilinDe
  split
  · rfl
  · rename_i hlen
    have h0 : i < t.length := by omega
    have h1 : i + 1 < t.length := by omega
    rw [List.getElem?_eq_getElem h0, List.getElem?_eq_getElem h1]
    have := hr _ (List.getElem?_eq_getElem h0)
    simp [Ranges.mem] at this
    simp only
    have e0 : ¬ t[i] = 48 := by omega
    have e1 : ¬ (49 ≤ t[i] ∧ t[i] ≤ 52) := by omega
    have e2 : ¬ (53 ≤ t[i] ∧ t[i] ≤ 57) := by omega
    simp [e0, e1, e2]


theorem wfAll_mem : ∀ (cs : List Comb), wfAll cs = true → ∀ c ∈ cs, wf c = true := by
  intro cs
  induction cs with
  | nil => intro _ c hc; cases hc
  | cons c cs ih =>
    intro h c' hc'
    simp only [wfAll, Bool.and_eq_true] at h
    cases hc' with
    | head => exact h.1
    | tail _ h' => exact ih h.2 c' h'

theorem accept_oneOf (env : Env) : ∀ (cs : List Comb),
    (∀ c ∈ cs, ∀ a, acceptHeads c = some a → ∀ s i, i ≤ s.length → Rejects a s i → de c env s i = .none) →
    ∀ a, acceptHeadsAny cs = some a → ∀ s i, i ≤ s.length → Rejects a s i → oneOfF (deL cs env) s i = .none := by
  intro cs
  induction cs with
  | nil => intro _ a _ s i _ _; simp [deL, oneOfF]
  | cons c cs ih =>
    intro hc a ha s i hi hr
    simp only [acceptHeadsAny] at ha
    split at ha
    · rename_i a1 a2 h1 h2
      cases ha
      have hr1 : Rejects a1 s i := fun x hx => by
        have := hr x hx; simp only [Ranges.mem_append, Bool.or_eq_false_iff] at this; exact this.1
      have hr2 : Rejects a2 s i := fun x hx => by
        have := hr x hx; simp only [Ranges.mem_append, Bool.or_eq_false_iff] at this; exact this.2
      simp only [deL, oneOfF]
      rw [hc c (by simp) a1 h1 s i hi hr1]
      exact ih (fun c' hc' => hc c' (List.mem_cons_of_mem _ hc')) a2 h2 s i hi hr2
    · simp at ha

/-- **what a decoder accepts**: outside `acceptHeads` (or at the end of the text) it returns `None` -/
theorem accept_heads (env : Env) : ∀ c, wf c = true → ∀ a, acceptHeads c = some a →
    ∀ s i, i ≤ s.length → Rejects a s i → de c env s i = .none := by
  intro c
  induction c using Comb.ind with
  | fixStr t => intro _ a ha s i _ hr; simpa [de] using accept_fixStr t a ha s i hr
  | dict b a' =>
    intro hw a ha s i _ hr
    simp only [acceptHeads] at ha
    split at ha
    · simp at ha
    · rename_i hne
      cases ha
      simp only [wf, Bool.and_eq_true, beq_iff_eq] at hw
      simp only [de, dictDe]
      split
      · rfl
      · apply accept_dictFind s i b a' hr
        · intro x hx hx0
          apply hne
          simp only [List.any_eq_true]
          exact ⟨x, hx, by simp [hx0]⟩
        · omega
  | spaces sp o => intro _ a ha s i hi hr; simpa [de] using accept_spaces sp o a ha s i hi hr
  | decInt => intro _ a ha s i _ hr; simpa [de] using accept_decInt a ha s i hr
  | hexInt => intro _ a ha s i hi hr; simpa [de] using accept_hexInt a ha s i hi hr
  | intSpaces sp mi ms => intro _ a ha s i hi hr; simpa [de] using accept_intSpaces sp mi ms a ha s i hi hr
  | multiDigit b k => intro _ a ha s i hi hr; simpa [de] using accept_multiDigit b k a ha s i hi hr
  | oneOf cs ih =>
    intro hw a ha s i hi hr
    simp only [wf, Bool.and_eq_true] at hw
    simp only [de]
    exact accept_oneOf env cs (fun c hc => ih c hc (wfAll_mem cs hw.1 c hc)) a (by simpa [acceptHeads] using ha) s i hi hr
  | tupl es ih =>
    intro hw a ha s i hi hr
    simp only [wf, Bool.and_eq_true] at hw
    cases es with
    | nil => simp [acceptHeads] at ha
    | cons e es =>
      simp only [acceptHeads] at ha
      simp only [de, deL, tuplDe, tuplDeLoop, Nat.add_zero]
      rw [ih e (by simp) (wfAll_mem _ hw.1.1 e (by simp)) a ha s i hi hr]
      rfl
  | seq b n ih =>
    intro hw a ha s i hi hr
    simp only [wf, Bool.and_eq_true] at hw
    simp only [acceptHeads] at ha
    split at ha
    · simp at ha
    · rename_i hn
      simp at hn
      simp only [de, seqDe]
      unfold seqDeLoop
      have : ([] : List PyVal).length < n := by simp; omega
      simp only [this, if_true, Nat.add_zero]
      rw [ih hw.1.1 a ha s i hi hr]
  | grid b dims ih =>
    intro hw a ha s i hi hr
    simp only [wf, Bool.and_eq_true] at hw
    cases dims with
    | none => simp [acceptHeads] at ha
    | some hw' =>
      obtain ⟨h, w⟩ := hw'
      simp only [acceptHeads] at ha
      split at ha
      · simp at ha
      · rename_i hn
        simp at hn
        simp only [de, gridDe, gridDims, seqDe]
        unfold seqDeLoop
        have : ([] : List PyVal).length < h * w := by simp; omega
        simp only [this, if_true, Nat.add_zero]
        rw [ih hw.1.1 a ha s i hi hr]
        rfl
  | rooms s' a' => intro _ a ha; simp [acceptHeads] at ha
  | valuedRooms v s' a' ih => intro _ a ha; simp [acceptHeads] at ha
  | yajilinClue => intro _ a ha s i _ hr; simpa [de] using accept_yajilin a ha s i hr

/-! ### a serializer never consumes more items than there are -/

theorem bounded_oneOf (env : Env) (cs : List Comb) (ih : ∀ c ∈ cs, SerBounded (ser c env)) :
    SerBounded (ser (.oneOf cs) env) := by
  intro d i k t h hi
  simp only [ser, serL_eq_map] at h
  obtain ⟨pre, f, post, hfs, hf, _⟩ := oneOfF_eq_ok' _ d i (k, t) h
  have hmem : f ∈ cs.map (ser · env) := by rw [hfs]; simp
  obtain ⟨c, hc, rfl⟩ := List.mem_map.mp hmem
  exact ih c hc d i k t hf hi

theorem bounded_of_item {f : SerF} (h : ∀ d i k t, f d i = .ok (k, t) → k = 1 ∧ i < d.length) : SerBounded f := by
  intro d i k t hf _
  have := h d i k t hf
  omega

theorem getElem?_lt' {α} {l : List α} {i : Nat} {v : α} (h : l[i]? = some v) : i < l.length := by
  rcases Nat.lt_or_ge i l.length with h' | h'
  · exact h'
  · simp [List.getElem?_eq_none h'] at h

theorem ser_bounded (env : Env) : ∀ c, SerBounded (ser c env) := by
  intro c
  induction c using Comb.ind with
  | fixStr s => intro d i k t h hi; simp [ser, fixStrSer] at h; omega
  | dict b a =>
    apply bounded_of_item
    intro d i k t h
    simp only [ser, dictSer] at h
    obtain ⟨v, hv, hk⟩ := withItem_eq_ok.mp h
    exact ⟨(dictSerFind_mem v b a k t hk).1, getElem?_lt' hv⟩
  | spaces sp o =>
    intro d i k t h hi
    simp only [ser, spacesSer] at h
    obtain ⟨v, hv, hk⟩ := withItem_eq_ok.mp h
    have hlt := getElem?_lt' hv
    split at hk
    · simp at hk
    · obtain ⟨t', _, heq⟩ := Outcome.bind_eq_ok.mp hk
      cases heq
      have := (countRun_le sp (d.drop (i + 1)) ((35 - o) - 1).toNat).1
      rw [List.length_drop] at this
      omega
  | decInt =>
    apply bounded_of_item
    intro d i k t h
    simp only [ser, decIntSer] at h
    obtain ⟨v, hv, hk⟩ := withItem_eq_ok.mp h
    refine ⟨?_, getElem?_lt' hv⟩
    cases v <;> simp at hk
    · split at hk
      · simp at hk
      · split at hk
        · simp at hk
        · cases hk; rfl
    · exact hk.1.symm
  | hexInt =>
    apply bounded_of_item
    intro d i k t h
    simp only [ser, hexIntSer] at h
    obtain ⟨v, hv, hk⟩ := withItem_eq_ok.mp h
    refine ⟨?_, getElem?_lt' hv⟩
    split at hk
    · simp at hk
    · split at hk
      · simp at hk
      · cases hk; rfl
  | intSpaces sp mi ms =>
    intro d i k t h hi
    simp only [ser, intSpacesSer] at h
    obtain ⟨v, hv, hk⟩ := withItem_eq_ok.mp h
    have hlt := getElem?_lt' hv
    split at hk
    · simp at hk
    · split at hk
      · simp at hk
      · cases hk
        have := (countRun_le sp (d.drop (i + 1)) ms).1
        rw [List.length_drop] at this
        omega
  | multiDigit b kk =>
    intro d i k t h hi
    simp only [ser, multiDigitSer] at h
    split at h
    · simp at h
    · split at h
      · simp at h
      · obtain ⟨v, _, heq⟩ := Outcome.bind_eq_ok.mp h
        cases heq
        omega
  | oneOf cs ih => exact bounded_oneOf env cs ih
  | tupl es ih =>
    apply bounded_of_item
    intro d i k t h
    simp only [ser, tuplSer] at h
    obtain ⟨v, hv, hk⟩ := withItem_eq_ok.mp h
    refine ⟨?_, getElem?_lt' hv⟩
    cases v with
    | tuple comps =>
      simp only at hk
      split at hk
      · simp at hk
      · obtain ⟨t', _, heq⟩ := Outcome.bind_eq_ok.mp hk
        cases heq; rfl
    | _ => simp at hk
  | seq b n ih =>
    apply bounded_of_item
    intro d i k t h
    simp only [ser] at h
    obtain ⟨l, hl, hk, _⟩ := seqSer_eq_ok h
    exact ⟨hk, getElem?_lt' hl⟩
  | grid b dims ih =>
    apply bounded_of_item
    intro d i k t h
    simp only [ser, gridSer] at h
    obtain ⟨v, hv, hk⟩ := withItem_eq_ok.mp h
    refine ⟨?_, getElem?_lt' hv⟩
    cases v <;> simp at hk
    obtain ⟨flat, _, hs⟩ := Outcome.bind_eq_ok.mp hk
    exact (seqSer_eq_ok hs).choose_spec.2.1
  | rooms s a =>
    apply bounded_of_item
    intro d i k t h
    simp only [ser, roomsSer, catchValueError] at h
    have hcore : roomsSerCore env d i = .ok (k, t) := by
      split at h
      · split at h <;> first | (simp at h) | exact h
      · exact h
    unfold roomsSerCore at hcore
    split at hcore
    · simp at hcore
    · split at hcore
      · simp at hcore
      · rename_i rooms hd
        dsimp only at hcore
        split at hcore
        · simp at hcore
        · obtain ⟨_, _, h1⟩ := Outcome.bind_eq_ok.mp hcore
          obtain ⟨_, _, h2⟩ := Outcome.bind_eq_ok.mp h1
          obtain ⟨_, _, h3⟩ := Outcome.bind_eq_ok.mp h2
          obtain ⟨_, _, h4⟩ := Outcome.bind_eq_ok.mp h3
          simp only [bordersSer, tuplSer] at h4
          obtain ⟨v, hv, hk⟩ := withItem_eq_ok.mp h4
          refine ⟨?_, getElem?_lt' hd⟩
          cases v with
          | tuple comps =>
            simp only at hk
            split at hk
            · simp at hk
            · obtain ⟨t', _, heq⟩ := Outcome.bind_eq_ok.mp hk
              cases heq; rfl
          | _ => simp at hk
      · simp at hcore
  | valuedRooms v s a ih =>
    apply bounded_of_item
    intro d i k t h
    simp only [ser, valuedRoomsSer] at h
    obtain ⟨x, hx, hk⟩ := withItem_eq_ok.mp h
    refine ⟨?_, getElem?_lt' hx⟩
    split at hk
    · split at hk
      · obtain ⟨_, _, h1⟩ := Outcome.bind_eq_ok.mp hk
        split at h1
        · simp at h1
        · obtain ⟨_, _, heq⟩ := Outcome.bind_eq_ok.mp h1
          cases heq; rfl
      · simp at hk
    · simp at hk
  | yajilinClue =>
    apply bounded_of_item
    intro d i k t h
    simp only [ser, yajilinSer] at h
    split at h
    · simp at h
    · rename_i hlt
      refine ⟨?_, by omega⟩
      split at h
      · simp at h
      · split at h
        · simp at h
        · split at h
          · cases h; rfl
          · split at h
            · split at h
              · simp at h
              · split at h
                · simp at h
                · obtain ⟨n, _, heq⟩ := Outcome.bind_eq_ok.mp h
                  split at heq
                  · cases heq; rfl
                  · split at heq
                    · cases heq; rfl
                    · simp at heq
            · simp at h

end Cspuz.Ser
