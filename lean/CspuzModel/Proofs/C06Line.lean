/-
  C06, line-graph layer: `Graph.lineGraph` has the edge ids of `g` as vertices, two of them adjacent
  iff the edges share an endpoint; the active edges are connected in the line graph iff all visited
  vertices are mutually reachable in the active-edge graph.
-/
import CspuzModel.Spec.GraphSpec2
import CspuzModel.Proofs.C04L2
import CspuzModel.Proofs.C04Prim
import CspuzModel.Proofs.C06L2
namespace Cspuz.Proofs.C06Line
open Cspuz Cspuz.Spec
open Cspuz.Proofs.C04L2 (joins_lt joins_ne actGraph actGraph_adj)
open Cspuz.Proofs.C04Prim (exists_joins_iff_mem)
open Cspuz.Proofs.C06L2 (joins_edge_lt activeDegree_pos_iff)

theorem any_incident_iff (g : Graph) (v x : Nat) :
    (g.incident v).any (fun p => decide (p.2 = x)) = true ↔ ∃ j, Joins g x v j := by
  rw [List.any_eq_true]
  constructor
  · rintro ⟨⟨j, e⟩, hm, he⟩
    simp only [decide_eq_true_eq] at he
    subst he
    exact ⟨j, C04L2.mem_incident.1 hm⟩
  · rintro ⟨j, hj⟩
    exact ⟨(j, x), C04L2.mem_incident.2 hj, by simp⟩

theorem mem_lineGraphPairs (g : Graph) (x y : Nat) :
    (x, y) ∈ g.lineGraphPairs ↔ x < y ∧ y < g.edges.length ∧
      ∃ v, v < g.n ∧ (∃ j, Joins g x v j) ∧ (∃ j, Joins g y v j) := by
  unfold Graph.lineGraphPairs
  simp only [List.mem_flatMap, List.mem_filterMap, List.mem_range]
  constructor
  · rintro ⟨a, ha, b, hb, hif⟩
    split at hif
    · rename_i hc
      simp only [Option.some.injEq, Prod.mk.injEq] at hif
      obtain ⟨rfl, rfl⟩ := hif
      obtain ⟨hlt, hany⟩ := hc
      rw [List.any_eq_true] at hany
      obtain ⟨v, hv, hvv⟩ := hany
      rw [Bool.and_eq_true, any_incident_iff, any_incident_iff] at hvv
      exact ⟨hlt, hb, v, List.mem_range.1 hv, hvv.1, hvv.2⟩
    · cases hif
  · rintro ⟨hlt, hy, v, hv, h1, h2⟩
    refine ⟨x, by omega, y, hy, ?_⟩
    rw [if_pos]
    refine ⟨hlt, ?_⟩
    rw [List.any_eq_true]
    exact ⟨v, List.mem_range.2 hv, by rw [Bool.and_eq_true, any_incident_iff, any_incident_iff]; exact ⟨h1, h2⟩⟩

theorem lineGraph_wf (g : Graph) : g.lineGraph.wf = true := by
  simp only [Graph.wf, Graph.lineGraph, List.all_eq_true, Bool.and_eq_true]
  rintro ⟨x, y⟩ h
  obtain ⟨h1, h2, _⟩ := (mem_lineGraphPairs g x y).1 h
  exact ⟨decide_eq_true (show x < g.edges.length by omega), decide_eq_true (show y < g.edges.length from h2)⟩

/-- adjacency in the line graph: distinct edges sharing an endpoint. -/
theorem line_adj {g : Graph} (hwf : g.wf = true) (x y : Fin g.lineGraph.n) :
    (toSimple g.lineGraph).Adj x y ↔
      x.1 ≠ y.1 ∧ ∃ v, (∃ j, Joins g x.1 v j) ∧ (∃ j, Joins g y.1 v j) := by
  have hx : x.1 < g.edges.length := x.2
  have hy : y.1 < g.edges.length := y.2
  show (x ≠ y ∧ ∃ k, Joins g.lineGraph k x.1 y.1) ↔ _
  rw [Ne, Fin.ext_iff, exists_joins_iff_mem]
  show (¬ x.1 = y.1 ∧ ((x.1, y.1) ∈ g.lineGraphPairs ∨ (y.1, x.1) ∈ g.lineGraphPairs)) ↔ _
  rw [mem_lineGraphPairs, mem_lineGraphPairs]
  constructor
  · rintro ⟨hne, ⟨_, _, v, _, h1, h2⟩ | ⟨_, _, v, _, h1, h2⟩⟩
    · exact ⟨hne, v, h1, h2⟩
    · exact ⟨hne, v, h2, h1⟩
  · rintro ⟨hne, v, h1, h2⟩
    obtain ⟨j, hj⟩ := h1
    have hv := (joins_lt hwf hj).1
    refine ⟨hne, ?_⟩
    rcases Nat.lt_or_gt_of_ne hne with h | h
    · exact Or.inl ⟨h, hy, v, hv, ⟨j, hj⟩, h2⟩
    · exact Or.inr ⟨h, hx, v, hv, h2, ⟨j, hj⟩⟩

theorem joins_det {g : Graph} {e a a' b b' : Nat} (h1 : Joins g e a a') (h2 : Joins g e b b') :
    (b = a ∧ b' = a') ∨ (b = a' ∧ b' = a) := by
  unfold Joins at h1 h2
  rcases h1 with h1 | h1 <;> rcases h2 with h2 | h2 <;> rw [h1] at h2 <;>
    simp only [Option.some.injEq, Prod.mk.injEq] at h2 <;> omega

section
variable {g : Graph} {act : Nat → Bool}

/-- the two ends of an active edge are connected in the active-edge graph. -/
theorem same_edge_reach {e a a' b b' : Nat} (hact : act e = true)
    (h1 : Joins g e a a') (h2 : Joins g e b b') (ha : a < g.n) (hb : b < g.n) :
    (activeEdgeGraph g act).Reachable ⟨a, ha⟩ ⟨b, hb⟩ := by
  by_cases hab : a = b
  · subst hab; exact SimpleGraph.Reachable.refl _
  · rcases joins_det h1 h2 with ⟨h3, _⟩ | ⟨h3, _⟩
    · exact absurd h3.symm hab
    · exact SimpleGraph.Adj.reachable ⟨fun h => hab (congrArg Fin.val h), e, hact, h3 ▸ h1⟩

/-- line-graph connectivity ⇒ vertex connectivity -/
theorem reach_of_line_walk (hwf : g.wf = true) {e f : ↥(activeSet g.lineGraph act)}
    (p : (actGraph g.lineGraph act).Walk e f) :
    ∀ (a a' b b' : Nat), Joins g e.1.1 a a' → Joins g f.1.1 b b' → ∀ (ha : a < g.n) (hb : b < g.n),
      (activeEdgeGraph g act).Reachable ⟨a, ha⟩ ⟨b, hb⟩ := by
  induction p with
  | nil =>
    rename_i e
    intro a a' b b' h1 h2 ha hb
    exact same_edge_reach e.2 h1 h2 ha hb
  | cons hadj q ih =>
    rename_i e e2 f
    intro a a' b b' h1 h2 ha hb
    have hadj' : (toSimple g.lineGraph).Adj e.1 e2.1 := hadj
    rw [line_adj hwf] at hadj'
    obtain ⟨_, v, ⟨j1, hj1⟩, ⟨j2, hj2⟩⟩ := hadj'
    have hv := (joins_lt hwf hj1).1
    exact (same_edge_reach e.2 h1 hj1 ha hv).trans (ih v j2 b b' hj2 h2 hv hb)

/-- two active edges at a common vertex are connected in the line graph. -/
theorem share_reach (hwf : g.wf = true) {e f v j1 j2 : Nat} (he : e < g.edges.length)
    (hf : f < g.edges.length) (ae : act e = true) (af : act f = true)
    (h1 : Joins g e v j1) (h2 : Joins g f v j2) :
    (actGraph g.lineGraph act).Reachable ⟨⟨e, he⟩, ae⟩ ⟨⟨f, hf⟩, af⟩ := by
  by_cases hef : e = f
  · subst hef; exact SimpleGraph.Reachable.refl _
  · apply SimpleGraph.Adj.reachable
    show (toSimple g.lineGraph).Adj ⟨e, he⟩ ⟨f, hf⟩
    rw [line_adj hwf]
    exact ⟨hef, v, ⟨j1, h1⟩, ⟨j2, h2⟩⟩

/-- vertex connectivity ⇒ line-graph connectivity -/
theorem line_reach_of_walk (hwf : g.wf = true) {u v : Fin g.n}
    (p : (activeEdgeGraph g act).Walk u v) :
    ∀ (e f : Nat) (he : e < g.edges.length) (hf : f < g.edges.length) (ae : act e = true)
      (af : act f = true), (∃ j, Joins g e u.1 j) → (∃ j, Joins g f v.1 j) →
      (actGraph g.lineGraph act).Reachable ⟨⟨e, he⟩, ae⟩ ⟨⟨f, hf⟩, af⟩ := by
  induction p with
  | nil =>
    intro e f he hf ae af ⟨j1, h1⟩ ⟨j2, h2⟩
    exact share_reach hwf he hf ae af h1 h2
  | cons hadj q ih =>
    rename_i u w v
    intro e f he hf ae af ⟨j1, h1⟩ h2
    obtain ⟨_, k, hk, hjk⟩ := hadj
    have hkl := joins_edge_lt hjk
    exact (share_reach hwf he hkl ae hk h1 hjk).trans (ih k f hkl hf hk af ⟨u.1, hjk.symm⟩ h2)

/-- The active edges are connected in the line graph iff the visited vertices are mutually reachable
in the active-edge graph. -/
theorem line_connected_iff (hwf : g.wf = true) :
    ActiveConnected g.lineGraph act ↔
      ∀ u v : Fin g.n, 0 < activeDegree g act u.1 → 0 < activeDegree g act v.1 →
        (activeEdgeGraph g act).Reachable u v := by
  constructor
  · intro h u v hu hv
    obtain ⟨j1, e, h1, ae⟩ := activeDegree_pos_iff.1 hu
    obtain ⟨j2, f, h2, af⟩ := activeDegree_pos_iff.1 hv
    obtain ⟨p⟩ := h ⟨⟨e, joins_edge_lt h1⟩, ae⟩ ⟨⟨f, joins_edge_lt h2⟩, af⟩
    exact reach_of_line_walk hwf p u.1 j1 v.1 j2 h1 h2 u.2 v.2
  · intro h
    rintro ⟨⟨e, he⟩, ae⟩ ⟨⟨f, hf⟩, af⟩
    have he' : e < g.edges.length := he
    have hf' : f < g.edges.length := hf
    have ae' : act e = true := ae
    have af' : act f = true := af
    have h1 : Joins g e g.edges[e].1 g.edges[e].2 := Or.inl (by simp [List.getElem?_eq_getElem he'])
    have h2 : Joins g f g.edges[f].1 g.edges[f].2 := Or.inl (by simp [List.getElem?_eq_getElem hf'])
    have ha := (joins_lt hwf h1).1
    have hb := (joins_lt hwf h2).1
    obtain ⟨p⟩ := h ⟨_, ha⟩ ⟨_, hb⟩ (activeDegree_pos_iff.2 ⟨_, e, h1, ae'⟩)
      (activeDegree_pos_iff.2 ⟨_, f, h2, af'⟩)
    exact line_reach_of_walk hwf p e f he' hf' ae' af' ⟨_, h1⟩ ⟨_, h2⟩

end

end Cspuz.Proofs.C06Line
