import Mathlib.Logic.Relation

/-!
A bounded, non-empty, 4-connected set of unit squares of ℤ² in which no 2×2 window contains
exactly three squares of the set is a rectangle.
-/
namespace Cspuz.Proofs.C11ShakashakaRect

/-- 4-adjacency of squares of ℤ². -/
def Adj4 (a b : Int × Int) : Prop :=
  (a.1 = b.1 ∧ (a.2 = b.2 + 1 ∨ b.2 = a.2 + 1)) ∨ (a.2 = b.2 ∧ (a.1 = b.1 + 1 ∨ b.1 = a.1 + 1))

/-- In every 2×2 window, three squares of `S` force the fourth. -/
def NoThree (S : Int × Int → Prop) : Prop :=
  ∀ i j : Int,
    (S (i, j) → S (i + 1, j) → S (i, j + 1) → S (i + 1, j + 1)) ∧
    (S (i, j) → S (i + 1, j) → S (i + 1, j + 1) → S (i, j + 1)) ∧
    (S (i, j) → S (i, j + 1) → S (i + 1, j + 1) → S (i + 1, j)) ∧
    (S (i + 1, j) → S (i, j + 1) → S (i + 1, j + 1) → S (i, j))

/-! ### Interval inductions -/

theorem int_up (P : Int → Prop) (x b : Int) (h0 : P x)
    (hstep : ∀ z, x ≤ z → z < b → P z → P (z + 1)) : ∀ z, x ≤ z → z ≤ b → P z := by
  have key : ∀ n : Nat, x + (n : Int) ≤ b → P (x + (n : Int)) := by
    intro n
    induction n with
    | zero => intro _; simpa using h0
    | succ n ih =>
      intro hb
      have h1 : x + (n : Int) ≤ b := by omega
      have h2 := hstep (x + (n : Int)) (by omega) (by omega) (ih h1)
      have e : x + ((n + 1 : Nat) : Int) = x + (n : Int) + 1 := by omega
      rw [e]; exact h2
  intro z hz hb
  have e : z = x + ((z - x).toNat : Int) := by omega
  rw [e]; apply key; omega

theorem int_down (P : Int → Prop) (x a : Int) (h0 : P x)
    (hstep : ∀ z, z ≤ x → a < z → P z → P (z - 1)) : ∀ z, z ≤ x → a ≤ z → P z := by
  intro z hz ha
  have h := int_up (fun w => P (-w)) (-x) (-a) (by simpa using h0)
    (by
      intro w hw1 hw2 hw
      have h2 := hstep (-w) (by omega) (by omega) hw
      have e : -(w + 1) = -w - 1 := by omega
      show P (-(w + 1))
      rw [e]; exact h2)
    (-z) (by omega) (by omega)
  simpa using h

/-- Maximal run to the right. -/
theorem run_right (P : Int → Prop) (B : Int) (hB : ∀ z, P z → z ≤ B) :
    ∀ (n : Nat) (x : Int), B - x ≤ (n : Int) → P x →
      ∃ b, x ≤ b ∧ (∀ z, x ≤ z → z ≤ b → P z) ∧ ¬ P (b + 1) := by
  intro n
  induction n with
  | zero =>
    intro x hx hP
    refine ⟨x, Int.le_refl x, ?_, ?_⟩
    · intro z h1 h2
      have : z = x := by omega
      rw [this]; exact hP
    · intro h
      have := hB _ h
      omega
  | succ n ih =>
    intro x hx hP
    by_cases h : P (x + 1)
    · obtain ⟨b, hb1, hb2, hb3⟩ := ih (x + 1) (by omega) h
      refine ⟨b, by omega, ?_, hb3⟩
      intro z h1 h2
      by_cases hz : z = x
      · rw [hz]; exact hP
      · exact hb2 z (by omega) h2
    · exact ⟨x, Int.le_refl x, fun z h1 h2 => by
        have : z = x := by omega
        rw [this]; exact hP, h⟩

/-- Maximal run to the left. -/
theorem run_left (P : Int → Prop) (B : Int) (hB : ∀ z, P z → -B ≤ z) (x : Int) (hP : P x) :
    ∃ a, a ≤ x ∧ (∀ z, a ≤ z → z ≤ x → P z) ∧ ¬ P (a - 1) := by
  obtain ⟨b, hb1, hb2, hb3⟩ := run_right (fun w => P (-w)) B
    (by intro z hz; have := hB _ hz; omega) (B + x).toNat (-x) (by omega) (by simpa using hP)
  refine ⟨-b, by omega, ?_, ?_⟩
  · intro z h1 h2
    have := hb2 (-z) (by omega) (by omega)
    simpa using this
  · intro h
    apply hb3
    have e : -(b + 1) = -b - 1 := by omega
    show P (-(b + 1))
    rw [e]; exact h

/-! ### The window rule in corner form -/

theorem win {S : Int × Int → Prop} (h3 : NoThree S) (i i' j j' : Int)
    (hi : i' = i + 1 ∨ i = i' + 1) (hj : j' = j + 1 ∨ j = j' + 1) :
    S (i, j) → S (i', j) → S (i, j') → S (i', j') := by
  rcases hi with hi | hi <;> rcases hj with hj | hj <;> subst hi <;> subst hj
  · exact (h3 i j).1
  · intro h1 h2 h3'
    exact (h3 i j').2.2.1 h3' h1 h2
  · intro h1 h2 h3'
    exact (h3 i' j).2.1 h2 h1 h3'
  · intro h1 h2 h3'
    exact (h3 i' j').2.2.2 h3' h2 h1

/-! ### Row runs -/

/-- `[a, b]` is the maximal row run of `S` through `p`. -/
def RowGood (S : Int × Int → Prop) (a b : Int) (p : Int × Int) : Prop :=
  a ≤ p.1 ∧ p.1 ≤ b ∧ (∀ x', a ≤ x' → x' ≤ b → S (x', p.2)) ∧
    ¬ S (a - 1, p.2) ∧ ¬ S (b + 1, p.2)

theorem rowGood_vert {S : Int × Int → Prop} (h3 : NoThree S) (a b x y y' : Int)
    (hy : y' = y + 1 ∨ y = y' + 1) (hg : RowGood S a b (x, y)) (hS : S (x, y')) :
    RowGood S a b (x, y') := by
  obtain ⟨h1, h2, hrow, hna, hnb⟩ := hg
  simp only at h1 h2 hrow hna hnb
  have hR : ∀ z, x ≤ z → z ≤ b → S (z, y') :=
    int_up (fun z => S (z, y')) x b hS (by
      intro z hz1 hz2 hz
      exact win h3 z (z + 1) y y' (Or.inl rfl) hy (hrow z (by omega) (by omega))
        (hrow (z + 1) (by omega) (by omega)) hz)
  have hL : ∀ z, z ≤ x → a ≤ z → S (z, y') :=
    int_down (fun z => S (z, y')) x a hS (by
      intro z hz1 hz2 hz
      exact win h3 z (z - 1) y y' (Or.inr (by omega)) hy (hrow z (by omega) (by omega))
        (hrow (z - 1) (by omega) (by omega)) hz)
  have hrow' : ∀ z, a ≤ z → z ≤ b → S (z, y') := by
    intro z hz1 hz2
    by_cases hzx : x ≤ z
    · exact hR z hzx hz2
    · exact hL z (by omega) hz1
  have hy' : y = y' + 1 ∨ y' = y + 1 := by omega
  refine ⟨h1, h2, hrow', ?_, ?_⟩
  · intro h
    exact hna (win h3 a (a - 1) y' y (Or.inr (by omega)) hy' (hrow' a (by omega) (by omega)) h
      (hrow a (by omega) (by omega)))
  · intro h
    exact hnb (win h3 b (b + 1) y' y (Or.inl rfl) hy' (hrow' b (by omega) (by omega)) h
      (hrow b (by omega) (by omega)))

theorem rowGood_step {S : Int × Int → Prop} (h3 : NoThree S) (a b : Int) (p q : Int × Int)
    (hq : S q) (hadj : Adj4 p q) (hg : RowGood S a b p) : RowGood S a b q := by
  obtain ⟨x, y⟩ := p
  obtain ⟨x', y'⟩ := q
  rcases hadj with ⟨hx, hy⟩ | ⟨hy, hx⟩
  · simp only at hx hy
    subst hx
    exact rowGood_vert h3 a b x y y' (by omega) hg hq
  · simp only at hx hy
    subst hy
    obtain ⟨h1, h2, hrow, hna, hnb⟩ := hg
    simp only at h1 h2 hrow hna hnb
    have e1 : x' ≠ b + 1 := fun h => hnb (h ▸ hq)
    have e2 : x' ≠ a - 1 := fun h => hna (h ▸ hq)
    exact ⟨by simp only; omega, by simp only; omega, hrow, hna, hnb⟩

/-- All squares of a connected `S` share the row run of `s0`. -/
theorem rows_all (S : Int × Int → Prop) (s0 : Int × Int) (hs0 : S s0)
    (hbdd : ∃ B : Int, ∀ p, S p → -B ≤ p.1 ∧ p.1 ≤ B ∧ -B ≤ p.2 ∧ p.2 ≤ B)
    (hconn : ∀ p, S p → Relation.ReflTransGen (fun a b => S a ∧ S b ∧ Adj4 a b) s0 p)
    (h3 : NoThree S) :
    ∃ a b : Int, ∀ p, S p → RowGood S a b p := by
  obtain ⟨B, hB⟩ := hbdd
  obtain ⟨x0, y0⟩ := s0
  obtain ⟨b, hb1, hb2, hb3⟩ := run_right (fun z => S (z, y0)) B (fun z hz => (hB _ hz).2.1)
    (B - x0).toNat x0 (by omega) hs0
  obtain ⟨a, ha1, ha2, ha3⟩ := run_left (fun z => S (z, y0)) B (fun z hz => (hB _ hz).1) x0 hs0
  have h0 : RowGood S a b (x0, y0) := by
    refine ⟨ha1, hb1, ?_, ha3, hb3⟩
    intro z hz1 hz2
    by_cases hzx : x0 ≤ z
    · exact hb2 z hzx hz2
    · exact ha2 z hz1 (by omega)
  refine ⟨a, b, fun p hp => ?_⟩
  have hc := hconn p hp
  induction hc with
  | refl => exact h0
  | tail _ hbc ih => exact rowGood_step h3 a b _ _ hbc.2.1 hbc.2.2 (ih hbc.1)

/-! ### Transposition -/

theorem noThree_transpose {S : Int × Int → Prop} (h3 : NoThree S) :
    NoThree (fun p => S (p.2, p.1)) := by
  intro i j
  refine ⟨?_, ?_, ?_, ?_⟩
  · intro h1 h2 h3'
    exact (h3 j i).1 h1 h3' h2
  · intro h1 h2 h3'
    exact (h3 j i).2.2.1 h1 h2 h3'
  · intro h1 h2 h3'
    exact (h3 j i).2.1 h1 h2 h3'
  · intro h1 h2 h3'
    exact (h3 j i).2.2.2 h2 h1 h3'

theorem adj4_swap {p q : Int × Int} (h : Adj4 p q) : Adj4 (p.2, p.1) (q.2, q.1) := by
  rcases h with h | h
  · exact Or.inr h
  · exact Or.inl h

theorem rect_of_noThree (S : Int × Int → Prop) (s0 : Int × Int) (hs0 : S s0)
    (hbdd : ∃ B : Int, ∀ p, S p → -B ≤ p.1 ∧ p.1 ≤ B ∧ -B ≤ p.2 ∧ p.2 ≤ B)
    (hconn : ∀ p, S p → Relation.ReflTransGen (fun a b => S a ∧ S b ∧ Adj4 a b) s0 p)
    (h3 : NoThree S) :
    ∃ a b c d : Int, a ≤ b ∧ c ≤ d ∧
      ∀ p : Int × Int, S p ↔ (a ≤ p.1 ∧ p.1 ≤ b ∧ c ≤ p.2 ∧ p.2 ≤ d) := by
  obtain ⟨a, b, hrow⟩ := rows_all S s0 hs0 hbdd hconn h3
  obtain ⟨c, d, hcol⟩ := rows_all (fun p => S (p.2, p.1)) (s0.2, s0.1) hs0
    (by
      obtain ⟨B, hB⟩ := hbdd
      refine ⟨B, fun p hp => ?_⟩
      have := hB _ hp
      exact ⟨this.2.2.1, this.2.2.2, this.1, this.2.1⟩)
    (by
      intro p hp
      have h := hconn (p.2, p.1) hp
      have key : ∀ q : Int × Int,
          Relation.ReflTransGen (fun a b => S a ∧ S b ∧ Adj4 a b) s0 q →
          Relation.ReflTransGen
            (fun a b : Int × Int => S (a.2, a.1) ∧ S (b.2, b.1) ∧ Adj4 a b) (s0.2, s0.1)
            (q.2, q.1) := by
        intro q hq
        induction hq with
        | refl => exact Relation.ReflTransGen.refl
        | tail _ hbc ih =>
          exact Relation.ReflTransGen.tail ih ⟨hbc.1, hbc.2.1, adj4_swap hbc.2.2⟩
      exact key _ h)
    (noThree_transpose h3)
  have hr0 := hrow s0 hs0
  have hc0 := hcol (s0.2, s0.1) hs0
  refine ⟨a, b, c, d, Int.le_trans hr0.1 hr0.2.1, Int.le_trans hc0.1 hc0.2.1, fun p => ⟨?_, ?_⟩⟩
  · intro hp
    have h1 := hrow p hp
    have h2 := hcol (p.2, p.1) hp
    exact ⟨h1.1, h1.2.1, h2.1, h2.2.1⟩
  · rintro ⟨h1, h2, h3', h4⟩
    have hx : S (p.1, s0.2) := hr0.2.2.1 p.1 h1 h2
    have hcx := hcol (s0.2, p.1) hx
    exact hcx.2.2.1 p.2 h3' h4

end Cspuz.Proofs.C11ShakashakaRect
