/-
  C01, backend and session layer: the z3 backend is a correct backend; `find_answer` is exact on any
  state; a session accumulates exactly `declsOf`/`csOf` of its history.
-/
import CspuzModel.Proofs.C01Trans
import CspuzModel.Spec.Session
namespace Cspuz.Proofs.C01Sess
open Cspuz Cspuz.Spec Cspuz.Proofs Cspuz.Proofs.C01Trans

/-! ### backend -/

theorem forall_mem_of_map_eq {α β γ : Type} {f : α → γ} {g : β → γ} {l₁ : List α} {l₂ : List β}
    (h : l₁.map f = l₂.map g) (v : γ) : (∀ x ∈ l₁, f x = v) ↔ (∀ y ∈ l₂, g y = v) := by
  have h1 : (∀ x ∈ l₁, f x = v) ↔ ∀ w ∈ l₁.map f, w = v := by simp
  have h2 : (∀ y ∈ l₂, g y = v) ↔ ∀ w ∈ l₂.map g, w = v := by simp
  rw [h1, h2, h]

theorem z3Sat_iff_sat {decls : List VarDecl} {cs : List Expr} {zs : List ZV}
    (hwt : ∀ c ∈ cs, wtB c = true) (hzs : convertList cs = .ok zs) (σ : Asg) :
    Z3Sat decls zs σ ↔ Sat decls cs σ := by
  obtain ⟨zs', hzs', hv⟩ := convertList_wtB σ cs hwt
  rw [hzs] at hzs'
  cases hzs'
  unfold Z3Sat Sat
  rw [forall_mem_of_map_eq hv]

theorem backend_correct : ∀ (o : Z3Oracle), o.Correct → (z3Backend o).Correct := by
  intro o ho decls cs hwt
  obtain ⟨zs, hzs, _⟩ := convertList_wtB ⟨fun _ => false, fun _ => 0⟩ cs hwt
  refine ⟨o decls zs, by simp [z3Backend, hzs], ?_, ?_⟩
  · intro σ hσ
    exact (z3Sat_iff_sat hwt hzs σ).1 ((ho decls zs).1 σ hσ)
  · intro hn ⟨σ, hσ⟩
    exact (ho decls zs).2 hn σ ((z3Sat_iff_sat hwt hzs σ).2 hσ)

/-! ### find_answer -/

theorem find_answer_exact :
    ∀ (B : Backend), B.Correct → ∀ (st : SolverState), (∀ c ∈ st.cs, wtB c = true) →
    ((findAnswer B st).2 = .verdict true ∨ (findAnswer B st).2 = .verdict false) ∧
    ((findAnswer B st).2 = .verdict true ↔ Satisfiable st.decls st.cs) ∧
    ((findAnswer B st).2 = .verdict true →
      ∃ σ, Sat st.decls st.cs σ ∧ (findAnswer B st).1.sol = publish st.decls σ) := by
  intro B hB st hwt
  obtain ⟨r, hr, hsome, hnone⟩ := hB st.decls st.cs hwt
  unfold findAnswer
  rw [hr]
  cases r with
  | none =>
    refine ⟨.inr rfl, ?_, ?_⟩
    · constructor
      · intro h; cases h
      · intro h; exact absurd h (hnone rfl)
    · intro h; cases h
  | some σ =>
    have hs := hsome σ rfl
    exact ⟨.inl rfl, ⟨fun _ => ⟨σ, hs⟩, fun _ => rfl⟩, fun _ => ⟨σ, hs, rfl⟩⟩

/-! ### the accumulated program -/

theorem declsOf_append : ∀ a b : List SolverOp, declsOf (a ++ b) = declsOf a ++ declsOf b
  | [], b => rfl
  | op :: a, b => by
    cases op <;> simp [declsOf, declsOf_append a b]

theorem csOf_append : ∀ a b : List SolverOp, csOf (a ++ b) = csOf a ++ csOf b
  | [], b => rfl
  | op :: a, b => by
    cases op <;> simp [csOf, csOf_append a b]

theorem ensureItems_state : ∀ (l : List Expr) (st : SolverState),
    (ensureItems st l).1.decls = st.decls ∧
    (ensureItems st l).1.cs = st.cs ++ l.takeWhile Expr.isBoolLike
  | [], st => by simp [ensureItems]
  | x :: r, st => by
    unfold ensureItems
    by_cases hx : x.isBoolLike = true
    · have ih := ensureItems_state r { st with cs := st.cs ++ [x] }
      simp only [hx, if_true, List.takeWhile_cons]
      exact ⟨ih.1, by rw [ih.2]; simp⟩
    · simp [hx]

theorem addKeys_state : ∀ (l : List Expr) (st : SolverState),
    (addKeys st l).1.decls = st.decls ∧ (addKeys st l).1.cs = st.cs
  | [], st => by simp [addKeys]
  | x :: r, st => by
    unfold addKeys
    split
    · exact ⟨rfl, rfl⟩
    · split
      · exact ⟨rfl, rfl⟩
      · exact addKeys_state r _

theorem findAnswer_state (B : Backend) (st : SolverState) :
    (findAnswer B st).1.decls = st.decls ∧ (findAnswer B st).1.cs = st.cs := by
  unfold findAnswer
  split <;> exact ⟨rfl, rfl⟩

theorem solveRefine_state (B : Backend) (st : SolverState) :
    (solveRefine B st).1.decls = st.decls ∧ (solveRefine B st).1.cs = st.cs := by
  unfold solveRefine
  split
  · exact ⟨rfl, rfl⟩
  · exact ⟨rfl, rfl⟩
  · dsimp only
    split <;> exact ⟨rfl, rfl⟩

theorem step_state (B : Backend) (st : SolverState) (op : SolverOp) :
    (st.step B op).1.decls = st.decls ++ declsOf [op] ∧ (st.step B op).1.cs = st.cs ++ csOf [op] := by
  cases op with
  | boolVar => simp [SolverState.step, declsOf, csOf]
  | intVar lo hi => simp [SolverState.step, declsOf, csOf]
  | ensure arg =>
    have := ensureItems_state arg.flatten st
    simp [SolverState.step, declsOf, csOf, this]
  | addAnswerKey arg =>
    have := addKeys_state arg.flatten st
    simp [SolverState.step, declsOf, csOf, this]
  | findAnswer =>
    have := findAnswer_state B st
    simp [SolverState.step, declsOf, csOf, this]
  | solve =>
    have := solveRefine_state B st
    simp [SolverState.step, declsOf, csOf, this]

theorem runSession_cons (B : Backend) (st : SolverState) (op : SolverOp) (r : List SolverOp) :
    runSession B st (op :: r) =
      ((runSession B (st.step B op).1 r).1, (st.step B op).2 :: (runSession B (st.step B op).1 r).2) := by
  rw [runSession]

theorem run_state (B : Backend) : ∀ (ops : List SolverOp) (st : SolverState),
    (runSession B st ops).1.decls = st.decls ++ declsOf ops ∧
    (runSession B st ops).1.cs = st.cs ++ csOf ops
  | [], st => by simp [runSession, declsOf, csOf]
  | op :: r, st => by
    rw [runSession_cons]
    have ih := run_state B r (st.step B op).1
    have hs := step_state B st op
    have hd : declsOf (op :: r) = declsOf [op] ++ declsOf r := declsOf_append [op] r
    have hc : csOf (op :: r) = csOf [op] ++ csOf r := csOf_append [op] r
    simp only [ih.1, ih.2, hs.1, hs.2, hd, hc, List.append_assoc, and_self]

/-- The `k`-th output and the state after `k+1` operations are those of one step from the state
reached by the first `k` operations. -/
theorem run_prefix (B : Backend) : ∀ (ops : List SolverOp) (st : SolverState) (k : Nat) (op : SolverOp),
    ops[k]? = some op →
    (runSession B st ops).2[k]? = some (((runSession B st (ops.take k)).1.step B op).2) ∧
    (runSession B st (ops.take (k + 1))).1 = ((runSession B st (ops.take k)).1.step B op).1
  | [], st, k, op, h => by simp at h
  | o :: r, st, 0, op, h => by
    simp only [List.getElem?_cons_zero, Option.some.injEq] at h
    subst h
    simp [runSession_cons, runSession]
  | o :: r, st, k + 1, op, h => by
    simp only [List.getElem?_cons_succ] at h
    have ih := run_prefix B r (st.step B o).1 k op h
    simp only [runSession_cons, List.take_succ_cons, List.getElem?_cons_succ]
    exact ih

theorem csOf_take_subset (ops : List SolverOp) (k : Nat) : ∀ c ∈ csOf (ops.take k), c ∈ csOf ops := by
  intro c hc
  have : csOf ops = csOf (ops.take k) ++ csOf (ops.drop k) := by
    rw [← csOf_append, List.take_append_drop]
  rw [this]; exact List.mem_append_left _ hc

theorem session :
    ∀ (B : Backend), B.Correct → ∀ (ops : List SolverOp), WellTyped ops →
    ∀ k, ops[k]? = some .findAnswer →
      let pre := ops.take k
      let st := (runSession B {} pre).1
      st.decls = declsOf pre ∧ st.cs = csOf pre ∧
      ((runSession B {} ops).2[k]? = some (.verdict true) ∨ (runSession B {} ops).2[k]? = some (.verdict false)) ∧
      ((runSession B {} ops).2[k]? = some (.verdict true) ↔ Satisfiable (declsOf pre) (csOf pre)) ∧
      ((runSession B {} ops).2[k]? = some (.verdict true) →
        ∃ σ, Sat (declsOf pre) (csOf pre) σ ∧ (runSession B {} (ops.take (k + 1))).1.sol = publish (declsOf pre) σ) := by
  intro B hB ops hwt k hk
  intro pre st
  have hst := run_state B pre {}
  have hd : st.decls = declsOf pre := by simpa using hst.1
  have hc : st.cs = csOf pre := by simpa using hst.2
  obtain ⟨hout, hnext⟩ := run_prefix B ops {} k .findAnswer hk
  have hwt' : ∀ c ∈ st.cs, wtB c = true := by
    intro c hcm
    rw [hc] at hcm
    exact hwt c (csOf_take_subset ops k c hcm)
  obtain ⟨h1, h2, h3⟩ := find_answer_exact B hB st hwt'
  rw [hd, hc] at h2 h3
  refine ⟨hd, hc, ?_, ?_, ?_⟩
  · rw [hout]
    rcases h1 with h | h
    · left; exact congrArg some h
    · right; exact congrArg some h
  · rw [hout]
    constructor
    · intro h; exact h2.1 (Option.some.inj h)
    · intro h; exact congrArg some (h2.2 h)
  · rw [hout, hnext]
    intro h
    exact h3 (Option.some.inj h)

end Cspuz.Proofs.C01Sess
