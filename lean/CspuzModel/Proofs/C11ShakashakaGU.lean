/-
  C11 / shakashaka — geometry: an area all of whose cells are completely white is an upright rectangle; hence
  (with parts GD, GA, GB) white angles 90°/180°/360° at all grid points ⇒ every white area is a rectangle.
-/
import CspuzModel.Proofs.C11ShakashakaGB
namespace Cspuz.Proofs.C11ShakashakaGU
open Cspuz Cspuz.Spec Cspuz.Spec.Shakashaka Cspuz.Proofs.C11ShakashakaG0 Cspuz.Proofs.C11ShakashakaRect
open Cspuz.Proofs.C11ShakashakaGD Cspuz.Proofs.C11ShakashakaGA Cspuz.Proofs.C11ShakashakaGB

theorem inUpright_iff (x0 x1 y0 y1 : Int) (t : Quarter) :
    InUpright x0 x1 y0 y1 t ↔ (x0 ≤ t.x ∧ t.x + 1 ≤ x1 ∧ y0 ≤ t.y ∧ t.y + 1 ≤ y1) := by
  obtain ⟨y, x, q⟩ := t
  fin_cases q <;> simp [InUpright, verts] <;> omega

theorem octant_nw (y x : Int) :
    octant (y + 1) (x + 1) 0 = ⟨y, x, 1⟩ ∧ octant (y + 1) (x + 1) 1 = ⟨y, x, 2⟩ ∧
    octant (y + 1) (x + 1) 2 = ⟨y + 1, x, 0⟩ ∧ octant (y + 1) (x + 1) 3 = ⟨y + 1, x, 1⟩ ∧
    octant (y + 1) (x + 1) 4 = ⟨y + 1, x + 1, 3⟩ ∧ octant (y + 1) (x + 1) 5 = ⟨y + 1, x + 1, 0⟩ ∧
    octant (y + 1) (x + 1) 6 = ⟨y, x + 1, 2⟩ ∧ octant (y + 1) (x + 1) 7 = ⟨y, x + 1, 3⟩ := by
  refine ⟨?_, ?_, ?_, ?_, ?_, ?_, ?_, ?_⟩ <;> simp [octant]

/-- The cells `(x, y)` met by the area of `s`. -/
def CS (W : Quarter → Prop) (s : Quarter) (p : Int × Int) : Prop := ∃ t, Comp W s t ∧ (t.x, t.y) = p

section
variable {W : Quarter → Prop} {s : Quarter}

theorem cs_mem (hc : CellPattern W) (hfull : ∀ t, Comp W s t → Full W t.y t.x) {p : Int × Int} (hp : CS W s p)
    (q : Fin 4) : Comp W s ⟨p.2, p.1, q⟩ := by
  obtain ⟨t, ht, rfl⟩ := hp
  have hf := hfull t ht
  exact comp_trans ht (comp_cell hc t.y t.x t.q q (hf _) (hf _))

theorem cs_bounded (hs : W s) (hb : Bounded W) :
    ∃ B : Int, ∀ p, CS W s p → -B ≤ p.1 ∧ p.1 ≤ B ∧ -B ≤ p.2 ∧ p.2 ≤ B := by
  obtain ⟨B, hB⟩ := hb
  refine ⟨B, ?_⟩
  rintro p ⟨t, ht, rfl⟩
  have := hB t (comp_white hs ht)
  simp only
  omega

theorem cs_conn : ∀ t, Comp W s t →
    Relation.ReflTransGen (fun a b => CS W s a ∧ CS W s b ∧ Adj4 a b) (s.x, s.y) (t.x, t.y) := by
  intro t ht
  induction ht with
  | refl => exact Relation.ReflTransGen.refl
  | @tail b c hsb hbc ih =>
    have hsc : Comp W s c := Relation.ReflTransGen.tail hsb hbc
    rcases hbc.2.2 with ⟨e1, e2, _⟩ | e
    · rw [← e1, ← e2]; exact ih
    · refine Relation.ReflTransGen.tail ih ⟨⟨b, hsb, rfl⟩, ⟨c, hsc, rfl⟩, ?_⟩
      subst e
      obtain ⟨y, x, q⟩ := b
      fin_cases q <;> simp [across, Adj4]

theorem cs_noThree (hc : CellPattern W) (ha : Angles W) (hs : W s) (hfull : ∀ t, Comp W s t → Full W t.y t.x) :
    NoThree (CS W s) := by
  intro i j
  obtain ⟨e0, e1, e2, e3, e4, e5, e6, e7⟩ := octant_nw j i
  have nw : CS W s (i, j) → ∀ q, Comp W s ⟨j, i, q⟩ := fun h q => cs_mem hc hfull h q
  have ne : CS W s (i + 1, j) → ∀ q, Comp W s ⟨j, i + 1, q⟩ := fun h q => cs_mem hc hfull h q
  have sw : CS W s (i, j + 1) → ∀ q, Comp W s ⟨j + 1, i, q⟩ := fun h q => cs_mem hc hfull h q
  have se : CS W s (i + 1, j + 1) → ∀ q, Comp W s ⟨j + 1, i + 1, q⟩ := fun h q => cs_mem hc hfull h q
  refine ⟨fun hA hB hD => ?_, fun hA hB hC => ?_, fun hA hD hC => ?_, fun hB hD hC => ?_⟩
  · have := ds_point ha hs (j + 1) (i + 1) 4 (by
      intro k h1 h2
      fin_cases k
      · exact (show Comp W s (octant (j + 1) (i + 1) 0) by rw [e0]; exact nw hA _)
      · exact (show Comp W s (octant (j + 1) (i + 1) 1) by rw [e1]; exact nw hA _)
      · exact (show Comp W s (octant (j + 1) (i + 1) 2) by rw [e2]; exact sw hD _)
      · exact (show Comp W s (octant (j + 1) (i + 1) 3) by rw [e3]; exact sw hD _)
      · exact absurd rfl h1
      · exact absurd rfl h2
      · exact (show Comp W s (octant (j + 1) (i + 1) 6) by rw [e6]; exact ne hB _)
      · exact (show Comp W s (octant (j + 1) (i + 1) 7) by rw [e7]; exact ne hB _)) 4
    rw [e4] at this
    exact ⟨_, this, rfl⟩
  · have := ds_point ha hs (j + 1) (i + 1) 2 (by
      intro k h1 h2
      fin_cases k
      · exact (show Comp W s (octant (j + 1) (i + 1) 0) by rw [e0]; exact nw hA _)
      · exact (show Comp W s (octant (j + 1) (i + 1) 1) by rw [e1]; exact nw hA _)
      · exact absurd rfl h1
      · exact absurd rfl h2
      · exact (show Comp W s (octant (j + 1) (i + 1) 4) by rw [e4]; exact se hC _)
      · exact (show Comp W s (octant (j + 1) (i + 1) 5) by rw [e5]; exact se hC _)
      · exact (show Comp W s (octant (j + 1) (i + 1) 6) by rw [e6]; exact ne hB _)
      · exact (show Comp W s (octant (j + 1) (i + 1) 7) by rw [e7]; exact ne hB _)) 2
    rw [e2] at this
    exact ⟨_, this, rfl⟩
  · have := ds_point ha hs (j + 1) (i + 1) 6 (by
      intro k h1 h2
      fin_cases k
      · exact (show Comp W s (octant (j + 1) (i + 1) 0) by rw [e0]; exact nw hA _)
      · exact (show Comp W s (octant (j + 1) (i + 1) 1) by rw [e1]; exact nw hA _)
      · exact (show Comp W s (octant (j + 1) (i + 1) 2) by rw [e2]; exact sw hD _)
      · exact (show Comp W s (octant (j + 1) (i + 1) 3) by rw [e3]; exact sw hD _)
      · exact (show Comp W s (octant (j + 1) (i + 1) 4) by rw [e4]; exact se hC _)
      · exact (show Comp W s (octant (j + 1) (i + 1) 5) by rw [e5]; exact se hC _)
      · exact absurd rfl h1
      · exact absurd rfl h2) 6
    rw [e6] at this
    exact ⟨_, this, rfl⟩
  · have := ds_point ha hs (j + 1) (i + 1) 0 (by
      intro k h1 h2
      fin_cases k
      · exact absurd rfl h1
      · exact absurd rfl h2
      · exact (show Comp W s (octant (j + 1) (i + 1) 2) by rw [e2]; exact sw hD _)
      · exact (show Comp W s (octant (j + 1) (i + 1) 3) by rw [e3]; exact sw hD _)
      · exact (show Comp W s (octant (j + 1) (i + 1) 4) by rw [e4]; exact se hC _)
      · exact (show Comp W s (octant (j + 1) (i + 1) 5) by rw [e5]; exact se hC _)
      · exact (show Comp W s (octant (j + 1) (i + 1) 6) by rw [e6]; exact ne hB _)
      · exact (show Comp W s (octant (j + 1) (i + 1) 7) by rw [e7]; exact ne hB _)) 0
    rw [e0] at this
    exact ⟨_, this, rfl⟩

/-- An area all of whose cells are completely white is an upright rectangle. -/
theorem upright_of_full (hc : CellPattern W) (hb : Bounded W) (ha : Angles W) (hs : W s)
    (hfull : ∀ t, Comp W s t → Full W t.y t.x) :
    ∃ x0 x1 y0 y1 : Int, ∀ t, Comp W s t ↔ InUpright x0 x1 y0 y1 t := by
  obtain ⟨a, b, c, d, _, _, h⟩ := rect_of_noThree (CS W s) (s.x, s.y) ⟨s, Relation.ReflTransGen.refl, rfl⟩
    (cs_bounded hs hb) (by rintro p ⟨t, ht, rfl⟩; exact cs_conn t ht) (cs_noThree hc ha hs hfull)
  refine ⟨a, b + 1, c, d + 1, fun t => ?_⟩
  rw [inUpright_iff]
  constructor
  · intro ht
    have := (h (t.x, t.y)).1 ⟨t, ht, rfl⟩
    simp only at this
    omega
  · intro ht
    exact cs_mem hc hfull ((h (t.x, t.y)).2 (by simp only; omega)) t.q

end

/-- The geometric theorem: right/straight/full white angles at all grid points make every white area a rectangle. -/
theorem allRect_of_angles {W : Quarter → Prop} (hc : CellPattern W) (hb : Bounded W) (ha : Angles W) : AllRect W := by
  intro s hs
  by_cases hno : ∀ t, Comp W s t → W (across t)
  · exact Or.inr (rotated_of_noSide hc hb ha hs hno)
  · have : ∃ t0, Comp W s t0 ∧ ¬ W (across t0) := by
      by_contra hcon
      exact hno fun t ht => by
        by_contra hw
        exact hcon ⟨t, ht, hw⟩
    obtain ⟨t0, h0, hn⟩ := this
    exact Or.inl (upright_of_full hc hb ha hs (full_of_side hc hb ha hs h0 hn))

end Cspuz.Proofs.C11ShakashakaGU
