/-
  C17: assembly — the bitmap decoder is safe, hence the Rooms decoder, hence every term.
-/
import CspuzModel.Proofs.C17Total
import CspuzModel.Proofs.C17Rooms
namespace Cspuz.Ser
open Cspuz

theorem bordersDe_safe (h w : Nat) : SafeDe (bordersDe h w) := by
  unfold bordersDe
  apply tuplDe_safe
  intro f hf
  simp only [List.mem_cons, List.mem_nil_iff, or_false] at hf
  rcases hf with rfl | rfl
  · exact gridDe_safe _ (multiDigitDe_safe 2 5) (multiDigitDe_progress 2 5 (by omega)) _ _
  · exact gridDe_safe _ (multiDigitDe_safe 2 5) (multiDigitDe_progress 2 5 (by omega)) _ _

theorem roomsDe_safe (env : Env) (skip allow : Bool) : SafeDe (roomsDe env skip allow) :=
  roomsDe_safe_of_borders bordersDe_safe env skip allow

theorem de_safe (c : Comb) (env : Env) (ht : terminating c = true) (hk : tablesOk c = true) : SafeDe (de c env) :=
  de_safe_of_rooms roomsDe_safe c env ht hk

theorem deProblem_safe (c : Comb) (ht : terminating c = true) (hk : tablesOk c = true) (h1 : single c = true)
    (s : Str) (h w : Nat) : SafeVal (deProblem c s h w) :=
  deProblem_safe_of_rooms roomsDe_safe c ht hk h1 s h w

theorem deProblemAsUrl_safe (c : Comb) (ht : terminating c = true) (hk : tablesOk c = true) (h1 : single c = true)
    (url : Str) (allowed : Option (List Str)) (af rs : Bool) : SafeVal (deProblemAsUrl c url allowed af rs) :=
  deProblemAsUrl_safe_of_rooms roomsDe_safe c ht hk h1 url allowed af rs

theorem puzzleCodecs_safe : ∀ pc ∈ Gen.puzzleCodecs, ∀ url,
    SafeVal (deProblemAsUrl pc.comb url pc.allowed pc.allowFailure pc.returnSize) :=
  puzzleCodecs_safe_of_rooms roomsDe_safe

/-- the dimensions of a decoded grid problem are the declared ones -/
theorem grid_dims (b : Comb) (dims : Option (Nat × Nat)) (s : Str) (h w : Nat) (p : PyVal)
    (hde : deProblem (.grid b dims) s h w = .ok p) :
    ∃ rows, p = .list rows ∧ GridShape (gridDims ⟨h, w⟩ dims).1 (gridDims ⟨h, w⟩ dims).2 rows := by
  unfold deProblem at hde
  obtain ⟨r, hr, hm⟩ := Outcome.bind_eq_ok.mp hde
  simp only [de] at hr
  obtain ⟨rows, hrows, hshape⟩ := gridDe_ok_shape (n := r.1) (items := r.2) hr
  rw [hrows] at hm
  cases hm
  exact ⟨rows, rfl, hshape⟩

end Cspuz.Ser
