/-
  C11 / doppelblock — the program posted by `solve_doppelblock` encodes the rules of Doppelblock.
-/
import CspuzModel.Proofs.C11DoppelblockA
import CspuzModel.Proofs.C11DoppelblockL
namespace Cspuz.Proofs.C11Doppelblock
open Cspuz Cspuz.Spec Cspuz.Puzzles Cspuz.Puzzles.Doppelblock Cspuz.Spec.Doppelblock Cspuz.Proofs
  Cspuz.Proofs.C11CL Cspuz.Proofs.C11DoppelblockA Cspuz.Proofs.C11DoppelblockL

/-- the expressions `cells` evaluate to the integers `l` -/
def EvalI (σ : Asg) (cells : List Expr) (l : List Int) : Prop :=
  cells.map (eval σ) = l.map fun n => some (.i n)

theorem EvalI.length {σ : Asg} {cells : List Expr} {l : List Int} (h : EvalI σ cells l) : cells.length = l.length := by
  have := congrArg List.length h
  simpa using this

theorem EvalI.take {σ : Asg} {cells : List Expr} {l : List Int} (h : EvalI σ cells l) (i : Nat) :
    EvalI σ (cells.take i) (l.take i) := by
  unfold EvalI at h ⊢
  rw [List.map_take, h, ← List.map_take]

theorem EvalI.drop {σ : Asg} {cells : List Expr} {l : List Int} (h : EvalI σ cells l) (i : Nat) :
    EvalI σ (cells.drop i) (l.drop i) := by
  unfold EvalI at h ⊢
  rw [List.map_drop, h, ← List.map_drop]

theorem EvalI.get {σ : Asg} {cells : List Expr} {l : List Int} (h : EvalI σ cells l) (i : Nat) (hi : i < l.length) :
    eval σ (cells.getD i .litNone) = some (.i (l.getD i 0)) := by
  have hc : i < cells.length := by rw [h.length]; exact hi
  have e1 : cells.getD i .litNone = cells[i] := by simp [List.getD_eq_getElem?_getD, hc]
  have e2 : l.getD i 0 = l[i] := by simp [List.getD_eq_getElem?_getD, hi]
  rw [e1, e2]
  have : (cells.map (eval σ))[i]'(by simpa using hc) = (l.map fun n => some (Val.i n))[i]'(by simpa using hi) := by
    simp only [show cells.map (eval σ) = l.map fun n => some (Val.i n) from h]
  simpa using this

/-! ### Meaning of the pieces -/

theorem eval_eqs {σ : Asg} (v : Int) : ∀ (cells : List Expr) (l : List Int), EvalI σ cells l →
    (eqs cells v).map (eval σ) = (l.map (· == v)).map fun b => some (.b b)
  | [], [], _ => rfl
  | [], _ :: _, h => by simp [EvalI] at h
  | _ :: _, [], h => by simp [EvalI] at h
  | c :: cells, x :: l, h => by
    simp only [EvalI, List.map_cons, List.cons.injEq] at h
    have ih := eval_eqs v cells l h.2
    simp only [eqs, List.map_cons] at ih ⊢
    rw [ih, eval_cmp rfl h.1 (eval_litI σ v)]
    rfl

theorem count_map_beq (l : List Int) (v : Int) : (l.map (· == v)).count true = l.count v := by
  induction l with
  | nil => rfl
  | cons x r ih =>
    simp only [List.map_cons, List.count_cons, ih]
    by_cases h : x = v <;> simp [h]

theorem eval_countCsE {σ : Asg} {cells : List Expr} {l : List Int} (h : EvalI σ cells l) (v k : Int) :
    eval σ (countCsE cells v k) = some (.b (((l.count v : Nat) : Int) == k)) := by
  have h1 := eval_countTrueE (σ := σ) (l.map (· == v)) (eval_eqs v cells l h)
  rw [count_map_beq] at h1
  unfold countCsE
  rw [eval_cmp rfl h1 (eval_litI σ k)]
  rfl

theorem eval_foE {σ : Asg} {cells : List Expr} {l : List Int} (h : EvalI σ cells l) :
    eval σ (foE (eqs cells 0)) = some (.b (hasZ l)) := by
  unfold foE
  split
  · next he =>
    have hc : cells = [] := by simpa [eqs] using he
    subst hc
    have hl : l = [] := by
      have := h.length; simp at this
      exact List.eq_nil_of_length_eq_zero this.symm
    subst hl
    simp [evalOp, hasZ]
  · rw [eval_node, eval_eqs 0 cells l h, evalOp_or]
    simp [hasZ, List.any_map, Function.comp_def]

theorem eval_seqT {σ : Asg} {cells : List Expr} {l : List Int} (h : EvalI σ cells l) (i : Nat) (hi : i < l.length) :
    eval σ (seqT cells i) = some (.i (term l i)) := by
  unfold seqT term
  exact eval_ite (eval_and2 (eval_foE (h.take i)) (eval_foE (h.drop (i + 1)))) (h.get i hi) (eval_litI σ 0)

theorem eval_foldl_add {σ : Asg} : ∀ (ts : List Expr) (vs : List Int) (acc : Expr) (a : Int),
    EvalI σ ts vs → eval σ acc = some (.i a) →
    eval σ (ts.foldl (fun acc x => Expr.node .add [acc, x]) acc) = some (.i (a + vs.sum))
  | [], [], _, _, _, ha => by simpa using ha
  | [], _ :: _, _, _, h, _ => by simp [EvalI] at h
  | _ :: _, [], _, _, h, _ => by simp [EvalI] at h
  | t :: ts, v :: vs, acc, a, h, ha => by
    simp only [EvalI, List.map_cons, List.cons.injEq] at h
    have hstep : eval σ (.node .add [acc, t]) = some (.i (a + v)) := by
      rw [eval_node]
      simp only [List.map_cons, List.map_nil, ha, h.1]
      have := evalOp_add_ints (ns := [a, v]) (by simp)
      simpa using this
    have := eval_foldl_add ts vs _ _ h.2 hstep
    simp only [List.foldl_cons, List.sum_cons]
    rw [this]
    congr 2
    omega

theorem eval_sumE {σ : Asg} {ts : List Expr} {vs : List Int} (h : EvalI σ ts vs) :
    eval σ (sumE ts) = some (.i vs.sum) := by
  have := eval_foldl_add ts vs (.litI 0) 0 h (eval_litI σ 0)
  simpa [sumE] using this

theorem eval_sumC {σ : Asg} {cells : List Expr} {l : List Int} (h : EvalI σ cells l) (c : Int) :
    eval σ (sumC l.length cells c) = some (.b (S l == c)) := by
  have hts : EvalI σ ((List.range l.length).map (seqT cells)) ((List.range l.length).map (term l)) := by
    unfold EvalI
    rw [List.map_map, List.map_map]
    apply List.map_congr_left
    intro i hi
    exact eval_seqT h i (List.mem_range.mp hi)
  unfold sumC
  rw [eval_cmp rfl (eval_sumE hts) (eval_litI σ c)]
  rfl

/-! ### One line: posted constraints ⇔ rules -/

theorem lineCs_iff {σ : Asg} {cells : List Expr} {l : List Int} (h : EvalI σ cells l) (n : Nat) :
    (∀ c ∈ lineCs n cells, eval σ c = some (.b true)) ↔ LineOk n l := by
  unfold lineCs LineOk occ
  simp only [List.mem_cons, List.mem_map, List.mem_range'_1, forall_eq_or_imp, forall_exists_index, and_imp]
  constructor
  · rintro ⟨h0, hv⟩
    rw [eval_countCsE h] at h0
    refine ⟨by simp at h0; omega, ?_⟩
    intro v hv1 hv2
    have := hv _ v.toNat (by omega) (by omega) rfl
    rw [eval_countCsE h, Int.toNat_of_nonneg (by omega)] at this
    simp at this; omega
  · rintro ⟨h0, hv⟩
    refine ⟨by rw [eval_countCsE h]; simp [h0], ?_⟩
    intro c i hi1 hi2 hc
    subst hc
    rw [eval_countCsE h, hv i (by omega) (by omega)]
    rfl

theorem clueE_iff {σ : Asg} {cells : List Expr} {l : List Int} (h : EvalI σ cells l) (h2 : l.count 0 = 2) (c : Int)
    (n : Nat) (hn : l.length = n) :
    (∀ e ∈ clueE n c cells, eval σ e = some (.b true)) ↔ ClueOk c l := by
  subst hn
  unfold clueE ClueOk
  by_cases hc : c ≥ 0
  · simp only [hc, if_true, List.mem_singleton, forall_eq, forall_const, eval_sumC h]
    rw [← S_eq_iff l h2 c]
    simp
  · simp only [hc, if_false, List.not_mem_nil, false_imp_iff, implies_true]

/-! ### well-typedness -/

theorem wtIs_ctOps : ∀ xs : List Expr, (∀ x ∈ xs, wtB x = true) → wtIs (ctOps xs) = true
  | [], _ => rfl
  | x :: r, h => by
    have ih := wtIs_ctOps r (fun y hy => h y (List.mem_cons_of_mem _ hy))
    have hx := h x List.mem_cons_self
    cases x <;> simp_all [ctOps, wtIs, wtI, wtB]

theorem wtIs_append : ∀ a b : List Expr, wtIs (a ++ b) = (wtIs a && wtIs b)
  | [], b => by simp [wtIs]
  | x :: a, b => by simp [wtIs, wtIs_append a b, Bool.and_assoc]

theorem wtI_countTrueE (xs : List Expr) (h : ∀ x ∈ xs, wtB x = true) : wtI (countTrueE xs) = true := by
  unfold countTrueE
  have h1 := wtIs_ctOps xs h
  by_cases hc : ctConst xs > 0
  · simp only [hc, if_true]
    have : (ctOps xs ++ [Expr.litI (ctConst xs : Nat)]).isEmpty = false := by simp
    simp only [this, Bool.false_eq_true, if_false, wtI, wtIs_append, h1, wtIs, Bool.and_self, Bool.and_true]
    simp
  · simp only [hc, if_false]
    cases hops : ctOps xs with
    | nil => simp [wtI]
    | cons y ys =>
      rw [hops] at h1
      simp only [List.isEmpty_cons, Bool.false_eq_true, if_false, wtI, h1, Bool.and_true]
      simp

theorem wtB_eqs (cells : List Expr) (v : Int) (hc : ∀ c ∈ cells, wtI c = true) : ∀ x ∈ eqs cells v, wtB x = true := by
  intro x hx
  simp only [eqs, List.mem_map] at hx
  obtain ⟨c, hcm, rfl⟩ := hx
  simp [wtB, wtIs, wtI, hc c hcm]

theorem wtBs_of_forall : ∀ xs : List Expr, (∀ x ∈ xs, wtB x = true) → wtBs xs = true
  | [], _ => rfl
  | x :: r, h => by
    simp only [wtBs, h x List.mem_cons_self, wtBs_of_forall r (fun y hy => h y (List.mem_cons_of_mem _ hy)), Bool.and_self]

theorem wtB_countCsE (cells : List Expr) (v k : Int) (hc : ∀ c ∈ cells, wtI c = true) :
    wtB (countCsE cells v k) = true := by
  simp [countCsE, wtB, wtIs, wtI, wtI_countTrueE _ (wtB_eqs cells v hc)]

theorem wtB_foE (cells : List Expr) (hc : ∀ c ∈ cells, wtI c = true) : wtB (foE (eqs cells 0)) = true := by
  unfold foE
  split
  · rfl
  · simp only [wtB]
    exact wtBs_of_forall _ (wtB_eqs cells 0 hc)

theorem wtI_seqT (cells : List Expr) (i : Nat) (hi : i < cells.length) (hc : ∀ c ∈ cells, wtI c = true) :
    wtI (seqT cells i) = true := by
  have e1 : cells.getD i .litNone = cells[i] := by simp [List.getD_eq_getElem?_getD, hi]
  have h1 := wtB_foE (cells.take i) (fun c hcm => hc c (List.mem_of_mem_take hcm))
  have h2 := wtB_foE (cells.drop (i + 1)) (fun c hcm => hc c (List.mem_of_mem_drop hcm))
  unfold seqT
  rw [e1]
  simp [wtI, wtB, wtBs, h1, h2, hc _ (List.getElem_mem hi)]

theorem wtI_foldl_add : ∀ (ts : List Expr) (acc : Expr), (∀ t ∈ ts, wtI t = true) → wtI acc = true →
    wtI (ts.foldl (fun acc x => Expr.node .add [acc, x]) acc) = true
  | [], _, _, ha => ha
  | t :: ts, acc, h, ha => by
    apply wtI_foldl_add ts _ (fun x hx => h x (List.mem_cons_of_mem _ hx))
    simp [wtI, wtIs, ha, h t List.mem_cons_self]

theorem wtB_sumC (n : Nat) (cells : List Expr) (c : Int) (hn : cells.length = n) (hc : ∀ c ∈ cells, wtI c = true) :
    wtB (sumC n cells c) = true := by
  have : wtI (sumE ((List.range n).map (seqT cells))) = true := by
    apply wtI_foldl_add _ _ _ rfl
    intro t ht
    simp only [List.mem_map, List.mem_range] at ht
    obtain ⟨i, hi, rfl⟩ := ht
    exact wtI_seqT cells i (by omega) hc
  simp [sumC, wtB, wtIs, wtI, this]

theorem wt_lineCs (n : Nat) (cells : List Expr) (hc : ∀ c ∈ cells, wtI c = true) :
    ∀ e ∈ lineCs n cells, wtB e = true := by
  intro e he
  simp only [lineCs, List.mem_cons, List.mem_map] at he
  rcases he with rfl | ⟨i, _, rfl⟩
  · exact wtB_countCsE _ _ _ hc
  · exact wtB_countCsE _ _ _ hc

theorem wt_clueE (n : Nat) (c : Int) (cells : List Expr) (hn : cells.length = n) (hc : ∀ c ∈ cells, wtI c = true) :
    ∀ e ∈ clueE n c cells, wtB e = true := by
  intro e he
  unfold clueE at he
  split at he
  · simp only [List.mem_singleton] at he
    subst he
    exact wtB_sumC n cells c hn hc
  · simp at he

theorem wtI_rowE (n i : Nat) : ∀ c ∈ rowE n i, wtI c = true := by
  intro c hc; simp only [rowE, List.mem_map] at hc; obtain ⟨_, _, rfl⟩ := hc; rfl

theorem wtI_colE (n i : Nat) : ∀ c ∈ colE n i, wtI c = true := by
  intro c hc; simp only [colE, List.mem_map] at hc; obtain ⟨_, _, rfl⟩ := hc; rfl

theorem wt_closed (pb : Problem) : ∀ c ∈ closedCs pb, wtB c = true := by
  intro c hc
  simp only [closedCs, List.mem_flatten, List.mem_map, List.mem_range] at hc
  obtain ⟨_, ⟨i, _, rfl⟩, hc⟩ := hc
  simp only [perI, List.mem_append] at hc
  rcases hc with ((hc | hc) | hc) | hc
  · exact wt_lineCs _ _ (wtI_rowE _ _) c hc
  · exact wt_lineCs _ _ (wtI_colE _ _) c hc
  · exact wt_clueE _ _ _ (by simp [rowE]) (wtI_rowE _ _) c hc
  · exact wt_clueE _ _ _ (by simp [colE]) (wtI_colE _ _) c hc

/-! ### The board -/

theorem evalI_row (pb : Problem) (σ : Asg) (g : Nat → Nat → Int)
    (hag : ∀ y, y < pb.n → ∀ x, x < pb.n → g y x = σ.i (y * pb.n + x)) (i : Nat) (hi : i < pb.n) :
    EvalI σ (rowE pb.n i) (row pb g i) := by
  unfold EvalI rowE row
  rw [List.map_map, List.map_map]
  apply List.map_congr_left
  intro x hx
  simp only [Function.comp, eval_ivar, hag i hi x (List.mem_range.mp hx)]

theorem evalI_col (pb : Problem) (σ : Asg) (g : Nat → Nat → Int)
    (hag : ∀ y, y < pb.n → ∀ x, x < pb.n → g y x = σ.i (y * pb.n + x)) (i : Nat) (hi : i < pb.n) :
    EvalI σ (colE pb.n i) (col pb g i) := by
  unfold EvalI colE col
  rw [List.map_map, List.map_map]
  apply List.map_congr_left
  intro y hy
  simp only [Function.comp, eval_ivar, hag y (List.mem_range.mp hy) i hi]

theorem perI_iff (pb : Problem) (σ : Asg) (g : Nat → Nat → Int)
    (hag : ∀ y, y < pb.n → ∀ x, x < pb.n → g y x = σ.i (y * pb.n + x)) (i : Nat) (hi : i < pb.n) :
    (∀ c ∈ perI pb i, eval σ c = some (.b true)) ↔
      (LineOk pb.n (row pb g i) ∧ LineOk pb.n (col pb g i) ∧
        ClueOk (pb.clueRow.getD i (-1)) (row pb g i) ∧ ClueOk (pb.clueCol.getD i (-1)) (col pb g i)) := by
  have hr := evalI_row pb σ g hag i hi
  have hc := evalI_col pb σ g hag i hi
  have hlr : (row pb g i).length = pb.n := by simp [row]
  have hlc : (col pb g i).length = pb.n := by simp [col]
  have e1 := lineCs_iff hr pb.n
  have e2 := lineCs_iff hc pb.n
  unfold perI
  simp only [List.mem_append, or_imp, forall_and]
  constructor
  · rintro ⟨⟨⟨a1, a2⟩, a3⟩, a4⟩
    have l1 := e1.1 a1
    have l2 := e2.1 a2
    refine ⟨l1, l2, ?_, ?_⟩
    · exact (clueE_iff hr l1.1 _ _ hlr).1 a3
    · exact (clueE_iff hc l2.1 _ _ hlc).1 a4
  · rintro ⟨l1, l2, c1, c2⟩
    exact ⟨⟨⟨e1.2 l1, e2.2 l2⟩, (clueE_iff hr l1.1 _ _ hlr).2 c1⟩, (clueE_iff hc l2.1 _ _ hlc).2 c2⟩

theorem closed_iff (pb : Problem) (σ : Asg) (g : Nat → Nat → Int)
    (hag : ∀ y, y < pb.n → ∀ x, x < pb.n → g y x = σ.i (y * pb.n + x)) :
    ((∀ y, y < pb.n → ∀ x, x < pb.n → 0 ≤ g y x ∧ g y x ≤ (pb.n : Int) - 2) ∧
      ∀ c ∈ closedCs pb, eval σ c = some (.b true)) ↔ RulesGrid pb g := by
  unfold RulesGrid
  apply and_congr Iff.rfl
  simp only [closedCs, List.mem_flatten, List.mem_map, List.mem_range]
  constructor
  · intro h i hi
    exact (perI_iff pb σ g hag i hi).1 (fun c hc => h c ⟨_, ⟨i, hi, rfl⟩, hc⟩)
  · rintro h c ⟨_, ⟨i, hi, rfl⟩, hc⟩
    exact (perI_iff pb σ g hag i hi).2 (h i hi) c hc

/-! ### The theorems -/

theorem total (pb : Problem) (hwf : WellFormed pb) : ∃ P, program pb = .ok P :=
  ⟨_, program_closed pb hwf⟩

theorem program_iff_rules (pb : Problem) (hwf : WellFormed pb) (P : PuzzleProg) (hP : program pb = .ok P) :
    EncodesRules P (Rules pb) ∧ P.KeysOk ∧ (∀ c ∈ P.cs, wtB c = true) := by
  rw [program_closed pb hwf] at hP
  cases hP
  refine ⟨?_, ?_, wt_closed pb⟩
  · exact Cspuz.Proofs.C11Grid.encodes_int_grid pb.n pb.n 0 ((pb.n : Int) - 2) (closedCs pb) (RulesGrid pb)
      (closed_iff pb)
  · exact Cspuz.Proofs.C11Grid.keysOk_range _ _ _ (by simp)

end Cspuz.Proofs.C11Doppelblock
