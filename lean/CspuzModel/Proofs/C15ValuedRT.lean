/-
  C15: ValuedRooms at the level of terms — the values stay attached to their rooms (from `valuedRooms_roundtrip`,
  `rooms_roundtrip`, the bitmap instance and the locality of `Seq(value, n)`).
-/
import CspuzModel.Proofs.C15Valued
import CspuzModel.Proofs.C15Roundtrip
namespace Cspuz.Ser
open Cspuz

theorem valuedRooms_term_roundtrip (h w : Nat) (v : Comb) (rooms : List (List (Nat × Nat))) (values : List PyVal)
    (skip allow : Bool) (hh : 1 ≤ h) (hw : 1 ≤ w) (hv : ValidPartition h w rooms) (hl : values.length = rooms.length)
    (hwf : wf (.valuedRooms v skip allow) = true) (hnr : noRooms v = true)
    (hgood : Good (.seq v rooms.length) ⟨h, w⟩ [.list (canonValues h w rooms values)] 0)
    (hser : ∃ t, ser (.seq v rooms.length) ⟨h, w⟩ [.list (canonValues h w rooms values)] 0 = .ok (1, t)) :
    ∃ t, ser (.valuedRooms v skip allow) ⟨h, w⟩ [.tuple [roomsVal rooms, .list values]] 0 = .ok (1, t) ∧
      ∀ pre rest, de (.valuedRooms v skip allow) ⟨h, w⟩ (pre ++ t ++ rest) pre.length
        = .ok (t.length, [.tuple [roomsVal (canonRooms h w rooms), .list (canonValues h w rooms values)]]) := by
  simp only [wf, Bool.and_eq_true, Bool.not_eq_true'] at hwf
  have hwfs : wf (.seq v rooms.length) = true := by
    simp [wf, hwf.1.1, hwf.1.2, hwf.2]
  have hloc := comb_local ⟨h, w⟩ (.seq v rooms.length) hwfs (by simpa [noRooms] using hnr)
  obtain ⟨t2, ht2⟩ := hser
  have hS : ∀ k t2', seqSer (ser v ⟨h, w⟩) rooms.length [.list (canonValues h w rooms values)] 0 = .ok (k, t2') →
      ∀ pre rest, True → seqDe (de v ⟨h, w⟩) rooms.length (pre ++ t2' ++ rest) pre.length
        = .ok (t2'.length, [.list (canonValues h w rooms values)]) := by
    intro k t2' hk pre rest _
    obtain ⟨items, hde, _, hex⟩ := hloc _ 0 k t2' (by simpa [ser] using hk) hgood pre rest
      (fun hn => by simp [needsND, hwf.2] at hn)
    have hk1 : k = 1 := (seqSer_eq_ok hk).choose_spec.2.1
    subst hk1
    have : items = [.list (canonValues h w rooms values)] := by
      have := hex (Or.inl (by simp [exact]))
      simpa [window] using this
    subst this
    simpa [de] using hde
  obtain ⟨t1, hs⟩ := valuedRoomsSer_ok (ser v ⟨h, w⟩) h w hh hw (borders_roundtrip h w) rooms hv values hl skip 1 t2
    (by simpa [ser] using ht2)
  refine ⟨t1 ++ t2, by simpa [ser] using hs, ?_⟩
  intro pre rest
  have := (valuedRooms_roundtrip (ser v ⟨h, w⟩) (de v ⟨h, w⟩) (fun _ => True) h w hh hw (borders_roundtrip h w) rooms hv
    values hl hS skip allow 1 (t1 ++ t2) hs).2 pre rest trivial
  simpa [de] using this

end Cspuz.Ser
