/-
  C08, diagonal encoding, layer L2 (soundness): a `DiagCert` forces the diagonal graph of the active
  cells (with the outside vertex) to be acyclic.

  Idea: give the outside vertex the rank `-1`.  Then adjacent vertices have different ranks and every
  vertex has at most one neighbour of smaller rank (a border cell's only one is the outside vertex);
  the vertex of maximal rank on a cycle would have two.
-/
import Mathlib.Combinatorics.SimpleGraph.Acyclic
import CspuzModel.Spec.C08Spec
import CspuzModel.Proofs.C08Nb
import CspuzModel.Proofs.C04L2
namespace Cspuz.Proofs.C08DiagL2
open Cspuz Cspuz.Spec Cspuz.Proofs.C08Nb

/-- A graph with a potential in which every vertex has at most one neighbour that is not higher is
acyclic. -/
theorem acyclic_of_rank {V : Type} (G : SimpleGraph V) (R : V → Int)
    (hone : ∀ u a b, G.Adj u a → G.Adj u b → R a ≤ R u → R b ≤ R u → a = b) : G.IsAcyclic := by
  classical
  intro v p hp
  obtain ⟨u, hu, hmax⟩ := Finset.exists_max_image p.support.toFinset R ⟨v, by simp⟩
  rw [List.mem_toFinset] at hu
  have h2 := hp.ncard_neighborSet_toSubgraph_eq_two hu
  obtain ⟨a, b, hab, hset⟩ := Set.ncard_eq_two.1 h2
  have ha : p.toSubgraph.Adj u a := by
    have : a ∈ p.toSubgraph.neighborSet u := by rw [hset]; simp
    exact this
  have hb : p.toSubgraph.Adj u b := by
    have : b ∈ p.toSubgraph.neighborSet u := by rw [hset]; simp
    exact this
  have hsa : a ∈ p.support := (p.mem_verts_toSubgraph).1 (p.toSubgraph.edge_vert ha.symm)
  have hsb : b ∈ p.support := (p.mem_verts_toSubgraph).1 (p.toSubgraph.edge_vert hb.symm)
  exact hab (hone u a b ha.adj_sub hb.adj_sub (hmax a (List.mem_toFinset.2 hsa))
    (hmax b (List.mem_toFinset.2 hsb)))

section
variable {h w : Nat} {act : Nat → Bool}

/-- rank extended to the outside vertex -/
def R (c : DiagCert h w act) : DCell h w → Int
  | none => -1
  | some d => c.rank d.1.1 d.2.1

/-- a diagonal active neighbour that is not higher is one of the counted entries -/
theorem lower_mem (c : DiagCert h w act) {u d : Fin h × Fin w}
    (hadj : (diagGraph h w act).Adj (some u) (some d))
    (hle : c.rank d.1.1 d.2.1 ≤ c.rank u.1.1 u.2.1) :
    (d.1.1, d.2.1) ∈ (nbOf h w u.1.1 u.2.1).filter
      (fun p => decide (c.rank p.1 p.2 < c.rank u.1.1 u.2.1) && act (p.1 * w + p.2)) := by
  obtain ⟨hu, hd, hdy, hdx⟩ := hadj
  have hne := c.distinct u.1.1 u.2.1 d.1.1 d.2.1 u.1.2 u.2.2 d.1.2 d.2.2 hdy hdx
  rw [List.mem_filter]
  refine ⟨mem_nbOf.2 ⟨d.1.2, d.2.2, hdy, hdx⟩, ?_⟩
  simp only [Bool.and_eq_true, decide_eq_true_eq]
  exact ⟨by omega, hd⟩

theorem count_le (c : DiagCert h w act) (u : Fin h × Fin w) (hu : act (u.1.1 * w + u.2.1) = true) :
    ((nbOf h w u.1.1 u.2.1).filter
      (fun p => decide (c.rank p.1 p.2 < c.rank u.1.1 u.2.1) && act (p.1 * w + p.2))).length ≤
      (if u.1.1 = 0 ∨ u.1.1 + 1 = h ∨ u.2.1 = 0 ∨ u.2.1 + 1 = w then 0 else 1) :=
  c.loc u.1.1 u.2.1 u.1.2 u.2.2 hu (nbOf h w u.1.1 u.2.1) (fun _ => mem_nbOf) (nbOf_nodup h w _ _)

theorem diag_forest (c : DiagCert h w act) : DiagForest h w act := by
  apply acyclic_of_rank _ (R c)
  intro u a b hua hub hau hbu
  match u, a, b, hua, hub, hau, hbu with
  | none, none, _, h1, _, _, _ => exact h1.elim
  | none, some d, _, _, _, h3, _ =>
    have := c.rank_lo d.1.1 d.2.1 d.1.2 d.2.2
    simp only [R] at h3
    omega
  | some u, none, none, _, _, _, _ => rfl
  | some u, some d, none, h1, h2, h3, _ =>
    exfalso
    have hm := lower_mem c h1 h3
    have hc := count_le c u h2.1
    have hb : u.1.1 = 0 ∨ u.1.1 + 1 = h ∨ u.2.1 = 0 ∨ u.2.1 + 1 = w := h2.2
    rw [if_pos hb] at hc
    have := List.length_pos_of_mem hm
    omega
  | some u, none, some d, h1, h2, _, h4 =>
    exfalso
    have hm := lower_mem c h2 h4
    have hc := count_le c u h1.1
    have hb : u.1.1 = 0 ∨ u.1.1 + 1 = h ∨ u.2.1 = 0 ∨ u.2.1 + 1 = w := h1.2
    rw [if_pos hb] at hc
    have := List.length_pos_of_mem hm
    omega
  | some u, some d, some e, h1, h2, h3, h4 =>
    have hm1 := lower_mem c h1 h3
    have hm2 := lower_mem c h2 h4
    have hc := count_le c u h1.1
    have hc1 : ((nbOf h w u.1.1 u.2.1).filter
      (fun p => decide (c.rank p.1 p.2 < c.rank u.1.1 u.2.1) && act (p.1 * w + p.2))).length ≤ 1 := by
      split at hc <;> omega
    have := C04L2.eq_of_mem_of_length_le_one hc1 hm1 hm2
    simp only [Prod.mk.injEq] at this
    exact congrArg some (Prod.ext (Fin.ext this.1) (Fin.ext this.2))

end
end Cspuz.Proofs.C08DiagL2
