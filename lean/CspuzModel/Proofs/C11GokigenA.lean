/-
  C11 / gokigen, part A: closed form of the program posted by `solve_gokigen` on a well-formed problem, and
  totality.
-/
import CspuzModel.Proofs.C11CL
import CspuzModel.Proofs.C11Grid
import CspuzModel.Proofs.C11Frag
import CspuzModel.Properties.C09
import CspuzModel.Spec.PuzzleRules.Gokigen
namespace Cspuz.Proofs.C11GokigenA
open Cspuz Cspuz.Spec Cspuz.Puzzles Cspuz.Puzzles.Gokigen Cspuz.Proofs Cspuz.Spec.Gokigen

theorem bvars_eq (n : Nat) : bvars 0 n = (List.range n).map Expr.bvar := by simp [bvars]

theorem mem_cellsOf {h w : Nat} {p : Nat × Nat} : p ∈ cellsOf h w ↔ p.1 < h ∧ p.2 < w := by
  obtain ⟨a, b⟩ := p
  simp only [cellsOf, List.mem_flatMap, List.mem_map, List.mem_range, Prod.mk.injEq]
  constructor
  · rintro ⟨y, hy, x, hx, rfl, rfl⟩; exact ⟨hy, hx⟩
  · rintro ⟨hy, hx⟩; exact ⟨a, hy, b, hx, rfl, rfl⟩

theorem cellsOf_eq (h w : Nat) : cellsOf h w = (List.range (h * w)).map fun i => (i / w, i % w) := by
  unfold cellsOf; exact C11Grid.flatMap_range_eq (fun y x => (y, x)) h w

/-- A list built from pairs, by position. -/
theorem pairs_length {α : Type} (a b : Nat → α) (n : Nat) :
    ((List.range n).flatMap fun i => [a i, b i]).length = 2 * n := by
  induction n with
  | zero => rfl
  | succ n ih => rw [List.range_succ, List.flatMap_append, List.length_append, ih]; simp; omega

theorem pairs_getElem? {α : Type} (a b : Nat → α) (n k : Nat) :
    ((List.range n).flatMap fun i => [a i, b i])[k]? =
      if k < 2 * n then some (if k % 2 = 0 then a (k / 2) else b (k / 2)) else none := by
  induction n with
  | zero => simp
  | succ n ih =>
    rw [List.range_succ, List.flatMap_append]
    by_cases hk : k < 2 * n
    · rw [List.getElem?_append_left (by rw [pairs_length]; exact hk), ih, if_pos hk,
        if_pos (show k < 2 * (n + 1) by omega)]
    · rw [List.getElem?_append_right (by rw [pairs_length]; omega), pairs_length]
      simp only [List.flatMap_cons, List.flatMap_nil, List.append_nil]
      by_cases h0 : k = 2 * n
      · subst h0
        rw [if_pos (by omega), if_pos (by omega)]
        simp
      · by_cases h1 : k = 2 * n + 1
        · subst h1
          rw [if_pos (by omega), if_neg (by omega)]
          rw [show 2 * n + 1 - 2 * n = 1 by omega, show (2 * n + 1) / 2 = n by omega]
          rfl
        · rw [if_neg (by omega)]
          rw [List.getElem?_eq_none (by simp; omega)]

/-! ### the edge list -/

/-- Closed form of `edge_list`: per cell the variable, then its negation. -/
def elE (n : Nat) : List Expr := (List.range n).flatMap fun i => [.bvar i, .node .not [.bvar i]]

theorem unop_invert_bvar (i : Nat) : unop .invert (.scalar (.bvar i)) = .ok (.scalar (.node .not [.bvar i])) := rfl

theorem edgeList_eq (h w : Nat) : edgeList (.arr2 true h w (bvars 0 (h * w))) h w = .ok (elE (h * w)) := by
  unfold edgeList
  rw [bvars_eq]
  rw [mapM_eq_ok_map (g := fun (yx : Nat × Nat) =>
    [Expr.bvar (yx.1 * w + yx.2), Expr.node .not [Expr.bvar (yx.1 * w + yx.2)]])]
  · rw [ok_bind, cellsOf_eq, List.map_map, elE]
    congr 1
    rw [List.flatMap_def]
    congr 1
    apply List.map_congr_left
    intro i _
    simp only [Function.comp]
    rw [Nat.div_add_mod' i w]
  · intro p hp
    obtain ⟨hy, hx⟩ := mem_cellsOf.1 hp
    rw [C11CL.getitemV_cell true Expr.bvar h w p.1 p.2 hy hx, ok_bind, unop_invert_bvar, ok_bind]
    rfl

theorem elE_length (n : Nat) : (elE n).length = 2 * n := pairs_length _ _ n

theorem elE_boolArgs (n : Nat) : BoolArgs n (elE n) := by
  intro e he
  simp only [elE, List.mem_flatMap, List.mem_range, List.mem_cons, List.not_mem_nil, or_false] at he
  obtain ⟨i, hi, rfl | rfl⟩ := he
  · simp [wtB, Expr.varsBelow, hi]
  · simp [wtB, wtBs, Expr.varsBelow, Expr.varsBelow.varsBelowList, hi]

/-! ### the graph -/

theorem diagGraph_edges (h w : Nat) :
    (diagGraph h w).edges = (List.range (h * w)).flatMap fun i =>
      [((i / w) * (w + 1) + i % w, (i / w + 1) * (w + 1) + (i % w + 1)),
       ((i / w) * (w + 1) + (i % w + 1), (i / w + 1) * (w + 1) + i % w)] := by
  simp only [diagGraph, cellsOf_eq, List.flatMap_def, List.map_map]
  rfl

theorem diagGraph_edges_length (h w : Nat) : (diagGraph h w).edges.length = 2 * (h * w) := by
  rw [diagGraph_edges]; exact pairs_length _ _ _

theorem lattice_lt {h w y x : Nat} (hy : y ≤ h) (hx : x ≤ w) : y * (w + 1) + x < (h + 1) * (w + 1) :=
  C11Grid.cell_lt (by omega) (by omega)

theorem diagGraph_mem {h w : Nat} {e : Nat × Nat} (he : e ∈ (diagGraph h w).edges) :
    ∃ y x, y < h ∧ x < w ∧ (e = (y * (w + 1) + x, (y + 1) * (w + 1) + (x + 1)) ∨
      e = (y * (w + 1) + (x + 1), (y + 1) * (w + 1) + x)) := by
  simp only [diagGraph, List.mem_flatMap, List.mem_cons, List.not_mem_nil, or_false] at he
  obtain ⟨p, hp, he⟩ := he
  obtain ⟨hy, hx⟩ := mem_cellsOf.1 hp
  exact ⟨p.1, p.2, hy, hx, he⟩

theorem diagGraph_wf (h w : Nat) : (diagGraph h w).wf = true := by
  simp only [Graph.wf, List.all_eq_true, Bool.and_eq_true, decide_eq_true_eq]
  intro e he
  obtain ⟨y, x, hy, hx, rfl | rfl⟩ := diagGraph_mem he
  · exact ⟨lattice_lt (by omega) (by omega), lattice_lt (by omega) (by omega)⟩
  · exact ⟨lattice_lt (by omega) (by omega), lattice_lt (by omega) (by omega)⟩

/-- Every edge goes from a point of one row to a point of the next row: first end < second end. -/
theorem diagGraph_lt {h w : Nat} {e : Nat × Nat} (he : e ∈ (diagGraph h w).edges) : e.1 < e.2 := by
  obtain ⟨y, x, hy, hx, rfl | rfl⟩ := diagGraph_mem he
  · show y * (w + 1) + x < (y + 1) * (w + 1) + (x + 1)
    rw [Nat.succ_mul]; omega
  · show y * (w + 1) + (x + 1) < (y + 1) * (w + 1) + x
    rw [Nat.succ_mul]; omega

theorem diagGraph_loopFree (h w : Nat) : LoopFree (diagGraph h w) := by
  intro e he
  exact Nat.ne_of_lt (diagGraph_lt he)

theorem diagGraph_n (h w : Nat) : (diagGraph h w).n = (h + 1) * (w + 1) := rfl

/-! ### the clue constraints -/

/-- The literal for a diagonal: `\` is the variable, `/` its negation. -/
def lit (neg : Bool) (i : Nat) : Expr := if neg then .node .not [.bvar i] else .bvar i

/-- The literals collected in `related` for the lattice point `(y, x)`. -/
def related (h w y x : Nat) : List Expr :=
  (if 0 < y ∧ 0 < x then [lit false ((y - 1) * w + (x - 1))] else []) ++
  (if 0 < y ∧ x < w then [lit true ((y - 1) * w + x)] else []) ++
  (if y < h ∧ 0 < x then [lit true (y * w + (x - 1))] else []) ++
  (if y < h ∧ x < w then [lit false (y * w + x)] else [])

/-- The constraint of the lattice point `(y, x)`. -/
def clueE (pb : Problem) (y x : Nat) : List Expr :=
  if 0 ≤ val pb y x then [.node .eq [countTrueE (related pb.height pb.width y x), .litI (val pb y x)]] else []

theorem tableGet_eq {pb : Problem} (hwf : WellFormed pb) {y x : Nat} (hy : y ≤ pb.height) (hx : x ≤ pb.width) :
    tableGet pb.problem (y : Int) (x : Int) = .ok (val pb y x) := by
  obtain ⟨hl, hr⟩ := hwf
  have hy' : y < pb.problem.length := by omega
  have hrow : (pb.problem[y]).length = pb.width + 1 := hr _ (List.getElem_mem hy')
  simp only [tableGet, val]
  rw [Cspuz.Proofs.C13.pyIndex_natCast _ _ hy', List.getElem?_eq_getElem hy']
  simp only [ok_bind]
  rw [Cspuz.Proofs.C13.pyIndex_natCast _ _ (by omega), List.getElem?_eq_getElem (by omega)]
  simp [List.getD, List.getElem?_eq_getElem hy', List.getElem?_eq_getElem (show x < (pb.problem[y]).length by omega)]

theorem relatedIf_eq (h w : Nat) (guard : Bool) (ci cj : Int) (cy cx : Nat) (neg : Bool)
    (hg : guard = true → cy < h ∧ cx < w ∧ ci = (cy : Int) ∧ cj = (cx : Int)) :
    relatedIf (.arr2 true h w (bvars 0 (h * w))) guard ci cj neg =
      .ok (if guard = true then [.leaf (.scalar (lit neg (cy * w + cx)))] else []) := by
  unfold relatedIf
  cases guard with
  | false => rfl
  | true =>
    obtain ⟨hy, hx, rfl, rfl⟩ := hg rfl
    simp only [if_true]
    rw [bvars_eq, C11CL.getitemV_cell true Expr.bvar h w cy cx hy hx, ok_bind]
    cases neg
    · rfl
    · simp only [if_true, unop_invert_bvar, ok_bind, lit]

theorem lit_isBoolLike (neg : Bool) (i : Nat) : (lit neg i).isBoolLike = true := by
  cases neg <;> rfl

theorem related_isBoolLike (h w y x : Nat) : ∀ e ∈ related h w y x, e.isBoolLike = true := by
  intro e he
  simp only [related, List.mem_append] at he
  rcases he with ((he | he) | he) | he <;>
  · split at he
    · simp only [List.mem_singleton] at he; subst he; exact lit_isBoolLike _ _
    · simp at he

theorem flattenList_append : ∀ a b : List ANest,
    ANest.flattenList (a ++ b) = ANest.flattenList a ++ ANest.flattenList b
  | [], b => rfl
  | x :: a, b => by simp [ANest.flattenList, flattenList_append a b]

theorem flattenList_guard (c : Prop) [Decidable c] (e : Expr) :
    ANest.flattenList (if decide c = true then [ANest.leaf (.scalar e)] else []) = if c then [e] else [] := by
  by_cases hc : c <;> simp [hc, ANest.flattenList, ANest.flatten, PyV.flat]

theorem flatten_related (h w y x : Nat) :
    ANest.flattenList [.items (
      (if decide (0 < y ∧ 0 < x) = true then [ANest.leaf (.scalar (lit false ((y - 1) * w + (x - 1))))] else []) ++
      (if decide (0 < y ∧ x < w) = true then [ANest.leaf (.scalar (lit true ((y - 1) * w + x)))] else []) ++
      (if decide (y < h ∧ 0 < x) = true then [ANest.leaf (.scalar (lit true (y * w + (x - 1))))] else []) ++
      (if decide (y < h ∧ x < w) = true then [ANest.leaf (.scalar (lit false (y * w + x)))] else []))]
      = related h w y x := by
  unfold related
  simp only [ANest.flattenList, ANest.flatten, List.append_nil, flattenList_append, flattenList_guard]

theorem clueCs_eq {pb : Problem} (hwf : WellFormed pb) (p : Nat × Nat) (hy : p.1 ≤ pb.height) (hx : p.2 ≤ pb.width) :
    clueCs pb (.arr2 true pb.height pb.width (bvars 0 (pb.height * pb.width))) p = .ok (clueE pb p.1 p.2) := by
  obtain ⟨y, x⟩ := p
  simp only at hy hx
  unfold clueCs clueE
  simp only
  rw [tableGet_eq hwf hy hx, ok_bind]
  by_cases hv : 0 ≤ val pb y x
  · rw [if_pos hv, if_pos hv]
    rw [relatedIf_eq pb.height pb.width (decide (0 < (y : Int) ∧ 0 < (x : Int))) _ _ (y - 1) (x - 1) false
      (by intro hg; simp only [decide_eq_true_eq] at hg; omega), ok_bind]
    rw [relatedIf_eq pb.height pb.width (decide (0 < (y : Int) ∧ (x : Int) < (pb.width : Int))) _ _ (y - 1) x true
      (by intro hg; simp only [decide_eq_true_eq] at hg; omega), ok_bind]
    rw [relatedIf_eq pb.height pb.width (decide ((y : Int) < (pb.height : Int) ∧ 0 < (x : Int))) _ _ y (x - 1) true
      (by intro hg; simp only [decide_eq_true_eq] at hg; omega), ok_bind]
    rw [relatedIf_eq pb.height pb.width (decide ((y : Int) < (pb.height : Int) ∧ (x : Int) < (pb.width : Int))) _ _ y x false
      (by intro hg; simp only [decide_eq_true_eq] at hg; omega), ok_bind]
    have e1 : decide (0 < (y : Int) ∧ 0 < (x : Int)) = decide (0 < y ∧ 0 < x) := by
      apply decide_eq_decide.2; omega
    have e2 : decide (0 < (y : Int) ∧ (x : Int) < (pb.width : Int)) = decide (0 < y ∧ x < pb.width) := by
      apply decide_eq_decide.2; omega
    have e3 : decide ((y : Int) < (pb.height : Int) ∧ 0 < (x : Int)) = decide (y < pb.height ∧ 0 < x) := by
      apply decide_eq_decide.2; omega
    have e4 : decide ((y : Int) < (pb.height : Int) ∧ (x : Int) < (pb.width : Int)) = decide (y < pb.height ∧ x < pb.width) := by
      apply decide_eq_decide.2; omega
    rw [e1, e2, e3, e4]
    unfold countTrueA
    rw [flatten_related, countTrue_ok_of_boolLike (related_isBoolLike _ _ _ _), ok_bind]
    obtain ⟨op, args, hop, hint⟩ := C11CL.countTrueE_isNode (related pb.height pb.width y x)
    rw [hop, C11CL.binop_eq_node_lit op args _ hint, ok_bind, C11CL.ensureV_scalar _ rfl]
  · rw [if_neg hv, if_neg hv]

/-! ### the whole program -/

/-- All clue constraints. -/
def clueAll (pb : Problem) : List Expr :=
  ((cellsOf (pb.height + 1) (pb.width + 1)).map fun p => clueE pb p.1 p.2).flatten

theorem clue_mapM {pb : Problem} (hwf : WellFormed pb) :
    (cellsOf (pb.height + 1) (pb.width + 1)).mapM
      (clueCs pb (.arr2 true pb.height pb.width (bvars 0 (pb.height * pb.width))))
      = .ok ((cellsOf (pb.height + 1) (pb.width + 1)).map fun p => clueE pb p.1 p.2) := by
  apply mapM_eq_ok_map
  intro p hp
  obtain ⟨hy, hx⟩ := mem_cellsOf.1 hp
  exact clueCs_eq hwf p (by omega) (by omega)

theorem acyclic_total (h w : Nat) : ∃ ac, activeEdgesAcyclic (diagGraph h w) (elE (h * w)) (h * w) = .ok ac := by
  apply Cspuz.C09.C09_total
  · rw [diagGraph_n]; exact Nat.mul_pos (by omega) (by omega)
  · exact diagGraph_wf h w
  · rw [elE_length, diagGraph_edges_length]
  · exact elE_boolArgs _

/-- Closed form of the program, given the acyclicity fragment. -/
theorem program_eq {pb : Problem} (hwf : WellFormed pb) {P : PuzzleProg} (hP : program pb = .ok P) :
    ∃ ac, activeEdgesAcyclic (diagGraph pb.height pb.width) (elE (pb.height * pb.width)) (pb.height * pb.width) = .ok ac ∧
      P = { decls := List.replicate (pb.height * pb.width) .bool ++ ac.decls,
            cs := ac.cs ++ clueAll pb,
            keys := List.range (pb.height * pb.width) } := by
  obtain ⟨ac, hac⟩ := acyclic_total pb.height pb.width
  refine ⟨ac, hac, ?_⟩
  unfold program at hP
  simp only at hP
  rw [C11Grid.addKeys_bvars, ok_bind, edgeList_eq, ok_bind, hac, ok_bind, clue_mapM hwf, ok_bind] at hP
  cases hP
  rfl

theorem total (pb : Problem) (hwf : WellFormed pb) : ∃ P, program pb = .ok P := by
  obtain ⟨ac, hac⟩ := acyclic_total pb.height pb.width
  unfold program
  simp only
  rw [C11Grid.addKeys_bvars, ok_bind, edgeList_eq, ok_bind, hac, ok_bind, clue_mapM hwf, ok_bind]
  exact ⟨_, rfl⟩

end Cspuz.Proofs.C11GokigenA
