/-
  C11 / Nurimaze — `solve_nurimaze` posts a program that encodes the published rules
  (Spec/PuzzleRules/Nurimaze.lean).  Parts A (closed form), B (typing, meaning of the constraints),
  C (the hidden fragments), D (counts vs. paths of the maze), G (grid graph), T (path-like sets in trees);
  this file: assembly.
-/
import CspuzModel.Proofs.C11NurimazeD
namespace Cspuz.Proofs.C11Nurimaze
open Cspuz Cspuz.Spec Cspuz.Puzzles Cspuz.Puzzles.Nurimaze Cspuz.Spec.Nurimaze Cspuz.Proofs
open Cspuz.Proofs.C11NurimazeA Cspuz.Proofs.C11NurimazeB Cspuz.Proofs.C11NurimazeC Cspuz.Proofs.C11NurimazeD
open Cspuz.Proofs.C11NurimazeT

/-- A path of an induced subgraph, read in the ambient graph. -/
theorem map_back {V : Type} {G : SimpleGraph V} {s : Set V} {u v : ↥s} (p : (G.induce s).Walk u v) (hp : p.IsPath) :
    ∃ q : G.Walk u.1 v.1, q.IsPath ∧ q.support = p.support.map Subtype.val :=
  ⟨p.map (SimpleGraph.Embedding.induce (G := G) s).toHom,
    hp.map (SimpleGraph.Embedding.induce (G := G) s).injective, SimpleGraph.Walk.support_map _ _⟩

/-- The meaning of all constraints, read on the white grid, is exactly the rules. -/
theorem core_iff {pb : Problem} (hwf : WellFormed pb) (g : Nat → Nat → Bool) :
    (((maze pb g).IsTree ∧ ∃ pt, PathCond pb g pt) ∧ LocSem pb g) ↔ RulesGrid pb g := by
  have hsb := start_on_board hwf
  have hgb := goal_on_board hwf
  have hSend : IsEnd pb (startCell pb).1 (startCell pb).2 := (isEnd_iff hwf _ _).2 (Or.inl rfl)
  have hGend : IsEnd pb (goalCell pb).1 (goalCell pb).2 := (isEnd_iff hwf _ _).2 (Or.inr rfl)
  constructor
  · rintro ⟨⟨hT, pt, hsub, hcells⟩, hblk, hcellW⟩
    have hs : startCell pb ∈ whiteCells pb g :=
      ⟨hsb.1, hsb.2, hsub _ hsb.1 _ hsb.2 ((hcells _ hsb.1 _ hsb.2).1 hSend).1⟩
    have hg : goalCell pb ∈ whiteCells pb g :=
      ⟨hgb.1, hgb.2, hsub _ hgb.1 _ hgb.2 ((hcells _ hgb.1 _ hgb.2).1 hGend).1⟩
    have hdeg : DegCond pb pt := fun y hy x hx => ⟨(hcells y hy x hx).1, (hcells y hy x hx).2.1⟩
    have hpl := pathLike_of_degCond hwf hsub hdeg hs hg
    obtain ⟨p, hp, hsupp⟩ := exists_path_of_pathLike hT.isAcyclic
      (fun h => start_ne_goal hwf (congrArg Subtype.val h)) hpl
    refine ⟨(rooms_iff pb g).1 (fun y hy x hx => ⟨(hcellW y hy x hx).1, (hcellW y hy x hx).2.1⟩), hT,
      fun y x hy hx => (hblk y x hy hx).2, ⟨hs, hg, fun y hy x hx => (hcellW y hy x hx).2.2⟩, ?_⟩
    obtain ⟨q, hq, hqs⟩ := map_back p hp
    refine ⟨q, hq, ?_, ?_⟩
    · intro c hc
      rw [hqs, List.mem_map] at hc
      obtain ⟨v, _, rfl⟩ := hc
      exact v.2
    · intro y hy x hx
      rw [hqs, List.mem_map]
      constructor
      · intro hm
        have hpt := (hcells y hy x hx).2.2.1 hm
        exact ⟨⟨(y, x), hy, hx, hsub y hy x hx hpt⟩, (hsupp _).2 hpt, rfl⟩
      · rintro hm ⟨v, hv, hvx⟩
        have hq : pt v.1.1 v.1.2 = true := (hsupp v).1 hv
        have hpt := (hcells y hy x hx).2.2.2 hm
        have e : v.1 = (y, x) := hvx
        rw [e] at hq
        rw [hpt] at hq; cases hq
  · rintro ⟨r1, r2, r3, ⟨hs, hg, hmarks⟩, p, hp, hpw, hpm⟩
    classical
    let pt : Nat → Nat → Bool := fun y x => decide ((y, x) ∈ p.support)
    have hsub : ∀ y, y < pb.height → ∀ x, x < pb.width → pt y x = true → g y x = true := by
      intro y _ x _ h
      exact (hpw _ (of_decide_eq_true h)).2.2
    have hp' : (p.induce (whiteCells pb g) hpw).IsPath :=
      SimpleGraph.Walk.IsPath.of_map (f := (SimpleGraph.Embedding.induce (G := cellGraph) (whiteCells pb g)).toHom) (by
        rw [SimpleGraph.Walk.map_induce]; exact hp)
    have hpl := pathLike_of_path r2.isAcyclic
      (s := ⟨startCell pb, hs⟩) (g := ⟨goalCell pb, hg⟩)
      (fun h => start_ne_goal hwf (congrArg Subtype.val h)) (p.induce (whiteCells pb g) hpw) hp'
    have hQ : {v | v ∈ (p.induce (whiteCells pb g) hpw).support} = Qset pb g pt := by
      ext v
      simp only [Set.mem_ofPred_eq, SimpleGraph.Walk.support_induce, List.mem_attachWith, Qset, pt,
        decide_eq_true_eq]
    rw [hQ] at hpl
    have hdeg := degCond_of_pathLike hwf hsub hs hg hpl
    refine ⟨⟨r2, pt, hsub, fun y hy x hx => ⟨(hdeg y hy x hx).1, (hdeg y hy x hx).2, ?_, ?_⟩⟩, ?_, ?_⟩
    · intro hm; exact decide_eq_true ((hpm y hy x hx).1 hm)
    · intro hm; exact decide_eq_false ((hpm y hy x hx).2 hm)
    · intro y x hy hx
      exact ⟨no_white_block r2.isAcyclic hy hx, r3 y x hy hx⟩
    · intro y hy x hx
      have := (rooms_iff pb g).2 r1 y hy x hx
      exact ⟨this.1, this.2, hmarks y hy x hx⟩

/-- With some `pt` satisfying `PathCond`, S is unshaded, so "a tree or no active vertex" is "a tree". -/
theorem tree_part {pb : Problem} (hwf : WellFormed pb) (σ : Asg) (g : Nat → Nat → Bool)
    (hg : ∀ y, y < pb.height → ∀ x, x < pb.width → g y x = σ.b (y * pb.width + x)) :
    (ActiveTreeOrEmpty (Graph.grid pb.height pb.width) (truthAt σ (bvars 0 (pb.height * pb.width))) ∧
      ∃ pt, PathCond pb (gridOf pb σ) pt) ↔ ((maze pb g).IsTree ∧ ∃ pt, PathCond pb g pt) := by
  have hcg : ∀ y, y < pb.height → ∀ x, x < pb.width → gridOf pb σ y x = g y x :=
    fun y hy x hx => (hg y hy x hx).symm
  rw [C11NurimazeG.activeTree_grid_iff pb.height pb.width _ (fun y x => g y x = true) (by
    intro y x hy hx
    rw [C11FragWT.truthAt_bvars σ _ _ (C11Grid.cell_lt hy hx), hg y hy x hx]),
    exists_congr fun pt => pathCond_congr pb pt hcg]
  constructor
  · rintro ⟨h | h, pt, hpc⟩
    · exfalso
      have hsb := start_on_board hwf
      have hS : IsEnd pb (startCell pb).1 (startCell pb).2 := (isEnd_iff hwf _ _).2 (Or.inl rfl)
      have hw := hpc.1 _ hsb.1 _ hsb.2 ((hpc.2 _ hsb.1 _ hsb.2).1 hS).1
      have hf := h _ (C11Grid.cell_lt hsb.1 hsb.2)
      rw [C11FragWT.truthAt_bvars σ _ _ (C11Grid.cell_lt hsb.1 hsb.2), ← hg _ hsb.1 _ hsb.2, hw] at hf
      cases hf
    · exact ⟨h, pt, hpc⟩
  · rintro ⟨h, hpt⟩
    exact ⟨Or.inr h, hpt⟩

theorem encodes {pb : Problem} (hwf : WellFormed pb) :
    EncodesRules { decls := List.replicate (pb.height * pb.width) .bool ++ (avc pb ++ pathFrag pb).decls,
                   cs := (avc pb).cs ++ rest pb, keys := List.range (pb.height * pb.width) } (Rules pb) := by
  apply C11Frag.encodes_bool_grid_frag pb.height pb.width (avc pb ++ pathFrag pb) (locW pb) _ (RulesGrid pb)
  · intro c
    simp only [C11Frag.prog_append_cs, List.mem_append, mem_rest, pathFrag]
    tauto
  · intro c hc
    exact (good_locW c hc).2
  · intro σ g hg
    rw [frag_realizable hwf σ, tree_part hwf σ g hg, locW_sem σ g hg]
    exact core_iff hwf g

theorem main (pb : Problem) (hwf : WellFormed pb) (P : PuzzleProg) (hP : program pb = .ok P) :
    EncodesRules P (Rules pb) ∧ P.KeysOk ∧ (∀ c ∈ P.cs, wtB c = true) := by
  rw [program_eq hwf] at hP
  cases hP
  refine ⟨?_, C11Frag.keysOk_range_le _ _ _ (by simp), ?_⟩
  · have := encodes hwf
    rw [C11Frag.prog_append_decls, ← List.append_assoc] at this
    exact this
  · intro c hc
    rcases List.mem_append.1 hc with hc | hc
    · exact (avc_wt pb c hc).1
    · rcases mem_rest.1 hc with hc | hc
      · exact (good_locW c hc).1
      · exact (good_pathCs c hc).1

theorem total (pb : Problem) (hwf : WellFormed pb) : ∃ P, program pb = .ok P := ⟨_, program_eq hwf⟩

end Cspuz.Proofs.C11Nurimaze
