/-
  C11 / LITS — `solve_lits` posts a program that encodes the published rules (Spec/PuzzleRules/Lits.lean).
  Assembly: the program is `cells ++ (avc ++ q)` with local constraints `loc`; `q` holds the auxiliary
  arrays `num_straight`, `has_t` whose values are determined by the cells.
-/
import CspuzModel.Proofs.C11LitsT
import CspuzModel.Properties.C04
import CspuzModel.Proofs.C11Frag
import CspuzModel.Proofs.C11FragWT
import CspuzModel.Proofs.C11CellGraph
namespace Cspuz.Proofs.C11Lits
open Cspuz Cspuz.Spec Cspuz.Puzzles Cspuz.Puzzles.Lits Cspuz.Spec.Lits Cspuz.Proofs
open Cspuz.Proofs.C11LitsA Cspuz.Proofs.C11LitsP Cspuz.Proofs.C11LitsS Cspuz.Proofs.C11LitsG
  Cspuz.Proofs.C11LitsT

/-! ### the pieces of the program -/

/-- The constraints of a region that only mention cells. -/
def locB (pb : Problem) (bi : List (Int × Int) × Nat) : List Expr :=
  [cntE pb (cellsN bi.1)] ++ (cellsN bi.1).map (nbrE pb bi.2) ++ [pairCntE pb bi.2 (cellsN bi.1)]

/-- The constraints of a region that define `num_straight[i]`, `has_t[i]`. -/
def qB (pb : Problem) (bi : List (Int × Int) × Nat) : List Expr :=
  [nsE pb bi.2 (cellsN bi.1), htE pb bi.2 (cellsN bi.1)]

def loc (pb : Problem) : List Expr := sqCs pb ++ pb.blocks.zipIdx.flatMap (locB pb)

def qcs (pb : Problem) : List Expr := pb.blocks.zipIdx.flatMap (qB pb) ++ borderCs pb

/-- The fragment of the auxiliary arrays. -/
def qProg (pb : Problem) : Prog :=
  { decls := List.replicate pb.blocks.length (.int 0 2) ++ List.replicate pb.blocks.length .bool, cs := qcs pb }

theorem mem_regionCs {pb : Problem} {c : Expr} :
    c ∈ regionCs pb ↔ c ∈ pb.blocks.zipIdx.flatMap (locB pb) ∨ c ∈ pb.blocks.zipIdx.flatMap (qB pb) := by
  simp only [regionCs, List.mem_flatten, List.mem_map, List.mem_flatMap]
  constructor
  · rintro ⟨l, ⟨bi, hbi, rfl⟩, hc⟩
    simp only [blockCsN, List.mem_append, List.mem_singleton] at hc
    rcases hc with (((hc | hc) | hc) | hc) | hc
    · exact Or.inl ⟨bi, hbi, by simp [locB, hc]⟩
    · exact Or.inl ⟨bi, hbi, by simp only [locB, List.mem_append]; exact Or.inl (Or.inr hc)⟩
    · exact Or.inl ⟨bi, hbi, by simp [locB, hc]⟩
    · exact Or.inr ⟨bi, hbi, by simp [qB, hc]⟩
    · exact Or.inr ⟨bi, hbi, by simp [qB, hc]⟩
  · rintro (⟨bi, hbi, hc⟩ | ⟨bi, hbi, hc⟩)
    · refine ⟨_, ⟨bi, hbi, rfl⟩, ?_⟩
      simp only [locB, List.mem_append, List.mem_singleton] at hc
      simp only [blockCsN, List.mem_append, List.mem_singleton]
      tauto
    · refine ⟨_, ⟨bi, hbi, rfl⟩, ?_⟩
      simp only [qB, List.mem_cons, List.not_mem_nil, or_false] at hc
      simp only [blockCsN, List.mem_append, List.mem_singleton]
      tauto

theorem mem_cs {pb : Problem} (c : Expr) :
    c ∈ (avc pb).cs ++ sqCs pb ++ regionCs pb ++ borderCs pb ↔ c ∈ (avc pb ++ qProg pb).cs ∨ c ∈ loc pb := by
  simp only [C11Frag.prog_append_cs, qProg, qcs, loc, List.mem_append, mem_regionCs]
  tauto

theorem mem_zip {pb : Problem} {bi : List (Int × Int) × Nat} :
    bi ∈ pb.blocks.zipIdx ↔ pb.blocks[bi.2]? = some bi.1 := List.mem_zipIdx_iff_getElem?

theorem mem_sqCs {pb : Problem} {c : Expr} :
    c ∈ sqCs pb ↔ ∃ p : Nat × Nat, (p.1 + 1 < pb.height ∧ p.2 + 1 < pb.width) ∧ c = sqE pb.width p := by
  simp only [sqCs, List.mem_map, C11LitsP.mem_cellsOf]
  constructor
  · rintro ⟨p, ⟨h1, h2⟩, rfl⟩; exact ⟨p, ⟨by omega, by omega⟩, rfl⟩
  · rintro ⟨p, ⟨h1, h2⟩, rfl⟩; exact ⟨p, ⟨by omega, by omega⟩, rfl⟩

theorem mem_borderCs {pb : Problem} {c : Expr} :
    c ∈ borderCs pb ↔ ∃ p, OnB pb p ∧ (c ∈ downE pb p ∨ c ∈ rightE pb p) := by
  simp only [borderCs, List.mem_flatten, List.mem_map, C11LitsP.mem_cellsOf]
  constructor
  · rintro ⟨l, ⟨p, hp, rfl⟩, hc⟩
    exact ⟨p, hp, List.mem_append.1 hc⟩
  · rintro ⟨p, hp, hc⟩
    exact ⟨_, ⟨p, hp, rfl⟩, List.mem_append.2 hc⟩

/-! ### the local constraints -/

/-- The cells of the board read from the assignment. -/
def NoSqσ (pb : Problem) (σ : Asg) : Prop :=
  ∀ p : Nat × Nat, p.1 + 1 < pb.height → p.2 + 1 < pb.width →
    ¬ (sh pb σ (p.1, p.2) = true ∧ sh pb σ (p.1, p.2 + 1) = true ∧ sh pb σ (p.1 + 1, p.2) = true ∧
        sh pb σ (p.1 + 1, p.2 + 1) = true)

theorem loc_iff {pb : Problem} (hwf : WellFormed pb) (σ : Asg) :
    (∀ c ∈ loc pb, eval σ c = some (.b true)) ↔
      NoSqσ pb σ ∧ ∀ (i : Nat) (b : List (Int × Int)), pb.blocks[i]? = some b → Counts (shL pb σ b) := by
  constructor
  · intro h
    refine ⟨?_, ?_⟩
    · intro p h1 h2
      exact (eval_sqE pb σ p).1 (h _ (List.mem_append.2 (Or.inl (mem_sqCs.2 ⟨p, ⟨h1, h2⟩, rfl⟩))))
    · intro i b hb
      have hbi : (b, i) ∈ pb.blocks.zipIdx := mem_zip.2 hb
      have hmem : ∀ c ∈ locB pb (b, i), eval σ c = some (.b true) := fun c hc =>
        h c (List.mem_append.2 (Or.inr (List.mem_flatMap.2 ⟨_, hbi, hc⟩)))
      refine ⟨?_, ?_, ?_⟩
      · exact (eval_cntE pb σ _).1 (hmem _ (by simp [locB]))
      · rw [← nbrs_iff hwf hb σ]
        intro p hp
        exact (eval_nbrE pb σ i p).1 (hmem _ (by
          simp only [locB, List.mem_append, List.mem_map]
          exact Or.inl (Or.inr ⟨p, hp, rfl⟩)))
      · rw [← pairs_eq hwf hb σ]
        exact (eval_pairCntE pb σ i _).1 (hmem _ (by simp [locB]))
  · rintro ⟨hsq, hreg⟩ c hc
    rcases List.mem_append.1 hc with hc | hc
    · obtain ⟨p, ⟨h1, h2⟩, rfl⟩ := mem_sqCs.1 hc
      exact (eval_sqE pb σ p).2 (hsq p h1 h2)
    · obtain ⟨⟨b, i⟩, hbi, hc⟩ := List.mem_flatMap.1 hc
      have hb : pb.blocks[i]? = some b := mem_zip.1 hbi
      obtain ⟨h1, h2, h3⟩ := hreg i b hb
      simp only [locB, List.mem_append, List.mem_singleton, List.mem_map] at hc
      rcases hc with (rfl | ⟨p, hp, rfl⟩) | rfl
      · exact (eval_cntE pb σ _).2 h1
      · exact (eval_nbrE pb σ i p).2 ((nbrs_iff hwf hb σ).2 h2 p hp)
      · exact (eval_pairCntE pb σ i _).2 (by rw [pairs_eq hwf hb σ]; exact h3)

theorem loc_wt {pb : Problem} (hwf : WellFormed pb) :
    ∀ c ∈ loc pb, wtB c = true ∧ c.varsBelow (pb.height * pb.width) = true := by
  intro c hc
  rcases List.mem_append.1 hc with hc | hc
  · obtain ⟨p, hp, rfl⟩ := mem_sqCs.1 hc
    exact sqE_wt pb hp
  · obtain ⟨⟨b, i⟩, hbi, hc⟩ := List.mem_flatMap.1 hc
    have hb : pb.blocks[i]? = some b := mem_zip.1 hbi
    have hob : ∀ p ∈ cellsN b, OnB pb p := fun p hp =>
      cellsN_onB (wf_onBoard hwf (List.mem_of_getElem? hb)) hp
    simp only [locB, List.mem_append, List.mem_singleton, List.mem_map] at hc
    rcases hc with (rfl | ⟨p, hp, rfl⟩) | rfl
    · exact cntE_wt pb hob
    · exact nbrE_wt pb i (hob p hp)
    · exact pairCntE_wt pb i hob

/-! ### the auxiliary arrays -/

/-- The cells of region `i`. -/
def blk (pb : Problem) (i : Nat) : List (Nat × Nat) := cellsN (pb.blocks.getD i [])

theorem blk_eq {pb : Problem} {i : Nat} {b : List (Int × Int)} (hb : pb.blocks[i]? = some b) :
    blk pb i = cellsN b := by
  simp [blk, List.getD, hb]

theorem blk_onB {pb : Problem} (hwf : WellFormed pb) (i : Nat) : ∀ p ∈ blk pb i, OnB pb p := by
  intro p hp
  unfold blk at hp
  by_cases hi : i < pb.blocks.length
  · have hb : pb.blocks[i]? = some pb.blocks[i] := List.getElem?_eq_getElem hi
    simp only [List.getD, hb, Option.getD_some] at hp
    exact cellsN_onB (wf_onBoard hwf (List.getElem_mem hi)) hp
  · simp [List.getD, List.getElem?_eq_none (Nat.le_of_not_lt hi), cellsN] at hp

/-- The values of `num_straight[i]` and `has_t[i]` determined by the cells. -/
def sVal (pb : Problem) (σ : Asg) (i : Nat) : Nat := strN pb σ i (blk pb i)
def tVal (pb : Problem) (σ : Asg) (i : Nat) : Bool := tB pb σ i (blk pb i)

/-- The border constraints with the determined values. -/
def BorderOK (pb : Problem) (σ : Asg) : Prop :=
  ∀ p q : Nat × Nat, OnB pb p → OnB pb q → (q = (p.1 + 1, p.2) ∨ q = (p.1, p.2 + 1)) →
    regionIdx pb p ≠ regionIdx pb q → sh pb σ p = true → sh pb σ q = true →
      sVal pb σ (regionIdx pb p) ≠ sVal pb σ (regionIdx pb q) ∨
      tVal pb σ (regionIdx pb p) ≠ tVal pb σ (regionIdx pb q)

/-- Realizability of the fragment `q`, as a condition on the cells. -/
def Q (pb : Problem) (σ : Asg) : Prop :=
  (∀ i, i < pb.blocks.length → sVal pb σ i ≤ 2) ∧ BorderOK pb σ

/-! #### dependence on the cells only -/

theorem vertOK_onB {pb : Problem} {i : Nat} {p : Nat × Nat} (hp : OnB pb p) (hv : vertOK pb i p = true) :
    OnB pb (p.1 - 1, p.2) ∧ OnB pb (p.1 + 1, p.2) := by
  simp only [vertOK, Bool.and_eq_true, decide_eq_true_eq] at hv
  have h1 := hp.1
  exact ⟨⟨by simp only; omega, hp.2⟩, ⟨hv.1.2, hp.2⟩⟩

theorem horizOK_onB {pb : Problem} {i : Nat} {p : Nat × Nat} (hp : OnB pb p) (hv : horizOK pb i p = true) :
    OnB pb (p.1, p.2 - 1) ∧ OnB pb (p.1, p.2 + 1) := by
  simp only [horizOK, Bool.and_eq_true, decide_eq_true_eq] at hv
  have h1 := hp.2
  exact ⟨⟨hp.1, by simp only; omega⟩, ⟨hp.1, hv.1.2⟩⟩

section Congr
variable {pb : Problem} {σ σ' : Asg} (h : ∀ q, OnB pb q → sh pb σ q = sh pb σ' q)
include h

theorem strB_congr (i : Nat) {p : Nat × Nat} (hp : OnB pb p) : strB pb σ i p = strB pb σ' i p := by
  unfold strB
  congr 1
  · cases hv : vertOK pb i p
    · simp
    · obtain ⟨h1, h2⟩ := vertOK_onB hp hv
      rw [h _ h1, h _ h2, h _ hp]
  · cases hv : horizOK pb i p
    · simp
    · obtain ⟨h1, h2⟩ := horizOK_onB hp hv
      rw [h _ h1, h _ h2, h _ hp]

theorem strN_congr (i : Nat) {b : List (Nat × Nat)} (hb : ∀ p ∈ b, OnB pb p) :
    strN pb σ i b = strN pb σ' i b := by
  unfold strN
  congr 1
  exact List.filter_congr (fun p hp => strB_congr h i (hb p hp))

theorem tB_congr (i : Nat) {b : List (Nat × Nat)} (hb : ∀ p ∈ b, OnB pb p) :
    tB pb σ i b = tB pb σ' i b := by
  have key : ∀ p ∈ b, tCell pb σ i p = tCell pb σ' i p := by
    intro p hp
    unfold tCell
    rw [List.filter_congr (fun q hq => h q (sameN_onB (hb p hp) hq))]
  unfold tB
  rw [Bool.eq_iff_iff, List.any_eq_true, List.any_eq_true]
  constructor
  · rintro ⟨p, hp, ht⟩; exact ⟨p, hp, by rw [← key p hp]; exact ht⟩
  · rintro ⟨p, hp, ht⟩; exact ⟨p, hp, by rw [key p hp]; exact ht⟩

end Congr

theorem sh_congr {pb : Problem} {σ σ' : Asg} {m : Nat} (hm : pb.height * pb.width ≤ m)
    (hag : AgreeBelow m σ σ') : ∀ q, OnB pb q → sh pb σ q = sh pb σ' q := by
  intro q hq
  have := C11Grid.cell_lt hq.1 hq.2
  exact (hag _ (by omega)).1

theorem Q_congr {pb : Problem} (hwf : WellFormed pb) {σ σ' : Asg}
    (h : ∀ q, OnB pb q → sh pb σ q = sh pb σ' q) : Q pb σ → Q pb σ' := by
  have hs : ∀ i, sVal pb σ i = sVal pb σ' i := fun i => strN_congr h i (blk_onB hwf i)
  have ht : ∀ i, tVal pb σ i = tVal pb σ' i := fun i => tB_congr h i (blk_onB hwf i)
  rintro ⟨h1, h2⟩
  refine ⟨fun i hi => by rw [← hs]; exact h1 i hi, ?_⟩
  intro p q hp hq hpq hne hsp hsq
  rw [← hs, ← hs, ← ht, ← ht]
  exact h2 p q hp hq hpq hne (by rw [h p hp]; exact hsp) (by rw [h q hq]; exact hsq)

/-! #### realizability -/

theorem base_ge (pb : Problem) : pb.height * pb.width ≤ base pb := by unfold base; omega

theorem qcs_iff {pb : Problem} (τ : Asg) :
    (∀ c ∈ qcs pb, eval τ c = some (.b true)) ↔
      (∀ i, i < pb.blocks.length → τ.i (base pb + i) = (sVal pb τ i : Nat)) ∧
      (∀ i, i < pb.blocks.length → τ.b (base pb + pb.blocks.length + i) = tVal pb τ i) ∧
      (∀ p q : Nat × Nat, OnB pb p → OnB pb q → (q = (p.1 + 1, p.2) ∨ q = (p.1, p.2 + 1)) →
        regionIdx pb p ≠ regionIdx pb q → sh pb τ p = true → sh pb τ q = true →
          τ.i (base pb + regionIdx pb p) ≠ τ.i (base pb + regionIdx pb q) ∨
          τ.b (base pb + pb.blocks.length + regionIdx pb p)
            ≠ τ.b (base pb + pb.blocks.length + regionIdx pb q)) := by
  constructor
  · intro hc
    refine ⟨?_, ?_, ?_⟩
    · intro i hi
      have hb : pb.blocks[i]? = some pb.blocks[i] := List.getElem?_eq_getElem hi
      have := hc (nsE pb i (cellsN pb.blocks[i])) (List.mem_append.2 (Or.inl
        (List.mem_flatMap.2 ⟨(pb.blocks[i], i), mem_zip.2 hb, by simp [qB]⟩)))
      rw [eval_nsE] at this
      rw [this, sVal, blk_eq hb]
    · intro i hi
      have hb : pb.blocks[i]? = some pb.blocks[i] := List.getElem?_eq_getElem hi
      have := hc (htE pb i (cellsN pb.blocks[i])) (List.mem_append.2 (Or.inl
        (List.mem_flatMap.2 ⟨(pb.blocks[i], i), mem_zip.2 hb, by simp [qB]⟩)))
      rw [eval_htE] at this
      rw [this, tVal, blk_eq hb]
    · intro p q hp hq hpq hne hsp hsq
      rcases hpq with rfl | rfl
      · have hmem : borderE pb p (p.1 + 1, p.2) (regionIdx pb p) (regionIdx pb (p.1 + 1, p.2)) ∈ qcs pb := by
          refine List.mem_append.2 (Or.inr (mem_borderCs.2 ⟨p, hp, Or.inl ?_⟩))
          unfold downE
          rw [if_pos ⟨hq.1, hne⟩]; simp
        exact (eval_borderE pb τ _ _ _ _).1 (hc _ hmem) hsp hsq
      · have hmem : borderE pb p (p.1, p.2 + 1) (regionIdx pb p) (regionIdx pb (p.1, p.2 + 1)) ∈ qcs pb := by
          refine List.mem_append.2 (Or.inr (mem_borderCs.2 ⟨p, hp, Or.inr ?_⟩))
          unfold rightE
          rw [if_pos ⟨hq.2, hne⟩]; simp
        exact (eval_borderE pb τ _ _ _ _).1 (hc _ hmem) hsp hsq
  · rintro ⟨hs, ht, hbd⟩ c hc
    rcases List.mem_append.1 hc with hc | hc
    · obtain ⟨⟨b, i⟩, hbi, hc⟩ := List.mem_flatMap.1 hc
      have hb : pb.blocks[i]? = some b := mem_zip.1 hbi
      have hi : i < pb.blocks.length := (List.getElem?_eq_some_iff.1 hb).1
      simp only [qB, List.mem_cons, List.not_mem_nil, or_false] at hc
      rcases hc with rfl | rfl
      · rw [eval_nsE, hs i hi, sVal, blk_eq hb]
      · rw [eval_htE, ht i hi, tVal, blk_eq hb]
    · obtain ⟨p, hp, hc | hc⟩ := mem_borderCs.1 hc
      · unfold downE at hc
        split at hc
        · next hcond =>
          simp only [List.mem_singleton] at hc
          subst hc
          rw [eval_borderE]
          exact hbd p _ hp ⟨hcond.1, hp.2⟩ (Or.inl rfl) hcond.2
        · simp at hc
      · unfold rightE at hc
        split at hc
        · next hcond =>
          simp only [List.mem_singleton] at hc
          subst hc
          rw [eval_borderE]
          exact hbd p _ hp ⟨hp.1, hcond.1⟩ (Or.inr rfl) hcond.2
        · simp at hc

theorem realizable_q {pb : Problem} (hwf : WellFormed pb) (σ : Asg) :
    Realizable (base pb) (qProg pb) σ ↔ Q pb σ := by
  have hrest : ∀ d ∈ List.replicate pb.blocks.length VarDecl.bool, d = VarDecl.bool := by
    intro d hd; exact (List.mem_replicate.1 hd).2
  constructor
  · rintro ⟨σ', hag, hd, hc⟩
    have hsh := sh_congr (base_ge pb) hag
    have hd' := (sat_rank_decls hrest (fun k => σ'.i (base pb + k))).1 hd
    obtain ⟨hs, ht, hbd⟩ := (qcs_iff σ').1 hc
    apply Q_congr hwf (fun q hq => (hsh q hq).symm)
    refine ⟨?_, ?_⟩
    · intro i hi
      have := hd' i hi
      rw [hs i hi] at this
      omega
    · intro p q hp hq hpq hne hsp hsq
      have hi := regionIdx_lt hwf hp
      have hj := regionIdx_lt hwf hq
      rcases hbd p q hp hq hpq hne hsp hsq with h | h
      · left
        rw [hs _ hi, hs _ hj] at h
        intro he; apply h; rw [he]
      · right
        rw [ht _ hi, ht _ hj] at h
        exact h
  · rintro ⟨h1, h2⟩
    let σ' : Asg :=
      { b := fun id => if base pb + pb.blocks.length ≤ id then tVal pb σ (id - (base pb + pb.blocks.length))
          else σ.b id,
        i := fun id => if base pb ≤ id then ((sVal pb σ (id - base pb) : Nat) : Int) else σ.i id }
    have hag : AgreeBelow (base pb) σ σ' := by
      intro id hid
      refine ⟨?_, ?_⟩
      · show σ.b id = if base pb + pb.blocks.length ≤ id then _ else σ.b id
        rw [if_neg (by omega)]
      · show σ.i id = if base pb ≤ id then _ else σ.i id
        rw [if_neg (by omega)]
    have hsh := sh_congr (base_ge pb) hag
    have hs : ∀ i, sVal pb σ i = sVal pb σ' i := fun i => strN_congr hsh i (blk_onB hwf i)
    have ht : ∀ i, tVal pb σ i = tVal pb σ' i := fun i => tB_congr hsh i (blk_onB hwf i)
    have hi' : ∀ i, σ'.i (base pb + i) = (sVal pb σ i : Nat) := by
      intro i
      show (if base pb ≤ base pb + i then ((sVal pb σ (base pb + i - base pb) : Nat) : Int) else _) = _
      rw [if_pos (by omega), Nat.add_sub_cancel_left]
    have hb' : ∀ i, σ'.b (base pb + pb.blocks.length + i) = tVal pb σ i := by
      intro i
      show (if base pb + pb.blocks.length ≤ base pb + pb.blocks.length + i then
        tVal pb σ (base pb + pb.blocks.length + i - (base pb + pb.blocks.length)) else _) = _
      rw [if_pos (by omega), Nat.add_sub_cancel_left]
    refine ⟨σ', hag, ?_, ?_⟩
    · apply (sat_rank_decls hrest (fun k => σ'.i (base pb + k))).2
      intro i hi
      show 0 ≤ σ'.i (base pb + i) ∧ σ'.i (base pb + i) ≤ 2
      rw [hi' i]
      have := h1 i hi
      omega
    · apply (qcs_iff σ').2
      refine ⟨fun i _ => by rw [hi' i, hs i], fun i _ => by rw [hb' i, ht i], ?_⟩
      intro p q hp hq hpq hne hsp hsq
      rw [hi', hi', hb', hb']
      rcases h2 p q hp hq hpq hne (by rw [hsh p hp]; exact hsp) (by rw [hsh q hq]; exact hsq) with h | h
      · left; intro he; apply h; exact_mod_cast he
      · right; exact h

/-! ### from the solver's conditions to the rules -/

section Rules
variable {pb : Problem} (hwf : WellFormed pb) (σ : Asg) (g : Nat → Nat → Bool)
  (hg : ∀ y, y < pb.height → ∀ x, x < pb.width → g y x = σ.b (y * pb.width + x))
include hwf hg

omit hwf in
theorem sh_eq_g {p : Nat × Nat} (hp : OnB pb p) : sh pb σ p = g p.1 p.2 := by
  unfold sh; rw [hg _ hp.1 _ hp.2]

omit hwf in
theorem noSq_iff : NoSqσ pb σ ↔ NoSquare pb g := by
  constructor
  · intro h y x hy hx
    have := h (y, x) hy hx
    rw [sh_eq_g σ g hg ⟨by simp only; omega, by simp only; omega⟩,
      sh_eq_g σ g hg ⟨by simp only; omega, by simp only; omega⟩,
      sh_eq_g σ g hg ⟨by simp only; omega, by simp only; omega⟩,
      sh_eq_g σ g hg ⟨by simp only; omega, by simp only; omega⟩] at this
    exact this
  · intro h p hy hx
    have := h p.1 p.2 hy hx
    rw [sh_eq_g σ g hg ⟨by simp only; omega, by simp only; omega⟩,
      sh_eq_g σ g hg ⟨by simp only; omega, by simp only; omega⟩,
      sh_eq_g σ g hg ⟨by simp only; omega, by simp only; omega⟩,
      sh_eq_g σ g hg ⟨by simp only; omega, by simp only; omega⟩]
    exact this

omit hg in
/-- Rule 3 excludes the square inside a region. -/
theorem noSq_list (hsq : NoSqσ pb σ) {i : Nat} {b : List (Int × Int)} (hb : pb.blocks[i]? = some b) :
    NoSq (shL pb σ b) := by
  rintro ⟨y, x, h1, h2, h3, h4⟩
  obtain ⟨⟨o1, _⟩, s1⟩ := (mem_shL hwf hb σ).1 h1
  obtain ⟨⟨o2, _⟩, s2⟩ := (mem_shL hwf hb σ).1 h2
  obtain ⟨⟨o3, _⟩, s3⟩ := (mem_shL hwf hb σ).1 h3
  obtain ⟨_, s4⟩ := (mem_shL hwf hb σ).1 h4
  exact hsq (y, x) o3.1 o2.2 ⟨s1, s2, s3, s4⟩

theorem regions_iff (hsq : NoSqσ pb σ) :
    (∀ (i : Nat) (b : List (Int × Int)), pb.blocks[i]? = some b → Counts (shL pb σ b)) ↔
      ∀ b ∈ pb.blocks, IsTetromino (shadedIn g b) := by
  constructor
  · intro h b hbm
    obtain ⟨i, hi, rfl⟩ := List.getElem_of_mem hbm
    have hb : pb.blocks[i]? = some pb.blocks[i] := List.getElem?_eq_getElem hi
    rw [shadedIn_eq hwf hb σ g hg]
    exact tetromino_of_counts (shL_nodup hwf hb σ) (h i _ hb)
  · intro h i b hb
    have := h b (List.mem_of_getElem? hb)
    rw [shadedIn_eq hwf hb σ g hg] at this
    exact counts_of_tetromino (shL_nodup hwf hb σ) this (noSq_list hwf σ hsq hb)

/-- The determined values of the auxiliary arrays are the code of the tetromino. -/
theorem region_vals {i : Nat} {b : List (Int × Int)} (hb : pb.blocks[i]? = some b) (hc : Counts (shL pb σ b)) :
    sVal pb σ i = straightCount (shadedIn g b) ∧ sVal pb σ i ≤ 2 ∧
      (tVal pb σ i = true ↔ HasT (shadedIn g b)) := by
  obtain ⟨h1, h2, h3⟩ := code_of_counts (shL_nodup hwf hb σ) hc
  have hs : sVal pb σ i = (shL pb σ b).countP (midB (shL pb σ b)) := by
    rw [sVal, blk_eq hb, strN_eq hwf hb σ]
  rw [shadedIn_eq hwf hb σ g hg, hs]
  refine ⟨h1.symm, h2, ?_⟩
  rw [h3, tVal, blk_eq hb, tB_iff hwf hb σ]
  constructor
  · rintro ⟨p, _, hp⟩; exact ⟨p, hp⟩
  · rintro ⟨p, hp⟩
    have hm := tcell_mem _ (shL_nodup hwf hb σ) hc.1 hc.2.1 hc.2.2 p hp
    exact ⟨p, (List.mem_filter.1 hm).1, hp⟩

theorem mem_shadedIn {i : Nat} {b : List (Int × Int)} (hb : pb.blocks[i]? = some b) {p : Nat × Nat} :
    p ∈ shadedIn g b ↔ (OnB pb p ∧ regionIdx pb p = i) ∧ sh pb σ p = true := by
  rw [shadedIn_eq hwf hb σ g hg]
  exact mem_shL hwf hb σ

theorem rule4_iff
    (hc : ∀ (i : Nat) (b : List (Int × Int)), pb.blocks[i]? = some b → Counts (shL pb σ b)) :
    Q pb σ ↔
      (∀ (i j : Nat) (bi bj : List (Int × Int)), pb.blocks[i]? = some bi → pb.blocks[j]? = some bj → i ≠ j →
        ∀ p ∈ shadedIn g bi, ∀ q ∈ shadedIn g bj, cellGraph.Adj p q →
          ¬ SameCode (shadedIn g bi) (shadedIn g bj)) := by
  have hdiff : ∀ (i j : Nat) (bi bj : List (Int × Int)), pb.blocks[i]? = some bi → pb.blocks[j]? = some bj →
      ((sVal pb σ i ≠ sVal pb σ j ∨ tVal pb σ i ≠ tVal pb σ j) ↔
        ¬ SameCode (shadedIn g bi) (shadedIn g bj)) := by
    intro i j bi bj hbi hbj
    obtain ⟨a1, _, a3⟩ := region_vals hwf σ g hg hbi (hc i bi hbi)
    obtain ⟨b1, _, b3⟩ := region_vals hwf σ g hg hbj (hc j bj hbj)
    unfold SameCode
    rw [← a1, ← b1, ← a3, ← b3]
    cases tVal pb σ i <;> cases tVal pb σ j <;> simp
  constructor
  · rintro ⟨_, hbd⟩ i j bi bj hbi hbj hij p hp q hq hadj
    obtain ⟨⟨op, rp⟩, sp⟩ := (mem_shadedIn hwf σ g hg hbi).1 hp
    obtain ⟨⟨oq, rq⟩, sq⟩ := (mem_shadedIn hwf σ g hg hbj).1 hq
    have hne : regionIdx pb p ≠ regionIdx pb q := by rw [rp, rq]; exact hij
    obtain ⟨p1, p2⟩ := p
    obtain ⟨q1, q2⟩ := q
    have hadj' : (p1 = q1 ∧ (p2 + 1 = q2 ∨ q2 + 1 = p2)) ∨ (p2 = q2 ∧ (p1 + 1 = q1 ∨ q1 + 1 = p1)) := hadj
    rcases hadj' with ⟨rfl, rfl | rfl⟩ | ⟨rfl, rfl | rfl⟩
    · have := hbd _ _ op oq (Or.inr rfl) hne sp sq
      rw [rp, rq] at this
      exact (hdiff i j bi bj hbi hbj).1 this
    · have := hbd _ _ oq op (Or.inr rfl) hne.symm sq sp
      rw [rp, rq] at this
      exact (hdiff i j bi bj hbi hbj).1 (this.imp Ne.symm Ne.symm)
    · have := hbd _ _ op oq (Or.inl rfl) hne sp sq
      rw [rp, rq] at this
      exact (hdiff i j bi bj hbi hbj).1 this
    · have := hbd _ _ oq op (Or.inl rfl) hne.symm sq sp
      rw [rp, rq] at this
      exact (hdiff i j bi bj hbi hbj).1 (this.imp Ne.symm Ne.symm)
  · intro h4
    refine ⟨?_, ?_⟩
    · intro i hi
      have hb : pb.blocks[i]? = some pb.blocks[i] := List.getElem?_eq_getElem hi
      exact (region_vals hwf σ g hg hb (hc i _ hb)).2.1
    · intro p q hp hq hpq hne sp sq
      obtain ⟨bi, hbi, _⟩ := regionIdx_spec hwf hp
      obtain ⟨bj, hbj, _⟩ := regionIdx_spec hwf hq
      rw [hdiff _ _ bi bj hbi hbj]
      apply h4 _ _ bi bj hbi hbj hne p ((mem_shadedIn hwf σ g hg hbi).2 ⟨⟨hp, rfl⟩, sp⟩) q
        ((mem_shadedIn hwf σ g hg hbj).2 ⟨⟨hq, rfl⟩, sq⟩)
      rcases hpq with rfl | rfl
      · exact Or.inr ⟨rfl, Or.inl rfl⟩
      · exact Or.inl ⟨rfl, Or.inl rfl⟩

end Rules

/-! ### the theorem (code reading of rule 4) -/

theorem avc_varsBelow (pb : Problem) :
    ∀ c ∈ (avc pb).cs, wtB c = true ∧
      c.varsBelow (pb.height * pb.width + (avc pb).decls.length) = true :=
  C11FragWT.avcProg_wt (C04Prim.grid_wf _ _) (by simp [bvars, Graph.grid]) (C11FragWT.bvars_boolArgs _)

theorem encodes_code {pb : Problem} (hwf : WellFormed pb) :
    EncodesRules { decls := List.replicate (pb.height * pb.width) .bool ++ (avc pb ++ qProg pb).decls,
                   cs := (avc pb).cs ++ sqCs pb ++ regionCs pb ++ borderCs pb,
                   keys := List.range (pb.height * pb.width) } (RulesCode pb) := by
  apply C11Frag.encodes_bool_grid_frag pb.height pb.width (avc pb ++ qProg pb) (loc pb) _ (RulesGridCode pb)
    mem_cs (fun c hc => (loc_wt hwf c hc).2)
  intro σ g hg
  have hq : ∀ τ, Realizable (pb.height * pb.width + (avc pb).decls.length) (qProg pb) τ ↔ Q pb τ := by
    intro τ
    rw [avc_decls_length]
    exact realizable_q hwf τ
  have hQ : ∀ τ τ', AgreeBelow (pb.height * pb.width) τ τ' → (Q pb τ ↔ Q pb τ') := by
    intro τ τ' hag
    have h1 := sh_congr (Nat.le_refl _) hag
    exact ⟨Q_congr hwf h1, Q_congr hwf (fun q hq => (h1 q hq).symm)⟩
  rw [C11Frag.realizable_append (fun c hc => (avc_varsBelow pb c hc).2) hq hQ σ]
  have hreal := Cspuz.C04.C04_aux_exact (Graph.grid pb.height pb.width) (bvars 0 (pb.height * pb.width))
    (pb.height * pb.width) false (avc pb) σ (C04Prim.grid_wf _ _) (by intro h; cases h)
    (by simp [bvars, Graph.grid]) (C11FragWT.bvars_boolArgs _) (avc_eq hwf)
  simp only [Bool.false_eq_true, if_false] at hreal
  rw [hreal, C11CellGraph.activeConnected_grid_iff pb.height pb.width _ (fun y x => g y x = true) (by
    intro y x hy hx
    rw [C11FragWT.truthAt_bvars σ _ _ (C11Grid.cell_lt hy hx), hg y hy x hx]), loc_iff hwf σ]
  unfold RulesGridCode RulesGridWith
  constructor
  · rintro ⟨⟨hconn, hQσ⟩, hsq, hcnt⟩
    exact ⟨(regions_iff hwf σ g hg hsq).1 hcnt, hconn, (noSq_iff σ g hg).1 hsq,
      (rule4_iff hwf σ g hg hcnt).1 hQσ⟩
  · rintro ⟨h1, hconn, h3, h4⟩
    have hsq := (noSq_iff σ g hg).2 h3
    have hcnt := (regions_iff hwf σ g hg hsq).2 h1
    exact ⟨⟨hconn, (rule4_iff hwf σ g hg hcnt).2 h4⟩, hsq, hcnt⟩

theorem qcs_wt (pb : Problem) : ∀ c ∈ qcs pb, wtB c = true := by
  intro c hc
  rcases List.mem_append.1 hc with hc | hc
  · obtain ⟨⟨b, i⟩, _, hc⟩ := List.mem_flatMap.1 hc
    simp only [qB, List.mem_cons, List.not_mem_nil, or_false] at hc
    rcases hc with rfl | rfl
    · exact nsE_wt pb i _
    · exact htE_wt pb i _
  · obtain ⟨p, _, hc | hc⟩ := mem_borderCs.1 hc
    · unfold downE at hc
      split at hc
      · simp only [List.mem_singleton] at hc; subst hc; exact borderE_wt _ _ _ _ _
      · simp at hc
    · unfold rightE at hc
      split at hc
      · simp only [List.mem_singleton] at hc; subst hc; exact borderE_wt _ _ _ _ _
      · simp at hc

theorem program_eq' {pb : Problem} (hwf : WellFormed pb) :
    program pb = .ok
      { decls := List.replicate (pb.height * pb.width) .bool ++ (avc pb ++ qProg pb).decls,
        cs := (avc pb).cs ++ sqCs pb ++ regionCs pb ++ borderCs pb,
        keys := List.range (pb.height * pb.width) } := by
  rw [program_eq hwf]
  simp [qProg, List.append_assoc]

/-- The theorem for the code reading of rule 4. -/
theorem main_code (pb : Problem) (hwf : WellFormed pb) (P : PuzzleProg) (hP : program pb = .ok P) :
    EncodesRules P (RulesCode pb) ∧ P.KeysOk ∧ (∀ c ∈ P.cs, wtB c = true) := by
  rw [program_eq' hwf] at hP
  cases hP
  refine ⟨encodes_code hwf, C11Frag.keysOk_range_le _ _ _ (by simp), ?_⟩
  intro c hc
  rcases (mem_cs c).1 hc with hc | hc
  · rcases List.mem_append.1 hc with hc | hc
    · exact (avc_varsBelow pb c hc).1
    · exact qcs_wt pb c hc
  · exact (loc_wt hwf c hc).1

theorem total (pb : Problem) (hwf : WellFormed pb) : ∃ P, program pb = .ok P := ⟨_, program_eq hwf⟩

/-! ### the theorem (geometric reading of rule 4), through the classification of the tetrominoes -/

theorem noSqSet_shadedIn {pb : Problem} (hwf : WellFormed pb) {g : Nat → Nat → Bool} (h3 : NoSquare pb g)
    {b : List (Int × Int)} (hb : b ∈ pb.blocks) : C11LitsShape.NoSqSet (shadedIn g b) := by
  rintro ⟨y, x, ⟨m1, g1⟩, ⟨m2, g2⟩, ⟨m3, g3⟩, ⟨_, g4⟩⟩
  have o2 := wf_onBoard hwf hb _ m2
  have o3 := wf_onBoard hwf hb _ m3
  simp only at o2 o3 g1 g2 g3 g4
  exact h3 y x (by omega) (by omega) ⟨g1, g2, g3, g4⟩

theorem rulesGrid_iff {pb : Problem} (hwf : WellFormed pb) (g : Nat → Nat → Bool) :
    RulesGrid pb g ↔ RulesGridCode pb g := by
  unfold RulesGrid RulesGridCode RulesGridWith
  constructor
  · rintro ⟨h1, h2, h3, h4⟩
    refine ⟨h1, h2, h3, fun i j bi bj hbi hbj hij p hp q hq hadj => ?_⟩
    have mi := List.mem_of_getElem? hbi
    have mj := List.mem_of_getElem? hbj
    rw [← C11LitsShape.sameShape_iff_sameCode _ _ (h1 bi mi) (h1 bj mj) (noSqSet_shadedIn hwf h3 mi)
      (noSqSet_shadedIn hwf h3 mj)]
    exact h4 i j bi bj hbi hbj hij p hp q hq hadj
  · rintro ⟨h1, h2, h3, h4⟩
    refine ⟨h1, h2, h3, fun i j bi bj hbi hbj hij p hp q hq hadj => ?_⟩
    have mi := List.mem_of_getElem? hbi
    have mj := List.mem_of_getElem? hbj
    rw [C11LitsShape.sameShape_iff_sameCode _ _ (h1 bi mi) (h1 bj mj) (noSqSet_shadedIn hwf h3 mi)
      (noSqSet_shadedIn hwf h3 mj)]
    exact h4 i j bi bj hbi hbj hij p hp q hq hadj

theorem rules_iff {pb : Problem} (hwf : WellFormed pb) (a : List Val) : Rules pb a ↔ RulesCode pb a := by
  unfold Rules RulesCode
  constructor
  · rintro ⟨g, ha, hr⟩; exact ⟨g, ha, (rulesGrid_iff hwf g).1 hr⟩
  · rintro ⟨g, ha, hr⟩; exact ⟨g, ha, (rulesGrid_iff hwf g).2 hr⟩

/-- The full theorem. -/
theorem main (pb : Problem) (hwf : WellFormed pb) (P : PuzzleProg) (hP : program pb = .ok P) :
    EncodesRules P (Rules pb) ∧ P.KeysOk ∧ (∀ c ∈ P.cs, wtB c = true) := by
  obtain ⟨h1, h2, h3⟩ := main_code pb hwf P hP
  refine ⟨fun a => ?_, h2, h3⟩
  rw [rules_iff hwf a]
  exact h1 a

end Cspuz.Proofs.C11Lits
