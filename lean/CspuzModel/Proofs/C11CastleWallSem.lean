/-
  C11 for `solve_castle_wall`: the posted program encodes the published rules (semantic part and main theorem).
-/
import CspuzModel.Proofs.C11CastleWall
import CspuzModel.Proofs.C11CastleWallPar
namespace Cspuz.Proofs.C11CastleWallSem
open Cspuz Cspuz.Spec Cspuz.Spec.FrameGeom Cspuz.Spec.Loop Cspuz.Proofs Cspuz.Proofs.C11Loop Cspuz.Proofs.C11LoopExt
open Cspuz.Puzzles Cspuz.Puzzles.Loop Cspuz.Puzzles.CastleWall Cspuz.Spec.CastleWall
open Cspuz.Proofs.C11Slitherlink (mem_cellsOf)
open Cspuz.Proofs.C14 (segExpr)
open Cspuz.Proofs.C11CastleWall Cspuz.Proofs.C11CastleWallPar

/-! ### evaluation of the constraint shapes -/

theorem eval_not_bvar (σ : Asg) (i : Nat) :
    eval σ (.node .not [.bvar i]) = some (.b true) ↔ σ.b i = false := by
  simp only [eval_node, List.map_cons, List.map_nil, eval_bvar]
  cases σ.b i <;> simp [evalOp]

theorem eval_bvar_true (σ : Asg) (i : Nat) : eval σ (.bvar i) = some (.b true) ↔ σ.b i = true := by
  rw [eval_bvar]; cases σ.b i <;> simp

theorem eval_litB_false (σ : Asg) : ¬ (eval σ (.litB false) = some (.b true)) := by
  rw [eval_litB]; simp

theorem eval_iff2 (σ : Asg) (a b : Nat) :
    eval σ (.node .iff [.bvar a, .bvar b]) = some (.b true) ↔ σ.b a = σ.b b := by
  simp only [eval_node, List.map_cons, List.map_nil, eval_bvar]
  cases σ.b a <;> cases σ.b b <;> simp [evalOp, allBools]

theorem eval_iff_xor (σ : Asg) (a b c : Nat) :
    eval σ (.node .iff [.bvar a, .node .xor [.bvar b, .bvar c]]) = some (.b true) ↔
      σ.b a = xor (σ.b b) (σ.b c) := by
  simp only [eval_node, List.map_cons, List.map_nil, eval_bvar]
  cases σ.b a <;> cases σ.b b <;> cases σ.b c <;> simp [evalOp, allBools]

section Sem
variable (pb : Problem)

local notation "HH" => pb.height - 1
local notation "WW" => pb.width - 1

/-- Rules 2-4 without the loop condition. -/
def CellRules (on : Seg → Bool) : Prop :=
  ∀ y, y < pb.height → ∀ x, x < pb.width →
    (match arrowAt pb y x with
     | .none => True
     | .other => onLoop HH WW on (y, x) = false
     | .dir d n => onLoop HH WW on (y, x) = false ∧ some ((seen pb on y x d : Nat) : Int) = n) ∧
    (∀ b, markAt pb y x = some b → onLoop HH WW on (y, x) = false ∧ inside HH WW on (y, x) = b)

theorem rulesOn_iff (on : Seg → Bool) : RulesOn pb on ↔ (IsLoop HH WW on ∧ CellRules pb on) := Iff.rfl

/-- `is_inside` holds the crossing parity of the vertical ray. -/
def ParityOK (σ : Asg) : Prop :=
  ∀ fy, fy < HH → ∀ fx, fx < WW → σ.b (insId pb fy fx) = faceUp (onOf HH WW σ) fy fx

theorem seen_eq (on : Seg → Bool) (y x : Nat) (d : Puzzles.CastleWall.Dir) :
    seen pb on y x d = (relSegs pb d y x).countP on := by
  cases d <;> simp [seen, relSegs, List.countP_map, Function.comp_def]

theorem eval_count (σ : Asg) (d : Puzzles.CastleWall.Dir) (y x : Nat) (n : Int) :
    eval σ (.node .eq [countTrueE (relE pb d y x), .litI n]) = some (.b true) ↔
      ((seen pb (onOf HH WW σ) y x d : Nat) : Int) = n := by
  have h := eval_countTrueE (σ := σ) (xs := relE pb d y x)
    ((relSegs pb d y x).map fun s => onOf HH WW σ s) (by
      unfold relE
      rw [List.map_map, List.map_map]
      apply List.map_congr_left
      intro s _
      simp [segExpr, onOf, eval_bvar])
  rw [eval_node]
  simp only [List.map_cons, List.map_nil, h, eval_litI]
  rw [evalOp_cmp rfl, cmpOp_eq, seen_eq, List.count_eq_countP, List.countP_map]
  have e : ((fun x => x == true) ∘ fun s : Seg => onOf HH WW σ s) = fun s : Seg => onOf HH WW σ s := by
    funext s; simp
  rw [e]
  simp

theorem faceUp_succ (on : Seg → Bool) (fy fx : Nat) :
    faceUp on (fy + 1) fx = xor (faceUp on fy fx) (on (Seg.h (fy + 1) fx)) := rfl

theorem faceUp_zero (on : Seg → Bool) (fx : Nat) : faceUp on 0 fx = on (Seg.h 0 fx) := xf_one _

theorem parity_iff (σ : Asg) :
    (∀ p ∈ cellsOf HH WW, ∀ c ∈ parityE pb p, eval σ c = some (.b true)) ↔ ParityOK pb σ := by
  constructor
  · intro h fy
    induction fy with
    | zero =>
      intro hy fx hx
      have := h (0, fx) (mem_cellsOf.mpr ⟨hy, hx⟩)
      simp only [parityE, if_true, List.mem_singleton, forall_eq, segExpr] at this
      rw [eval_iff2] at this
      rw [this, faceUp_zero]; rfl
    | succ fy ih =>
      intro hy fx hx
      have := h (fy + 1, fx) (mem_cellsOf.mpr ⟨hy, hx⟩)
      simp only [parityE, Nat.add_one_ne_zero, if_false, List.mem_singleton, forall_eq, segExpr,
        Nat.add_sub_cancel] at this
      rw [eval_iff_xor] at this
      rw [this, ih (by omega) fx hx, faceUp_succ]; rfl
  · intro h p hp c hc
    obtain ⟨hy, hx⟩ := mem_cellsOf.mp hp
    unfold parityE at hc
    by_cases h0 : p.1 = 0
    · rw [if_pos h0] at hc
      simp only [List.mem_singleton] at hc
      subst hc
      simp only [segExpr]
      rw [eval_iff2, h p.1 hy p.2 hx, h0, faceUp_zero]; rfl
    · rw [if_neg h0] at hc
      simp only [List.mem_singleton] at hc
      subst hc
      simp only [segExpr]
      rw [eval_iff_xor, h p.1 hy p.2 hx, h (p.1 - 1) (by omega) p.2 hx]
      have e : p.1 = (p.1 - 1) + 1 := by omega
      rw [e, faceUp_succ]
      simp only [Nat.add_sub_cancel]
      rfl

theorem arrow_iff (hw : WellFormed pb) (σ : Asg) (y x : Nat)
    (hpass : σ.b (Frame.numVars HH WW + ptIndex WW (y, x)) = onLoop HH WW (onOf HH WW σ) (y, x)) :
    (∀ c ∈ arrowE pb (y, x), eval σ c = some (.b true)) ↔
      (match arrowAt pb y x with
       | .none => True
       | .other => onLoop HH WW (onOf HH WW σ) (y, x) = false
       | .dir d n => onLoop HH WW (onOf HH WW σ) (y, x) = false ∧
           some ((seen pb (onOf HH WW σ) y x d : Nat) : Int) = n) := by
  unfold arrowE
  simp only []
  cases hc : arrowAt pb y x with
  | none => simp
  | other =>
    simp only [List.mem_singleton, forall_eq, passedVar]
    rw [eval_not_bvar, hpass]
  | dir d num =>
    cases num with
    | none => exact absurd hc (hw.2.2.2.2.2.2.1 y x d)
    | some n =>
      simp only [List.mem_cons, List.not_mem_nil, or_false, forall_eq_or_imp, forall_eq, passedVar]
      rw [eval_not_bvar, hpass, eval_count, Option.some.injEq]

theorem inside_line (on : Seg → Bool) (hl : pb.height = 1 ∨ pb.width = 1) {y x : Nat}
    (hy : y < pb.height) (hx : x < pb.width) : inside HH WW on (y, x) = false := by
  unfold inside crossings
  have : ((List.range x).countP fun c => arm HH WW on (y, c) .up) = 0 := by
    rw [List.countP_eq_zero]
    intro c hc
    rcases hl with h | h
    · have : y = 0 := by omega
      subst this
      simp [arm]
    · have : x = 0 := by omega
      subst this
      simp at hc
  simp only []
  rw [this]
  rfl

theorem inside_iff (hw : WellFormed pb) (σ : Asg) (hl : IsLoop HH WW (onOf HH WW σ)) (hpar : ParityOK pb σ)
    {y x : Nat} (hy : y < pb.height) (hx : x < pb.width)
    (hoff : ∀ b, markAt pb y x = some b → onLoop HH WW (onOf HH WW σ) (y, x) = false) :
    (∀ c ∈ insideE pb (y, x), eval σ c = some (.b true)) ↔
      (∀ b, markAt pb y x = some b → inside HH WW (onOf HH WW σ) (y, x) = b) := by
  have h1 := hw.1
  have h2 := hw.2.1
  unfold insideE
  simp only []
  by_cases hline : pb.height = 1 ∨ pb.width = 1
  · rw [if_pos hline]
    have hin := inside_line pb (onOf HH WW σ) hline hy hx
    cases hm : markAt pb y x with
    | none => simp
    | some b =>
      cases b
      · simp [hin]
      · simp only [List.mem_singleton, forall_eq, Option.some.injEq, hin]
        constructor
        · intro h; exact absurd h (eval_litB_false σ)
        · intro h; exact absurd (h true rfl) (by decide)
  · rw [if_neg hline]
    have hH : y - 1 < HH := by omega
    have hW : x - 1 < WW := by omega
    cases hm : markAt pb y x with
    | none => simp
    | some b =>
      have hface : σ.b (insId pb (y - 1) (x - 1)) = inside HH WW (onOf HH WW σ) (y, x) := by
        rw [hpar (y - 1) hH (x - 1) hW]
        exact faceUp_eq_inside HH WW (onOf HH WW σ) hl (by omega) (by omega) (by omega) (hoff b hm)
      cases b
      · simp only [List.mem_singleton, forall_eq, Option.some.injEq]
        rw [eval_not_bvar, hface]
        constructor
        · intro h b hb; rw [← hb]; exact h
        · intro h; exact h false rfl
      · simp only [List.mem_singleton, forall_eq, Option.some.injEq]
        rw [eval_bvar_true, hface]
        constructor
        · intro h b hb; rw [← hb]; exact h
        · intro h; exact h true rfl

theorem mem_flatten_map {α : Type} {l : List α} {f : α → List Expr} {c : Expr} :
    c ∈ (l.map f).flatten ↔ ∃ p ∈ l, c ∈ f p := by
  rw [List.mem_flatten]
  constructor
  · rintro ⟨m, hm, hc⟩
    obtain ⟨p, hp, rfl⟩ := List.mem_map.mp hm
    exact ⟨p, hp, hc⟩
  · rintro ⟨p, hp, hc⟩
    exact ⟨f p, List.mem_map.mpr ⟨p, hp, rfl⟩, hc⟩

theorem extra_iff (hw : WellFormed pb) (σ : Asg) (hl : IsLoop HH WW (onOf HH WW σ))
    (hpass : ∀ p, PtValid HH WW p → σ.b (Frame.numVars HH WW + ptIndex WW p) = onLoop HH WW (onOf HH WW σ) p) :
    (∀ c ∈ extra pb, eval σ c = some (.b true)) ↔ (ParityOK pb σ ∧ CellRules pb (onOf HH WW σ)) := by
  have h1 := hw.1
  have h2 := hw.2.1
  have hvalid : ∀ y x, y < pb.height → x < pb.width → PtValid HH WW (y, x) := by
    intro y x hy hx; exact ⟨by simp only []; omega, by simp only []; omega⟩
  have hmark : ∀ y x b, markAt pb y x = some b → arrowAt pb y x ≠ .none := by
    intro y x b hb ha
    rw [hw.2.2.2.2.2.2.2 y x ha] at hb
    cases hb
  have hoff_of : ∀ y x, y < pb.height → x < pb.width →
      (∀ c ∈ arrowE pb (y, x), eval σ c = some (.b true)) →
      ∀ b, markAt pb y x = some b → onLoop HH WW (onOf HH WW σ) (y, x) = false := by
    intro y x hy hx ha b hb
    have := (arrow_iff pb hw σ y x (hpass _ (hvalid y x hy hx))).mp ha
    have hne := hmark y x b hb
    revert this
    cases hc : arrowAt pb y x with
    | none => exact absurd hc hne
    | other => exact fun h => h
    | dir d n => exact fun h => h.1
  unfold extra
  constructor
  · intro h
    have hA : ∀ p ∈ cellsOf pb.height pb.width, ∀ c ∈ arrowE pb p, eval σ c = some (.b true) := fun p hp c hc =>
      h c (List.mem_append_left _ (List.mem_append_left _ (mem_flatten_map.mpr ⟨p, hp, hc⟩)))
    have hP : ∀ p ∈ cellsOf HH WW, ∀ c ∈ parityE pb p, eval σ c = some (.b true) := fun p hp c hc =>
      h c (List.mem_append_left _ (List.mem_append_right _ (mem_flatten_map.mpr ⟨p, hp, hc⟩)))
    have hI : ∀ p ∈ cellsOf pb.height pb.width, ∀ c ∈ insideE pb p, eval σ c = some (.b true) := fun p hp c hc =>
      h c (List.mem_append_right _ (mem_flatten_map.mpr ⟨p, hp, hc⟩))
    have hpar := (parity_iff pb σ).mp hP
    refine ⟨hpar, ?_⟩
    intro y hy x hx
    have ha := hA (y, x) (mem_cellsOf.mpr ⟨hy, hx⟩)
    have hoff := hoff_of y x hy hx ha
    refine ⟨(arrow_iff pb hw σ y x (hpass _ (hvalid y x hy hx))).mp ha, ?_⟩
    intro b hb
    exact ⟨hoff b hb, (inside_iff pb hw σ hl hpar hy hx hoff).mp (hI (y, x) (mem_cellsOf.mpr ⟨hy, hx⟩)) b hb⟩
  · rintro ⟨hpar, hcells⟩ c hc
    rcases List.mem_append.mp hc with hc | hc
    · rcases List.mem_append.mp hc with hc | hc
      · obtain ⟨p, hp, hcp⟩ := mem_flatten_map.mp hc
        obtain ⟨hy, hx⟩ := mem_cellsOf.mp hp
        exact (arrow_iff pb hw σ p.1 p.2 (hpass _ (hvalid _ _ hy hx))).mpr (hcells p.1 hy p.2 hx).1 c hcp
      · obtain ⟨p, hp, hcp⟩ := mem_flatten_map.mp hc
        exact (parity_iff pb σ).mpr hpar p hp c hcp
    · obtain ⟨p, hp, hcp⟩ := mem_flatten_map.mp hc
      obtain ⟨hy, hx⟩ := mem_cellsOf.mp hp
      have hm := (hcells p.1 hy p.2 hx).2
      exact (inside_iff pb hw σ hl hpar hy hx (fun b hb => (hm b hb).1)).mpr (fun b hb => (hm b hb).2) c hcp

/-! ### the rules only look at the segments of the lattice -/

theorem relSegs_valid {y x : Nat} (hy : y < pb.height) (hx : x < pb.width) (d : Puzzles.CastleWall.Dir) :
    ∀ s ∈ relSegs pb d y x, s.Valid HH WW := by
  intro s hs
  cases d <;> simp only [relSegs, List.mem_map, List.mem_range] at hs <;>
    obtain ⟨c, hc, rfl⟩ := hs <;> simp only [Seg.Valid] <;> omega

theorem arm_up_congr (H W : Nat) (on on' : Seg → Bool) (h : ∀ s, s.Valid H W → on s = on' s)
    {y x : Nat} (hy : y ≤ H) (hx : x ≤ W) : arm H W on (y, x) .up = arm H W on' (y, x) .up := by
  unfold arm
  by_cases h0 : 0 < y
  · rw [h (Seg.v (y - 1) x) ⟨by omega, hx⟩]
  · simp [h0]

theorem inside_congr (H W : Nat) (on on' : Seg → Bool) (h : ∀ s, s.Valid H W → on s = on' s)
    {y x : Nat} (hy : y ≤ H) (hx : x ≤ W) : inside H W on (y, x) = inside H W on' (y, x) := by
  unfold inside crossings
  have : ((List.range x).countP fun c => arm H W on (y, c) .up) = (List.range x).countP fun c => arm H W on' (y, c) .up := by
    apply List.countP_congr
    intro c hc
    rw [arm_up_congr H W on on' h hy (by have := List.mem_range.mp hc; omega)]
  simp only []
  rw [this]

theorem cellRules_congr (hw : WellFormed pb) (on on' : Seg → Bool) (hon : ∀ s, s.Valid HH WW → on s = on' s) :
    CellRules pb on → CellRules pb on' := by
  have h1 := hw.1
  have h2 := hw.2.1
  have hvalid : ∀ y x, y < pb.height → x < pb.width → PtValid HH WW (y, x) := by
    intro y x hy hx; exact ⟨by simp only []; omega, by simp only []; omega⟩
  intro hc y hy x hx
  have hyx := hc y hy x hx
  have hseen : ∀ d, seen pb on y x d = seen pb on' y x d := by
    intro d
    rw [seen_eq, seen_eq]
    apply List.countP_congr
    intro s hs
    rw [hon s (relSegs_valid pb hy hx d s hs)]
  rw [← onLoop_congr HH WW on on' hon (y, x) (hvalid y x hy hx),
    ← inside_congr HH WW on on' hon (by omega : y ≤ HH) (by omega : x ≤ WW)]
  refine ⟨?_, hyx.2⟩
  have ha := hyx.1
  revert ha
  cases arrowAt pb y x with
  | none => exact fun h => h
  | other => exact fun h => h
  | dir d n => simp only []; rw [hseen d]; exact fun h => h

end Sem

/-! ### main theorem -/

section Main
variable (pb : Problem)

local notation "HH" => pb.height - 1
local notation "WW" => pb.width - 1

theorem extra_wt : ∀ c ∈ extra pb, wtB c = true := by
  intro c hc
  unfold extra at hc
  rcases List.mem_append.mp hc with hc | hc
  · rcases List.mem_append.mp hc with hc | hc
    · obtain ⟨p, _, hcp⟩ := mem_flatten_map.mp hc
      unfold arrowE at hcp
      split at hcp
      · simp at hcp
      · simp only [List.mem_singleton] at hcp; subst hcp; rfl
      · next d n _ =>
        simp only [List.mem_cons, List.not_mem_nil, or_false] at hcp
        rcases hcp with rfl | rfl
        · rfl
        · have : ∀ e ∈ relE pb d p.1 p.2, wtB e = true := by
            intro e he
            simp only [relE, List.mem_map] at he
            obtain ⟨q, _, rfl⟩ := he
            rfl
          simp [wtB, wtIs, wtI, wtI_countTrueE _ this]
      · simp at hcp
    · obtain ⟨p, _, hcp⟩ := mem_flatten_map.mp hc
      unfold parityE at hcp
      split at hcp <;> (simp only [List.mem_singleton] at hcp; subst hcp; rfl)
  · obtain ⟨p, _, hcp⟩ := mem_flatten_map.mp hc
    unfold insideE at hcp
    split at hcp <;> split at hcp <;>
      first
      | (simp only [List.mem_singleton] at hcp; subst hcp; rfl)
      | simp at hcp

theorem main (hw : WellFormed pb) (P : PuzzleProg) (hP : program pb = .ok P) :
    EncodesRules P (Rules pb) ∧ P.KeysOk ∧ (∀ c ∈ P.cs, wtB c = true) := by
  have h1 := hw.1
  have h2 := hw.2.1
  rw [program_eq pb hw] at hP
  cases hP
  refine ⟨?_, ?_, ?_⟩
  · have h := encodes_hidden HH WW (HH * WW) (extra pb) (CellRules pb)
      (fun on on' hon => ⟨cellRules_congr pb hw on on' hon,
        cellRules_congr pb hw on' on (fun s hs => (hon s hs).symm)⟩)
      (fun σ hl hpass hex => ((extra_iff pb hw σ hl hpass).mp hex).2)
      (by
        intro σ hl hpass hcr
        let σ' : Asg := ⟨fun id => if id < B HH WW then σ.b id
          else faceUp (onOf HH WW σ) ((id - B HH WW) / WW) ((id - B HH WW) % WW), σ.i⟩
        have hag : AgreeBelow (B HH WW) σ σ' := by
          intro id hid
          exact ⟨by show σ.b id = if id < B HH WW then σ.b id else _; rw [if_pos hid], rfl⟩
        have hon : ∀ s, s.Valid HH WW → onOf HH WW σ s = onOf HH WW σ' s := by
          intro s hs
          have hr := C14.var_range 0 HH WW s hs
          exact (hag (s.var 0 HH WW) (by simp only [B]; omega)).1
        have hl' : IsLoop HH WW (onOf HH WW σ') := (isLoop_congr HH WW _ _ hon).mp hl
        have hpass' : ∀ p, PtValid HH WW p →
            σ'.b (Frame.numVars HH WW + ptIndex WW p) = onLoop HH WW (onOf HH WW σ') p := by
          intro p hp
          have hlt := C14.ptIndex_lt HH WW p hp
          rw [← (hag (Frame.numVars HH WW + ptIndex WW p) (by simp only [B]; omega)).1, hpass p hp,
            onLoop_congr HH WW _ _ hon p hp]
        refine ⟨σ', hag, (extra_iff pb hw σ' hl' hpass').mpr ⟨?_, cellRules_congr pb hw _ _ hon hcr⟩⟩
        intro fy hy fx hx
        show (if insId pb fy fx < B HH WW then σ.b (insId pb fy fx)
          else faceUp (onOf HH WW σ) ((insId pb fy fx - B HH WW) / WW) ((insId pb fy fx - B HH WW) % WW)) = _
        have e : insId pb fy fx - B HH WW = fy * WW + fx := by simp only [insId]; omega
        rw [if_neg (by simp only [insId]; omega), e, (C11Grid.cell_div_mod hx).1, (C11Grid.cell_div_mod hx).2]
        unfold faceUp
        apply xf_congr
        intro r hr
        exact hon (Seg.h r fx) ⟨by omega, hx⟩)
    intro a
    rw [h a]
    rfl
  · have := keysOk_frame HH WW ((cyc HH WW).decls ++ List.replicate (HH * WW) .bool) ((cyc HH WW).cs ++ extra pb)
    rwa [← List.append_assoc] at this
  · intro c hc
    rcases List.mem_append.mp hc with h | h
    · exact cyc_wt _ _ c h
    · exact extra_wt pb c h

end Main

end Cspuz.Proofs.C11CastleWallSem
