/-
  C03, backend layer: with an external solver that honours the protocol (`SolverCorrect`), `find_answer` and the
  native deduction mode of `solve` through the Sugar-family backends decide satisfiability and publish exactly
  a model / exactly the facts common to all solutions.
-/
import CspuzModel.Proofs.C03Reply
import CspuzModel.Spec.Session
namespace Cspuz.Proofs.C03Backend
open Cspuz Cspuz.Spec Cspuz.Sugar Cspuz.SugarSyntax Cspuz.Proofs.C03Str Cspuz.Proofs.C03Text Cspuz.Proofs.C03Reply

/-! ### variables of a `Solver` -/

theorem enumFrom_getElem? : ∀ (l : List VarDecl) (i j : Nat),
    (enumFrom i l)[j]? = l[j]?.map fun d => (⟨i + j, d⟩ : SVar)
  | [], _, _ => by simp [enumFrom]
  | d :: r, i, 0 => by simp [enumFrom]
  | d :: r, i, j + 1 => by
    simp only [enumFrom, List.getElem?_cons_succ, enumFrom_getElem? r (i + 1) j]
    congr 1; funext d; congr 1; omega

theorem enumVars_getElem? (decls : List VarDecl) (j : Nat) :
    (enumVars decls)[j]? = decls[j]?.map fun d => (⟨j, d⟩ : SVar) := by
  simpa [enumVars] using enumFrom_getElem? decls 0 j

theorem mem_enumVars {decls : List VarDecl} {v : SVar} : v ∈ enumVars decls ↔ decls[v.id]? = some v.decl := by
  rw [List.mem_iff_getElem?]
  constructor
  · rintro ⟨j, hj⟩
    rw [enumVars_getElem?] at hj
    cases hd : decls[j]? with
    | none => simp [hd] at hj
    | some d => simp only [hd, Option.map_some, Option.some.injEq] at hj; subst hj; exact hd
  · intro h
    exact ⟨v.id, by rw [enumVars_getElem?, h]; rfl⟩

theorem enumVars_length (decls : List VarDecl) : (enumVars decls).length = decls.length := by
  have : ∀ (l : List VarDecl) (i : Nat), (enumFrom i l).length = l.length := by
    intro l; induction l with
    | nil => intro i; rfl
    | cons d r ih => intro i; simp [enumFrom, ih]
  exact this decls 0

theorem enumVars_idInj (decls : List VarDecl) : IdInj (enumVars decls) := by
  intro v hv w hw e
  have h1 := mem_enumVars.1 hv
  have h2 := mem_enumVars.1 hw
  rw [e, h2] at h1
  obtain ⟨vi, vd⟩ := v
  obtain ⟨wi, wd⟩ := w
  simp only [Option.some.injEq] at h1
  simp only at e
  subst e h1
  rfl

theorem valOf_eq_valV (decls : List VarDecl) (σ : Asg) (j : Nat) (d : VarDecl) (h : decls[j]? = some d) :
    valOf decls σ j = some (valV σ ⟨j, d⟩) := by
  unfold valOf valV
  rw [h]
  cases d <;> rfl

theorem sols_eq_publish (decls : List VarDecl) (σ : Asg) :
    ((enumVars decls).map fun v => some (valV σ v)) = publish decls σ := by
  apply List.ext_getElem?
  intro j
  simp only [List.getElem?_map, enumVars_getElem?, publish]
  cases hd : decls[j]? with
  | none =>
    have : decls.length ≤ j := by
      rcases Nat.lt_or_ge j decls.length with h | h
      · rw [List.getElem?_eq_getElem h] at hd; cases hd
      · exact h
    simp [this]
  | some d =>
    have hlt : j < decls.length := by
      rcases Nat.lt_or_ge j decls.length with h | h
      · exact h
      · rw [List.getElem?_eq_none h] at hd; cases hd
    simp [hlt, valOf_eq_valV decls σ j d hd]

theorem satV_iff (decls : List VarDecl) (cs : List Expr) (σ : Asg) :
    SatV (enumVars decls) (cs.map norm) σ ↔ Sat decls cs σ := by
  unfold SatV Sat Asg.respects
  constructor
  · rintro ⟨h1, h2⟩
    refine ⟨fun id lo hi hd => h1 ⟨id, .int lo hi⟩ (mem_enumVars.2 hd) lo hi rfl, fun c hc => ?_⟩
    rw [← eval_norm]; exact h2 _ (List.mem_map.2 ⟨c, hc, rfl⟩)
  · rintro ⟨h1, h2⟩
    refine ⟨fun v hv lo hi hd => h1 v.id lo hi (by rw [← hd]; exact mem_enumVars.1 hv), fun c hc => ?_⟩
    obtain ⟨c', hc', rfl⟩ := List.mem_map.1 hc
    rw [eval_norm]; exact h2 c' hc'

/-! ### scoping: constraints only mention declared variables, with their declared type -/

mutual
def inScope (decls : List VarDecl) : Expr → Bool
  | .bvar id => (match decls[id]? with | some .bool => true | _ => false)
  | .ivar id => (match decls[id]? with | some (.int _ _) => true | _ => false)
  | .node _ args => inScopes decls args
  | _ => true
def inScopes (decls : List VarDecl) : List Expr → Bool
  | [] => true
  | e :: r => inScope decls e && inScopes decls r
end

/-- Two assignments agree on the declared variables (each at its declared type). -/
def AgreeOn (decls : List VarDecl) (σ σ' : Asg) : Prop :=
  (∀ id, decls[id]? = some .bool → σ.b id = σ'.b id) ∧
  (∀ id lo hi, decls[id]? = some (.int lo hi) → σ.i id = σ'.i id)

mutual
theorem eval_agree {decls : List VarDecl} {σ σ' : Asg} (h : AgreeOn decls σ σ') :
    ∀ e : Expr, inScope decls e = true → eval σ e = eval σ' e
  | .bvar id, hs => by
    simp only [inScope] at hs
    split at hs
    · rename_i hd; simp [h.1 id hd]
    · cases hs
  | .ivar id, hs => by
    simp only [inScope] at hs
    split at hs
    · rename_i lo hi hd; simp [h.2 id lo hi hd]
    · cases hs
  | .litB _, _ => by simp
  | .litI _, _ => by simp
  | .litNone, _ => by simp
  | .node op args, hs => by
    simp only [inScope] at hs
    rw [eval_node, eval_node, evalList_agree h args hs]
theorem evalList_agree {decls : List VarDecl} {σ σ' : Asg} (h : AgreeOn decls σ σ') :
    ∀ l : List Expr, inScopes decls l = true → l.map (eval σ) = l.map (eval σ')
  | [], _ => rfl
  | e :: r, hs => by
    simp only [inScopes, Bool.and_eq_true] at hs
    rw [List.map_cons, List.map_cons, eval_agree h e hs.1, evalList_agree h r hs.2]
end

theorem sat_agree {decls : List VarDecl} {cs : List Expr} {σ σ' : Asg} (h : AgreeOn decls σ σ')
    (hs : ∀ c ∈ cs, inScope decls c = true) (hsat : Sat decls cs σ) : Sat decls cs σ' := by
  refine ⟨fun id lo hi hd => ?_, fun c hc => ?_⟩
  · rw [← h.2 id lo hi hd]; exact hsat.1 id lo hi hd
  · rw [← eval_agree h c (hs c hc)]; exact hsat.2 c hc

theorem publish_get (decls : List VarDecl) (σ : Asg) (i : Nat) :
    (publish decls σ)[i]?.getD none = valOf decls σ i := by
  unfold publish
  by_cases h : i < decls.length
  · rw [List.getElem?_map, List.getElem?_range h]; rfl
  · have : decls[i]? = none := List.getElem?_eq_none (by omega)
    rw [List.getElem?_eq_none (by simp; omega)]
    simp [valOf, this]

theorem publish_getD (decls : List VarDecl) (σ : Asg) (i : Nat) :
    (publish decls σ).getD i none = valOf decls σ i := by
  rw [List.getD_eq_getElem?_getD, publish_get]

theorem agree_asgOfSols (decls : List VarDecl) (σ : Asg) : AgreeOn decls σ (asgOfSols (publish decls σ)) := by
  constructor
  · intro id hd
    simp only [asgOfSols, publish_getD, valOf, hd]
  · intro id lo hi hd
    simp only [asgOfSols, publish_getD, valOf, hd]

theorem valOf_agree {decls : List VarDecl} {σ σ' : Asg} (h : AgreeOn decls σ σ') (i : Nat) :
    valOf decls σ i = valOf decls σ' i := by
  unfold valOf
  cases hd : decls[i]? with
  | none => rfl
  | some d =>
    cases d with
    | bool => simp only; rw [h.1 i hd]
    | int lo hi => simp only; rw [h.2 i lo hi hd]

theorem publish_asgOfSols (decls : List VarDecl) (σ : Asg) :
    publish decls (asgOfSols (publish decls σ)) = publish decls σ := by
  have h := agree_asgOfSols decls σ
  generalize asgOfSols (publish decls σ) = σ' at h
  unfold publish
  exact List.map_congr_left fun i _ => (valOf_agree h i).symm

/-! ### `find_answer` -/

theorem parseSat_congr {be be' : SugarLike} (h1 : be.variables = be'.variables) (h2 : be.maxVarId = be'.maxVarId)
    (reply : Str) : be.parseSat reply = be'.parseSat reply := by
  unfold SugarLike.parseSat SugarLike.freshAssignment SugarLike.readSols
  rw [h1, h2]

theorem parseFacts_congr {be be' : SugarLike} (h1 : be.variables = be'.variables) (h2 : be.maxVarId = be'.maxVarId)
    (reply : Str) : be.parseFacts reply = be'.parseFacts reply := by
  unfold SugarLike.parseFacts SugarLike.freshAssignment SugarLike.readSols
  rw [h1, h2]

/-- The programs these backends print faithfully and whose `sol` fields can be read as an assignment. -/
def Good (decls : List VarDecl) (cs : List Expr) : Prop :=
  ∀ c ∈ cs, printable c = true ∧ inScope decls c = true

theorem sugarFind_spec {S : Call} (hS : SolverCorrect S) {decls : List VarDecl} {cs : List Expr}
    (hp : ∀ c ∈ cs, printable c = true) :
    (∃ σ, Sat decls cs σ ∧ sugarFind S decls cs = .ok (true, publish decls σ)) ∨
    (¬ Satisfiable decls cs ∧ sugarFind S decls cs = .ok (false, decls.map fun _ => none)) := by
  obtain ⟨be, hbe, hv, hm, hlines⟩ := addConstraints_eq (enumVars decls) hp
  obtain ⟨text, htext, hparse, _⟩ := description_roundtrip (enumVars decls) cs hp none (by simp)
  have htext' : text = be.description := by
    simp only [cspDescriptionL, hbe, ok_bind] at htext
    exact (Except.ok.inj htext).symm
  subst htext'
  have hfind : sugarFind S decls cs = (SugarLike.init (enumVars decls)).parseSat (S be.description) := by
    simp only [sugarFind, hbe, ok_bind, SugarLike.solve]
    exact parseSat_congr hv hm _
  have := hS _ _ _ _ hparse
  simp only [Option.map_none] at this
  rcases this with ⟨σ, hσ, hrep⟩ | ⟨hno, hrep⟩
  · left
    refine ⟨σ, (satV_iff decls cs σ).1 hσ, ?_⟩
    rw [hfind, hrep, reply_sat _ (enumVars_idInj decls).kindOK, sols_eq_publish]
  · right
    refine ⟨fun ⟨σ, hσ⟩ => hno ⟨σ, (satV_iff decls cs σ).2 hσ⟩, ?_⟩
    rw [hfind, hrep, reply_unsat]
    congr 2
    apply List.ext_getElem?
    intro j
    simp only [List.getElem?_map, enumVars_getElem?]
    cases decls[j]? <;> rfl

/-- The backend, seen through the abstract interface of Model/Solver.lean, is correct on good programs. -/
theorem backend_correct {S : Call} (hS : SolverCorrect S) {decls : List VarDecl} {cs : List Expr}
    (hg : Good decls cs) :
    ∃ r, sugarBackend S decls cs = .ok r ∧ (∀ σ, r = some σ → Sat decls cs σ) ∧
      (r = none → ¬ Satisfiable decls cs) := by
  rcases sugarFind_spec hS (decls := decls) (fun c hc => (hg c hc).1) with ⟨σ, hσ, hf⟩ | ⟨hno, hf⟩
  · refine ⟨some (asgOfSols (publish decls σ)), by simp [sugarBackend, hf], ?_, by simp⟩
    intro σ' hσ'
    cases hσ'
    exact sat_agree (agree_asgOfSols decls σ) (fun c hc => (hg c hc).2) hσ
  · exact ⟨none, by simp [sugarBackend, hf], by simp, fun _ => hno⟩

/-- `find_answer` through a Sugar-family backend (the `sol` fields written by the reply parser). -/
theorem find_answer_exact {S : Call} (hS : SolverCorrect S) (st : SolverState)
    (hp : ∀ c ∈ st.cs, printable c = true) :
    ((sugarFindAnswer S st).2 = .verdict true ∨ (sugarFindAnswer S st).2 = .verdict false) ∧
    ((sugarFindAnswer S st).2 = .verdict true ↔ Satisfiable st.decls st.cs) ∧
    ((sugarFindAnswer S st).2 = .verdict true →
      ∃ σ, Sat st.decls st.cs σ ∧ (sugarFindAnswer S st).1.sol = publish st.decls σ) ∧
    ((sugarFindAnswer S st).2 = .verdict false →
      (sugarFindAnswer S st).1.sol = st.decls.map fun _ => none) := by
  rcases sugarFind_spec hS (decls := st.decls) hp with ⟨σ, hσ, hf⟩ | ⟨hno, hf⟩
  · have e : sugarFindAnswer S st = ({ st with sol := publish st.decls σ }, .verdict true) := by
      simp only [sugarFindAnswer, hf]
    rw [e]
    exact ⟨Or.inl rfl, ⟨fun _ => ⟨σ, hσ⟩, fun _ => rfl⟩, fun _ => ⟨σ, hσ, rfl⟩, fun h => (by cases h)⟩
  · have e : sugarFindAnswer S st = ({ st with sol := st.decls.map fun _ => none }, .verdict false) := by
      simp only [sugarFindAnswer, hf]
    rw [e]
    exact ⟨Or.inr rfl, ⟨fun h => (by cases h), fun h => absurd h hno⟩, fun h => (by cases h), fun _ => rfl⟩

/-- The two presentations of `find_answer` agree (on good programs, for a correct solver). -/
theorem findAnswer_eq {S : Call} (hS : SolverCorrect S) (st : SolverState)
    (hp : ∀ c ∈ st.cs, printable c = true) :
    (findAnswer (sugarBackend S) st).2 = (sugarFindAnswer S st).2 ∧
    ((sugarFindAnswer S st).2 = .verdict true →
      (findAnswer (sugarBackend S) st).1.sol = (sugarFindAnswer S st).1.sol) := by
  rcases sugarFind_spec hS (decls := st.decls) hp with ⟨σ, hσ, hf⟩ | ⟨hno, hf⟩
  · simp [findAnswer, sugarFindAnswer, sugarBackend, hf, publish_asgOfSols]
  · simp [findAnswer, sugarFindAnswer, sugarBackend, hf]

/-! ### native deduction mode -/

theorem natDigits_inj {a b : Nat} (h : natDigits a = natDigits b) : a = b := by
  have h1 := parseNat_natDigits a
  rw [h, parseNat_natDigits] at h1
  exact (Option.some.inj h1).symm

theorem name_inj {v w : SVar} (h : v.name = w.name) : v.id = w.id ∧ v.isInt = w.isInt := by
  obtain ⟨vi, vd⟩ := v
  obtain ⟨wi, wd⟩ := w
  cases vd <;> cases wd <;> simp only [SVar.name, List.cons.injEq] at h
  · exact ⟨natDigits_inj h.2, rfl⟩
  · exact absurd h.1 (by decide)
  · exact absurd h.1 (by decide)
  · exact ⟨natDigits_inj h.2, rfl⟩

theorem key_contains {decls : List VarDecl} {ks : List Bool} {i : Nat} {d : VarDecl} (hd : decls[i]? = some d) :
    (keyNamesOf (enumVars decls) ks).contains (⟨i, d⟩ : SVar).name = ks.getD i false := by
  have hi : i < decls.length := by
    rcases Nat.lt_or_ge i decls.length with h | h
    · exact h
    · rw [List.getElem?_eq_none h] at hd; cases hd
  rw [Bool.eq_iff_iff, List.contains_iff_mem]
  simp only [keyNamesOf, List.mem_map, List.mem_filter]
  constructor
  · rintro ⟨p, ⟨hp, hp2⟩, hname⟩
    obtain ⟨j, hj1⟩ := List.mem_iff_getElem?.1 hp
    rw [List.getElem?_zip_eq_some] at hj1
    have hj := hj1.1
    rw [enumVars_getElem?] at hj
    cases hdj : decls[j]? with
    | none => simp [hdj] at hj
    | some d' =>
      simp only [hdj, Option.map_some, Option.some.injEq] at hj
      have hid := (name_inj hname).1
      rw [← hj] at hid
      simp only at hid
      subst hid
      rw [List.getD_eq_getElem?_getD, hj1.2, hp2]; rfl
  · intro hk
    have hki : ks[i]? = some true := by
      rw [List.getD_eq_getElem?_getD] at hk
      cases h : ks[i]? with
      | none => simp [h] at hk
      | some b => simp [h] at hk; rw [hk]
    refine ⟨(⟨i, d⟩, true), ⟨?_, rfl⟩, rfl⟩
    apply List.mem_iff_getElem?.2
    refine ⟨i, ?_⟩
    rw [List.getElem?_zip_eq_some]
    exact ⟨by rw [enumVars_getElem?, hd]; rfl, hki⟩

theorem exactFact_some {decls : List VarDecl} {cs : List Expr} {i : Nat} {d : VarDecl} (hd : decls[i]? = some d)
    {x : Val} : ExactFact (enumVars decls) (cs.map norm) ⟨i, d⟩ (some x) ↔ CommonValue decls cs i x := by
  unfold ExactFact CommonValue
  simp only
  constructor
  · intro h σ hσ
    rw [valOf_eq_valV decls σ i d hd, h σ ((satV_iff decls cs σ).2 hσ)]
  · intro h σ hσ
    have := h σ ((satV_iff decls cs σ).1 hσ)
    rw [valOf_eq_valV decls σ i d hd] at this
    exact Option.some.inj this

theorem exactFact_none {decls : List VarDecl} {cs : List Expr} {i : Nat} {d : VarDecl} (hd : decls[i]? = some d) :
    ExactFact (enumVars decls) (cs.map norm) ⟨i, d⟩ none ↔ Undetermined decls cs i := by
  unfold ExactFact Undetermined
  simp only
  constructor
  · rintro ⟨σ₁, σ₂, h1, h2, hne⟩
    refine ⟨σ₁, σ₂, (satV_iff _ _ _).1 h1, (satV_iff _ _ _).1 h2, ?_⟩
    rw [valOf_eq_valV decls σ₁ i d hd, valOf_eq_valV decls σ₂ i d hd]
    exact fun h => hne (Option.some.inj h)
  · rintro ⟨σ₁, σ₂, h1, h2, hne⟩
    refine ⟨σ₁, σ₂, (satV_iff _ _ _).2 h1, (satV_iff _ _ _).2 h2, ?_⟩
    rw [valOf_eq_valV decls σ₁ i d hd, valOf_eq_valV decls σ₂ i d hd] at hne
    exact fun h => hne (by rw [h])

/-- A value of the type of `v`. -/
theorem valV_typed (σ : Asg) (v : SVar) : (match v.decl, some (valV σ v) with
    | .int _ _, some (.i x) => some (Val.i x)
    | .bool, some (.b x) => some (Val.b x)
    | _, _ => none) = some (valV σ v) := by
  obtain ⟨i, d⟩ := v
  cases d <;> rfl

/-- What native deduction publishes. -/
theorem sugarDeduce_spec {S : Call} (hS : SolverCorrect S) {k : Kind} (hk : k.native = true) (st : SolverState)
    (hp : ∀ c ∈ st.cs, printable c = true) (hlen : st.decls.length ≤ st.isKey.length) :
    (¬ Satisfiable st.decls st.cs ∧ sugarDeduce k S st = .ok (false, st.decls.map fun _ => none)) ∨
    (Satisfiable st.decls st.cs ∧ ∃ sols, sugarDeduce k S st = .ok (true, sols) ∧
      sols.length = st.decls.length ∧
      ∀ i, i < st.decls.length →
        (st.isKey.getD i false = false → sols.getD i none = none) ∧
        (st.isKey.getD i false = true →
          (∀ v, sols.getD i none = some v ↔ CommonValue st.decls st.cs i v) ∧
          (sols.getD i none = none ↔ Undetermined st.decls st.cs i))) := by
  obtain ⟨be, hbe, hv, hm, hlines⟩ := addConstraints_eq (enumVars st.decls) hp
  have hlen' : (enumVars st.decls).length ≤ st.isKey.length := by rw [enumVars_length]; exact hlen
  obtain ⟨text, htext, hparse, _⟩ := description_roundtrip (enumVars st.decls) st.cs hp (some st.isKey)
    (by intro ks hks; cases hks; exact hlen')
  have hdesc : be.descriptionKeys st.isKey = .ok text := by
    simpa only [cspDescriptionL, hbe, ok_bind] using htext
  have hded : sugarDeduce k S st = (SugarLike.init (enumVars st.decls)).parseFacts (S text) := by
    simp only [sugarDeduce, hbe, ok_bind, solveIrrefutablyOf, hk, if_true, SugarLike.solveIrrefutably, hdesc]
    exact parseFacts_congr hv hm _
  have := hS _ _ _ _ hparse
  simp only [Option.map_some] at this
  rcases this with ⟨hno, hrep⟩ | ⟨⟨σ₀, hσ₀⟩, F, hF, hrep⟩
  · left
    refine ⟨fun ⟨σ, hσ⟩ => hno ⟨σ, (satV_iff _ _ σ).2 hσ⟩, ?_⟩
    rw [hded, hrep, reply_unsat_facts]
    congr 2
    apply List.ext_getElem?
    intro j
    simp only [List.getElem?_map, enumVars_getElem?]
    cases st.decls[j]? <;> rfl
  · right
    have hsat : Satisfiable st.decls st.cs := ⟨σ₀, (satV_iff _ _ σ₀).1 hσ₀⟩
    refine ⟨hsat, _, by rw [hded, hrep, reply_facts _ (enumVars_idInj _)], by simp [enumVars_length], ?_⟩
    intro i hi
    have hd : st.decls[i]? = some st.decls[i] := List.getElem?_eq_getElem hi
    have hget : ((enumVars st.decls).map (factOf (keyNamesOf (enumVars st.decls) st.isKey) F)).getD i none
        = factOf (keyNamesOf (enumVars st.decls) st.isKey) F ⟨i, st.decls[i]⟩ := by
      rw [List.getD_eq_getElem?_getD, List.getElem?_map, enumVars_getElem?, hd]; rfl
    rw [hget]
    have hmem : (⟨i, st.decls[i]⟩ : SVar) ∈ enumVars st.decls := mem_enumVars.2 hd
    have hfact := hF _ hmem
    constructor
    · intro hkey
      simp only [factOf, key_contains hd, hkey, Bool.false_eq_true, if_false]
    · intro hkey
      have hfo : factOf (keyNamesOf (enumVars st.decls) st.isKey) F ⟨i, st.decls[i]⟩ = F ⟨i, st.decls[i]⟩ := by
        simp only [factOf, key_contains hd, hkey, if_true]
        cases hFv : F ⟨i, st.decls[i]⟩ with
        | none => cases st.decls[i] <;> rfl
        | some x =>
          rw [hFv] at hfact
          have hx : valV σ₀ ⟨i, st.decls[i]⟩ = x := hfact σ₀ hσ₀
          rw [← hx]
          exact valV_typed σ₀ ⟨i, st.decls[i]⟩
      rw [hfo]
      cases hFv : F ⟨i, st.decls[i]⟩ with
      | none =>
        rw [hFv] at hfact
        have hund := (exactFact_none hd).1 hfact
        refine ⟨fun v => ⟨fun h => (by cases h), fun hc => ?_⟩, ⟨fun _ => hund, fun _ => rfl⟩⟩
        obtain ⟨σ₁, σ₂, h1, h2, hne⟩ := hund
        exact absurd ((hc σ₁ h1).trans (hc σ₂ h2).symm) hne
      | some x =>
        rw [hFv] at hfact
        have hcom := (exactFact_some hd).1 hfact
        refine ⟨fun v => ⟨fun h => (by cases h; exact hcom), fun hc => ?_⟩, ⟨fun h => (by cases h), fun hund => ?_⟩⟩
        · obtain ⟨σ, hσ⟩ := hsat
          have := (hcom σ hσ).symm.trans (hc σ hσ)
          rw [this]
        · obtain ⟨σ₁, σ₂, h1, h2, hne⟩ := hund
          exact absurd ((hcom σ₁ h1).trans (hcom σ₂ h2).symm) hne

end Cspuz.Proofs.C03Backend
