/-
  C03: the statements of Properties/C03.lean (String-level wrappers of the `List Char` lemmas).
-/
import CspuzModel.Proofs.C03Backend
import CspuzModel.Proofs.C03WT
import CspuzModel.Proofs.C03Plain
import CspuzModel.Proofs.C03Java
namespace Cspuz.Proofs.C03
open Cspuz Cspuz.Spec Cspuz.Sugar Cspuz.SugarSyntax
open Cspuz.Proofs.C03Str Cspuz.Proofs.C03Text Cspuz.Proofs.C03Reply Cspuz.Proofs.C03Backend Cspuz.Proofs.C03WT

theorem text_roundtrip :
    ∀ (vars : List SVar) (cs : List Expr) (keys : Option (List Bool)),
    (∀ c ∈ cs, printable c = true) → (∀ ks, keys = some ks → vars.length ≤ ks.length) →
    ∃ text, cspDescription vars cs keys = .ok text ∧
      parseCSP text = some (vars, cs.map norm, keys.map (keyNamesOf vars)) ∧
      (∀ (σ : Asg) (c : Expr), eval σ (norm c) = eval σ c) ∧
      text.toList.all (fun ch => ch.toNat < 128) = true := by
  intro vars cs keys hp hk
  obtain ⟨text, h1, h2, h3⟩ := description_roundtrip vars cs hp keys hk
  refine ⟨String.ofList text, by simp [cspDescription, h1, Except.map], ?_, fun σ c => eval_norm σ c, ?_⟩
  · simp [parseCSP, String.toList_ofList, h2]
  · rw [String.toList_ofList, List.all_eq_true]
    intro c hc; simpa using h3 c hc

theorem reply_sat_S :
    (∀ (vars : List SVar), KindOK vars → ∀ σ : Asg,
      parseSat vars (formatSatS vars σ) = .ok (true, vars.map fun v => some (valV σ v))) ∧
    (∀ vars : List SVar, parseSat vars formatUnsatS = .ok (false, vars.map fun _ => none)) := by
  refine ⟨fun vars hk σ => ?_, fun vars => ?_⟩
  · simp only [parseSat, formatSatS, String.toList_ofList]; exact reply_sat vars hk σ
  · simp only [parseSat, formatUnsatS, String.toList_ofList]; exact reply_unsat vars

theorem factOf_typed {keys : List Str} {F : SVar → Option Val} {v : SVar} {σ : Asg}
    (hF : F v = some (valV σ v)) (hk : keys.contains v.name = true) : factOf keys F v = F v := by
  simp only [factOf, hk, if_true, hF]
  exact valV_typed σ v

theorem factOf_none {keys : List Str} {F : SVar → Option Val} {v : SVar} (hF : F v = none) :
    factOf keys F v = none := by
  simp only [factOf, hF]
  split
  · cases v.decl <;> rfl
  · rfl

theorem reply_facts_S :
    (∀ (vars : List SVar), (vars.map SVar.id).Nodup → ∀ (keys : List Str) (F : SVar → Option Val),
      parseFacts vars (formatFactsS vars keys F) = .ok (true, vars.map (factOf keys F)) ∧
      (∀ v σ, F v = some (valV σ v) → keys.contains v.name = true → factOf keys F v = F v) ∧
      (∀ v, F v = none → factOf keys F v = none) ∧
      (∀ v, keys.contains v.name = false → factOf keys F v = none)) ∧
    (∀ vars : List SVar, parseFacts vars formatUnsatFactsS = .ok (false, vars.map fun _ => none)) := by
  refine ⟨fun vars hnd keys F => ⟨?_, fun v σ h1 h2 => factOf_typed h1 h2, fun v h => factOf_none h,
    fun v h => by simp only [factOf, h, Bool.false_eq_true, if_false]⟩, fun vars => ?_⟩
  · simp only [parseFacts, formatFactsS, String.toList_ofList]
    exact reply_facts vars (IdInj.of_nodup hnd) keys F
  · simp only [parseFacts, formatUnsatFactsS, String.toList_ofList]; exact reply_unsat_facts vars

theorem native_of_ne {k : Kind} (h : k ≠ .sugar) : k.native = true := by
  cases k <;> first | exact absurd rfl h | decide

theorem native_deduction :
    ∀ (S : Call), SolverCorrect S → ∀ (k : Kind), k ≠ .sugar →
    ∀ (st : SolverState), (∀ c ∈ st.cs, printable c = true) → st.isKey.length = st.decls.length →
      ((sugarSolve k S st).2 = .verdict true ∨ (sugarSolve k S st).2 = .verdict false) ∧
      ((sugarSolve k S st).2 = .verdict true ↔ Satisfiable st.decls st.cs) ∧
      ((sugarSolve k S st).2 = .verdict false → (sugarSolve k S st).1.sol = st.decls.map fun _ => none) ∧
      ((sugarSolve k S st).2 = .verdict true → ∀ i, i < st.decls.length →
        (st.isKey.getD i false = false → (sugarSolve k S st).1.sol.getD i none = none) ∧
        (st.isKey.getD i false = true →
          (∀ v, (sugarSolve k S st).1.sol.getD i none = some v ↔ CommonValue st.decls st.cs i v) ∧
          ((sugarSolve k S st).1.sol.getD i none = none ↔ Undetermined st.decls st.cs i))) := by
  intro S hS k hk st hp hlen
  rcases sugarDeduce_spec hS (native_of_ne hk) st hp (by omega) with ⟨hno, hd⟩ | ⟨hsat, sols, hd, _, hfacts⟩
  · have e : sugarSolve k S st = ({ st with sol := st.decls.map fun _ => none }, .verdict false) := by
      simp only [sugarSolve, hd]
    rw [e]
    exact ⟨Or.inr rfl, ⟨fun h => (by cases h), fun h => absurd h hno⟩, fun _ => rfl, fun h => (by cases h)⟩
  · have e : sugarSolve k S st = ({ st with sol := sols }, .verdict true) := by
      simp only [sugarSolve, hd]
    rw [e]
    exact ⟨Or.inl rfl, ⟨fun _ => hsat, fun _ => rfl⟩, fun h => (by cases h), fun _ => hfacts⟩

end Cspuz.Proofs.C03
