/-
  C10, abstract graph layer: in a bipartite "segment / point-node" graph, connectivity of the induced
  subgraph on an active set is the same as all active segment vertices being linked by chains of
  "two active segments share an active point node" steps.
-/
import Mathlib.Combinatorics.SimpleGraph.Connectivity.Connected
namespace Cspuz.Proofs.C10Graph
open SimpleGraph

variable {V : Type}

/-- One strand step: two active segment vertices with a common active neighbour. -/
def Step (G : SimpleGraph V) (A : Set V) (isSeg : V → Prop) (u v : V) : Prop :=
  isSeg u ∧ isSeg v ∧ u ∈ A ∧ v ∈ A ∧ ∃ w, w ∈ A ∧ G.Adj u w ∧ G.Adj w v

theorem walk_aux (G : SimpleGraph V) (A : Set V) (isSeg : V → Prop)
    (hbip : ∀ u v, G.Adj u v → (isSeg u ↔ ¬ isSeg v)) :
    ∀ {a b : A} (_p : (G.induce A).Walk a b), isSeg b.1 →
      (isSeg a.1 → Relation.ReflTransGen (Step G A isSeg) a.1 b.1) ∧
      (¬ isSeg a.1 → ∀ a', a' ∈ A → isSeg a' → G.Adj a' a.1 →
        Relation.ReflTransGen (Step G A isSeg) a' b.1) := by
  intro a b p
  induction p with
  | nil => intro hb; exact ⟨fun _ => Relation.ReflTransGen.refl, fun h => absurd hb h⟩
  | @cons a c b h p ih =>
    intro hb
    have hadj : G.Adj a.1 c.1 := h
    obtain ⟨ih1, ih2⟩ := ih hb
    constructor
    · intro ha
      have hc : ¬ isSeg c.1 := (hbip _ _ hadj).1 ha
      exact ih2 hc a.1 a.2 ha hadj
    · intro ha a' ha'A ha's hadj'
      have hc : isSeg c.1 := by
        by_contra hc
        exact ha ((hbip _ _ hadj).2 hc)
      exact Relation.ReflTransGen.head ⟨ha's, hc, ha'A, c.2, a.1, a.2, hadj', hadj⟩ (ih1 hc)

theorem strand_of_preconnected (G : SimpleGraph V) (A : Set V) (isSeg : V → Prop)
    (hbip : ∀ u v, G.Adj u v → (isSeg u ↔ ¬ isSeg v))
    (hc : (G.induce A).Preconnected) :
    ∀ u v, isSeg u → isSeg v → u ∈ A → v ∈ A → Relation.ReflTransGen (Step G A isSeg) u v := by
  intro u v hu hv huA hvA
  obtain ⟨p⟩ := hc ⟨u, huA⟩ ⟨v, hvA⟩
  exact (walk_aux G A isSeg hbip p hv).1 hu

theorem step_reach (G : SimpleGraph V) (A : Set V) (isSeg : V → Prop) {u v : V}
    (h : Step G A isSeg u v) (hu : u ∈ A) (hv : v ∈ A) :
    (G.induce A).Reachable ⟨u, hu⟩ ⟨v, hv⟩ := by
  obtain ⟨-, -, -, -, w, hw, h1, h2⟩ := h
  have a1 : (G.induce A).Adj ⟨u, hu⟩ ⟨w, hw⟩ := h1
  have a2 : (G.induce A).Adj ⟨w, hw⟩ ⟨v, hv⟩ := h2
  exact a1.reachable.trans a2.reachable

theorem rtg_reach (G : SimpleGraph V) (A : Set V) (isSeg : V → Prop) {u v : V}
    (h : Relation.ReflTransGen (Step G A isSeg) u v) :
    ∀ (hu : u ∈ A) (hv : v ∈ A), (G.induce A).Reachable ⟨u, hu⟩ ⟨v, hv⟩ := by
  induction h with
  | refl => intro hu hv; exact Reachable.refl _
  | @tail b c _ hbc ih =>
    intro hu hv
    have hb : b ∈ A := hbc.2.2.1
    exact (ih hu hb).trans (step_reach G A isSeg hbc hb hv)

theorem preconnected_of_strand (G : SimpleGraph V) (A : Set V) (isSeg : V → Prop)
    (hbip : ∀ u v, G.Adj u v → (isSeg u ↔ ¬ isSeg v))
    (hnb : ∀ w, w ∈ A → ¬ isSeg w → ∃ s, s ∈ A ∧ G.Adj w s)
    (hs : ∀ u v, isSeg u → isSeg v → u ∈ A → v ∈ A →
      Relation.ReflTransGen (Step G A isSeg) u v) :
    (G.induce A).Preconnected := by
  have key : ∀ a : A, ∃ s : A, isSeg s.1 ∧ (G.induce A).Reachable a s := by
    intro a
    by_cases ha : isSeg a.1
    · exact ⟨a, ha, Reachable.refl _⟩
    · obtain ⟨s, hsA, hadj⟩ := hnb a.1 a.2 ha
      have hss : isSeg s := by
        by_contra hss
        exact ha ((hbip _ _ hadj).2 hss)
      have a1 : (G.induce A).Adj a ⟨s, hsA⟩ := hadj
      exact ⟨⟨s, hsA⟩, hss, a1.reachable⟩
  intro a b
  obtain ⟨s, hs1, hs2⟩ := key a
  obtain ⟨t, ht1, ht2⟩ := key b
  exact hs2.trans ((rtg_reach G A isSeg (hs s.1 t.1 hs1 ht1 s.2 t.2) s.2 t.2).trans ht2.symm)

end Cspuz.Proofs.C10Graph
