/-
  C08, planar lemma, direction "cycle in the diagonal graph ⇒ white cells disconnected":
  definitions of the ray-casting parity `f` and the easy (horizontal) invariance.

  `Z` is a finite set of edges of `diagGraph h w act` in which every vertex has even degree (for
  instance the edge set of a cycle).  For a cell `(y, x)` cast a ray to the left, slightly above the
  row's centre line, up to the left border and then up along the left border; `f Z y x` is the parity
  of the number of edges of `Z` crossed:
   * a diagonal edge joining `(y, x')`, `x' < x`, with a cell of row `y - 1`;
   * for `y = 0`: the outside edge of a top-row cell `(0, x')`, `x' < x` (drawn upwards);
   * the outside edge of a left-column cell `(y', 0)` with `0 < y' < y` (drawn to the left).
-/
import Mathlib.Combinatorics.SimpleGraph.Acyclic
import Mathlib.Combinatorics.SimpleGraph.Trails
import Mathlib.Data.ZMod.Basic
import CspuzModel.Spec.C08Spec
import CspuzModel.Proofs.C04Prim
namespace Cspuz.Proofs.C08PlanarDefs
open Cspuz Cspuz.Spec SimpleGraph

variable {h w : Nat} {act : Nat → Bool}

/-- directed crossing predicate: the ray of `(y, x)` crosses the edge `a — b`, seen from `a` -/
def up (y x : Nat) : DCell h w → DCell h w → Prop
  | some c, some d => c.1.1 = y ∧ c.2.1 < x ∧ d.1.1 + 1 = y
  | some c, none => (c.1.1 = 0 ∧ y = 0 ∧ c.2.1 < x) ∨ (c.2.1 = 0 ∧ 0 < c.1.1 ∧ c.1.1 < y)
  | none, _ => False

/-- the ray of `(y, x)` crosses the edge `e` -/
def cross (y x : Nat) (e : Sym2 (DCell h w)) : Prop := ∃ a b, e = s(a, b) ∧ up y x a b

theorem cross_mk {y x : Nat} {a b : DCell h w} :
    cross y x s(a, b) ↔ up y x a b ∨ up y x b a := by
  constructor
  · rintro ⟨a', b', he, hu⟩
    rcases Sym2.eq_iff.1 he with ⟨rfl, rfl⟩ | ⟨rfl, rfl⟩
    · exact Or.inl hu
    · exact Or.inr hu
  · rintro (hu | hu)
    · exact ⟨a, b, rfl, hu⟩
    · exact ⟨b, a, Sym2.eq_swap, hu⟩

/-- indicator in `ZMod 2` -/
noncomputable def chi (p : Prop) : ZMod 2 := by classical exact if p then 1 else 0

theorem chi_true {p : Prop} (hp : p) : chi p = 1 := by unfold chi; rw [if_pos hp]
theorem chi_false {p : Prop} (hp : ¬ p) : chi p = 0 := by unfold chi; rw [if_neg hp]
theorem chi_congr {p q : Prop} (hpq : p ↔ q) : chi p = chi q := by rw [propext hpq]
theorem two_zmod : (1 : ZMod 2) + 1 = 0 := by decide

/-- parity of the number of edges of `Z` crossed by the ray of `(y, x)` -/
noncomputable def f (Z : Finset (Sym2 (DCell h w))) (y x : Nat) : ZMod 2 :=
  ∑ e ∈ Z, chi (cross y x e)

/-- the hypotheses on the edge set `Z` -/
structure EvenSet (h w : Nat) (act : Nat → Bool) (Z : Finset (Sym2 (DCell h w))) : Prop where
  sub : ∀ e ∈ Z, e ∈ (diagGraph h w act).edgeSet
  even : ∀ v : DCell h w, ∑ e ∈ Z, chi (v ∈ e) = 0
  ne : Z.Nonempty

/-- every cycle of the diagonal graph gives such a set -/
theorem evenSet_of_cycle {v : DCell h w} (p : (diagGraph h w act).Walk v v) (hp : p.IsCycle) :
    EvenSet h w act p.edges.toFinset := by
  classical
  refine ⟨?_, ?_, ?_⟩
  · intro e he
    exact p.edges_subset_edgeSet (List.mem_toFinset.1 he)
  · intro x
    have hev := (hp.isCircuit.isTrail.even_countP_edges_iff x).2 (fun hne => absurd rfl hne)
    have hnd : p.edges.Nodup := hp.isCircuit.isTrail.edges_nodup
    have hsum : ∑ e ∈ p.edges.toFinset, chi (x ∈ e) =
        ((p.edges.countP fun e => x ∈ e : Nat) : ZMod 2) := by
      rw [List.sum_toFinset _ hnd]
      induction p.edges with
      | nil => simp
      | cons a l ih =>
        rw [List.map_cons, List.sum_cons, ih, List.countP_cons]
        by_cases ha : x ∈ a
        · rw [chi_true ha]; simp [ha, add_comm]
        · rw [chi_false ha]; simp [ha]
    rw [hsum]
    exact (ZMod.natCast_eq_zero_iff_even).2 hev
  · have := hp.three_le_length
    rw [← p.length_edges] at this
    match hl : p.edges, this with
    | e :: _, _ => exact ⟨e, by simp⟩

/-- horizontal invariance: stepping over a white cell does not change the parity -/
theorem f_horiz {Z : Finset (Sym2 (DCell h w))} (hZ : EvenSet h w act Z) {y x : Nat}
    (hwhite : act (y * w + x) = false) : f Z y (x + 1) = f Z y x := by
  unfold f
  refine Finset.sum_congr rfl fun e he => chi_congr ?_
  have hmem := hZ.sub e he
  induction e using Sym2.ind with
  | _ a b =>
  rw [mem_edgeSet] at hmem
  rw [cross_mk, cross_mk]
  have key : ∀ a b : DCell h w, (diagGraph h w act).Adj a b → (up y (x + 1) a b ↔ up y x a b) := by
    intro a b hab
    match a, b, hab with
    | some c, some d, hab =>
      have h1 : act (c.1.1 * w + c.2.1) = true := hab.1
      simp only [up]
      constructor
      · rintro ⟨r1, r2, r3⟩
        refine ⟨r1, ?_, r3⟩
        rcases Nat.lt_succ_iff_lt_or_eq.1 r2 with r2 | r2
        · exact r2
        · rw [r1, r2, hwhite] at h1; cases h1
      · rintro ⟨r1, r2, r3⟩
        exact ⟨r1, by omega, r3⟩
    | some c, none, hab =>
      have h1 : act (c.1.1 * w + c.2.1) = true := hab.1
      simp only [up]
      constructor
      · rintro (⟨r1, r2, r3⟩ | r)
        · left
          refine ⟨r1, r2, ?_⟩
          rcases Nat.lt_succ_iff_lt_or_eq.1 r3 with r3 | r3
          · exact r3
          · rw [r1, r3, ← r2, hwhite] at h1; cases h1
        · exact Or.inr r
      · rintro (⟨r1, r2, r3⟩ | r)
        · exact Or.inl ⟨r1, r2, by omega⟩
        · exact Or.inr r
    | none, _, _ => simp [up]
  rw [key a b hmem, key b a hmem.symm]

end Cspuz.Proofs.C08PlanarDefs
