/-
  C11 for `solve_slalom`, part 2: the answer keys are fine and every posted constraint is a well-typed Boolean tree.
-/
import CspuzModel.Proofs.C11SlalomP
namespace Cspuz.Proofs.C11SlalomW
open Cspuz Cspuz.Spec Cspuz.Spec.FrameGeom Cspuz.Spec.Loop Cspuz.Proofs Cspuz.Proofs.C11Loop
open Cspuz.Puzzles Cspuz.Puzzles.Loop Cspuz.Puzzles.Slalom Cspuz.Spec.Slalom Cspuz.Proofs.C11SlalomP

/-- The cycle fragment is well-typed whatever the offset of its auxiliary variables. -/
theorem cycProg_wt (H W base : Nat) : ∀ c ∈ (C06L1.cycProg (lg H W) (les H W) base).cs, wtB c = true := by
  intro c hc
  have hie : ∀ j, wtB ((les H W).getD j .litNone) = true ∨ j ≥ (les H W).length := by
    intro j
    by_cases hj : j < (les H W).length
    · left
      rw [C06L1.getD_eq hj]
      exact ((les_boolArgs H W) _ (List.getElem_mem hj)).1
    · right; omega
  simp only [C06L1.cycProg, List.mem_append, List.mem_flatten, List.mem_map, List.mem_range,
    List.mem_singleton] at hc
  rcases hc with ⟨l, ⟨i, hi, rfl⟩, hc⟩ | rfl
  · simp only [C06L1.cycCs, List.mem_cons, List.not_mem_nil, or_false] at hc
    have hdeg : ∀ x ∈ C06L1.degArgs (lg H W) (les H W) i, wtB x = true := by
      intro x hx
      simp only [C06L1.degArgs, List.mem_map] at hx
      obtain ⟨je, hje, rfl⟩ := hx
      have hb := incident_bounds (lg_wf H W) hje
      rcases hie je.2 with h | h
      · exact h
      · have := les_len H W; omega
    rcases hc with rfl | rfl
    · simp [wtB, wtIs, wtI, C06L1.degE, wtI_countTrueE _ hdeg]
    · have hit : ∀ x ∈ C06L1.itemsE (lg H W) (les H W) base i, wtB x = true := by
        intro x hx
        simp only [C06L1.itemsE, List.mem_map] at hx
        obtain ⟨je, hje, rfl⟩ := hx
        have hb := incident_bounds (lg_wf H W) hje
        rcases hie je.2 with h | h
        · have h' : wtB ((les H W)[je.2]?.getD Expr.litNone) = true := h
          simp [wtB, wtBs, wtIs, wtI, h']
        · have := les_len H W; omega
      simp [wtB, wtBs, wtIs, wtI, wtI_countTrueE _ hit]
  · have : ∀ x ∈ (List.range (lg H W).n).map (fun i => Expr.bvar (base + 2 * (lg H W).n + i)), wtB x = true := by
      intro x hx
      simp only [List.mem_map] at hx
      obtain ⟨i, _, rfl⟩ := hx
      rfl
    simp [wtB, wtIs, wtI, wtI_countTrueE _ this]

section
variable (pb : Problem)

theorem dirTermE_wt (inc : Bool) (i : Pt × Seg × Bool) : wtB (dirTermE pb inc i) = true := by
  cases inc <;> simp [dirTermE, wtB, wtBs]

theorem degC_wt (inc : Bool) (p : Pt) : wtB (degC pb inc p) = true := by
  have : ∀ e ∈ (nbInfo pb.height pb.width p.1 p.2).map (dirTermE pb inc), wtB e = true := by
    intro e he
    obtain ⟨i, _, rfl⟩ := List.mem_map.mp he
    exact dirTermE_wt pb inc i
  simp [degC, wtB, wtIs, wtI, wtI_countTrueE _ this, pasV, pasE]

theorem cellE_wt (p : Pt) : ∀ c ∈ cellE pb p, wtB c = true := by
  intro c hc
  unfold cellE at hc
  split at hc
  · simp only [List.mem_cons, List.not_mem_nil, or_false] at hc
    rcases hc with rfl | rfl | rfl
    · exact degC_wt pb true p
    · exact degC_wt pb false p
    · rfl
  · split at hc
    · simp only [List.mem_cons, List.not_mem_nil, or_false] at hc
      rcases hc with rfl | rfl
      · exact degC_wt pb true p
      · exact degC_wt pb false p
    · split at hc
      · simp only [List.mem_append, List.mem_cons, List.not_mem_nil, or_false, List.mem_map] at hc
        rcases hc with (rfl | rfl) | ⟨i, _, rfl⟩
        · exact degC_wt pb true p
        · exact degC_wt pb false p
        · simp [wtB, wtBs, wtIs, wtI, dirTermE_wt, ordE]
      · simp only [List.mem_append, List.mem_cons, List.not_mem_nil, or_false, List.mem_map] at hc
        rcases hc with ((rfl | rfl) | ⟨i, _, rfl⟩) | hc
        · exact degC_wt pb true p
        · exact degC_wt pb false p
        · simp [wtB, wtBs, wtIs, wtI, dirTermE_wt, ordE]
        · split at hc
          · simp only [List.mem_singleton] at hc
            subst hc
            simp [wtB, wtBs, wtIs, wtI, ordE, pasV, pasE]
          · cases hc

theorem extra_wt : ∀ c ∈ extra pb, wtB c = true := by
  intro c hc
  unfold extra at hc
  simp only [List.mem_append, List.mem_map, List.mem_singleton, List.mem_flatten] at hc
  rcases hc with ((⟨g, _, rfl⟩ | rfl) | ⟨l, ⟨p, _, rfl⟩, hc⟩) | hc
  · have : ∀ e ∈ (gateCellsN g).map (pasE pb.width (b1 pb + pb.height * pb.width)), wtB e = true := by
      intro e he
      obtain ⟨q, _, rfl⟩ := List.mem_map.mp he
      rfl
    simp [gateE, wtB, wtIs, wtI, wtI_countTrueE _ this]
  · rfl
  · exact cellE_wt pb p c hc
  · unfold auxE at hc
    simp only [List.mem_flatten, List.mem_map] at hc
    obtain ⟨l, ⟨pr, _, rfl⟩, hc⟩ := hc
    unfold auxPairE at hc
    split at hc
    · simp only [List.mem_singleton] at hc
      subst hc
      simp [wtB, wtBs, wtIs, wtI, ordE, pasV, pasE]
    · cases hc

theorem keysOk (cs : List Expr) :
    (PuzzleProg.mk (decls pb) cs (List.range (Frame.numVars (pb.height - 1) (pb.width - 1)))).KeysOk := by
  apply C11Frag.keysOk_range_le
  simp only [decls, List.length_append, List.length_replicate]
  omega

/-- The part of C11 for `solve_slalom` that does not need the meaning of the constraints. -/
theorem shape (hw : WellFormed pb) (P : PuzzleProg) (hP : program pb = .ok P) :
    P.KeysOk ∧ (∀ c ∈ P.cs, wtB c = true) := by
  rw [program_eq pb hw] at hP
  cases hP
  refine ⟨keysOk pb _, ?_⟩
  intro c hc
  rcases List.mem_append.mp hc with h | h
  · exact cycProg_wt _ _ _ c h
  · exact extra_wt pb c h

end

end Cspuz.Proofs.C11SlalomW
