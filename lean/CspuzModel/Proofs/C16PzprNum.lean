/-
  C16, number16 family: the independent pzpr decoder `Pzpr.number16` / `Pzpr.decodeNumberGrid` reads the text the
  cspuz serializer model emits for nurikabe, sudoku, nurimisaki (and the value layer of heyawake / aquarium) back as
  the same problem.
-/
import CspuzModel.Proofs.C15Leaves
import CspuzModel.Proofs.C15Comp
import CspuzModel.Spec.C16Formats
import CspuzModel.Gen.PuzzleCombinators

namespace Cspuz.Proofs.C16PzprNum
open Cspuz Cspuz.Ser Cspuz.C16F

/-! ### item access -/

theorem withItem_some {β} {d : List PyVal} {i : Nat} {v : PyVal} (k : PyVal → Outcome β) (h : d[i]? = some v) :
    withItem d i k = k v := by
  have hi : i < d.length := getElem?_lt h
  unfold withItem
  rw [if_neg (by omega)]
  simp only [h]

theorem getElem?_mapInt {ints : List Int} {p : Nat} {v : Int} (h : ints[p]? = some v) :
    (ints.map PyVal.int)[p]? = some (.int v) := by
  simp [List.getElem?_map, h]

/-- the integer window `ints[p : p + k]` -/
def iw (ints : List Int) (p k : Nat) : List Int := (ints.drop p).take k

theorem iw_one {ints : List Int} {p : Nat} {v : Int} (h : ints[p]? = some v) : iw ints p 1 = [v] := by
  have hi := getElem?_lt h
  simp only [iw]
  rw [List.drop_eq_getElem_cons hi]
  simp [List.getElem?_eq_getElem hi] at h
  simp [h]

/-! ### the tokens of number16 -/

theorem n16_dot (m : Nat) (rest : Str) :
    Pzpr.number16 (m + 1) (46 :: rest) = (Pzpr.number16 m rest).map fun r => ((-2 : Int) :: r.1, r.2) := by
  rw [Pzpr.number16.eq_def]; dsimp only
  simp

theorem n16_run (m run : Nat) (rest : Str) (h1 : 1 ≤ run) (h2 : run ≤ 20) (h3 : run ≤ m) :
    Pzpr.number16 m ((102 + run) :: rest) =
      (Pzpr.number16 (m - run) rest).map fun r => (Pzpr.emptyCells run ++ r.1, r.2) := by
  obtain ⟨m', rfl⟩ : ∃ m', m = m' + 1 := ⟨m - 1, by omega⟩
  rw [Pzpr.number16.eq_def]; dsimp only
  have e1 : ¬ (102 + run = 45) := by omega
  have e2 : ¬ (102 + run = 43) := by omega
  have e3 : ¬ (102 + run = 46) := by omega
  have hb : Pzpr.between (102 + run) 103 122 = true := by
    simp only [Pzpr.between, Bool.and_eq_true, decide_eq_true_eq]; omega
  have e4 : 102 + run - 102 = run := by omega
  simp only [if_neg e1, if_neg e2, if_neg e3, hb, if_true, e4, Nat.min_eq_left h3]

theorem hexVal_digitChar : ∀ d, d < 16 → Pzpr.hexVal (digitChar d) = some d := by decide

theorem between_digitChar : ∀ d, d < 16 → Pzpr.between (digitChar d) 103 122 = false := by decide

theorem n16_hex1 (m d : Nat) (hd : d < 16) (rest : Str) :
    Pzpr.number16 (m + 1) (digitChar d :: rest) = (Pzpr.number16 m rest).map fun r => ((d : Int) :: r.1, r.2) := by
  obtain ⟨e1, e2, e3⟩ := digitChar_ne_punct d
  rw [Pzpr.number16.eq_def]; dsimp only
  simp only [if_neg e1, if_neg e2, if_neg e3, between_digitChar d hd, hexVal_digitChar d hd, Bool.false_eq_true, if_false]

theorem n16_hex2 (m a b : Nat) (ha : a < 16) (hb : b < 16) (rest : Str) :
    Pzpr.number16 (m + 1) (45 :: digitChar a :: digitChar b :: rest) =
      (Pzpr.number16 m rest).map fun r => (((16 * a + b : Nat) : Int) :: r.1, r.2) := by
  rw [Pzpr.number16.eq_def]; dsimp only
  simp only [if_true, hexVal_digitChar a ha, hexVal_digitChar b hb]

theorem n16_hex3 (m a b c : Nat) (ha : a < 16) (hb : b < 16) (hc : c < 16) (rest : Str) :
    Pzpr.number16 (m + 1) (43 :: digitChar a :: digitChar b :: digitChar c :: rest) =
      (Pzpr.number16 m rest).map fun r => (((256 * a + 16 * b + c : Nat) : Int) :: r.1, r.2) := by
  rw [Pzpr.number16.eq_def]; dsimp only
  have e1 : ¬ ((43 : Nat) = 45) := by decide
  simp only [if_neg e1, if_true, hexVal_digitChar a ha, hexVal_digitChar b hb, hexVal_digitChar c hc]

theorem toBase16_two (n : Nat) (h1 : 16 ≤ n) (h2 : n < 256) :
    toBase 16 n = [digitChar (n / 16), digitChar (n % 16)] := by
  unfold toBase
  rw [digits_of_ge 16 n (by omega) h1, digits_of_lt 16 (n / 16) (by omega) (by omega)]
  rfl

theorem toBase16_three (n : Nat) (h1 : 256 ≤ n) (h2 : n < 4096) :
    toBase 16 n = [digitChar (n / 16 / 16), digitChar (n / 16 % 16), digitChar (n % 16)] := by
  unfold toBase
  rw [digits_of_ge 16 n (by omega) (by omega), digits_of_ge 16 (n / 16) (by omega) (by omega),
    digits_of_lt 16 (n / 16 / 16) (by omega) (by omega)]
  rfl

/-! ### the step law -/

/-- what the decoder does with the token `tk` written for the `k` items at `p` -/
def Law (ints : List Int) (conv : Int → Int) (p k : Nat) (tk : Str) : Prop :=
  ∀ m rest, k ≤ m → Pzpr.number16 m (tk ++ rest) =
    (Pzpr.number16 (m - k) rest).map fun r => ((iw ints p k).map conv ++ r.1, r.2)

def StepLaw (f : SerF) (ints : List Int) (conv : Int → Int) : Prop :=
  ∀ p v, ints[p]? = some v → ∃ k tk, f (ints.map PyVal.int) p = .ok (k, tk) ∧ 1 ≤ k ∧ p + k ≤ ints.length ∧
    Law ints conv p k tk

theorem law_dot (ints : List Int) (conv : Int → Int) (p : Nat) (v : Int) (hv : ints[p]? = some v)
    (hc : conv v = -2) : Law ints conv p 1 [46] := by
  intro m rest hm
  obtain ⟨m', rfl⟩ : ∃ m', m = m' + 1 := ⟨m - 1, by omega⟩
  rw [iw_one hv]
  simp only [List.cons_append, List.nil_append, n16_dot, List.map_cons, List.map_nil, hc, Nat.add_sub_cancel]

theorem law_run (ints : List Int) (conv : Int → Int) (p run : Nat) (s : Int)
    (hw : iw ints p run = List.replicate run s) (hc : conv s = -1) (h1 : 1 ≤ run) (h2 : run ≤ 20) :
    Law ints conv p run [102 + run] := by
  intro m rest hm
  rw [hw]
  simp only [List.cons_append, List.nil_append, n16_run m run rest h1 h2 hm, List.map_replicate, hc, Pzpr.emptyCells]

/-- `HexInt` on an item `0..4095` the board shows unchanged -/
theorem hex_step (ints : List Int) (conv : Int → Int) (p : Nat) (v : Int) (hv : ints[p]? = some v)
    (h0 : 0 ≤ v) (h1 : v ≤ 4095) (hc : conv v = v) :
    ∃ tk, hexIntSer (ints.map PyVal.int) p = .ok (1, tk) ∧ Law ints conv p 1 tk := by
  obtain ⟨n, rfl⟩ : ∃ n : Nat, v = n := ⟨v.toNat, by omega⟩
  have hn : n ≤ 4095 := by omega
  have hL := getElem?_mapInt hv
  have hw := iw_one hv
  unfold hexIntSer
  rw [withItem_some _ hL]
  simp only [asInt?]
  have hcond : (!(decide (0 ≤ (n : Int)) && decide ((n : Int) ≤ 4095))) = false := by simp; omega
  simp only [hcond, Bool.false_eq_true, if_false, Int.toNat_natCast]
  rcases Nat.lt_or_ge n 16 with ha | ha
  · refine ⟨_, rfl, ?_⟩
    intro m rest hm
    obtain ⟨m', rfl⟩ : ∃ m', m = m' + 1 := ⟨m - 1, by omega⟩
    have c1 : (decide (16 ≤ (n : Int)) && decide ((n : Int) < 256)) = false := by simp; omega
    have c2 : ¬ (256 ≤ (n : Int)) := by omega
    simp only [c1, Bool.false_eq_true, if_false, if_neg c2, toBase_of_lt 16 n (by omega) ha, List.nil_append,
      List.cons_append, n16_hex1 m' n ha, hw, List.map_cons, List.map_nil, hc, Nat.add_sub_cancel]
  · rcases Nat.lt_or_ge n 256 with hb | hb
    · refine ⟨_, rfl, ?_⟩
      intro m rest hm
      obtain ⟨m', rfl⟩ : ∃ m', m = m' + 1 := ⟨m - 1, by omega⟩
      have c1 : (decide (16 ≤ (n : Int)) && decide ((n : Int) < 256)) = true := by simp; omega
      have e : 16 * (n / 16) + n % 16 = n := by omega
      simp only [c1, if_true, toBase16_two n ha hb, List.nil_append,
        List.cons_append, n16_hex2 m' (n / 16) (n % 16) (by omega) (by omega), e, hw, List.map_cons, List.map_nil, hc,
        Nat.add_sub_cancel]
    · refine ⟨_, rfl, ?_⟩
      intro m rest hm
      obtain ⟨m', rfl⟩ : ∃ m', m = m' + 1 := ⟨m - 1, by omega⟩
      have c1 : (decide (16 ≤ (n : Int)) && decide ((n : Int) < 256)) = false := by simp; omega
      have c2 : (256 ≤ (n : Int)) := by omega
      have e : 256 * (n / 16 / 16) + 16 * (n / 16 % 16) + n % 16 = n := by omega
      simp only [c1, Bool.false_eq_true, if_false, if_pos c2, toBase16_three n hb (by omega), List.nil_append,
        List.cons_append, n16_hex3 m' (n / 16 / 16) (n / 16 % 16) (n % 16) (by omega) (by omega) (by omega), e, hw,
        List.map_cons, List.map_nil, hc, Nat.add_sub_cancel]

theorem hex_miss (ints : List Int) (p : Nat) (v : Int) (hv : ints[p]? = some v) (h : v < 0) :
    hexIntSer (ints.map PyVal.int) p = .none := by
  unfold hexIntSer
  rw [withItem_some _ (getElem?_mapInt hv)]
  have hcond : (!(decide (0 ≤ v) && decide (v ≤ 4095))) = true := by simp; omega
  simp only [asInt?, hcond, if_true]

theorem dict_hit (ints : List Int) (p : Nat) (a : Int) (hv : ints[p]? = some a) :
    dictSer [.int a] [[46]] (ints.map PyVal.int) p = .ok (1, [46]) := by
  unfold dictSer
  rw [withItem_some _ (getElem?_mapInt hv)]
  simp [dictSerFind, pyEq]

theorem dict_miss (ints : List Int) (p : Nat) (a v : Int) (hv : ints[p]? = some v) (hne : v ≠ a) :
    dictSer [.int a] [[46]] (ints.map PyVal.int) p = .none := by
  unfold dictSer
  rw [withItem_some _ (getElem?_mapInt hv)]
  simp [dictSerFind, pyEq, hne]

theorem spaces_miss (ints : List Int) (p : Nat) (s v : Int) (hv : ints[p]? = some v) (hne : v ≠ s) :
    spacesSer (.int s) 15 (ints.map PyVal.int) p = .none := by
  unfold spacesSer
  rw [withItem_some _ (getElem?_mapInt hv)]
  simp [pyEq, hne]

theorem take_countRun_int (s : Int) : ∀ (l : List Int) (lim : Nat),
    l.take (countRun (.int s) (l.map PyVal.int) lim) = List.replicate (countRun (.int s) (l.map PyVal.int) lim) s
  | _, 0 => by simp [countRun]
  | [], _ + 1 => by simp [countRun]
  | x :: r, lim + 1 => by
    simp only [List.map_cons, countRun]
    split
    · rename_i hx
      have hxs : x = s := by simpa [pyEq] using hx
      subst hxs
      rw [Nat.add_comm, List.take_succ_cons, List.replicate_succ, take_countRun_int x r lim]
    · simp

theorem spaces_step (ints : List Int) (p : Nat) (s : Int) (hv : ints[p]? = some s) :
    ∃ run, spacesSer (.int s) 15 (ints.map PyVal.int) p = .ok (run, [102 + run]) ∧ 1 ≤ run ∧ run ≤ 20 ∧
      p + run ≤ ints.length ∧ iw ints p run = List.replicate run s := by
  have hi := getElem?_lt hv
  have hget : ints[p] = s := by simpa [List.getElem?_eq_getElem hi] using hv
  refine ⟨1 + countRun (.int s) ((ints.drop (p + 1)).map PyVal.int) 19, ?_, by omega, ?_, ?_, ?_⟩
  · unfold spacesSer
    rw [withItem_some _ (getElem?_mapInt hv)]
    have hlim : ((35 : Int) - 15 - 1).toNat = 19 := by decide
    have hle := countRun_le_lim (.int s) ((ints.drop (p + 1)).map PyVal.int) 19
    simp only [pyEq, beq_self_eq_true, Bool.not_true, Bool.false_eq_true, if_false, hlim, ← List.map_drop]
    generalize countRun (.int s) ((ints.drop (p + 1)).map PyVal.int) 19 = c at *
    have hneg : ¬ ((15 : Int) + ((1 + c : Nat) : Int) < 0) := by omega
    have hnat : ((15 : Int) + ((1 + c : Nat) : Int)).toNat = 15 + (1 + c) := by omega
    have hdc : digitChar (15 + (1 + c)) = 102 + (1 + c) := by
      unfold digitChar; rw [if_neg (by omega)]; omega
    simp only [toBase36, if_neg hneg, hnat, toBase_of_lt 36 (15 + (1 + c)) (by omega) (by omega), hdc, Outcome.bind_ok]
  · have := countRun_le_lim (.int s) ((ints.drop (p + 1)).map PyVal.int) 19
    omega
  · have := countRun_le_length (.int s) ((ints.drop (p + 1)).map PyVal.int) 19
    simp only [List.length_map, List.length_drop] at this
    omega
  · simp only [iw]
    rw [List.drop_eq_getElem_cons hi, hget, Nat.add_comm 1, List.take_succ_cons, take_countRun_int,
      List.replicate_succ]

/-! ### the serialize loop against the decoder -/

theorem loop_inv (f : SerF) (ints : List Int) (conv : Int → Int) (hs : StepLaw f ints conv) :
    ∀ fuel p acc t, p ≤ ints.length → seqSerLoop f (ints.map PyVal.int) ints.length fuel p acc = .ok t →
      ∃ t', t = acc ++ t' ∧ Pzpr.number16 (ints.length - p) t' = some ((ints.drop p).map conv, []) := by
  intro fuel
  induction fuel with
  | zero => intro p acc t _ h; simp [seqSerLoop] at h
  | succ fuel ih =>
    intro p acc t hp h
    unfold seqSerLoop at h
    by_cases hlt : p < ints.length
    · obtain ⟨v, hv⟩ : ∃ v, ints[p]? = some v := ⟨ints[p], List.getElem?_eq_getElem hlt⟩
      obtain ⟨k, tk, hf, hk1, hk2, hlaw⟩ := hs p v hv
      have hk0 : ¬ k = 0 := by omega
      simp only [hlt, if_true, hf, hk0, if_false] at h
      obtain ⟨t'', rfl, hn⟩ := ih (p + k) (acc ++ tk) t hk2 h
      refine ⟨tk ++ t'', by simp, ?_⟩
      rw [hlaw (ints.length - p) t'' (by omega)]
      have e : ints.length - p - k = ints.length - (p + k) := by omega
      rw [e, hn]
      simp only [Option.map_some, iw]
      rw [← List.map_append]
      congr 3
      rw [← List.drop_drop, List.take_append_drop]
    · have hpe : p = ints.length := by omega
      subst hpe
      simp at h
      subst h
      refine ⟨[], by simp, ?_⟩
      rw [Pzpr.number16.eq_def]
      simp

theorem seq_number16 (f : SerF) (ints : List Int) (conv : Int → Int) (hs : StepLaw f ints conv) (k : Nat) (t : Str)
    (h : seqSer f ints.length [.list (ints.map PyVal.int)] 0 = .ok (k, t)) :
    k = 1 ∧ Pzpr.number16 ints.length t = some (ints.map conv, []) := by
  obtain ⟨l, hl, hk, hloop⟩ := seqSer_eq_ok h
  have : l = ints.map PyVal.int := by simpa using hl.symm
  subst this
  obtain ⟨t', ht, hn⟩ := loop_inv f ints conv hs _ 0 [] t (by omega) hloop
  simp only [List.nil_append] at ht
  subst ht
  exact ⟨hk, by simpa using hn⟩

/-! ### grids -/

theorem rowsFlat_intGrid : ∀ g : List (List Int),
    rowsFlat (g.map fun r => PyVal.list (r.map PyVal.int)) = g.flatten.map PyVal.int
  | [] => by simp [rowsFlat]
  | r :: g => by simp [rowsFlat, rowsFlat_intGrid g]

theorem toRows_flatten {α β} (conv : α → β) (w : Nat) : ∀ (g : List (List α)) (h : Nat), g.length = h →
    (∀ r ∈ g, r.length = w) → Pzpr.toRows w (g.flatten.map conv) h = g.map fun r => r.map conv
  | [], h, hl, _ => by subst hl; simp [Pzpr.toRows]
  | r :: g, h, hl, hr => by
    subst hl
    have hrw : (r.map conv).length = w := by simpa using hr r (by simp)
    simp only [List.length_cons, Pzpr.toRows, List.flatten_cons, List.map_append, List.map_cons]
    rw [List.take_left' hrw, List.drop_left' hrw, toRows_flatten conv w g g.length rfl (fun r' h' => hr r' (by simp [h']))]

theorem flatten_length {α} (w : Nat) : ∀ (g : List (List α)), (∀ r ∈ g, r.length = w) → g.flatten.length = g.length * w
  | [], _ => by simp
  | r :: g, hr => by
    simp only [List.flatten_cons, List.length_append, List.length_cons, hr r (by simp),
      flatten_length w g (fun r' h' => hr r' (by simp [h'])), Nat.add_mul]
    omega

theorem grid_number16 (b : Comb) (conv : Int → Int) (h w : Nat) (g : List (List Int))
    (hlen : g.length = h) (hrow : ∀ r ∈ g, r.length = w)
    (hs : StepLaw (ser b ⟨h, w⟩) g.flatten conv) (body : Str)
    (hser : serProblem (.grid b none) (intGridVal g) h w = .ok body) :
    Pzpr.decodeNumberGrid h w body = some (g.map fun r => r.map conv) := by
  unfold serProblem at hser
  cases hr : ser (.grid b none) ⟨h, w⟩ [intGridVal g] 0 with
  | none => simp [hr] at hser
  | raised e => simp [hr] at hser
  | diverge => simp [hr] at hser
  | ok r =>
    obtain ⟨k, t⟩ := r
    simp only [hr, Outcome.ok.injEq] at hser
    subst hser
    simp only [ser, gridDims, gridSer] at hr
    have h0 : ([intGridVal g] : List PyVal)[0]? = some (intGridVal g) := rfl
    rw [withItem_some _ h0] at hr
    simp only [intGridVal] at hr
    have hshape : GridShape h w (g.map fun r => PyVal.list (r.map PyVal.int)) := by
      refine ⟨by simpa using hlen, ?_⟩
      intro r hr'
      obtain ⟨r0, hr0, rfl⟩ := List.mem_map.mp hr'
      exact ⟨_, rfl, by simpa using hrow r0 hr0⟩
    obtain ⟨hflat, _⟩ := gridFlatten_shape h w _ hshape
    have hhw : h * w = g.flatten.length := by rw [flatten_length w g hrow, hlen]
    rw [hflat, Outcome.bind_ok, rowsFlat_intGrid, hhw] at hr
    obtain ⟨_, hn⟩ := seq_number16 _ _ conv hs k t hr
    unfold Pzpr.decodeNumberGrid
    rw [hhw, hn]
    simp only [Pzpr.whole, Option.map_some]
    rw [toRows_flatten conv w g h hlen hrow]

/-! ### the step laws of the four value formats -/

theorem step_nurikabe (env : Env) (ints : List Int) (hP : ∀ v ∈ ints, NurikabeCell v) :
    StepLaw (ser (.oneOf [.dict [.int (-1)] [[46]], .spaces (.int 0) 15, .hexInt]) env) ints nurikabeQ := by
  intro p v hv
  have hc := hP v (List.mem_of_getElem? hv)
  have hi := getElem?_lt hv
  simp only [ser, serL]
  by_cases h1 : v = -1
  · subst h1
    exact ⟨1, [46], by simp only [oneOfF, dict_hit ints p _ hv], Nat.le_refl 1, by omega,
      law_dot ints _ p _ hv (by simp [nurikabeQ])⟩
  · by_cases h2 : v = 0
    · subst h2
      obtain ⟨run, hsp, r1, r2, r3, hw⟩ := spaces_step ints p 0 hv
      exact ⟨run, [102 + run], by simp only [oneOfF, dict_miss ints p (-1) 0 hv (by decide), hsp], r1, r3,
        law_run ints _ p run 0 hw (by simp [nurikabeQ]) r1 r2⟩
    · have hr : 0 ≤ v ∧ v ≤ 4095 := by unfold NurikabeCell at hc; omega
      obtain ⟨tk, hh, hl⟩ := hex_step ints nurikabeQ p v hv hr.1 hr.2 (by simp [nurikabeQ, h1, h2])
      exact ⟨1, tk, by simp only [oneOfF, dict_miss ints p (-1) v hv h1, spaces_miss ints p 0 v hv h2, hh],
        Nat.le_refl 1, by omega, hl⟩

theorem step_sudoku (env : Env) (ints : List Int) (hP : ∀ v ∈ ints, SudokuCell v) :
    StepLaw (ser (.oneOf [.spaces (.int 0) 15, .hexInt]) env) ints sudokuQ := by
  intro p v hv
  have hc := hP v (List.mem_of_getElem? hv)
  have hi := getElem?_lt hv
  simp only [ser, serL]
  by_cases h2 : v = 0
  · subst h2
    obtain ⟨run, hsp, r1, r2, r3, hw⟩ := spaces_step ints p 0 hv
    exact ⟨run, [102 + run], by simp only [oneOfF, hsp], r1, r3,
      law_run ints _ p run 0 hw (by simp [sudokuQ]) r1 r2⟩
  · have hr : 0 ≤ v ∧ v ≤ 4095 := hc
    obtain ⟨tk, hh, hl⟩ := hex_step ints sudokuQ p v hv hr.1 hr.2 (by simp [sudokuQ, h2])
    exact ⟨1, tk, by simp only [oneOfF, spaces_miss ints p 0 v hv h2, hh], Nat.le_refl 1, by omega, hl⟩

theorem step_nurimisaki (env : Env) (ints : List Int) (hP : ∀ v ∈ ints, NurimisakiCell v) :
    StepLaw (ser (.oneOf [.dict [.int 0] [[46]], .spaces (.int (-1)) 15, .hexInt]) env) ints nurimisakiQ := by
  intro p v hv
  have hc := hP v (List.mem_of_getElem? hv)
  have hi := getElem?_lt hv
  simp only [ser, serL]
  by_cases h1 : v = 0
  · subst h1
    exact ⟨1, [46], by simp only [oneOfF, dict_hit ints p _ hv], Nat.le_refl 1, by omega,
      law_dot ints _ p _ hv (by simp [nurimisakiQ])⟩
  · by_cases h2 : v = -1
    · subst h2
      obtain ⟨run, hsp, r1, r2, r3, hw⟩ := spaces_step ints p (-1) hv
      exact ⟨run, [102 + run], by simp only [oneOfF, dict_miss ints p 0 (-1) hv (by decide), hsp], r1, r3,
        law_run ints _ p run (-1) hw (by simp [nurimisakiQ]) r1 r2⟩
    · have hr : 0 ≤ v ∧ v ≤ 4095 := by unfold NurimisakiCell at hc; omega
      obtain ⟨tk, hh, hl⟩ := hex_step ints nurimisakiQ p v hv hr.1 hr.2 (by simp [nurimisakiQ, h1])
      exact ⟨1, tk, by simp only [oneOfF, dict_miss ints p 0 v hv h1, spaces_miss ints p (-1) v hv h2, hh],
        Nat.le_refl 1, by omega, hl⟩

theorem step_clue (env : Env) (ints : List Int) (hP : ∀ v ∈ ints, ClueVal v) :
    StepLaw (ser (.oneOf [.hexInt, .spaces (.int (-1)) 15]) env) ints (fun v => v) := by
  intro p v hv
  have hc := hP v (List.mem_of_getElem? hv)
  have hi := getElem?_lt hv
  simp only [ser, serL]
  by_cases h2 : v = -1
  · subst h2
    obtain ⟨run, hsp, r1, r2, r3, hw⟩ := spaces_step ints p (-1) hv
    exact ⟨run, [102 + run], by simp only [oneOfF, hex_miss ints p (-1) hv (by decide), hsp], r1, r3,
      law_run ints _ p run (-1) hw rfl r1 r2⟩
  · have hr : 0 ≤ v ∧ v ≤ 4095 := by unfold ClueVal at hc; omega
    obtain ⟨tk, hh, hl⟩ := hex_step ints (fun v => v) p v hv hr.1 hr.2 rfl
    exact ⟨1, tk, by simp only [oneOfF, hh], Nat.le_refl 1, by omega, hl⟩

/-! ### the theorems -/

theorem flat_prop {P : Int → Prop} {h w : Nat} {g : List (List Int)} (hg : IntGrid P h w g) :
    ∀ v ∈ g.flatten, P v := by
  intro v hv
  obtain ⟨r, hr, hvr⟩ := List.mem_flatten.mp hv
  exact (hg.2 r hr).2 v hvr

theorem pzpr_nurikabe (h w : Nat) (g : List (List Int)) (hg : IntGrid NurikabeCell h w g) (body : Str)
    (hs : serProblem Gen.nurikabeCombinator (intGridVal g) h w = .ok body) :
    Pzpr.decodeNumberGrid h w body = some (g.map fun r => r.map nurikabeQ) := by
  unfold Gen.nurikabeCombinator at hs
  exact grid_number16 _ nurikabeQ h w g hg.1 (fun r hr => (hg.2 r hr).1) (step_nurikabe _ _ (flat_prop hg)) body hs

theorem pzpr_sudoku (h w : Nat) (g : List (List Int)) (hg : IntGrid SudokuCell h w g) (body : Str)
    (hs : serProblem Gen.sudokuCombinator (intGridVal g) h w = .ok body) :
    Pzpr.decodeNumberGrid h w body = some (g.map fun r => r.map sudokuQ) := by
  unfold Gen.sudokuCombinator at hs
  exact grid_number16 _ sudokuQ h w g hg.1 (fun r hr => (hg.2 r hr).1) (step_sudoku _ _ (flat_prop hg)) body hs

theorem pzpr_nurimisaki (h w : Nat) (g : List (List Int)) (hg : IntGrid NurimisakiCell h w g) (body : Str)
    (hs : serProblem Gen.nurimisakiCombinator (intGridVal g) h w = .ok body) :
    Pzpr.decodeNumberGrid h w body = some (g.map fun r => r.map nurimisakiQ) := by
  unfold Gen.nurimisakiCombinator at hs
  exact grid_number16 _ nurimisakiQ h w g hg.1 (fun r hr => (hg.2 r hr).1) (step_nurimisaki _ _ (flat_prop hg)) body hs

/-- value layer of heyawake (`Seq(OneOf(HexInt(), Spaces(-1,'g')), n)`) and any continuation-free tail -/
theorem pzpr_clue_seq (env : Env) (vals : List Int) (hv : ∀ v ∈ vals, ClueVal v) (t : Str)
    (hs : ser (.seq (.oneOf [.hexInt, .spaces (.int (-1)) 15]) vals.length) env [.list (vals.map PyVal.int)] 0 = .ok (1, t)) :
    Pzpr.number16 vals.length t = some (vals, []) := by
  have e : ∀ b : Comb, ser (.seq b vals.length) env = seqSer (ser b env) vals.length := by
    intro b; simp only [ser]
  rw [e] at hs
  have := (seq_number16 _ vals (fun v => v) (step_clue env vals hv) 1 t hs).2
  simpa using this

end Cspuz.Proofs.C16PzprNum

#print axioms Cspuz.Proofs.C16PzprNum.pzpr_nurikabe
#print axioms Cspuz.Proofs.C16PzprNum.pzpr_sudoku
#print axioms Cspuz.Proofs.C16PzprNum.pzpr_nurimisaki
#print axioms Cspuz.Proofs.C16PzprNum.pzpr_clue_seq
