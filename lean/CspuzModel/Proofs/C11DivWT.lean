/-
  C11 — typing (`wtB`) and variable locality (`varsBelow`) of the program emitted by the rank / is_root /
  spanning_forest encoding of `division_connected` (closed form `C05L1.divProg`), needed by the puzzle
  theorems of nurikabe and compass (`∀ c ∈ P.cs, wtB c = true`, and to move a model of the fragment under
  variables declared after it).
-/
import CspuzModel.Proofs.C05L1
import CspuzModel.Proofs.C11FragWT
namespace Cspuz.Proofs.C11DivWT
open Cspuz Cspuz.Spec Cspuz.Proofs Cspuz.Proofs.C05L1 Cspuz.Proofs.C11FragWT

/-- `a == b` on well-typed integer trees is a well-typed constraint over the same variables. -/
theorem eqE_wt {b : Nat} {x y : Expr} (hx : wtI x = true ∧ x.varsBelow b = true)
    (hy : wtI y = true ∧ y.varsBelow b = true) : wtB (eqE x y) = true ∧ (eqE x y).varsBelow b = true := by
  obtain ⟨hx1, hx2⟩ := hx
  obtain ⟨hy1, hy2⟩ := hy
  have h1 : wtB (.node .eq [x, y]) = true ∧ (Expr.node .eq [x, y]).varsBelow b = true := by
    refine ⟨by simp [wtB, wtIs, hx1, hy1], ?_⟩
    rw [varsBelow_node]; intro z hz; simp at hz; rcases hz with rfl | rfl <;> assumption
  have h2 : wtB (.node .eq [y, x]) = true ∧ (Expr.node .eq [y, x]).varsBelow b = true := by
    refine ⟨by simp [wtB, wtIs, hx1, hy1], ?_⟩
    rw [varsBelow_node]; intro z hz; simp at hz; rcases hz with rfl | rfl <;> assumption
  unfold eqE
  split
  · exact ⟨rfl, by simp [Expr.varsBelow]⟩
  · exact h2
  · exact h2
  · exact h1

theorem wtI_litI (n : Int) (b : Nat) : wtI (.litI n) = true ∧ (Expr.litI n).varsBelow b = true :=
  ⟨rfl, by simp [Expr.varsBelow]⟩

theorem wtB_imp {a b : Expr} (ha : wtB a = true) (hb : wtB b = true) : wtB (.node .imp [a, b]) = true := by
  simp [wtB, wtBs, ha, hb]

theorem wtB_and2 {a b : Expr} (ha : wtB a = true) (hb : wtB b = true) : wtB (.node .and [a, b]) = true := by
  simp [wtB, wtBs, ha, hb]

theorem wtB_cmp2 {op : Op} (hop : op.isCmp = true) {x y : Expr} (hx : wtI x = true) (hy : wtI y = true) :
    wtB (.node op [x, y]) = true := by
  cases op <;> simp [Op.isCmp] at hop <;> simp [wtB, wtIs, hx, hy]

theorem wtI_ite {c t f : Expr} (hc : wtB c = true) (ht : wtI t = true) (hf : wtI f = true) :
    wtI (.node .ite [c, t, f]) = true := by
  simp [wtI, hc, ht, hf]

section
variable {g : Graph} {dv : List Expr} {base : Nat}

theorem dv_wt (hlen : dv.length = g.n) (hdv : IntArgs base dv) {i : Nat} (hi : i < g.n) (b : Nat) (hb : base ≤ b) :
    wtI (dv.getD i .litNone) = true ∧ (dv.getD i .litNone).varsBelow b = true := by
  have hi' : i < dv.length := by omega
  rw [getD_of_lt hi']
  obtain ⟨h1, h2⟩ := hdv _ (List.getElem_mem hi')
  exact ⟨h1, C11Frag.varsBelow_mono hb _ h2⟩

theorem bvar_wt (id b : Nat) (h : id < b) : wtB (.bvar id) = true ∧ (Expr.bvar id).varsBelow b = true :=
  ⟨rfl, by simp [Expr.varsBelow]; exact h⟩

theorem ivar_wt (id b : Nat) (h : id < b) : wtI (.ivar id) = true ∧ (Expr.ivar id).varsBelow b = true :=
  ⟨rfl, by simp [Expr.varsBelow]; exact h⟩

/-- Every constraint of the rank / is_root / spanning_forest program is well typed and only mentions the caller's
variables and its own `2 n + m` auxiliary ones. -/
theorem divProg_wt (hwf : g.wf = true) (hlen : dv.length = g.n) (hdv : IntArgs base dv) (k : Nat)
    (roots : Option (List (Option Nat))) (allowEmpty : Bool)
    (hroots : ∀ (c r : Nat), (roots.getD [])[c]? = some (some r) → r < g.n) :
    ∀ c ∈ (divProg g dv k roots allowEmpty base).cs,
      wtB c = true ∧ c.varsBelow (base + (divProg g dv k roots allowEmpty base).decls.length) = true := by
  have hdl : (divProg g dv k roots allowEmpty base).decls.length = 2 * g.n + g.edges.length := by
    simp [divProg]; omega
  rw [hdl]
  obtain ⟨B, hB⟩ : ∃ B, B = base + (2 * g.n + g.edges.length) := ⟨_, rfl⟩
  rw [← hB]
  intro c hc
  simp only [divProg, List.mem_append, List.mem_flatten, List.mem_map, List.mem_range] at hc
  rcases hc with (⟨l, ⟨i, hi, rfl⟩, hc⟩ | ⟨c', _, rfl⟩) | hc
  · -- the constraints of vertex i
    have hitem : ∀ je ∈ g.incident i,
        (wtB (itemE g dv base i je).1 = true ∧ (itemE g dv base i je).1.varsBelow B = true) ∧
        ∀ x ∈ (itemE g dv base i je).2, wtB x = true ∧ x.varsBelow B = true := by
      intro je hje
      have hb := incident_bounds hwf hje
      have hsf := bvar_wt (base + 2 * g.n + je.2) B (by omega)
      have hri := ivar_wt (base + i) B (by omega)
      have hrj := ivar_wt (base + je.1) B (by omega)
      refine ⟨⟨by simp [itemE, wtB, wtBs, wtIs, wtI], ?_⟩, ?_⟩
      · simp only [itemE]
        rw [varsBelow_node]; intro z hz; simp at hz
        rcases hz with rfl | rfl
        · exact hsf.2
        · rw [varsBelow_node]; intro z hz; simp at hz
          rcases hz with rfl | rfl
          · exact hri.2
          · exact hrj.2
      · intro x hx
        simp only [itemE] at hx
        split at hx
        · simp at hx; subst hx
          have he := eqE_wt (dv_wt hlen hdv hi B (by omega)) (dv_wt hlen hdv hb.1 B (by omega))
          refine ⟨wtB_imp hsf.1 (wtB_and2 he.1 (wtB_cmp2 rfl hri.1 hrj.1)), ?_⟩
          rw [varsBelow_node]; intro z hz; simp only [List.mem_cons, List.not_mem_nil, or_false] at hz
          rcases hz with rfl | rfl
          · exact hsf.2
          · rw [varsBelow_node]; intro z hz; simp only [List.mem_cons, List.not_mem_nil, or_false] at hz
            rcases hz with rfl | rfl
            · exact he.2
            · rw [varsBelow_node]; intro z hz; simp only [List.mem_cons, List.not_mem_nil, or_false] at hz
              rcases hz with rfl | rfl
              · exact hri.2
              · exact hrj.2
        · simp at hx
    simp only [perCs, List.mem_append, List.mem_flatMap, List.mem_map, List.mem_singleton] at hc
    rcases hc with ⟨p, ⟨je, hje, rfl⟩, hx⟩ | rfl
    · exact (hitem je hje).2 c hx
    · have hxs : ∀ x ∈ ((g.incident i).map (itemE g dv base i)).map (·.1),
          wtB x = true ∧ x.varsBelow B = true := by
        intro x hx
        simp only [List.mem_map] at hx
        obtain ⟨p, ⟨je, hje, rfl⟩, rfl⟩ := hx
        exact (hitem je hje).1
      have hct := wtI_countTrueE _ (fun x hx => (hxs x hx).1)
      have hcv := varsBelow_countTrueE B _ (fun x hx => (hxs x hx).2)
      refine ⟨wtB_cmp2 rfl hct (wtI_ite rfl rfl rfl), ?_⟩
      rw [varsBelow_node]; intro z hz; simp only [List.mem_cons, List.not_mem_nil, or_false] at hz
      rcases hz with rfl | rfl
      · exact hcv
      · rw [varsBelow_node]; intro z hz; simp at hz
        rcases hz with rfl | rfl | rfl
        · simp only [Expr.varsBelow, decide_eq_true_eq]; omega
        · simp [Expr.varsBelow]
        · simp [Expr.varsBelow]
  · -- the constraint of label c'
    have hxs : ∀ x ∈ ((List.range g.n).zip dv).map (regionItem base g.n c'),
        wtB x = true ∧ x.varsBelow B = true := by
      intro x hx
      simp only [List.mem_map] at hx
      obtain ⟨⟨v, d⟩, hvd, rfl⟩ := hx
      have hv : v < g.n := by simpa using (List.of_mem_zip hvd).1
      have hd : d ∈ dv := (List.of_mem_zip hvd).2
      obtain ⟨h1, h2⟩ := hdv d hd
      have he := eqE_wt (b := B) (x := d) (y := .litI c') ⟨h1, C11Frag.varsBelow_mono (by omega) _ h2⟩ (wtI_litI _ _)
      refine ⟨by simp [regionItem, wtB, wtBs, he.1], ?_⟩
      simp only [regionItem]
      rw [varsBelow_node]; intro z hz; simp at hz
      rcases hz with rfl | rfl
      · simp only [Expr.varsBelow, decide_eq_true_eq]; omega
      · exact he.2
    simp only [regionC]
    cases allowEmpty
    · exact ⟨wtB_cmp_countTrueE .eq rfl _ 1 (fun x hx => (hxs x hx).1),
        varsBelow_cmp_countTrueE B .eq _ 1 (fun x hx => (hxs x hx).2)⟩
    · exact ⟨wtB_cmp_countTrueE .le rfl _ 1 (fun x hx => (hxs x hx).1),
        varsBelow_cmp_countTrueE B .le _ 1 (fun x hx => (hxs x hx).2)⟩
  · -- the root constraints
    simp only [rootCsE, List.mem_flatten, List.mem_map] at hc
    obtain ⟨l, ⟨⟨o, ci⟩, hm, rfl⟩, hc⟩ := hc
    rw [List.mem_zipIdx_iff_getElem?] at hm
    cases o with
    | none => simp [rootItem] at hc
    | some r =>
      have hr : r < g.n := hroots ci r (by simpa using hm)
      simp only [rootItem, List.mem_cons, List.not_mem_nil, or_false] at hc
      rcases hc with rfl | rfl
      · exact eqE_wt (dv_wt hlen hdv hr B (by omega)) (wtI_litI _ _)
      · exact bvar_wt _ _ (by omega)

end
end Cspuz.Proofs.C11DivWT
