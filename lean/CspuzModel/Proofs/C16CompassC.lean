/-
  C16 / compass: the parser half of the URL round trip: `compass.parse_puzz_link_url` reads the URL with the body
  `bodyOf h w pos` (C16CompassA) back to `(h, w, pos)`.
-/
import CspuzModel.Proofs.C16CompassA
namespace Cspuz.Proofs.C16CompassC
open Cspuz Cspuz.Ser Cspuz.Codecs Cspuz.C16F Cspuz.Proofs.C16CompassA

/-! ### numerals -/

theorem hexDigitVal_digitChar (d : Nat) (hd : d < 16) : hexDigitVal (digitChar d) = some d := by
  by_cases h10 : d < 10
  · have ha := digitChar_ascii d h10
    unfold hexDigitVal
    rw [decimalVal_ascii _ ha.1 ha.2]
    simp only [digitChar, if_pos h10]
    congr 1; omega
  · have : d = 10 ∨ d = 11 ∨ d = 12 ∨ d = 13 ∨ d = 14 ∨ d = 15 := by omega
    rcases this with h | h | h | h | h | h <;> subst h <;> decide

theorem decimalVal_digitChar (d : Nat) (hd : d < 10) : decimalVal (digitChar d) = some d := by
  have ha := digitChar_ascii d hd
  rw [decimalVal_ascii _ ha.1 ha.2]
  simp only [digitChar, if_pos hd]
  congr 1; omega

theorem digitsVal_map (b : Nat) (dv : Nat → Option Nat) : ∀ (D : List Nat) (acc : Nat),
    (∀ d ∈ D, dv (digitChar d) = some d) →
    digitsVal b dv (D.map digitChar) acc = some (D.foldl (fun a d => a * b + d) acc)
  | [], acc, _ => rfl
  | d :: D, acc, h => by
    simp only [List.map_cons, digitsVal, h d (by simp), List.foldl_cons]
    exact digitsVal_map b dv D _ (fun e he => h e (List.mem_cons_of_mem _ he))

theorem pyIntSigned_unsigned (b : Nat) (dv : Nat → Option Nat) (s : Str) (n : Nat)
    (h45 : ∀ r, s ≠ 45 :: r) (h43 : ∀ r, s ≠ 43 :: r) (hne : s ≠ []) (hlen : s.length ≤ 4300)
    (hv : digitsVal b dv s 0 = some n) : pyIntSigned b dv s = .ok (n : Int) := by
  unfold pyIntSigned
  split
  rename_i neg ds heq
  split at heq
  · exact absurd rfl (h45 _)
  · exact absurd rfl (h43 _)
  · simp only [Prod.mk.injEq] at heq
    obtain ⟨rfl, rfl⟩ := heq
    simp only [hv]
    rw [if_neg]
    · rfl
    · simp only [Bool.or_eq_true, List.isEmpty_iff, decide_eq_true_eq, not_or]
      exact ⟨hne, by omega⟩

theorem pyIntHex_one (d : Nat) (hd : d < 16) : pyIntHex [digitChar d] = .ok (d : Int) := by
  obtain ⟨h1, h2, _⟩ := digitChar_ne_punct d
  refine pyIntSigned_unsigned 16 hexDigitVal _ d ?_ ?_ (by simp) (by simp) ?_
  · intro r heq; simp only [List.cons.injEq] at heq; exact h1 heq.1
  · intro r heq; simp only [List.cons.injEq] at heq; exact h2 heq.1
  · simp [digitsVal, hexDigitVal_digitChar d hd]

theorem pyIntHex_two (a b : Nat) (ha : a < 16) (hb : b < 16) :
    pyIntHex [digitChar a, digitChar b] = .ok ((16 * a + b : Nat) : Int) := by
  obtain ⟨h1, h2, _⟩ := digitChar_ne_punct a
  refine pyIntSigned_unsigned 16 hexDigitVal _ _ ?_ ?_ (by simp) (by simp) ?_
  · intro r heq; simp only [List.cons.injEq] at heq; exact h1 heq.1
  · intro r heq; simp only [List.cons.injEq] at heq; exact h2 heq.1
  · simp [digitsVal, hexDigitVal_digitChar a ha, hexDigitVal_digitChar b hb]
    omega

theorem pyIntHex_three (a b c : Nat) (ha : a < 16) (hb : b < 16) (hc : c < 16) :
    pyIntHex [digitChar a, digitChar b, digitChar c] = .ok ((256 * a + 16 * b + c : Nat) : Int) := by
  obtain ⟨h1, h2, _⟩ := digitChar_ne_punct a
  refine pyIntSigned_unsigned 16 hexDigitVal _ _ ?_ ?_ (by simp) (by simp) ?_
  · intro r heq; simp only [List.cons.injEq] at heq; exact h1 heq.1
  · intro r heq; simp only [List.cons.injEq] at heq; exact h2 heq.1
  · simp [digitsVal, hexDigitVal_digitChar a ha, hexDigitVal_digitChar b hb, hexDigitVal_digitChar c hc]
    omega

theorem pyIntDec_toBase (n : Nat) (hn : DecimalOk n) : pyIntDec (toBase 10 n) = .ok (n : Int) := by
  have hne := toBase_ne_nil 10 n (by omega)
  have hasc := toBase10_ascii n
  have hval : digitsVal 10 decimalVal (toBase 10 n) 0 = some n := by
    unfold toBase
    rw [digitsVal_map 10 decimalVal _ 0 (fun d hd => decimalVal_digitChar d (digits_lt 10 (by omega) n d hd))]
    exact congrArg some (ofDigits_digits 10 (by omega) n)
  refine pyIntSigned_unsigned 10 decimalVal _ n ?_ ?_ hne hn hval
  · intro r heq
    have := hasc 45 (by rw [heq]; simp); omega
  · intro r heq
    have := hasc 43 (by rw [heq]; simp); omega

/-! ### reading the four numbers of a clue -/

theorem drop_advance (body a rest : Str) (i : Nat) (hd : body.drop i = a ++ rest) :
    body.drop (i + a.length) = rest := by
  rw [← List.drop_drop, hd, List.drop_left]

theorem getElem?_of_drop (body rest : Str) (i c : Nat) (hd : body.drop i = c :: rest) : body[i]? = some c := by
  have := List.getElem?_drop (xs := body) (i := i) (j := 0)
  rw [hd] at this
  simpa using this.symm

theorem getElem?_of_drop_nil (body : Str) (i : Nat) (hd : body.drop i = []) : body[i]? = none := by
  have := List.getElem?_drop (xs := body) (i := i) (j := 0)
  rw [hd] at this
  simpa using this.symm

theorem nums_tok (body : Str) (k i : Nat) (acc : List Int) (v : Int) (rest : Str) (hv : NumOk v)
    (hd : body.drop i = tok v ++ rest) :
    compassNums body (k + 1) i acc = compassNums body k (i + (tok v).length) (acc ++ [v]) := by
  rcases tok_cases v hv with ⟨e1, e⟩ | ⟨h0, _, hlt, e⟩ | ⟨h16, _, ha, hb, hab, e⟩ | ⟨h256, _, ha, hb, hc, habc, e⟩
  rotate_right
  · rw [e] at hd ⊢
    have hg := getElem?_of_drop body _ i _ hd
    have hs : slice body (i + 1) 3
        = [digitChar (v.toNat / 16 / 16), digitChar (v.toNat / 16 % 16), digitChar (v.toNat % 16)] := by
      unfold slice
      rw [← List.drop_drop, hd]
      simp
    rw [compassNums, hg]
    simp only [if_neg (show ¬ (43 : Nat) = 45 by decide), if_true, hs, pyIntHex_three _ _ _ ha hb hc,
      Outcome.bind_ok, habc, List.length_cons, List.length_nil]
    rw [Int.toNat_of_nonneg (by omega)]
  · rw [e] at hd ⊢
    have hg := getElem?_of_drop body _ i 46 hd
    rw [compassNums, hg, e1]
    simp
  · rw [e] at hd ⊢
    have hg := getElem?_of_drop body _ i _ hd
    obtain ⟨n1, n2, n3⟩ := digitChar_ne_punct v.toNat
    rw [compassNums, hg]
    simp only [if_neg n1, if_neg n2, if_neg n3, pyIntHex_one _ hlt, Outcome.bind_ok, List.length_singleton]
    rw [Int.toNat_of_nonneg h0]
  · rw [e] at hd ⊢
    have hg := getElem?_of_drop body _ i _ hd
    have hs : slice body (i + 1) 2 = [digitChar (v.toNat / 16), digitChar (v.toNat % 16)] := by
      unfold slice
      rw [← List.drop_drop, hd]
      simp
    rw [compassNums, hg]
    simp only [if_true, hs, pyIntHex_two _ _ ha hb, Outcome.bind_ok, hab, List.length_cons, List.length_nil]
    rw [Int.toNat_of_nonneg (by omega)]

theorem nums_clue (body : Str) (i : Nat) (c : CompassClue) (rest : Str) (h w : Nat) (hc : CompassClueOk h w c)
    (hd : body.drop i = clueStr c ++ rest) :
    compassNums body 4 i [] = .ok (i + (clueStr c).length, [c.up, c.down, c.left, c.right]) := by
  obtain ⟨hu, hdn, hl, hr⟩ := clueOk_nums h w c hc
  unfold clueStr at hd ⊢
  simp only [List.append_assoc] at hd
  have d1 := drop_advance body _ _ i hd
  have d2 := drop_advance body _ _ _ d1
  have d3 := drop_advance body _ _ _ d2
  rw [nums_tok body 3 i [] c.up _ hu hd, nums_tok body 2 _ _ c.down _ hdn d1,
    nums_tok body 1 _ _ c.left _ hl d2, nums_tok body 0 _ _ c.right _ hr d3, compassNums]
  simp only [List.nil_append, List.cons_append, List.length_append, Nat.add_assoc]

/-! ### runs of cells without a clue -/

theorem loop_run (body : Str) (w : Int) (f i : Nat) (p : Int) (res : List CompassClue) (ch : Nat) (rest : Str)
    (hd : body.drop i = ch :: rest) (hch : 103 ≤ ch) :
    compassParseLoop body w (f + 1) i p res = compassParseLoop body w f (i + 1) (p + ((ch : Int) - 102)) res := by
  rw [compassParseLoop, getElem?_of_drop body rest i ch hd]
  simp only [ge_iff_le, hch, if_true]

theorem loop_z (body : Str) (w : Int) (f : Nat) (res : List CompassClue) (rest : Str) : ∀ (k i : Nat) (p : Int),
    body.drop i = List.replicate k 122 ++ rest →
    compassParseLoop body w (f + k) i p res = compassParseLoop body w f (i + k) (p + 20 * (k : Int)) res
  | 0, i, p, _ => by simp
  | k + 1, i, p, hd => by
    rw [List.replicate_succ, List.cons_append] at hd
    have hd' : body.drop (i + 1) = List.replicate k 122 ++ rest :=
      drop_advance body [122] _ i (by simpa using hd)
    rw [← Nat.add_assoc, loop_run body w (f + k) i p res 122 _ hd (by omega),
      loop_z body w f res rest k (i + 1) _ hd']
    have e1 : i + 1 + k = i + (k + 1) := by omega
    have e2 : p + (((122 : Nat) : Int) - 102) + 20 * (k : Int) = p + 20 * ((k + 1 : Nat) : Int) := by omega
    rw [e1, e2]

theorem loop_gap (body : Str) (w : Int) (f i : Nat) (p : Int) (res : List CompassClue) (n : Nat) (rest : Str)
    (hd : body.drop i = gapStr n ++ rest) :
    compassParseLoop body w (f + (gapStr n).length) i p res =
      compassParseLoop body w f (i + (gapStr n).length) (p + (n : Int)) res := by
  unfold gapStr at hd ⊢
  by_cases hn : n = 0
  · subst hn; simp
  · rw [if_neg hn] at hd ⊢
    rw [List.append_assoc] at hd
    have hd' := drop_advance body _ _ i hd
    rw [List.length_replicate] at hd'
    rw [List.length_append, List.length_replicate, List.length_singleton]
    have e0 : f + ((n - 1) / 20 + 1) = (f + 1) + (n - 1) / 20 := by omega
    rw [e0, loop_z body w (f + 1) res _ ((n - 1) / 20) i p hd,
      loop_run body w f _ _ res (103 + (n - 1) % 20) rest hd' (by omega)]
    have e1 : i + (n - 1) / 20 + 1 = i + ((n - 1) / 20 + 1) := by omega
    have e2 : p + 20 * (((n - 1) / 20 : Nat) : Int) + (((103 + (n - 1) % 20 : Nat) : Int) - 102) = p + (n : Int) := by
      omega
    rw [e1, e2]

/-! ### a clue cell -/

theorem divmod_pos (h w : Nat) (c : CompassClue) (hc : CompassClueOk h w c) :
    (w : Int) ≠ 0 ∧ pyDiv (posN w c : Int) (w : Int) = c.y ∧ pyMod (posN w c : Int) (w : Int) = c.x := by
  rw [← cluePos_eq h w c hc]
  obtain ⟨hy0, _, hx0, hx1, _⟩ := hc
  have hw0 : (w : Int) ≠ 0 := by omega
  have hwn : (0 : Int) ≤ (w : Int) := by omega
  refine ⟨hw0, ?_, ?_⟩
  · unfold pyDiv cluePos
    rw [Int.fdiv_eq_ediv_of_nonneg _ hwn, Int.add_comm, Int.add_mul_ediv_right _ _ hw0,
      Int.ediv_eq_zero_of_lt hx0 hx1, Int.zero_add]
  · unfold pyMod cluePos
    rw [Int.fmod_eq_emod_of_nonneg _ hwn, Int.mul_add_emod_self_right, Int.emod_eq_of_lt hx0 hx1]

theorem clueStr_head (h w : Nat) (c : CompassClue) (hc : CompassClueOk h w c) :
    ∃ ch t, clueStr c = ch :: t ∧ ch < 103 := by
  cases hcs : clueStr c with
  | nil =>
    unfold clueStr at hcs
    exact absurd (List.append_eq_nil_iff.mp hcs).1 (tok_ne_nil _)
  | cons ch t =>
    have := clueStr_chars h w c hc ch (by rw [hcs]; simp)
    exact ⟨ch, t, rfl, by omega⟩

theorem loop_clue (body : Str) (h w f i : Nat) (res : List CompassClue) (c : CompassClue) (rest : Str)
    (hc : CompassClueOk h w c) (hd : body.drop i = clueStr c ++ rest) :
    compassParseLoop body (w : Int) (f + 1) i (posN w c : Int) res =
      compassParseLoop body (w : Int) f (i + (clueStr c).length) ((posN w c : Int) + 1) (res ++ [c]) := by
  obtain ⟨ch, t, hcs, hch⟩ := clueStr_head h w c hc
  have hg : body[i]? = some ch := getElem?_of_drop body (t ++ rest) i ch (by rw [hd, hcs]; rfl)
  obtain ⟨hw0, hdiv, hmod⟩ := divmod_pos h w c hc
  rw [compassParseLoop, hg]
  simp only [ge_iff_le, if_neg (by omega : ¬ 103 ≤ ch), nums_clue body i c rest h w hc hd, Outcome.bind_ok,
    if_neg hw0, hdiv, hmod]

/-! ### the whole body -/

theorem loop_end (body : Str) (w : Int) (f i : Nat) (p : Int) (res : List CompassClue) (hd : body.drop i = []) :
    compassParseLoop body w (f + 1) i p res = .ok res := by
  rw [compassParseLoop, getElem?_of_drop_nil body i hd]

theorem loop_body (body : Str) (h w : Nat) : ∀ (cs : List CompassClue) (i cur : Nat) (res : List CompassClue)
    (fuel : Nat), body.drop i = bodyFrom w cs cur (h * w) → (∀ c ∈ cs, CompassClueOk h w c) → CompassSorted w cs →
    (∀ c ∈ cs, cur ≤ posN w c) → (bodyFrom w cs cur (h * w)).length + 1 ≤ fuel →
    compassParseLoop body (w : Int) fuel i (cur : Int) res = .ok (res ++ cs)
  | [], i, cur, res, fuel, hd, _, _, _, hf => by
    simp only [bodyFrom] at hd hf
    have hd1 : body.drop i = gapStr (h * w - cur) ++ [] := by rw [hd, List.append_nil]
    have hd2 := drop_advance body _ _ i hd1
    have e : fuel = (fuel - (gapStr (h * w - cur)).length - 1 + 1) + (gapStr (h * w - cur)).length := by omega
    rw [e, loop_gap body _ _ i _ res _ [] hd1, loop_end body _ _ _ _ res hd2, List.append_nil]
  | c :: cs, i, cur, res, fuel, hd, hok, hs, hcur, hf => by
    simp only [bodyFrom, List.length_append] at hd hf
    obtain ⟨hok', hs', hcur'⟩ := sorted_tail h w c cs hok hs
    have hc := hok c (by simp)
    have hle := hcur c (by simp)
    have hd2 := drop_advance body _ _ i hd
    have hd3 := drop_advance body _ _ _ hd2
    have hcl : 1 ≤ (clueStr c).length := by
      obtain ⟨ch, t, hcs, _⟩ := clueStr_head h w c hc
      rw [hcs]; simp
    have e : fuel = (fuel - (gapStr (posN w c - cur)).length - 1 + 1) + (gapStr (posN w c - cur)).length := by omega
    have ep : (cur : Int) + ((posN w c - cur : Nat) : Int) = (posN w c : Int) := by omega
    have ep' : (posN w c : Int) + 1 = ((posN w c + 1 : Nat) : Int) := by omega
    rw [e, loop_gap body _ _ i _ res _ _ hd, ep, loop_clue body h w _ _ res c _ hc hd2, ep',
      loop_body body h w cs _ (posN w c + 1) (res ++ [c]) _ hd3 hok' hs' hcur' (by omega)]
    simp

theorem loop_bodyOf (h w : Nat) (pos : List CompassClue) (hok : ∀ c ∈ pos, CompassClueOk h w c)
    (hs : CompassSorted w pos) :
    compassParseLoop (bodyOf h w pos) (w : Int) ((bodyOf h w pos).length + 1) 0 0 [] = .ok pos := by
  have := loop_body (bodyOf h w pos) h w pos 0 0 [] ((bodyOf h w pos).length + 1) (by simp [bodyOf]) hok hs
    (fun c _ => Nat.zero_le _) (by simp [bodyOf])
  simpa using this

/-! ### the frame: `url.split("/")` -/

theorem splitOn_ne_nil (sep : Nat) : ∀ s : Str, splitOn sep s ≠ []
  | [] => by simp [splitOn]
  | c :: s => by
    simp only [splitOn]
    split
    · simp
    · split <;> simp

theorem splitOn_nomem (sep : Nat) : ∀ s : Str, sep ∉ s → splitOn sep s = [s]
  | [], _ => rfl
  | c :: s, h => by
    have hc : c ≠ sep := fun e => h (by simp [e])
    have hs : sep ∉ s := fun e => h (List.mem_cons_of_mem _ e)
    simp only [splitOn, if_neg hc, splitOn_nomem sep s hs]

/-- splitting after a separator whose right-hand side has no separator: the last part is that right-hand side -/
theorem splitOn_snoc (sep : Nat) (b : Str) (hb : sep ∉ b) : ∀ a : Str,
    splitOn sep (a ++ sep :: b) = splitOn sep a ++ [b]
  | [] => by simp [splitOn, splitOn_nomem sep b hb]
  | c :: a => by
    have ih := splitOn_snoc sep b hb a
    by_cases hc : c = sep
    · simp only [List.cons_append, splitOn, if_pos hc, ih]
    · simp only [List.cons_append, splitOn, if_neg hc, ih]
      cases hsa : splitOn sep a with
      | nil => exact absurd hsa (splitOn_ne_nil sep a)
      | cons p ps => simp

theorem split_url (P W H B : Str) (hW : 47 ∉ W) (hH : 47 ∉ H) (hB : 47 ∉ B) :
    splitOn 47 (P ++ [47] ++ W ++ [47] ++ H ++ [47] ++ B) = splitOn 47 P ++ [W, H, B] := by
  have e : P ++ [47] ++ W ++ [47] ++ H ++ [47] ++ B = ((P ++ 47 :: W) ++ 47 :: H) ++ 47 :: B := by
    simp only [List.append_assoc, List.cons_append, List.nil_append]
  rw [e, splitOn_snoc 47 B hB, splitOn_snoc 47 H hH, splitOn_snoc 47 W hW]
  simp only [List.append_assoc, List.cons_append, List.nil_append]

theorem compass_parse (h w : Nat) (pos : List CompassClue) (hok : ∀ c ∈ pos, CompassClueOk h w c)
    (hs : CompassSorted w pos) (hdh : DecimalOk h) (hdw : DecimalOk w) :
    compassParsePuzzLinkUrl (puzzLinkPrefix ++ strOfString "compass" ++ [47] ++ toBase 10 w ++ [47] ++ toBase 10 h ++ [47] ++ bodyOf h w pos)
      = .ok ((h : Int), (w : Int), pos) := by
  have hW : 47 ∉ toBase 10 w := fun hm => by have := toBase10_ascii w 47 hm; omega
  have hH : 47 ∉ toBase 10 h := fun hm => by have := toBase10_ascii h 47 hm; omega
  have hB : 47 ∉ bodyOf h w pos := fun hm => bodyFrom_no_slash h w pos 0 (h * w) hok 47 hm rfl
  unfold compassParsePuzzLinkUrl
  simp only [split_url _ _ _ _ hW hH hB]
  have hdrop : (splitOn 47 (puzzLinkPrefix ++ strOfString "compass") ++ [toBase 10 w, toBase 10 h, bodyOf h w pos]).drop
      ((splitOn 47 (puzzLinkPrefix ++ strOfString "compass") ++ [toBase 10 w, toBase 10 h, bodyOf h w pos]).length - 3)
      = [toBase 10 w, toBase 10 h, bodyOf h w pos] := by
    rw [List.length_append]
    exact List.drop_left' (by simp)
  rw [hdrop]
  simp only [pyIntDec_toBase h hdh, pyIntDec_toBase w hdw, Outcome.bind_ok, loop_bodyOf h w pos hok hs]

#print axioms compass_parse

end Cspuz.Proofs.C16CompassC
