/-
  C11 for `solve_slalom`, part 5: a loop of the lattice as a periodic sequence of points.
-/
import CspuzModel.Proofs.C11SlalomG
namespace Cspuz.Proofs.C11SlalomT
open Cspuz Cspuz.Spec Cspuz.Spec.FrameGeom Cspuz.Spec.Loop Cspuz.Proofs Cspuz.Proofs.C11Loop
open Cspuz.Spec.Slalom
open Cspuz.Proofs.C14 (mem_allSegs ends_valid ptIndex_inj)

/-- the lattice point with number `i`. -/
def ptOf (W i : Nat) : Pt := (i / (W + 1), i % (W + 1))

theorem ptOf_ptIndex (H W : Nat) (p : Pt) (hp : PtValid H W p) : ptOf W (ptIndex W p) = p := by
  unfold ptOf ptIndex
  have hx : p.2 < W + 1 := by have := hp.2; omega
  rw [(C11Grid.cell_div_mod hx).1, (C11Grid.cell_div_mod hx).2]

/-- A periodic description of the drawn line: `f 0, f 1, …, f (L-1)` are pairwise different points, consecutive ones
(and the last and the first) are joined by drawn steps, and every drawn step is one of these. -/
structure Cyc (H W : Nat) (on : Seg → Bool) (L : Nat) (f : Nat → Pt) : Prop where
  pos : 1 ≤ L
  per : ∀ k, f (k + L) = f k
  inj : ∀ i j, i < L → j < L → f i = f j → i = j
  step : ∀ k, stepOn H W on (f k) (f (k + 1))
  cover : ∀ s : Seg, s.Valid H W → on s = true → ∃ k, k < L ∧ (s.ends = (f k, f (k + 1)) ∨ s.ends = (f (k + 1), f k))

theorem lattice_edge (H W e : Nat) (a b : Nat) (h : (latticeGraph H W).edges[e]? = some (a, b)) :
    ∃ s, (allSegs H W)[e]? = some s ∧ s.Valid H W ∧ a = ptIndex W s.ends.1 ∧ b = ptIndex W s.ends.2 := by
  simp only [latticeGraph, List.getElem?_map] at h
  cases hs : (allSegs H W)[e]? with
  | none => rw [hs] at h; cases h
  | some s =>
    rw [hs] at h
    simp only [Option.map_some, Option.some.injEq, Prod.mk.injEq] at h
    exact ⟨s, rfl, (mem_allSegs H W s).mp (List.mem_of_getElem? hs), h.1.symm, h.2.symm⟩

/-- A non-empty loop as a periodic sequence of points. -/
theorem loop_cycle (H W : Nat) (on : Seg → Bool) (hl : IsLoop H W on) (hne : ∃ s, s.Valid H W ∧ on s = true) :
    ∃ L f, Cyc H W on L f := by
  obtain ⟨s0, hs0v, hs0⟩ := hne
  rcases hl with hl | ⟨vs, es, hvs, hes, hlen, h1, hjoin, hact⟩
  · exfalso
    have hk := allSegs_var_getElem? H W s0 hs0v
    have hlt : s0.var 0 H W < (latticeGraph H W).edges.length := by
      simp only [latticeGraph, List.length_map]
      have := List.getElem?_eq_some_iff.mp hk
      exact this.1
    have := hl _ hlt
    simp only [segActive, hk, hs0] at this
    cases this
  · -- data of position `k`
    have hdata : ∀ k, k < es.length → ∃ s a b, es[k]? = some (s.var 0 H W) ∧ s.Valid H W ∧ on s = true ∧
        vs[k]? = some a ∧ vs[(k + 1) % vs.length]? = some b ∧
        ((a = ptIndex W s.ends.1 ∧ b = ptIndex W s.ends.2) ∨ (a = ptIndex W s.ends.2 ∧ b = ptIndex W s.ends.1)) := by
      intro k hk
      obtain ⟨e, a, b, he, ha, hb, hj⟩ := hjoin k hk
      have hel : e < (latticeGraph H W).edges.length := by
        rcases hj with hj | hj <;> exact (List.getElem?_eq_some_iff.mp hj).1
      have hae : segActive H W on e = true := (hact e hel).mpr (List.mem_of_getElem? he)
      rcases hj with hj | hj
      · obtain ⟨s, hs, hsv, e1, e2⟩ := lattice_edge H W e a b hj
        have hev : e = s.var 0 H W := by
          have h2 := allSegs_var_getElem? H W s hsv
          have hnd := C14.allSegs_nodup H W
          have i1 := (List.getElem?_eq_some_iff.mp hs)
          have i2 := (List.getElem?_eq_some_iff.mp h2)
          exact (List.Nodup.getElem_inj_iff hnd).mp (i1.2.trans i2.2.symm)
        refine ⟨s, a, b, by rw [← hev]; exact he, hsv, ?_, ha, hb, Or.inl ⟨e1, e2⟩⟩
        simpa [segActive, hs] using hae
      · obtain ⟨s, hs, hsv, e1, e2⟩ := lattice_edge H W e b a hj
        have hev : e = s.var 0 H W := by
          have h2 := allSegs_var_getElem? H W s hsv
          have hnd := C14.allSegs_nodup H W
          have i1 := (List.getElem?_eq_some_iff.mp hs)
          have i2 := (List.getElem?_eq_some_iff.mp h2)
          exact (List.Nodup.getElem_inj_iff hnd).mp (i1.2.trans i2.2.symm)
        refine ⟨s, a, b, by rw [← hev]; exact he, hsv, ?_, ha, hb, Or.inr ⟨e2, e1⟩⟩
        simpa [segActive, hs] using hae
    let L := es.length
    let f : Nat → Pt := fun k => ptOf W (vs.getD (k % L) 0)
    have hLpos : 0 < L := h1
    have hfk : ∀ k, k < L → ∀ a, vs[k]? = some a → f k = ptOf W a := by
      intro k hk a ha
      show ptOf W (vs.getD (k % L) 0) = ptOf W a
      rw [Nat.mod_eq_of_lt hk]
      simp [List.getD, ha]
    have hfk1 : ∀ k, k < L → ∀ b, vs[(k + 1) % vs.length]? = some b → f (k + 1) = ptOf W b := by
      intro k hk b hb
      show ptOf W (vs.getD ((k + 1) % L) 0) = ptOf W b
      rw [hlen] at hb
      have hb' : vs[(k + 1) % L]? = some b := hb
      simp [List.getD, hb']
    have hstep : ∀ k, k < L → ∃ s, es[k]? = some (s.var 0 H W) ∧ s.Valid H W ∧ on s = true ∧
        (s.ends = (f k, f (k + 1)) ∨ s.ends = (f (k + 1), f k)) ∧ vs[k]? = some (ptIndex W (f k)) ∧
        PtValid H W (f k) := by
      intro k hk
      obtain ⟨s, a, b, he, hsv, hon, ha, hb, hab⟩ := hdata k hk
      have hv := ends_valid H W s hsv
      rcases hab with ⟨e1, e2⟩ | ⟨e1, e2⟩
      · have f1 : f k = s.ends.1 := by rw [hfk k hk a ha, e1, ptOf_ptIndex H W _ hv.1]
        have f2 : f (k + 1) = s.ends.2 := by rw [hfk1 k hk b hb, e2, ptOf_ptIndex H W _ hv.2.1]
        exact ⟨s, he, hsv, hon, Or.inl (by rw [f1, f2]), by rw [f1, ← e1]; exact ha, by rw [f1]; exact hv.1⟩
      · have f1 : f k = s.ends.2 := by rw [hfk k hk a ha, e1, ptOf_ptIndex H W _ hv.2.1]
        have f2 : f (k + 1) = s.ends.1 := by rw [hfk1 k hk b hb, e2, ptOf_ptIndex H W _ hv.1]
        exact ⟨s, he, hsv, hon, Or.inr (by rw [f1, f2]), by rw [f1, ← e1]; exact ha, by rw [f1]; exact hv.2.1⟩
    have hper : ∀ k, f (k + L) = f k := by
      intro k
      show ptOf W (vs.getD ((k + L) % L) 0) = ptOf W (vs.getD (k % L) 0)
      rw [Nat.add_mod_right]
    have hmod : ∀ k, f k = f (k % L) := by
      intro k
      show ptOf W (vs.getD (k % L) 0) = ptOf W (vs.getD (k % L % L) 0)
      rw [Nat.mod_mod]
    refine ⟨L, f, hLpos, hper, ?_, ?_, ?_⟩
    · intro i j hi hj hij
      obtain ⟨_, _, _, _, _, hvi, _⟩ := hstep i hi
      obtain ⟨_, _, _, _, _, hvj, _⟩ := hstep j hj
      rw [hij] at hvi
      have hi' : i < vs.length := by omega
      have hj' : j < vs.length := by omega
      have e1 := (List.getElem?_eq_some_iff.mp hvi).2
      have e2 := (List.getElem?_eq_some_iff.mp hvj).2
      exact (List.Nodup.getElem_inj_iff hvs).mp (e1.trans e2.symm)
    · intro k
      obtain ⟨s, _, hsv, hon, he, _, _⟩ := hstep (k % L) (Nat.mod_lt _ hLpos)
      have e1 : f (k % L) = f k := (hmod k).symm
      have e2 : f (k % L + 1) = f (k + 1) := by
        rw [hmod (k % L + 1), hmod (k + 1)]
        congr 1
        rw [Nat.add_mod, Nat.mod_mod, ← Nat.add_mod]
      rw [e1, e2] at he
      exact ⟨s, hsv, hon, he⟩
    · intro s hsv hon
      have hk := allSegs_var_getElem? H W s hsv
      have hlt : s.var 0 H W < (latticeGraph H W).edges.length := by
        simp only [latticeGraph, List.length_map]
        exact (List.getElem?_eq_some_iff.mp hk).1
      have hmem : s.var 0 H W ∈ es := (hact _ hlt).mp (by simp [segActive, hk, hon])
      obtain ⟨k, hk1, hk2⟩ := List.getElem_of_mem hmem
      obtain ⟨s', he', hsv', _, hends, _, _⟩ := hstep k hk1
      rw [List.getElem?_eq_getElem hk1, hk2] at he'
      have : s = s' := C14.var_inj 0 H W s s' hsv hsv' (Option.some.inj he')
      subst this
      exact ⟨k, hk1, hends⟩

namespace Cyc
variable {H W : Nat} {on : Seg → Bool} {L : Nat} {f : Nat → Pt}

theorem mod (c : Cyc H W on L f) (k : Nat) : f k = f (k % L) := by
  induction k using Nat.strong_induction_on with
  | _ k ih =>
    by_cases hk : k < L
    · rw [Nat.mod_eq_of_lt hk]
    · have h1 : k = (k - L) + L := by omega
      have h2 := ih (k - L) (by have := c.pos; omega)
      rw [h1, c.per, h2, Nat.add_mod_right]

theorem eq_iff (c : Cyc H W on L f) (i j : Nat) : f i = f j ↔ i % L = j % L := by
  have hL : 0 < L := c.pos
  constructor
  · intro h
    rw [c.mod i, c.mod j] at h
    exact c.inj _ _ (Nat.mod_lt _ hL) (Nat.mod_lt _ hL) h
  · intro h
    rw [c.mod i, c.mod j, h]

theorem shift (c : Cyc H W on L f) (a : Nat) : Cyc H W on L (fun k => f (k + a)) := by
  have hL : 0 < L := c.pos
  refine ⟨c.pos, ?_, ?_, ?_, ?_⟩
  · intro k
    show f (k + L + a) = f (k + a)
    rw [show k + L + a = (k + a) + L by omega, c.per]
  · intro i j hi hj h
    have := (c.eq_iff _ _).mp h
    have e : (i + a) % L = (j + a) % L := this
    have := Nat.ModEq.add_right_cancel' a e
    unfold Nat.ModEq at this
    rwa [Nat.mod_eq_of_lt hi, Nat.mod_eq_of_lt hj] at this
  · intro k
    show stepOn H W on (f (k + a)) (f (k + 1 + a))
    rw [show k + 1 + a = (k + a) + 1 by omega]
    exact c.step _
  · intro s hs ho
    obtain ⟨k, hk, he⟩ := c.cover s hs ho
    -- position `k' < L` with `k' + a ≡ k`
    let k' := (k + (L - a % L)) % L
    have hk' : k' < L := Nat.mod_lt _ hL
    have hmod : (k' + a) % L = k % L := by
      show ((k + (L - a % L)) % L + a) % L = k % L
      rw [Nat.add_mod, Nat.mod_mod, ← Nat.add_mod]
      have hal : a % L < L := Nat.mod_lt _ hL
      have : k + (L - a % L) + a = k + (a / L + 1) * L := by
        have := Nat.div_add_mod a L
        rw [Nat.add_mul, Nat.one_mul, Nat.mul_comm]
        omega
      rw [this, Nat.add_mul_mod_self_right]
    have e1 : f (k' + a) = f k := (c.eq_iff _ _).mpr hmod
    have e2 : f (k' + 1 + a) = f (k + 1) := by
      apply (c.eq_iff _ _).mpr
      rw [show k' + 1 + a = (k' + a) + 1 by omega, Nat.add_mod, hmod, ← Nat.add_mod]
    refine ⟨k', hk', ?_⟩
    show s.ends = (f (k' + a), f (k' + 1 + a)) ∨ s.ends = (f (k' + 1 + a), f (k' + a))
    rw [e1, e2]
    exact he

theorem succ_mod' (k L : Nat) (hL : 0 < L) : (k + 1) % L = if k % L + 1 = L then 0 else k % L + 1 := by
  have hd := Nat.div_add_mod k L
  have hr := Nat.mod_lt k hL
  by_cases h : k % L + 1 = L
  · rw [if_pos h]
    have : k + 1 = (k / L + 1) * L := by rw [Nat.add_mul, Nat.one_mul, Nat.mul_comm]; omega
    rw [this, Nat.mul_mod_left]
  · rw [if_neg h]
    have : k + 1 = (k % L + 1) + L * (k / L) := by omega
    rw [this, Nat.add_mul_mod_self_left, Nat.mod_eq_of_lt (by omega)]

/-- The same line run through in the opposite direction. -/
theorem rev (c : Cyc H W on L f) : Cyc H W on L (fun k => f (L - k % L)) := by
  have hL : 0 < L := c.pos
  have hfL : f L = f 0 := by have := c.per 0; simpa using this
  refine ⟨c.pos, ?_, ?_, ?_, ?_⟩
  · intro k
    show f (L - (k + L) % L) = f (L - k % L)
    rw [Nat.add_mod_right]
  · intro i j hi hj h
    have h' : f (L - i % L) = f (L - j % L) := h
    rw [Nat.mod_eq_of_lt hi, Nat.mod_eq_of_lt hj] at h'
    have := (c.eq_iff _ _).mp h'
    by_cases hi0 : i = 0
    · subst hi0
      by_cases hj0 : j = 0
      · exact hj0.symm
      · rw [Nat.sub_zero, Nat.mod_self, Nat.mod_eq_of_lt (by omega : L - j < L)] at this
        omega
    · by_cases hj0 : j = 0
      · subst hj0
        rw [Nat.sub_zero, Nat.mod_self, Nat.mod_eq_of_lt (by omega : L - i < L)] at this
        omega
      · rw [Nat.mod_eq_of_lt (by omega : L - i < L), Nat.mod_eq_of_lt (by omega : L - j < L)] at this
        omega
  · intro k
    show stepOn H W on (f (L - k % L)) (f (L - (k + 1) % L))
    have hr : k % L < L := Nat.mod_lt _ hL
    rw [succ_mod' k L hL]
    by_cases h1 : k % L + 1 = L
    · rw [if_pos h1, Nat.sub_zero, hfL]
      have : L - k % L = 0 + 1 := by omega
      rw [this]
      exact C11SlalomG.stepOn_symm (c.step 0)
    · rw [if_neg h1]
      have : L - k % L = (L - (k % L + 1)) + 1 := by omega
      rw [this]
      exact C11SlalomG.stepOn_symm (c.step _)
  · intro s hs ho
    obtain ⟨k, hk, he⟩ := c.cover s hs ho
    refine ⟨L - (k + 1), by omega, ?_⟩
    show s.ends = (f (L - (L - (k + 1)) % L), f (L - (L - (k + 1) + 1) % L)) ∨
      s.ends = (f (L - (L - (k + 1) + 1) % L), f (L - (L - (k + 1)) % L))
    rw [Nat.mod_eq_of_lt (by omega : L - (k + 1) < L)]
    have e1 : L - (L - (k + 1)) = k + 1 := by omega
    have e2 : f (L - (L - (k + 1) + 1) % L) = f k := by
      have : L - (k + 1) + 1 = L - k := by omega
      rw [this]
      by_cases hk0 : k = 0
      · subst hk0
        rw [Nat.sub_zero, Nat.mod_self, Nat.sub_zero, hfL]
      · rw [Nat.mod_eq_of_lt (by omega : L - k < L)]
        congr 1; omega
    rw [e1, e2]
    exact he.symm

/-- The only drawn steps at a point of the line lead to its two neighbours on the line. -/
theorem nbr (c : Cyc H W on L f) (k : Nat) {q : Pt} (h : stepOn H W on (f (k + 1)) q) : q = f k ∨ q = f (k + 2) := by
  have hL : 0 < L := c.pos
  obtain ⟨s, hv, ho, hs⟩ := h
  obtain ⟨j, _, hj⟩ := c.cover s hv ho
  have key : (f (k + 1) = f j ∧ q = f (j + 1)) ∨ (f (k + 1) = f (j + 1) ∧ q = f j) := by
    rcases hs with e | e <;> rcases hj with e' | e'
    · left; have := e.symm.trans e'; simp only [Prod.mk.injEq] at this; exact this
    · right; have := e.symm.trans e'; simp only [Prod.mk.injEq] at this; exact this
    · right; have := e.symm.trans e'; simp only [Prod.mk.injEq] at this; exact ⟨this.2, this.1⟩
    · left; have := e.symm.trans e'; simp only [Prod.mk.injEq] at this; exact ⟨this.2, this.1⟩
  rcases key with ⟨h1, h2⟩ | ⟨h1, h2⟩
  · right
    rw [h2]
    apply (c.eq_iff _ _).mpr
    have := (c.eq_iff _ _).mp h1
    rw [show k + 2 = (k + 1) + 1 by omega, Nat.add_mod (k + 1), this, ← Nat.add_mod]
  · left
    rw [h2]
    apply (c.eq_iff _ _).mpr
    have := (c.eq_iff _ _).mp h1
    exact (Nat.ModEq.add_right_cancel' 1 this).symm

/-- Every point met by a drawn step is on the line. -/
theorem mem_of_step (c : Cyc H W on L f) {p q : Pt} (h : stepOn H W on p q) : ∃ k, k < L ∧ f k = p := by
  have hL : 0 < L := c.pos
  obtain ⟨s, hv, ho, hs⟩ := h
  obtain ⟨j, hjL, hj⟩ := c.cover s hv ho
  have key : p = f j ∨ p = f (j + 1) := by
    rcases hs with e | e <;> rcases hj with e' | e'
    · left; have := e.symm.trans e'; simp only [Prod.mk.injEq] at this; exact this.1
    · right; have := e.symm.trans e'; simp only [Prod.mk.injEq] at this; exact this.1
    · right; have := e.symm.trans e'; simp only [Prod.mk.injEq] at this; exact this.2
    · left; have := e.symm.trans e'; simp only [Prod.mk.injEq] at this; exact this.2
  rcases key with h1 | h1
  · exact ⟨j, hjL, h1.symm⟩
  · exact ⟨(j + 1) % L, Nat.mod_lt _ hL, by rw [h1]; exact (c.mod _).symm⟩

end Cyc

end Cspuz.Proofs.C11SlalomT
