/-
  C11 for `solve_slalom`, part 5: a loop of the lattice as a periodic sequence of points.
-/
import CspuzModel.Proofs.C11SlalomG
namespace Cspuz.Proofs.C11SlalomT
open Cspuz Cspuz.Spec Cspuz.Spec.FrameGeom Cspuz.Spec.Loop Cspuz.Proofs Cspuz.Proofs.C11Loop
open Cspuz.Spec.Slalom
open Cspuz.Proofs.C14 (mem_allSegs ends_valid ptIndex_inj)

/-- the lattice point with number `i`. -/
def ptOf (W i : Nat) : Pt := (i / (W + 1), i % (W + 1))

theorem ptOf_ptIndex (H W : Nat) (p : Pt) (hp : PtValid H W p) : ptOf W (ptIndex W p) = p := by
  unfold ptOf ptIndex
  have hx : p.2 < W + 1 := by have := hp.2; omega
  rw [(C11Grid.cell_div_mod hx).1, (C11Grid.cell_div_mod hx).2]

/-- A periodic description of the drawn line: `f 0, f 1, …, f (L-1)` are pairwise different points, consecutive ones
(and the last and the first) are joined by drawn steps, and every drawn step is one of these. -/
structure Cyc (H W : Nat) (on : Seg → Bool) (L : Nat) (f : Nat → Pt) : Prop where
  pos : 1 ≤ L
  per : ∀ k, f (k + L) = f k
  inj : ∀ i j, i < L → j < L → f i = f j → i = j
  step : ∀ k, stepOn H W on (f k) (f (k + 1))
  cover : ∀ s : Seg, s.Valid H W → on s = true → ∃ k, k < L ∧ (s.ends = (f k, f (k + 1)) ∨ s.ends = (f (k + 1), f k))

theorem lattice_edge (H W e : Nat) (a b : Nat) (h : (latticeGraph H W).edges[e]? = some (a, b)) :
    ∃ s, (allSegs H W)[e]? = some s ∧ s.Valid H W ∧ a = ptIndex W s.ends.1 ∧ b = ptIndex W s.ends.2 := by
  simp only [latticeGraph, List.getElem?_map] at h
  cases hs : (allSegs H W)[e]? with
  | none => rw [hs] at h; cases h
  | some s =>
    rw [hs] at h
    simp only [Option.map_some, Option.some.injEq, Prod.mk.injEq] at h
    exact ⟨s, rfl, (mem_allSegs H W s).mp (List.mem_of_getElem? hs), h.1.symm, h.2.symm⟩

/-- A non-empty loop as a periodic sequence of points. -/
theorem loop_cycle (H W : Nat) (on : Seg → Bool) (hl : IsLoop H W on) (hne : ∃ s, s.Valid H W ∧ on s = true) :
    ∃ L f, Cyc H W on L f := by
  obtain ⟨s0, hs0v, hs0⟩ := hne
  rcases hl with hl | ⟨vs, es, hvs, hes, hlen, h1, hjoin, hact⟩
  · exfalso
    have hk := allSegs_var_getElem? H W s0 hs0v
    have hlt : s0.var 0 H W < (latticeGraph H W).edges.length := by
      simp only [latticeGraph, List.length_map]
      have := List.getElem?_eq_some_iff.mp hk
      exact this.1
    have := hl _ hlt
    simp only [segActive, hk, hs0] at this
    cases this
  · -- data of position `k`
    have hdata : ∀ k, k < es.length → ∃ s a b, es[k]? = some (s.var 0 H W) ∧ s.Valid H W ∧ on s = true ∧
        vs[k]? = some a ∧ vs[(k + 1) % vs.length]? = some b ∧
        ((a = ptIndex W s.ends.1 ∧ b = ptIndex W s.ends.2) ∨ (a = ptIndex W s.ends.2 ∧ b = ptIndex W s.ends.1)) := by
      intro k hk
      obtain ⟨e, a, b, he, ha, hb, hj⟩ := hjoin k hk
      have hel : e < (latticeGraph H W).edges.length := by
        rcases hj with hj | hj <;> exact (List.getElem?_eq_some_iff.mp hj).1
      have hae : segActive H W on e = true := (hact e hel).mpr (List.mem_of_getElem? he)
      rcases hj with hj | hj
      · obtain ⟨s, hs, hsv, e1, e2⟩ := lattice_edge H W e a b hj
        have hev : e = s.var 0 H W := by
          have h2 := allSegs_var_getElem? H W s hsv
          have hnd := C14.allSegs_nodup H W
          have i1 := (List.getElem?_eq_some_iff.mp hs)
          have i2 := (List.getElem?_eq_some_iff.mp h2)
          exact (List.Nodup.getElem_inj_iff hnd).mp (i1.2.trans i2.2.symm)
        refine ⟨s, a, b, by rw [← hev]; exact he, hsv, ?_, ha, hb, Or.inl ⟨e1, e2⟩⟩
        simpa [segActive, hs] using hae
      · obtain ⟨s, hs, hsv, e1, e2⟩ := lattice_edge H W e b a hj
        have hev : e = s.var 0 H W := by
          have h2 := allSegs_var_getElem? H W s hsv
          have hnd := C14.allSegs_nodup H W
          have i1 := (List.getElem?_eq_some_iff.mp hs)
          have i2 := (List.getElem?_eq_some_iff.mp h2)
          exact (List.Nodup.getElem_inj_iff hnd).mp (i1.2.trans i2.2.symm)
        refine ⟨s, a, b, by rw [← hev]; exact he, hsv, ?_, ha, hb, Or.inr ⟨e2, e1⟩⟩
        simpa [segActive, hs] using hae
    let L := es.length
    let f : Nat → Pt := fun k => ptOf W (vs.getD (k % L) 0)
    have hLpos : 0 < L := h1
    have hfk : ∀ k, k < L → ∀ a, vs[k]? = some a → f k = ptOf W a := by
      intro k hk a ha
      show ptOf W (vs.getD (k % L) 0) = ptOf W a
      rw [Nat.mod_eq_of_lt hk]
      simp [List.getD, ha]
    have hfk1 : ∀ k, k < L → ∀ b, vs[(k + 1) % vs.length]? = some b → f (k + 1) = ptOf W b := by
      intro k hk b hb
      show ptOf W (vs.getD ((k + 1) % L) 0) = ptOf W b
      rw [hlen] at hb
      have hb' : vs[(k + 1) % L]? = some b := hb
      simp [List.getD, hb']
    have hstep : ∀ k, k < L → ∃ s, es[k]? = some (s.var 0 H W) ∧ s.Valid H W ∧ on s = true ∧
        (s.ends = (f k, f (k + 1)) ∨ s.ends = (f (k + 1), f k)) ∧ vs[k]? = some (ptIndex W (f k)) ∧
        PtValid H W (f k) := by
      intro k hk
      obtain ⟨s, a, b, he, hsv, hon, ha, hb, hab⟩ := hdata k hk
      have hv := ends_valid H W s hsv
      rcases hab with ⟨e1, e2⟩ | ⟨e1, e2⟩
      · have f1 : f k = s.ends.1 := by rw [hfk k hk a ha, e1, ptOf_ptIndex H W _ hv.1]
        have f2 : f (k + 1) = s.ends.2 := by rw [hfk1 k hk b hb, e2, ptOf_ptIndex H W _ hv.2.1]
        exact ⟨s, he, hsv, hon, Or.inl (by rw [f1, f2]), by rw [f1, ← e1]; exact ha, by rw [f1]; exact hv.1⟩
      · have f1 : f k = s.ends.2 := by rw [hfk k hk a ha, e1, ptOf_ptIndex H W _ hv.2.1]
        have f2 : f (k + 1) = s.ends.1 := by rw [hfk1 k hk b hb, e2, ptOf_ptIndex H W _ hv.1]
        exact ⟨s, he, hsv, hon, Or.inr (by rw [f1, f2]), by rw [f1, ← e1]; exact ha, by rw [f1]; exact hv.2.1⟩
    have hper : ∀ k, f (k + L) = f k := by
      intro k
      show ptOf W (vs.getD ((k + L) % L) 0) = ptOf W (vs.getD (k % L) 0)
      rw [Nat.add_mod_right]
    have hmod : ∀ k, f k = f (k % L) := by
      intro k
      show ptOf W (vs.getD (k % L) 0) = ptOf W (vs.getD (k % L % L) 0)
      rw [Nat.mod_mod]
    refine ⟨L, f, hLpos, hper, ?_, ?_, ?_⟩
    · intro i j hi hj hij
      obtain ⟨_, _, _, _, _, hvi, _⟩ := hstep i hi
      obtain ⟨_, _, _, _, _, hvj, _⟩ := hstep j hj
      rw [hij] at hvi
      have hi' : i < vs.length := by omega
      have hj' : j < vs.length := by omega
      have e1 := (List.getElem?_eq_some_iff.mp hvi).2
      have e2 := (List.getElem?_eq_some_iff.mp hvj).2
      exact (List.Nodup.getElem_inj_iff hvs).mp (e1.trans e2.symm)
    · intro k
      obtain ⟨s, _, hsv, hon, he, _, _⟩ := hstep (k % L) (Nat.mod_lt _ hLpos)
      have e1 : f (k % L) = f k := (hmod k).symm
      have e2 : f (k % L + 1) = f (k + 1) := by
        rw [hmod (k % L + 1), hmod (k + 1)]
        congr 1
        rw [Nat.add_mod, Nat.mod_mod, ← Nat.add_mod]
      rw [e1, e2] at he
      exact ⟨s, hsv, hon, he⟩
    · intro s hsv hon
      have hk := allSegs_var_getElem? H W s hsv
      have hlt : s.var 0 H W < (latticeGraph H W).edges.length := by
        simp only [latticeGraph, List.length_map]
        exact (List.getElem?_eq_some_iff.mp hk).1
      have hmem : s.var 0 H W ∈ es := (hact _ hlt).mp (by simp [segActive, hk, hon])
      obtain ⟨k, hk1, hk2⟩ := List.getElem_of_mem hmem
      obtain ⟨s', he', hsv', _, hends, _, _⟩ := hstep k hk1
      rw [List.getElem?_eq_getElem hk1, hk2] at he'
      have : s = s' := C14.var_inj 0 H W s s' hsv hsv' (Option.some.inj he')
      subst this
      exact ⟨k, hk1, hends⟩

end Cspuz.Proofs.C11SlalomT
