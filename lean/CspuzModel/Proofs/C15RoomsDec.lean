/-
  C15 for `Rooms`, decoder half, stated for an abstract colouring `col` of the board (the room index): when the two
  border bitmaps say exactly "the colours differ" and every colour class is connected, the flood-fill decoder returns
  the colour classes ordered by their least cell, each in row-major order.
-/
import CspuzModel.Proofs.C17Rooms
import Mathlib.Logic.Relation
namespace Cspuz.Ser
open Cspuz

/-! ### what one flood fill marks (independent of the fuel) -/

theorem fillLoop_spec {hz vt : Grid2 Bool} {h w : Nat} (hhz : Dims (h - 1) w hz) (hvt : Dims h (w - 1) vt)
    {id : Int} (hid : id ≠ -1) :
    ∀ (fuel : Nat) (st : List (Nat × Nat)) (rid rid' : Grid2 Int), Dims h w rid → (∀ p ∈ st, p.1 < h ∧ p.2 < w) →
      fillLoop hz vt h w id fuel st rid = .ok rid' →
      (∀ y x, gv rid y x ≠ -1 → gv rid' y x = gv rid y x) ∧
      (∀ p ∈ st, gv rid' p.1 p.2 ≠ -1) ∧
      (∀ P : Nat × Nat → Prop, (∀ a b, a.1 < h → a.2 < w → P a → Open hz vt h w a b → P b) → (∀ s ∈ st, P s) →
        ∀ a : Nat × Nat, gv rid a.1 a.2 = -1 → gv rid' a.1 a.2 ≠ -1 → P a) ∧
      (∀ a : Nat × Nat, gv rid a.1 a.2 = -1 → gv rid' a.1 a.2 ≠ -1 →
        ∀ d, Open hz vt h w a d → gv rid' d.1 d.2 ≠ -1) := by
  intro fuel
  induction fuel with
  | zero => intro st rid rid' _ _ he; simp [fillLoop] at he
  | succ fuel ih =>
    intro st rid rid' hr hst he
    match st with
    | [] =>
      simp only [fillLoop, Outcome.ok.injEq] at he
      subst he
      exact ⟨fun _ _ _ => rfl, by simp, fun _ _ _ a h1 h2 => absurd h1 h2, fun a h1 h2 => absurd h1 h2⟩
    | (y, x) :: st =>
      have hyx : y < h ∧ x < w := hst (y, x) List.mem_cons_self
      have hst' : ∀ p ∈ st, p.1 < h ∧ p.2 < w := fun p hp => hst p (List.mem_cons_of_mem _ hp)
      rw [fillLoop_step hr hhz hvt hyx.1 hyx.2] at he
      by_cases hc : gv rid y x = -1
      · rw [if_neg (by simp [hc])] at he
        have hr1 := dims_set2 hr y x id
        have hgv : ∀ a b, gv (set2 rid y x id) a b = if a = y ∧ b = x then id else gv rid a b :=
          fun a b => gv_set2 hr hyx.1 hyx.2 id a b
        obtain ⟨f1, f3, fS, fC⟩ := ih (push4 hz vt h w y x st) (set2 rid y x id) rid' hr1
          (fun p hp => by
            rcases mem_push4.1 hp with hp | hp
            · exact hst' p hp
            · exact hp.board hyx) he
        have hyx' : gv rid' y x ≠ -1 := by
          have : gv (set2 rid y x id) y x = id := by rw [hgv]; simp
          rw [f1 y x (by rw [this]; exact hid), this]; exact hid
        refine ⟨?_, ?_, ?_, ?_⟩
        · intro a b hab
          have : gv (set2 rid y x id) a b = gv rid a b := by
            rw [hgv]
            split
            · rename_i hh; rw [hh.1, hh.2, hc] at hab; exact absurd rfl hab
            · rfl
          rw [← this]; exact f1 a b (by rw [this]; exact hab)
        · intro p hp
          rcases List.mem_cons.1 hp with rfl | hp
          · exact hyx'
          · exact f3 p (mem_push4.2 (Or.inl hp))
        · intro P hP hPs a ha ha'
          by_cases hax : a = (y, x)
          · subst hax; exact hPs _ List.mem_cons_self
          · apply fS P hP _ a _ ha'
            · intro s hs
              rcases mem_push4.1 hs with hs | hs
              · exact hPs s (List.mem_cons_of_mem _ hs)
              · exact hP (y, x) s hyx.1 hyx.2 (hPs _ List.mem_cons_self) hs
            · rw [hgv, if_neg]
              · exact ha
              · intro hh; exact hax (Prod.ext hh.1 hh.2)
        · intro a ha ha' d hd
          by_cases hax : a = (y, x)
          · subst hax; exact f3 d (mem_push4.2 (Or.inr hd))
          · apply fC a _ ha' d hd
            rw [hgv, if_neg]
            · exact ha
            · intro hh; exact hax (Prod.ext hh.1 hh.2)
      · rw [if_pos hc] at he
        obtain ⟨f1, f3, fS, fC⟩ := ih st rid rid' hr hst' he
        refine ⟨f1, ?_, ?_, fC⟩
        · intro p hp
          rcases List.mem_cons.1 hp with rfl | hp
          · simp only; rw [f1 y x hc]; exact hc
          · exact f3 p hp
        · intro P hP hPs a ha ha'
          exact fS P hP (fun s hs => hPs s (List.mem_cons_of_mem _ hs)) a ha ha'

/-- the bitmaps `hz`, `vt` describe the colouring `col` of the `h × w` board, whose classes are connected -/
structure ColorSys (hz vt : Grid2 Bool) (h w : Nat) (col : Nat × Nat → Nat) : Prop where
  hhz : Dims (h - 1) w hz
  hvt : Dims h (w - 1) vt
  hz_col : ∀ y x, y + 1 < h → x < w → (gv hz y x = false ↔ col (y, x) = col (y + 1, x))
  vt_col : ∀ y x, y < h → x + 1 < w → (gv vt y x = false ↔ col (y, x) = col (y, x + 1))
  conn : ∀ a b : Nat × Nat, a.1 < h → a.2 < w → b.1 < h → b.2 < w → col a = col b →
    Relation.ReflTransGen (Open hz vt h w) a b

theorem ColorSys.open_col {hz vt : Grid2 Bool} {h w : Nat} {col : Nat × Nat → Nat} (cs : ColorSys hz vt h w col)
    {a b : Nat × Nat} (ha : a.1 < h ∧ a.2 < w) (hab : Open hz vt h w a b) : col a = col b := by
  obtain ⟨y, x⟩ := a
  simp only at ha
  rcases hab with ⟨h1, h2, rfl⟩ | ⟨h1, h2, rfl⟩ | ⟨h1, h2, rfl⟩ | ⟨h1, h2, rfl⟩ <;> simp only at h1 h2 ⊢
  · have := (cs.hz_col (y - 1) x (by omega) ha.2).1 h2
    rw [show y - 1 + 1 = y by omega] at this; exact this.symm
  · exact (cs.hz_col y x h1 ha.2).1 h2
  · have := (cs.vt_col y (x - 1) ha.1 (by omega)).1 h2
    rw [show x - 1 + 1 = x by omega] at this; exact this.symm
  · exact (cs.vt_col y x ha.1 h1).1 h2

/-- a fill started at an unmarked cell, when the marked cells form a union of colour classes, marks exactly the
colour class of the start cell -/
theorem fill_component {hz vt : Grid2 Bool} {h w : Nat} {col : Nat × Nat → Nat} (cs : ColorSys hz vt h w col)
    {rid : Grid2 Int} (hr : Dims h w rid) {c : Nat × Nat} (hcb : c.1 < h ∧ c.2 < w) (hc : gv rid c.1 c.2 = -1)
    {id : Int} (hid : id ≠ -1)
    (hmc : ∀ a b : Nat × Nat, a.1 < h → a.2 < w → b.1 < h → b.2 < w → col a = col b →
      gv rid a.1 a.2 ≠ -1 → gv rid b.1 b.2 ≠ -1) :
    ∃ rid', fillLoop hz vt h w id (4 * h * w + 2) [c] rid = .ok rid' ∧ Dims h w rid' ∧
      ∀ a : Nat × Nat, a.1 < h → a.2 < w → gv rid' a.1 a.2 = if col a = col c then id else gv rid a.1 a.2 := by
  have hu := unmarked_le h w rid
  have hm : 4 * h * w = 4 * (h * w) := Nat.mul_assoc 4 h w
  have hst : ∀ p ∈ [c], p.1 < h ∧ p.2 < w := by simpa using hcb
  obtain ⟨rid', he, hr', f1, f2, f3⟩ := fillLoop_ok cs.hhz cs.hvt hid (4 * h * w + 2) [c] rid hr hst
    (by simp only [List.length_cons, List.length_nil]; omega)
  obtain ⟨_, _, fS, fC⟩ := fillLoop_spec cs.hhz cs.hvt hid _ _ _ _ hr hst he
  refine ⟨rid', he, hr', ?_⟩
  -- every cell reachable from `c` is newly marked
  have hreach : ∀ b, Relation.ReflTransGen (Open hz vt h w) c b →
      (b.1 < h ∧ b.2 < w) ∧ gv rid b.1 b.2 = -1 ∧ gv rid' b.1 b.2 ≠ -1 := by
    intro b hb
    induction hb with
    | refl => exact ⟨hcb, hc, f3 c List.mem_cons_self⟩
    | @tail x y _ hxy ih =>
      obtain ⟨hxb, hx1, hx2⟩ := ih
      have hyb := hxy.board hxb
      have hcol := cs.open_col hxb hxy
      refine ⟨hyb, ?_, fC x hx1 hx2 y hxy⟩
      by_cases hne : gv rid y.1 y.2 = -1
      · exact hne
      · exact absurd hx1 (hmc y x hyb.1 hyb.2 hxb.1 hxb.2 hcol.symm hne)
  intro a ha1 ha2
  by_cases hac : col a = col c
  · rw [if_pos hac]
    obtain ⟨_, h1, h2⟩ := hreach a (cs.conn c a hcb.1 hcb.2 ha1 ha2 hac.symm)
    rcases f2 a.1 a.2 with e | e
    · rw [e] at h2; exact absurd h1 h2
    · exact e
  · rw [if_neg hac]
    by_cases hm : gv rid a.1 a.2 = -1
    · by_cases hne : gv rid' a.1 a.2 = -1
      · rw [hne, hm]
      have hP := fS (fun b => col b = col c) (fun p q hp1 hp2 hp hpq => by
        have := cs.open_col ⟨hp1, hp2⟩ hpq
        exact this.symm.trans hp) (by simp) a hm hne
      exact absurd hP hac
    · exact f1 a.1 a.2 hm

theorem cells_nodup (h w : Nat) : (cells h w).Nodup := by
  unfold cells List.Nodup
  rw [List.pairwise_flatMap]
  constructor
  · intro y _
    rw [List.pairwise_map]
    exact List.Pairwise.imp (fun hab e => hab (by simpa using e)) List.nodup_range
  · exact List.Pairwise.imp (fun {a b} hab p hp q hq e => by
      simp only [List.mem_map] at hp hq
      obtain ⟨_, _, rfl⟩ := hp
      obtain ⟨_, _, rfl⟩ := hq
      simp only [Prod.mk.injEq] at e
      exact hab e.1) List.nodup_range

/-- `c` is the first cell (row-major) of its colour class -/
def isLeader (h w : Nat) (col : Nat × Nat → Nat) (c : Nat × Nat) : Bool :=
  (cells h w).find? (fun a => col a == col c) == some c

theorem isLeader_new {h w : Nat} {col : Nat × Nat → Nat} {done todo : List (Nat × Nat)} {c : Nat × Nat}
    (hs : cells h w = done ++ c :: todo) (hn : ∀ d ∈ done, col d ≠ col c) : isLeader h w col c = true := by
  unfold isLeader
  rw [hs, List.find?_append]
  have : done.find? (fun a => col a == col c) = none := by
    rw [List.find?_eq_none]; intro d hd; simpa using hn d hd
  rw [this]
  simp

theorem isLeader_old {h w : Nat} {col : Nat × Nat → Nat} {done todo : List (Nat × Nat)} {c : Nat × Nat}
    (hs : cells h w = done ++ c :: todo) {d : Nat × Nat} (hd : d ∈ done) (hdc : col d = col c) :
    isLeader h w col c = false := by
  unfold isLeader
  have hnd := cells_nodup h w
  rw [hs] at hnd ⊢
  rw [List.find?_append]
  cases hf : done.find? (fun a => col a == col c) with
  | none => rw [List.find?_eq_none] at hf; exact absurd (by simpa using hdc) (hf d hd)
  | some e =>
    have he : e ∈ done := List.mem_of_find?_eq_some hf
    have hne : e ≠ c := by
      rintro rfl
      exact (List.nodup_append.1 hnd).2.2 e he e List.mem_cons_self rfl
    simp [hne]


/-- state of the scan after the cells of `done` (a prefix of `cells h w`) have been visited -/
structure ScanInv (h w : Nat) (col : Nat × Nat → Nat) (done : List (Nat × Nat)) (rid : Grid2 Int) (last : Int) :
    Prop where
  dims : Dims h w rid
  marked : ∀ a : Nat × Nat, a.1 < h → a.2 < w → (gv rid a.1 a.2 ≠ -1 ↔ ∃ d ∈ done, col d = col a)
  inj : ∀ a b : Nat × Nat, a.1 < h → a.2 < w → b.1 < h → b.2 < w → gv rid a.1 a.2 ≠ -1 → gv rid b.1 b.2 ≠ -1 →
    (gv rid a.1 a.2 = gv rid b.1 b.2 ↔ col a = col b)
  ids : (done.filter (isLeader h w col)).map (fun c => gv rid c.1 c.2) =
    (List.range (done.filter (isLeader h w col)).length).map Int.ofNat
  last_eq : last = ((done.filter (isLeader h w col)).length : Int)
  below : ∀ a : Nat × Nat, a.1 < h → a.2 < w → gv rid a.1 a.2 ≠ -1 → 0 ≤ gv rid a.1 a.2 ∧ gv rid a.1 a.2 < last

theorem ScanInv.init (h w : Nat) (col : Nat × Nat → Nat) :
    ScanInv h w col [] (List.replicate h (List.replicate w (-1))) 0 where
  dims := dims_replicate _ _ _
  marked := fun a h1 h2 => by simp [gv_replicate (-1 : Int) h1 h2]
  inj := fun a b h1 h2 _ _ h5 _ => absurd (gv_replicate (-1 : Int) h1 h2) h5
  ids := rfl
  last_eq := rfl
  below := fun a h1 h2 h3 => absurd (gv_replicate (-1 : Int) h1 h2) h3

theorem ScanInv.step_old {h w : Nat} {col : Nat × Nat → Nat} {done todo : List (Nat × Nat)} {rid : Grid2 Int}
    {last : Int} (inv : ScanInv h w col done rid last) {c : Nat × Nat} (hs : cells h w = done ++ c :: todo)
    (hm : gv rid c.1 c.2 ≠ -1) : ScanInv h w col (done ++ [c]) rid last := by
  have hcb : c.1 < h ∧ c.2 < w := mem_cells.1 (by rw [hs]; simp)
  obtain ⟨d0, hd0, hd0c⟩ := (inv.marked c hcb.1 hcb.2).1 hm
  have hl : (done ++ [c]).filter (isLeader h w col) = done.filter (isLeader h w col) := by
    rw [List.filter_append, List.filter_cons, isLeader_old hs hd0 hd0c]; simp
  refine ⟨inv.dims, ?_, inv.inj, by rw [hl]; exact inv.ids, by rw [hl]; exact inv.last_eq, inv.below⟩
  intro a h1 h2
  rw [inv.marked a h1 h2]
  constructor
  · rintro ⟨d, hd, e⟩; exact ⟨d, by simp [hd], e⟩
  · rintro ⟨d, hd, e⟩
    rcases List.mem_append.1 hd with hd | hd
    · exact ⟨d, hd, e⟩
    · simp only [List.mem_singleton] at hd; subst hd
      exact ⟨d0, hd0, hd0c.trans e⟩

theorem ScanInv.step_new {h w : Nat} {col : Nat × Nat → Nat} {done todo : List (Nat × Nat)} {rid rid' : Grid2 Int}
    {last : Int} (inv : ScanInv h w col done rid last) {c : Nat × Nat} (hs : cells h w = done ++ c :: todo)
    (hc : gv rid c.1 c.2 = -1) (hr' : Dims h w rid')
    (hgv : ∀ a : Nat × Nat, a.1 < h → a.2 < w → gv rid' a.1 a.2 = if col a = col c then last else gv rid a.1 a.2) :
    ScanInv h w col (done ++ [c]) rid' (last + 1) := by
  have hcb : c.1 < h ∧ c.2 < w := mem_cells.1 (by rw [hs]; simp)
  have hnew : ∀ d ∈ done, col d ≠ col c := fun d hd e =>
    ((inv.marked c hcb.1 hcb.2).2 ⟨d, hd, e⟩) hc
  have hl0 : 0 ≤ last := by rw [inv.last_eq]; omega
  have hl : (done ++ [c]).filter (isLeader h w col) = done.filter (isLeader h w col) ++ [c] := by
    rw [List.filter_append, List.filter_cons, isLeader_new hs hnew]; simp
  have hdone : ∀ d ∈ done, d.1 < h ∧ d.2 < w := fun d hd => mem_cells.1 (by rw [hs]; simp [hd])
  refine ⟨hr', ?_, ?_, ?_, ?_, ?_⟩
  · intro a h1 h2
    rw [hgv a h1 h2]
    by_cases e : col a = col c
    · rw [if_pos e]
      exact ⟨fun _ => ⟨c, by simp, e.symm⟩, fun _ => by omega⟩
    · rw [if_neg e, inv.marked a h1 h2]
      constructor
      · rintro ⟨d, hd, e'⟩; exact ⟨d, by simp [hd], e'⟩
      · rintro ⟨d, hd, e'⟩
        rcases List.mem_append.1 hd with hd | hd
        · exact ⟨d, hd, e'⟩
        · simp only [List.mem_singleton] at hd; subst hd; exact absurd e'.symm e
  · intro a b ha1 ha2 hb1 hb2
    rw [hgv a ha1 ha2, hgv b hb1 hb2]
    by_cases ea : col a = col c <;> by_cases eb : col b = col c
    · simp [ea, eb]
    · rw [if_pos ea, if_neg eb]
      intro _ hb
      have := inv.below b hb1 hb2 hb
      constructor
      · intro e; omega
      · intro e; exact absurd (e.symm.trans ea) eb
    · rw [if_neg ea, if_pos eb]
      intro ha _
      have := inv.below a ha1 ha2 ha
      constructor
      · intro e; omega
      · intro e; exact absurd (e.trans eb) ea
    · rw [if_neg ea, if_neg eb]; exact inv.inj a b ha1 ha2 hb1 hb2
  · rw [hl, List.map_append, List.length_append, List.length_singleton, List.range_succ, List.map_append]
    congr 1
    · rw [← inv.ids]
      apply List.map_congr_left
      intro d hd
      have hd' := (List.mem_filter.1 hd).1
      have := hdone d hd'
      rw [hgv d this.1 this.2, if_neg (hnew d hd')]
    · simp only [List.map_cons, List.map_nil]
      rw [hgv c hcb.1 hcb.2, if_pos rfl, inv.last_eq]; rfl
  · rw [hl, List.length_append, List.length_singleton, inv.last_eq]; omega
  · intro a h1 h2
    rw [hgv a h1 h2]
    split
    · intro _; omega
    · intro hm; have := inv.below a h1 h2 hm; omega

theorem scanFill_spec {hz vt : Grid2 Bool} {h w : Nat} {col : Nat × Nat → Nat} (cs : ColorSys hz vt h w col) :
    ∀ (todo done : List (Nat × Nat)) (rid : Grid2 Int) (last : Int), cells h w = done ++ todo →
      ScanInv h w col done rid last →
      ∃ rid' last', scanFill hz vt h w todo rid last = .ok (rid', last') ∧ ScanInv h w col (cells h w) rid' last' := by
  intro todo
  induction todo with
  | nil =>
    intro done rid last hs inv
    rw [List.append_nil] at hs
    exact ⟨rid, last, rfl, by rw [hs]; exact inv⟩
  | cons c todo ih =>
    intro done rid last hs inv
    have hcb : c.1 < h ∧ c.2 < w := mem_cells.1 (by rw [hs]; simp)
    have hs' : cells h w = (done ++ [c]) ++ todo := by rw [hs]; simp
    obtain ⟨y, x⟩ := c
    rw [scanFill, rd2_eq inv.dims hcb.1 hcb.2, Outcome.bind_ok]
    by_cases hc : gv rid y x = -1
    · rw [if_pos (by simp [hc])]
      have hl0 : last ≠ -1 := by rw [inv.last_eq]; omega
      obtain ⟨rid1, he, hr1, hgv⟩ := fill_component cs inv.dims (c := (y, x)) hcb hc hl0
        (fun a b ha1 ha2 hb1 hb2 e ha => by
          rw [inv.marked b hb1 hb2]
          obtain ⟨d, hd, e'⟩ := (inv.marked a ha1 ha2).1 ha
          exact ⟨d, hd, e'.trans e⟩)
      rw [he, Outcome.bind_ok]
      exact ih (done ++ [(y, x)]) rid1 (last + 1) hs' (inv.step_new hs hc hr1 hgv)
    · rw [if_neg (by simp [hc])]
      exact ih (done ++ [(y, x)]) rid last hs' (inv.step_old hs hc)

theorem redundantCheck_ok {hz vt : Grid2 Bool} {rid : Grid2 Int} {h w : Nat} (hhz : Dims (h - 1) w hz)
    (hvt : Dims h (w - 1) vt) (hr : Dims h w rid)
    (hH : ∀ y x, y + 1 < h → x < w → gv hz y x = true → gv rid y x ≠ gv rid (y + 1) x)
    (hV : ∀ y x, y < h → x + 1 < w → gv vt y x = true → gv rid y x ≠ gv rid y (x + 1)) :
    ∀ (l : List (Nat × Nat)), (∀ p ∈ l, p.1 < h ∧ p.2 < w) → redundantCheck hz vt rid h w l = .ok () := by
  intro l
  induction l with
  | nil => intro _; rfl
  | cons p r ih =>
    obtain ⟨y, x⟩ := p
    intro hb
    have hyx : y < h ∧ x < w := hb (y, x) List.mem_cons_self
    have ih' := ih (fun p hp => hb p (List.mem_cons_of_mem _ hp))
    rw [redundantCheck, ih']
    have e1 : (if y + 1 < h then (rd2 hz y x).bind fun b =>
        if b then (rd2 rid y x).bind fun a => (rd2 rid (y + 1) x).bind fun c =>
          if a == c then Outcome.raised PyErr.valueError else Outcome.ok ()
        else Outcome.ok () else Outcome.ok ()) = .ok () := by
      by_cases h1 : y + 1 < h
      · rw [if_pos h1, rd2_eq hhz (by omega) hyx.2, Outcome.bind_ok, rd2_eq hr hyx.1 hyx.2, rd2_eq hr h1 hyx.2]
        simp only [Outcome.bind_ok]
        cases hb : gv hz y x
        · simp
        · have := hH y x h1 hyx.2 hb
          simp [this]
      · rw [if_neg h1]
    have e2 : (if x + 1 < w then (rd2 vt y x).bind fun b =>
        if b then (rd2 rid y x).bind fun a => (rd2 rid y (x + 1)).bind fun c =>
          if a == c then Outcome.raised PyErr.valueError else Outcome.ok ()
        else Outcome.ok () else Outcome.ok ()) = .ok () := by
      by_cases h2 : x + 1 < w
      · rw [if_pos h2, rd2_eq hvt hyx.1 (by omega), Outcome.bind_ok, rd2_eq hr hyx.1 hyx.2, rd2_eq hr hyx.1 h2]
        simp only [Outcome.bind_ok]
        cases hb : gv vt y x
        · simp
        · have := hV y x hyx.1 h2 hb
          simp [this]
      · rw [if_neg h2]
    rw [e1, e2]; rfl

theorem collectRooms_eq {rid : Grid2 Int} {h w : Nat} (hr : Dims h w rid) :
    ∀ (l : List (Nat × Nat)) (acc : List (List (Nat × Nat))),
      (∀ p ∈ l, p.1 < h ∧ p.2 < w ∧ 0 ≤ gv rid p.1 p.2 ∧ gv rid p.1 p.2 < acc.length) →
      collectRooms rid l acc =
        .ok (acc.mapIdx fun k room => room ++ l.filter fun c => gv rid c.1 c.2 == (k : Int)) := by
  intro l
  induction l with
  | nil =>
    intro acc _
    simp only [collectRooms, List.filter_nil, List.append_nil, Outcome.ok.injEq]
    apply List.ext_getElem <;> simp
  | cons p r ih =>
    obtain ⟨y, x⟩ := p
    intro acc hb
    obtain ⟨hy, hx, h0, h1⟩ := hb (y, x) List.mem_cons_self
    simp only at hy hx h0 h1
    rw [collectRooms, rd2_eq hr hy hx, Outcome.bind_ok]
    have hlt : (gv rid y x).toNat < acc.length := by omega
    rw [if_neg (by simp; omega), if_neg (by omega), List.getElem?_eq_getElem hlt]
    simp only
    rw [ih _ (fun p hp => by simpa using hb p (List.mem_cons_of_mem _ hp))]
    congr 1
    apply List.ext_getElem
    · simp
    · intro k hk1 hk2
      simp only [List.getElem_mapIdx, List.getElem_set, List.filter_cons]
      by_cases hk : (gv rid y x).toNat = k
      · have : gv rid y x = (k : Int) := by omega
        simp [this]
      · have : ¬ gv rid y x = (k : Int) := by omega
        simp [hk, this]

/-- the colour classes ordered by their least cell, each in row-major order -/
def colorRooms (h w : Nat) (col : Nat × Nat → Nat) : List (List (Nat × Nat)) :=
  ((cells h w).filter (isLeader h w col)).map fun c => (cells h w).filter fun a => col a == col c

theorem ScanInv.all_marked {h w : Nat} {col : Nat × Nat → Nat} {rid : Grid2 Int} {last : Int}
    (inv : ScanInv h w col (cells h w) rid last) {a : Nat × Nat} (h1 : a.1 < h) (h2 : a.2 < w) :
    gv rid a.1 a.2 ≠ -1 :=
  (inv.marked a h1 h2).2 ⟨a, mem_cells.2 ⟨h1, h2⟩, rfl⟩

theorem ScanInv.collect {h w : Nat} {col : Nat × Nat → Nat} {rid : Grid2 Int} {last : Int}
    (inv : ScanInv h w col (cells h w) rid last) :
    collectRooms rid (cells h w) (List.replicate last.toNat []) = .ok (colorRooms h w col) := by
  have hn : last.toNat = ((cells h w).filter (isLeader h w col)).length := by rw [inv.last_eq]; simp
  unfold colorRooms
  rw [collectRooms_eq inv.dims]
  · congr 1
    apply List.ext_getElem
    · simp [hn]
    · intro k hk1 hk2
      simp only [List.length_mapIdx, List.length_replicate] at hk1
      have hkL : k < ((cells h w).filter (isLeader h w col)).length := by omega
      simp only [List.getElem_mapIdx, List.getElem_replicate, List.nil_append, List.getElem_map]
      have hLk := List.getElem_mem hkL
      have hLb := mem_cells.1 (List.mem_filter.1 hLk).1
      have hid : gv rid (((cells h w).filter (isLeader h w col))[k]).1 (((cells h w).filter (isLeader h w col))[k]).2
          = (k : Int) := by
        have := congrArg (fun l => l[k]?) inv.ids
        simpa [hkL] using this
      apply List.filter_congr
      intro a ha
      have hab := mem_cells.1 ha
      have := inv.inj a _ hab.1 hab.2 hLb.1 hLb.2 (inv.all_marked hab.1 hab.2) (inv.all_marked hLb.1 hLb.2)
      rw [hid] at this
      exact Bool.eq_iff_iff.2 (by simp only [beq_iff_eq]; exact this)
  · intro p hp
    have hb := mem_cells.1 hp
    have := inv.below p hb.1 hb.2 (inv.all_marked hb.1 hb.2)
    refine ⟨hb.1, hb.2, this.1, ?_⟩
    simp only [List.length_replicate]
    omega

theorem roomsDeCore_colors {hz vt : Grid2 Bool} {h w : Nat} {col : Nat × Nat → Nat} (cs : ColorSys hz vt h w col)
    (hh : h ≠ 0) (hw : w ≠ 0) {s : Str} {i k : Nat} {V H : PyVal} (allow : Bool)
    (hbd : bordersDe h w s i = .ok (k, [.tuple [.list [V], .list [H]]]))
    (hV : toBoolGrid V = .ok vt) (hH : toBoolGrid H = .ok hz) :
    roomsDeCore ⟨h, w⟩ allow s i = .ok (k, [roomsVal (colorRooms h w col)]) := by
  obtain ⟨rid, last, es, inv⟩ := scanFill_spec cs (cells h w) [] (List.replicate h (List.replicate w (-1))) 0 rfl
    (ScanInv.init h w col)
  have hcells : ∀ p ∈ cells h w, p.1 < h ∧ p.2 < w := fun p hp => mem_cells.1 hp
  have hred : redundantCheck hz vt rid h w (cells h w) = .ok () := by
    apply redundantCheck_ok cs.hhz cs.hvt inv.dims _ _ _ hcells
    · intro y x h1 h2 hb
      have h3 : y < h := by omega
      have := inv.inj (y, x) (y + 1, x) h3 h2 h1 h2 (inv.all_marked (a := (y, x)) h3 h2)
        (inv.all_marked (a := (y + 1, x)) h1 h2)
      intro e
      have := (cs.hz_col y x h1 h2).2 (this.1 e)
      rw [hb] at this; cases this
    · intro y x h1 h2 hb
      have h3 : x < w := by omega
      have := inv.inj (y, x) (y, x + 1) h1 h3 h1 h2 (inv.all_marked (a := (y, x)) h1 h3)
        (inv.all_marked (a := (y, x + 1)) h1 h2)
      intro e
      have := (cs.vt_col y x h1 h2).2 (this.1 e)
      rw [hb] at this; cases this
  unfold roomsDeCore
  simp only [hbd, hV, hH, es, inv.collect, hred, Outcome.bind_ok]
  rw [if_neg (by simp [hh, hw])]
  cases allow <;> simp

end Cspuz.Ser
