/-
  C11 / magnets — part 2: meaning of the posted constraints, and the theorem.
-/
import CspuzModel.Proofs.C11Magnets
import CspuzModel.Proofs.C11FragWT
namespace Cspuz.Proofs.C11MagnetsSem
open Cspuz Cspuz.Spec Cspuz.Puzzles Cspuz.Puzzles.Magnets Cspuz.Proofs Cspuz.Proofs.C11CL
open Cspuz.Proofs.C11Magnets

/-! ### Evaluation of the pieces -/

theorem eval_vf (σ : Asg) (b i : Nat) : eval σ (vf b i) = some (.b (σ.b (b + i))) := by
  simp [vf]

theorem eval_nand (σ : Asg) (a b : Nat) :
    eval σ (.node .not [.node .and [.bvar a, .bvar b]]) = some (.b (!(σ.b a && σ.b b))) := by
  simp [evalOp, allBools]

theorem eval_plateE (σ : Asg) (n w y x y2 x2 : Nat) :
    eval σ (plateE n w y x y2 x2)
      = some (.b ((σ.b (0 + (y * w + x)) == σ.b (n + (y2 * w + x2))) &&
                  (σ.b (n + (y * w + x)) == σ.b (0 + (y2 * w + x2))))) := by
  simp [plateE, vf, evalOp, allBools]

theorem eval_clue {ι : Type} (σ : Asg) (L : List ι) (b : Nat) (f : ι → Nat) (v : Int) :
    eval σ (.node .eq [countTrueE (L.map fun j => vf b (f j)), .litI v])
      = some (.b (((L.countP fun j => σ.b (b + f j) : Nat) : Int) == v)) := by
  have hE : eval σ (countTrueE (L.map fun j => vf b (f j)))
      = some (.i ((L.countP fun j => σ.b (b + f j) : Nat) : Int)) := by
    rw [eval_countTrueE (σ := σ) (L.map fun j => σ.b (b + f j)) (by
      rw [List.map_map, List.map_map]
      apply List.map_congr_left
      intro j _
      simp [eval_vf])]
    rw [List.count_eq_countP, List.countP_map]
    congr 4
    funext j; simp
  simp only [eval_node, List.map_cons, List.map_nil, hE, eval_litI]
  simp [evalOp, allInts, cmpOp]

/-! ### The constraint groups under an arbitrary assignment -/

theorem mem_flatten_map {α β : Type} (L : List α) (f : α → List β) (c : β) :
    c ∈ (L.map f).flatten ↔ ∃ a ∈ L, c ∈ f a := by
  simp [List.mem_flatten]

theorem nand_true (a b : Bool) : (some (Val.b (!(a && b))) = some (Val.b true)) ↔ ¬ (a = true ∧ b = true) := by
  cases a <;> cases b <;> simp

theorem both_iff (σ : Asg) (n : Nat) :
    (∀ c ∈ bothC n, eval σ c = some (.b true)) ↔ ∀ i, i < n → ¬ (σ.b (0 + i) = true ∧ σ.b (n + i) = true) := by
  simp only [bothC, List.mem_map, List.mem_range]
  constructor
  · intro h i hi
    have := h _ ⟨i, hi, rfl⟩
    simp only [vf] at this
    rw [eval_nand] at this
    exact (nand_true _ _).mp this
  · rintro h c ⟨i, hi, rfl⟩
    simp only [vf]
    rw [eval_nand]
    exact (nand_true _ _).mpr (h i hi)

theorem adjC_iff (σ : Asg) (b : Nat) (L : List (Nat × Nat)) (fa fb : Nat × Nat → Nat) :
    (∀ c ∈ adjC b L fa fb, eval σ c = some (.b true)) ↔
      ∀ p ∈ L, ¬ (σ.b (b + fa p) = true ∧ σ.b (b + fb p) = true) := by
  simp only [adjC, List.mem_map]
  constructor
  · intro h p hp
    have := h _ ⟨p, hp, rfl⟩
    simp only [vf] at this
    rw [eval_nand] at this
    exact (nand_true _ _).mp this
  · rintro h c ⟨p, hp, rfl⟩
    simp only [vf]
    rw [eval_nand]
    exact (nand_true _ _).mpr (h p hp)

theorem clueC_iff {ι : Type} (σ : Asg) (t : List (List Int)) (i k : Nat) (L : List ι) (b : Nat) (f : ι → Nat) :
    (∀ c ∈ clueC t i k (L.map fun j => vf b (f j)), eval σ c = some (.b true)) ↔
      (0 ≤ clue t i k → (((L.countP fun j => σ.b (b + f j) : Nat) : Int)) = clue t i k) := by
  unfold clueC
  by_cases hc : clue t i k ≥ 0
  · rw [if_pos hc]
    simp only [List.mem_cons, List.mem_nil_iff, or_false, forall_eq, eval_clue]
    simp only [Option.some.injEq, Val.b.injEq, beq_iff_eq]
    exact ⟨fun h _ => h, fun h => h hc⟩
  · rw [if_neg hc]
    simp only [List.not_mem_nil, false_imp_iff, implies_true, true_iff]
    intro h0; exact absurd h0 hc

theorem cells_iff (σ : Asg) (pb : Problem) :
    (∀ c ∈ ((cellsOf pb.height pb.width).map (cellC pb)).flatten, eval σ c = some (.b true)) ↔
      ∀ y x, y < pb.height → x < pb.width →
        (right pb y x = true →
          ((σ.b (0 + (y * pb.width + x)) == σ.b (pb.height * pb.width + (y * pb.width + (x + 1)))) &&
           (σ.b (pb.height * pb.width + (y * pb.width + x)) == σ.b (0 + (y * pb.width + (x + 1))))) = true) ∧
        (down pb y x = true →
          ((σ.b (0 + (y * pb.width + x)) == σ.b (pb.height * pb.width + ((y + 1) * pb.width + x))) &&
           (σ.b (pb.height * pb.width + (y * pb.width + x)) == σ.b (0 + ((y + 1) * pb.width + x)))) = true) := by
  simp only [mem_flatten_map]
  constructor
  · intro h y x hy hx
    have hp : (y, x) ∈ cellsOf pb.height pb.width := mem_cellsOf.mpr ⟨hy, hx⟩
    constructor
    · intro hr
      have := h (plateE (pb.height * pb.width) pb.width y x y (x + 1)) ⟨(y, x), hp, by simp [cellC, hr]⟩
      rw [eval_plateE] at this
      simpa using this
    · intro hd
      have := h (plateE (pb.height * pb.width) pb.width y x (y + 1) x) ⟨(y, x), hp, by simp [cellC, hd]⟩
      rw [eval_plateE] at this
      simpa using this
  · rintro h c ⟨p, hp, hc⟩
    obtain ⟨hy, hx⟩ := mem_cellsOf.mp hp
    obtain ⟨h1, h2⟩ := h p.1 p.2 hy hx
    simp only [cellC, List.mem_append] at hc
    rcases hc with hc | hc
    · split at hc
      · next hr =>
        simp only [List.mem_cons, List.mem_nil_iff, or_false] at hc
        subst hc
        rw [eval_plateE, h1 hr]
      · simp at hc
    · split at hc
      · next hd =>
        simp only [List.mem_cons, List.mem_nil_iff, or_false] at hc
        subst hc
        rw [eval_plateE, h2 hd]
      · simp at hc

/-! ### Reading the assignment as a grid of cell states -/

/-- The assignment `σ` (plus at `0 …`, minus at `n …`) spells the grid of states `s` on the `h × w` board. -/
def Reads (h w : Nat) (σ : Asg) (s : Nat → Nat → Pole) : Prop :=
  ∀ y x, y < h → x < w →
    σ.b (0 + (y * w + x)) = decide (s y x = .plus) ∧ σ.b (h * w + (y * w + x)) = decide (s y x = .minus)

/-- No two equal poles on the two cells. -/
def NoSame (a b : Pole) : Prop := ¬ (a = .plus ∧ b = .plus) ∧ ¬ (a = .minus ∧ b = .minus)

theorem noSame_iff (a b : Pole) : NoSame a b ↔ (a ≠ .blank → a ≠ b) := by
  cases a <;> cases b <;> simp [NoSame]

theorem noSame_symm (a b : Pole) : NoSame a b → NoSame b a := by
  cases a <;> cases b <;> simp [NoSame]

theorem plate_bool_iff (a b : Pole) :
    ((decide (a = .plus) == decide (b = .minus)) && (decide (a = .minus) == decide (b = .plus))) = true ↔
      PlateOk a b := by
  cases a <;> cases b <;> simp [PlateOk]

/-- The adjacency rule, as "no equal poles" on every vertical and every horizontal pair of neighbours. -/
theorem adjacent_iff (h w : Nat) (s : Nat → Nat → Pole) :
    ((∀ y x, y + 1 < h → x < w → NoSame (s y x) (s (y + 1) x)) ∧
     (∀ y x, y < h → x + 1 < w → NoSame (s y x) (s y (x + 1)))) ↔
    (∀ y x y' x', y < h → x < w → y' < h → x' < w → Adjacent y x y' x' → s y x ≠ .blank → s y x ≠ s y' x') := by
  constructor
  · rintro ⟨hv, hh⟩ y x y' x' hy hx hy' hx' hadj
    rw [← noSame_iff]
    rcases hadj with ⟨rfl, rfl | rfl⟩ | ⟨rfl, rfl | rfl⟩
    · exact hh y x hy hx'
    · exact noSame_symm _ _ (hh y x' hy hx)
    · exact hv y x hy' hx
    · exact noSame_symm _ _ (hv y' x hy hx)
  · intro hr
    constructor
    · intro y x hy hx
      rw [noSame_iff]
      exact hr y x (y + 1) x (by omega) hx hy hx (Or.inr ⟨rfl, Or.inl rfl⟩)
    · intro y x hy hx
      rw [noSame_iff]
      exact hr y x y (x + 1) hy (by omega) hy hx (Or.inl ⟨rfl, Or.inl rfl⟩)

theorem reads_noSame {h w : Nat} {σ : Asg} {s : Nat → Nat → Pole} (hR : Reads h w σ s)
    (y x y' x' : Nat) (hy : y < h) (hx : x < w) (hy' : y' < h) (hx' : x' < w) :
    (¬ (σ.b (0 + (y * w + x)) = true ∧ σ.b (0 + (y' * w + x')) = true) ∧
     ¬ (σ.b (h * w + (y * w + x)) = true ∧ σ.b (h * w + (y' * w + x')) = true)) ↔ NoSame (s y x) (s y' x') := by
  rw [(hR y x hy hx).1, (hR y x hy hx).2, (hR y' x' hy' hx').1, (hR y' x' hy' hx').2]
  simp [NoSame]

/-! ### The constraints are the rules -/

/-- Under an assignment that spells the state grid `s`, the constraints of the posted program hold iff `s`
obeys the rules. -/
theorem cs_iff (pb : Problem) (hs : Shaped pb) (σ : Asg) (s : Nat → Nat → Pole)
    (hR : Reads pb.height pb.width σ s) :
    (∀ c ∈ closedCs pb, eval σ c = some (.b true)) ↔ GridRules pb s := by
  obtain ⟨_, _, _, _, _, _, _, _, hright, hdown⟩ := hs
  have hrow : ∀ (b : Nat) (P : Pole) (y : Nat), y < pb.height →
      (∀ x, x < pb.width → σ.b (b + (y * pb.width + x)) = decide (s y x = P)) →
      (List.range pb.width).countP (fun x => σ.b (b + (y * pb.width + x)))
        = (List.range pb.width).countP (fun x => decide (s y x = P)) := by
    intro b P y _ hb
    apply List.countP_congr
    intro x hx
    rw [hb x (List.mem_range.mp hx)]
  have hcol : ∀ (b : Nat) (P : Pole) (x : Nat), x < pb.width →
      (∀ y, y < pb.height → σ.b (b + (y * pb.width + x)) = decide (s y x = P)) →
      (List.range pb.height).countP (fun y => σ.b (b + (y * pb.width + x)))
        = (List.range pb.height).countP (fun y => decide (s y x = P)) := by
    intro b P x _ hb
    apply List.countP_congr
    intro y hy
    rw [hb y (List.mem_range.mp hy)]
  simp only [closedCs, List.forall_mem_append, both_iff, cells_iff, adjC_iff]
  simp only [mem_flatten_map, rowV, colV, List.mem_range]
  simp only [GridRules]
  rw [← adjacent_iff]
  constructor
  · rintro ⟨⟨⟨⟨⟨⟨⟨_, hpl⟩, hvp⟩, hvm⟩, hhp⟩, hhm⟩, hrows⟩, hcols⟩
    refine ⟨?_, ?_, ⟨?_, ?_⟩, ?_, ?_, ?_, ?_⟩
    · intro y x hy hx hr
      have := (hpl y x hy hx).1 hr
      have hx1 := hright y x hy hx hr
      rw [(hR y x hy hx).1, (hR y x hy hx).2, (hR y (x + 1) hy hx1).1, (hR y (x + 1) hy hx1).2] at this
      exact (plate_bool_iff _ _).mp this
    · intro y x hy hx hd
      have := (hpl y x hy hx).2 hd
      have hy1 := hdown y x hy hx hd
      rw [(hR y x hy hx).1, (hR y x hy hx).2, (hR (y + 1) x hy1 hx).1, (hR (y + 1) x hy1 hx).2] at this
      exact (plate_bool_iff _ _).mp this
    · intro y x hy hx
      have hp : (y, x) ∈ cellsOf (pb.height - 1) pb.width := mem_cellsOf.mpr ⟨by show y < _; omega, hx⟩
      exact (reads_noSame hR y x (y + 1) x (by omega) hx hy hx).mp ⟨hvp _ hp, hvm _ hp⟩
    · intro y x hy hx
      have hp : (y, x) ∈ cellsOf pb.height (pb.width - 1) := mem_cellsOf.mpr ⟨hy, by show x < _; omega⟩
      exact (reads_noSame hR y x y (x + 1) hy (by omega) hy hx).mp ⟨hhp _ hp, hhm _ hp⟩
    · intro y hy h0
      have := (clueC_iff σ pb.condRow y 0 (List.range pb.width) 0 (fun x => y * pb.width + x)).mp
        (fun c hc => hrows c ⟨y, hy, List.mem_append_left _ hc⟩) h0
      rwa [hrow 0 .plus y hy (fun x hx => (hR y x hy hx).1)] at this
    · intro y hy h0
      have := (clueC_iff σ pb.condRow y 1 (List.range pb.width) (pb.height * pb.width) (fun x => y * pb.width + x)).mp
        (fun c hc => hrows c ⟨y, hy, List.mem_append_right _ hc⟩) h0
      rwa [hrow _ .minus y hy (fun x hx => (hR y x hy hx).2)] at this
    · intro x hx h0
      have := (clueC_iff σ pb.condCol x 0 (List.range pb.height) 0 (fun y => y * pb.width + x)).mp
        (fun c hc => hcols c ⟨x, hx, List.mem_append_left _ hc⟩) h0
      rwa [hcol 0 .plus x hx (fun y hy => (hR y x hy hx).1)] at this
    · intro x hx h0
      have := (clueC_iff σ pb.condCol x 1 (List.range pb.height) (pb.height * pb.width) (fun y => y * pb.width + x)).mp
        (fun c hc => hcols c ⟨x, hx, List.mem_append_right _ hc⟩) h0
      rwa [hcol _ .minus x hx (fun y hy => (hR y x hy hx).2)] at this
  · rintro ⟨hpr, hpd, ⟨hv, hh⟩, hrp, hrm, hcp, hcm⟩
    refine ⟨⟨⟨⟨⟨⟨⟨?_, ?_⟩, ?_⟩, ?_⟩, ?_⟩, ?_⟩, ?_⟩, ?_⟩
    · intro i hi
      obtain ⟨hy, hx⟩ := C11Grid.div_lt_of_lt_mul hi
      have hR' := hR (i / pb.width) (i % pb.width) hy hx
      rw [Nat.div_add_mod' i pb.width] at hR'
      rw [hR'.1, hR'.2]
      cases s (i / pb.width) (i % pb.width) <;> simp
    · intro y x hy hx
      constructor
      · intro hr
        have hx1 := hright y x hy hx hr
        rw [(hR y x hy hx).1, (hR y x hy hx).2, (hR y (x + 1) hy hx1).1, (hR y (x + 1) hy hx1).2]
        exact (plate_bool_iff _ _).mpr (hpr y x hy hx hr)
      · intro hd
        have hy1 := hdown y x hy hx hd
        rw [(hR y x hy hx).1, (hR y x hy hx).2, (hR (y + 1) x hy1 hx).1, (hR (y + 1) x hy1 hx).2]
        exact (plate_bool_iff _ _).mpr (hpd y x hy hx hd)
    · intro p hp
      obtain ⟨hy, hx⟩ := mem_cellsOf.mp hp
      exact ((reads_noSame hR p.1 p.2 (p.1 + 1) p.2 (by omega) hx (by omega) hx).mpr (hv _ _ (by omega) hx)).1
    · intro p hp
      obtain ⟨hy, hx⟩ := mem_cellsOf.mp hp
      exact ((reads_noSame hR p.1 p.2 (p.1 + 1) p.2 (by omega) hx (by omega) hx).mpr (hv _ _ (by omega) hx)).2
    · intro p hp
      obtain ⟨hy, hx⟩ := mem_cellsOf.mp hp
      exact ((reads_noSame hR p.1 p.2 p.1 (p.2 + 1) hy (by omega) hy (by omega)).mpr (hh _ _ hy (by omega))).1
    · intro p hp
      obtain ⟨hy, hx⟩ := mem_cellsOf.mp hp
      exact ((reads_noSame hR p.1 p.2 p.1 (p.2 + 1) hy (by omega) hy (by omega)).mpr (hh _ _ hy (by omega))).2
    · rintro c ⟨y, hy, hc⟩
      rcases List.mem_append.mp hc with hc | hc
      · refine (clueC_iff σ pb.condRow y 0 (List.range pb.width) 0 (fun x => y * pb.width + x)).mpr ?_ c hc
        intro h0
        rw [hrow 0 .plus y hy (fun x hx => (hR y x hy hx).1)]
        exact hrp y hy h0
      · refine (clueC_iff σ pb.condRow y 1 (List.range pb.width) (pb.height * pb.width)
          (fun x => y * pb.width + x)).mpr ?_ c hc
        intro h0
        rw [hrow _ .minus y hy (fun x hx => (hR y x hy hx).2)]
        exact hrm y hy h0
    · rintro c ⟨x, hx, hc⟩
      rcases List.mem_append.mp hc with hc | hc
      · refine (clueC_iff σ pb.condCol x 0 (List.range pb.height) 0 (fun y => y * pb.width + x)).mpr ?_ c hc
        intro h0
        rw [hcol 0 .plus x hx (fun y hy => (hR y x hy hx).1)]
        exact hcp x hx h0
      · refine (clueC_iff σ pb.condCol x 1 (List.range pb.height) (pb.height * pb.width)
          (fun y => y * pb.width + x)).mpr ?_ c hc
        intro h0
        rw [hcol _ .minus x hx (fun y hy => (hR y x hy hx).2)]
        exact hcm x hx h0

/-! ### Typing -/

theorem wt_nand (a b : Nat) : wtB (.node .not [.node .and [.bvar a, .bvar b]]) = true := by
  simp [wtB, wtBs]

theorem wt_clueC {ι : Type} (t : List (List Int)) (i k : Nat) (L : List ι) (b : Nat) (f : ι → Nat) :
    ∀ c ∈ clueC t i k (L.map fun j => vf b (f j)), wtB c = true := by
  intro c hc
  unfold clueC at hc
  split at hc
  · simp only [List.mem_cons, List.mem_nil_iff, or_false] at hc
    subst hc
    apply Cspuz.Proofs.C11FragWT.wtB_cmp_countTrueE .eq rfl
    intro x hx
    simp only [List.mem_map] at hx
    obtain ⟨_, _, rfl⟩ := hx
    rfl
  · simp at hc

theorem wt_closed (pb : Problem) : ∀ c ∈ closedCs pb, wtB c = true := by
  have hadj : ∀ (b : Nat) (L : List (Nat × Nat)) (fa fb : Nat × Nat → Nat), ∀ c ∈ adjC b L fa fb, wtB c = true := by
    intro b L fa fb c hc
    simp only [adjC, List.mem_map] at hc
    obtain ⟨_, _, rfl⟩ := hc
    exact wt_nand _ _
  intro c hc
  simp only [closedCs, List.mem_append] at hc
  rcases hc with ((((((hc | hc) | hc) | hc) | hc) | hc) | hc) | hc
  · simp only [bothC, List.mem_map] at hc
    obtain ⟨_, _, rfl⟩ := hc
    exact wt_nand _ _
  · simp only [mem_flatten_map] at hc
    obtain ⟨p, _, hc⟩ := hc
    simp only [cellC, List.mem_append] at hc
    rcases hc with hc | hc <;> split at hc
    · simp only [List.mem_cons, List.mem_nil_iff, or_false] at hc
      subst hc
      simp [plateE, vf, wtB, wtBs]
    · simp at hc
    · simp only [List.mem_cons, List.mem_nil_iff, or_false] at hc
      subst hc
      simp [plateE, vf, wtB, wtBs]
    · simp at hc
  · exact hadj _ _ _ _ c hc
  · exact hadj _ _ _ _ c hc
  · exact hadj _ _ _ _ c hc
  · exact hadj _ _ _ _ c hc
  · simp only [mem_flatten_map] at hc
    obtain ⟨y, _, hc⟩ := hc
    rcases List.mem_append.mp hc with hc | hc
    · exact wt_clueC _ _ _ _ _ _ c hc
    · exact wt_clueC _ _ _ _ _ _ c hc
  · simp only [mem_flatten_map] at hc
    obtain ⟨x, _, hc⟩ := hc
    rcases List.mem_append.mp hc with hc | hc
    · exact wt_clueC _ _ _ _ _ _ c hc
    · exact wt_clueC _ _ _ _ _ _ c hc

/-! ### The two answer grids as one grid of `2h` rows -/

theorem boolGrid_add (h w : Nat) (g : Nat → Nat → Bool) :
    boolGrid (h + h) w g = boolGrid h w g ++ boolGrid h w (fun y x => g (h + y) x) := by
  unfold boolGrid
  rw [List.range_add, List.flatMap_append, List.flatMap_map]

theorem boolGrid_congr (h w : Nat) (g g' : Nat → Nat → Bool) (hg : ∀ y x, y < h → x < w → g y x = g' y x) :
    boolGrid h w g = boolGrid h w g' := by
  unfold boolGrid
  apply List.flatMap_congr
  intro y hy
  apply List.map_congr_left
  intro x hx
  rw [hg y x (List.mem_range.mp hy) (List.mem_range.mp hx)]

/-- The state grid spelled by an assignment. -/
def stateOf (h w : Nat) (σ : Asg) (y x : Nat) : Pole :=
  if σ.b (0 + (y * w + x)) = true then .plus else if σ.b (h * w + (y * w + x)) = true then .minus else .blank

theorem reads_stateOf (h w : Nat) (σ : Asg)
    (hb : ∀ i, i < h * w → ¬ (σ.b (0 + i) = true ∧ σ.b (h * w + i) = true)) : Reads h w σ (stateOf h w σ) := by
  intro y x hy hx
  have := hb (y * w + x) (C11Grid.cell_lt hy hx)
  unfold stateOf
  cases h1 : σ.b (0 + (y * w + x)) <;> cases h2 : σ.b (h * w + (y * w + x)) <;> simp_all

theorem minus_pos (h w y x : Nat) : (h + y) * w + x = h * w + (y * w + x) := by
  rw [Nat.add_mul, Nat.add_assoc]

theorem encodes (pb : Problem) (hs : Shaped pb) : EncodesRules (closed pb) (Rules pb) := by
  have hE := C11Grid.encodes_bool_grid (pb.height + pb.height) pb.width (closedCs pb)
    (fun g => ∃ s : Nat → Nat → Pole,
      (∀ y x, y < pb.height → x < pb.width →
        g y x = decide (s y x = .plus) ∧ g (pb.height + y) x = decide (s y x = .minus)) ∧ GridRules pb s)
    (by
      intro σ g hg
      constructor
      · intro hcs
        have hb : ∀ c ∈ bothC (pb.height * pb.width), eval σ c = some (.b true) := fun c hc =>
          hcs c (List.mem_append_left _ (List.mem_append_left _ (List.mem_append_left _ (List.mem_append_left _
            (List.mem_append_left _ (List.mem_append_left _ (List.mem_append_left _ hc)))))))
        have hR := reads_stateOf pb.height pb.width σ ((both_iff σ _).mp hb)
        refine ⟨stateOf pb.height pb.width σ, ?_, (cs_iff pb hs σ _ hR).mp hcs⟩
        intro y x hy hx
        rw [hg y (by omega) x hx, hg (pb.height + y) (by omega) x hx, minus_pos, ← (hR y x hy hx).1,
          ← (hR y x hy hx).2, Nat.zero_add]
        exact ⟨rfl, rfl⟩
      · rintro ⟨s, hm, hG⟩
        refine (cs_iff pb hs σ s ?_).mpr hG
        intro y x hy hx
        rw [Nat.zero_add, ← hg y (by omega) x hx, ← minus_pos, ← hg (pb.height + y) (by omega) x hx]
        exact hm y x hy hx)
  intro a
  refine (hE a).trans ?_
  constructor
  · rintro ⟨g, rfl, s, hm, hG⟩
    refine ⟨s, ?_, hG⟩
    rw [boolGrid_add]
    congr 1
    · exact boolGrid_congr _ _ _ _ (fun y x hy hx => (hm y x hy hx).1)
    · exact boolGrid_congr _ _ _ _ (fun y x hy hx => (hm y x hy hx).2)
  · rintro ⟨s, rfl, hG⟩
    refine ⟨fun y x => if y < pb.height then decide (s y x = .plus) else decide (s (y - pb.height) x = .minus),
      ?_, s, ?_, hG⟩
    · rw [boolGrid_add]
      congr 1
      · exact boolGrid_congr _ _ _ _ (fun y x hy _ => by simp [hy])
      · exact boolGrid_congr _ _ _ _ (fun y x _ _ => by simp)
    · intro y x hy _
      simp [hy]

/-- The theorem for every well-shaped instance, whether or not the plates cover the board (a cell that lies in
no plate is only subject to the adjacency and counting rules). -/
theorem main_shaped (pb : Problem) (hs : Shaped pb) (P : PuzzleProg) (hP : program pb = .ok P) :
    EncodesRules P (Rules pb) ∧ P.KeysOk ∧ (∀ c ∈ P.cs, wtB c = true) := by
  rw [program_closed pb hs] at hP
  cases hP
  exact ⟨encodes pb hs, Cspuz.Proofs.C11Grid.keysOk_range _ _ _ (by simp), wt_closed pb⟩

theorem main (pb : Problem) (hwf : WellFormed pb) (P : PuzzleProg) (hP : program pb = .ok P) :
    EncodesRules P (Rules pb) ∧ P.KeysOk ∧ (∀ c ∈ P.cs, wtB c = true) := main_shaped pb hwf.1 P hP

theorem total_shaped (pb : Problem) (hs : Shaped pb) : ∃ P, program pb = .ok P := ⟨_, program_closed pb hs⟩

theorem total (pb : Problem) (hwf : WellFormed pb) : ∃ P, program pb = .ok P := total_shaped pb hwf.1

end Cspuz.Proofs.C11MagnetsSem
