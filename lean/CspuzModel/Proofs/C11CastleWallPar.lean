/-
  C11, castle_wall: the discrete Jordan-curve fact behind the inside / outside clues.

  For a set of lattice segments in which every lattice point has an even number of line ends (in particular a
  loop), and for every rectangle of lattice points `{(r, c) | r < m, c < n}`: the number of segments leaving the
  rectangle to the right has the parity of the number of segments leaving it downwards (`rect`).  Hence the
  crossing parity of the vertical ray (going up from a face of the lattice, counting horizontal segments - what
  `solve_castle_wall` propagates) is the crossing parity of the horizontal ray (going left, counting vertical
  segments - the even-odd rule of Spec/PuzzleRules/CastleWall.lean), and both are the same for the faces around a
  lattice point that is not on the line.
-/
import CspuzModel.Proofs.C11LoopDeg
import CspuzModel.Spec.PuzzleRules.CastleWall
namespace Cspuz.Proofs.C11CastleWallPar
open Cspuz Cspuz.Spec Cspuz.Spec.FrameGeom Cspuz.Spec.Loop Cspuz.Proofs

/-! ### parity of a finite sequence of Booleans -/

/-- `f 0 xor f 1 xor … xor f (n-1)`. -/
def xf (f : Nat → Bool) : Nat → Bool
  | 0 => false
  | n + 1 => xor (xf f n) (f n)

theorem xf_false : ∀ n, xf (fun _ => false) n = false
  | 0 => rfl
  | n + 1 => by simp [xf, xf_false n]

theorem xf_congr {f g : Nat → Bool} : ∀ n, (∀ i, i < n → f i = g i) → xf f n = xf g n
  | 0, _ => rfl
  | n + 1, h => by
    simp only [xf]
    rw [xf_congr n (fun i hi => h i (by omega)), h n (by omega)]

theorem xf_xor (f g : Nat → Bool) : ∀ n, xf (fun i => xor (f i) (g i)) n = xor (xf f n) (xf g n)
  | 0 => rfl
  | n + 1 => by
    simp only [xf, xf_xor f g n]
    cases xf f n <;> cases xf g n <;> cases f n <;> cases g n <;> rfl

theorem xf_count (f : Nat → Bool) : ∀ n, xf f n = decide ((List.range n).countP f % 2 = 1)
  | 0 => rfl
  | n + 1 => by
    rw [xf, xf_count f n, List.range_succ, List.countP_append]
    simp only [List.countP_cons, List.countP_nil, Nat.zero_add]
    cases hf : f n
    · simp
    · simp only [if_true, Bool.xor_true]
      rw [Bool.eq_iff_iff]
      simp only [Bool.not_eq_true', decide_eq_false_iff_not, decide_eq_true_eq]
      omega

theorem xf_one (f : Nat → Bool) : xf f 1 = f 0 := by
  show xor false (f 0) = f 0
  simp

theorem xf_add (f : Nat → Bool) (a : Nat) : ∀ b, xf f (a + b) = xor (xf f a) (xf (fun i => f (a + i)) b)
  | 0 => by simp [xf]
  | b + 1 => by
    rw [← Nat.add_assoc, xf, xf_add f a b, xf]
    cases xf f a <;> cases xf (fun i => f (a + i)) b <;> cases f (a + b) <;> rfl

/-- splitting off the middle term. -/
theorem xf_split (f : Nat → Bool) (a k : Nat) :
    xf f (a + (1 + k)) = xor (xor (xf f a) (f a)) (xf (fun j => f (a + (1 + j))) k) := by
  rw [xf_add f a (1 + k), xf_add (fun i => f (a + i)) 1 k, xf_one]
  simp only [Nat.add_zero]
  cases xf f a <;> cases f a <;> cases xf (fun j => f (a + (1 + j))) k <;> rfl

/-! ### the rectangle lemma -/

/-- The four arms of the line at every point of the quarter plane `ℕ × ℕ`: consistent (the arm going down from
`(y, x)` is the arm going up from `(y+1, x)`, …), nothing leaves the quarter plane, and every point has an even number
of arms. -/
structure ArmSys (up down left right : Nat → Nat → Bool) : Prop where
  up0 : ∀ x, up 0 x = false
  left0 : ∀ y, left y 0 = false
  ud : ∀ y x, up (y + 1) x = down y x
  lr : ∀ y x, left y (x + 1) = right y x
  even : ∀ y x, xor (xor (up y x) (down y x)) (xor (left y x) (right y x)) = false

variable {up down left right : Nat → Nat → Bool}

/-- One column of points `(r, x)`, `r < m`: the horizontal arms sticking out of it have the parity of the one vertical
arm leaving it at the bottom. -/
theorem col (S : ArmSys up down left right) (x : Nat) :
    ∀ m, xf (fun r => xor (left r x) (right r x)) m = up m x
  | 0 => (S.up0 x).symm
  | m + 1 => by
    rw [xf, col S x m, S.ud]
    have := S.even m x
    revert this
    cases up m x <;> cases down m x <;> cases left m x <;> cases right m x <;> simp

/-- The rectangle of points `(r, c)`, `r < m`, `c < n`: the segments leaving it to the right have the parity of the
segments leaving it downwards. -/
theorem rect (S : ArmSys up down left right) (m : Nat) :
    ∀ n, xf (fun r => left r n) m = xf (fun c => up m c) n
  | 0 => by
    rw [xf_congr (g := fun _ => false) m (fun r _ => S.left0 r), xf_false]
    rfl
  | n + 1 => by
    rw [xf, ← rect S m n, ← col S n m, ← xf_xor]
    apply xf_congr
    intro r _
    rw [S.lr]
    cases left r n <;> cases right r n <;> rfl

/-! ### the arms of a line on the `(H+1) × (W+1)` lattice -/

section Lattice
variable (H W : Nat) (on : Seg → Bool)

/-- "the segment exists and is drawn". -/
def gon (s : Seg) : Bool := decide (s.Valid H W) && on s

def gup (y x : Nat) : Bool := decide (0 < y) && gon H W on (Seg.v (y - 1) x)
def gdown (y x : Nat) : Bool := gon H W on (Seg.v y x)
def gleft (y x : Nat) : Bool := decide (0 < x) && gon H W on (Seg.h y (x - 1))
def gright (y x : Nat) : Bool := gon H W on (Seg.h y x)

theorem gup_eq {y x : Nat} (hy : y ≤ H) (hx : x ≤ W) : gup H W on y x = arm H W on (y, x) .up := by
  unfold gup gon arm Seg.Valid
  by_cases h : 0 < y
  · have : y - 1 < H ∧ x ≤ W := ⟨by omega, hx⟩
    simp [h, this]
  · simp [h]

theorem gdown_eq {y x : Nat} (_hy : y ≤ H) (hx : x ≤ W) : gdown H W on y x = arm H W on (y, x) .down := by
  unfold gdown gon arm Seg.Valid
  by_cases h : y < H <;> simp [h, hx]

theorem gleft_eq {y x : Nat} (hy : y ≤ H) (hx : x ≤ W) : gleft H W on y x = arm H W on (y, x) .left := by
  unfold gleft gon arm Seg.Valid
  by_cases h : 0 < x
  · have : y ≤ H ∧ x - 1 < W := ⟨hy, by omega⟩
    simp [h, this]
  · simp [h]

theorem gright_eq {y x : Nat} (hy : y ≤ H) (_hx : x ≤ W) : gright H W on y x = arm H W on (y, x) .right := by
  unfold gright gon arm Seg.Valid
  by_cases h : x < W <;> simp [h, hy]

theorem garms_outside {y x : Nat} (h : ¬ (y ≤ H ∧ x ≤ W)) :
    gup H W on y x = false ∧ gdown H W on y x = false ∧ gleft H W on y x = false ∧ gright H W on y x = false := by
  unfold gup gdown gleft gright gon Seg.Valid
  have h1 : ¬ (y - 1 < H ∧ x ≤ W) ∨ ¬ 0 < y := by omega
  have h2 : ¬ (y < H ∧ x ≤ W) := by omega
  have h3 : ¬ (y ≤ H ∧ x - 1 < W) ∨ ¬ 0 < x := by omega
  have h4 : ¬ (y ≤ H ∧ x < W) := by omega
  refine ⟨?_, by simp [h2], ?_, by simp [h4]⟩
  · rcases h1 with h1 | h1 <;> simp [h1]
  · rcases h3 with h3 | h3 <;> simp [h3]

/-- The arms of a loop form an `ArmSys`. -/
theorem armSys_of_loop (hl : IsLoop H W on) :
    ArmSys (gup H W on) (gdown H W on) (gleft H W on) (gright H W on) := by
  refine ⟨fun x => by simp [gup], fun y => by simp [gleft], fun y x => by simp [gup, gdown],
    fun y x => by simp [gleft, gright], ?_⟩
  intro y x
  by_cases hv : y ≤ H ∧ x ≤ W
  · rw [gup_eq H W on hv.1 hv.2, gdown_eq H W on hv.1 hv.2, gleft_eq H W on hv.1 hv.2, gright_eq H W on hv.1 hv.2]
    have := C11LoopDeg.arms_of_loop H W on hl (y, x) hv
    revert this
    cases arm H W on (y, x) .up <;> cases arm H W on (y, x) .down <;> cases arm H W on (y, x) .left <;>
      cases arm H W on (y, x) .right <;> simp [Bool.toNat]
  · obtain ⟨a, b, c, d⟩ := garms_outside H W on hv
    rw [a, b, c, d]; rfl

/-- Crossing parity of the ray going UP from the face `(fy, fx)` of the lattice (the unit square with the corners
`(fy, fx)`, `(fy+1, fx+1)`): the horizontal segments `(r, fx) - (r, fx+1)`, `r ≤ fy`.  This is what `solve_castle_wall`
calls `is_inside[fy, fx]`. -/
def faceUp (fy fx : Nat) : Bool := xf (fun r => on (Seg.h r fx)) (fy + 1)

/-- Crossing parity of the ray going LEFT from the face `(fy, fx)`: the vertical segments `(fy, c) - (fy+1, c)`,
`c ≤ fx`. -/
def faceLeft (fy fx : Nat) : Bool := xf (fun c => on (Seg.v fy c)) (fx + 1)

/-- The two rays from a face of the lattice see the same crossing parity. -/
theorem faceUp_eq_faceLeft (hl : IsLoop H W on) {fy fx : Nat} (hy : fy < H) (hx : fx < W) :
    faceUp on fy fx = faceLeft on fy fx := by
  have h := rect (armSys_of_loop H W on hl) (fy + 1) (fx + 1)
  unfold faceUp faceLeft
  rw [xf_congr (g := fun r => gleft H W on r (fx + 1)) (fy + 1), h]
  · apply xf_congr
    intro c hc
    have : fy < H ∧ c ≤ W := ⟨hy, by omega⟩
    simp [gup, gon, Seg.Valid, this]
  · intro r hr
    have : r ≤ H ∧ fx < W := ⟨by omega, hx⟩
    simp [gleft, gon, Seg.Valid, this]

theorem faceUp_eq_arms (hl : IsLoop H W on) {fy fx : Nat} (hy : fy < H) (hx : fx < W) :
    faceUp on fy fx = xf (fun c => arm H W on (fy + 1, c) .up) (fx + 1) := by
  rw [faceUp_eq_faceLeft H W on hl hy hx]
  unfold faceLeft
  apply xf_congr
  intro c _
  simp [arm]

theorem arms_of_not_onLoop {p : Pt} (h : onLoop H W on p = false) (d : Dir) : arm H W on p d = false := by
  unfold onLoop pointSegs at h
  rw [List.any_eq_false] at h
  cases hb : arm H W on p d
  · rfl
  · exfalso
    cases d <;> simp only [arm, Bool.and_eq_true, decide_eq_true_eq] at hb
    · exact h (Seg.v (p.1 - 1) p.2) (by simp [hb.1]) hb.2
    · exact h (Seg.v p.1 p.2) (by simp [hb.1]) hb.2
    · exact h (Seg.h p.1 (p.2 - 1)) (by simp [hb.1]) hb.2
    · exact h (Seg.h p.1 p.2) (by simp [hb.1]) hb.2

/-- THE LEMMA: for a cell centre `(y, x)` that is not on the loop, the face of the lattice the solver looks at - the
one up-left of the point, or the nearest one when the point is in the first row / column - has the crossing parity
(vertical ray, horizontal segments) that the even-odd rule of the specification (horizontal ray, vertical segments)
gives for the point. -/
theorem faceUp_eq_inside (hl : IsLoop H W on) (hW : 1 ≤ W) {y x : Nat} (hy : y ≤ H) (hx : x ≤ W)
    (hoff : onLoop H W on (y, x) = false) :
    faceUp on (y - 1) (x - 1) = CastleWall.inside H W on (y, x) := by
  have harm := arms_of_not_onLoop H W on hoff
  unfold CastleWall.inside CastleWall.crossings
  rw [← xf_count]
  simp only []
  rcases Nat.eq_zero_or_pos y with rfl | hy0
  · -- first row: no segment above
    rw [xf_congr (g := fun _ => false) x (fun c _ => by simp [arm]), xf_false]
    have e0 : ∀ fx, faceUp on (0 - 1) fx = on (Seg.h 0 fx) := fun fx => xf_one _
    rw [e0]
    rcases Nat.eq_zero_or_pos x with rfl | hx0
    · have := harm .right
      simp only [arm, Bool.and_eq_false_iff, decide_eq_false_iff_not] at this
      rcases this with h | h
      · omega
      · exact h
    · have := harm .left
      simp only [arm, Bool.and_eq_false_iff, decide_eq_false_iff_not] at this
      rcases this with h | h
      · omega
      · exact h
  · rcases Nat.eq_zero_or_pos x with rfl | hx0
    · -- first column: the ray to the left meets nothing
      rw [faceUp_eq_arms H W on hl (by omega : y - 1 < H) (by omega : 0 - 0 < W)]
      have e : y - 1 + 1 = y := by omega
      rw [e]
      exact (xf_one _).trans (harm .up)
    · rw [faceUp_eq_arms H W on hl (by omega : y - 1 < H) (by omega : x - 1 < W)]
      have e : y - 1 + 1 = y := by omega
      have e' : x - 1 + 1 = x := by omega
      rw [e, e']

/-! ### further rays: the even-odd rule does not depend on the ray chosen -/

/-- The ray to the left just BELOW the centre line of the row sees the same parity as the one just above. -/
theorem crossings_below (hl : IsLoop H W on) {y x : Nat} (hy : y ≤ H) (hx : x ≤ W)
    (hoff : onLoop H W on (y, x) = false) :
    CastleWall.inside H W on (y, x) = xf (fun c => arm H W on (y, c) .down) x := by
  have S := armSys_of_loop H W on hl
  unfold CastleWall.inside CastleWall.crossings
  rw [← xf_count]
  simp only []
  -- rectangles of height `y` and `y + 1`, width `x`
  have h1 := rect S y x
  have h2 := rect S (y + 1) x
  rw [xf_congr (g := fun c => gup H W on y c) x (fun c hc => (gup_eq H W on hy (by omega)).symm), ← h1,
    xf_congr (g := fun c => gup H W on (y + 1) c) x
      (fun c hc => by rw [S.ud, gdown_eq H W on hy (by omega)]), ← h2]
  simp only [xf]
  have : gleft H W on y x = false := by
    rw [gleft_eq H W on hy hx]; exact arms_of_not_onLoop H W on hoff .left
  rw [this]
  simp

/-- The even-odd rule does not depend on the ray: left-above (the definition) = left-below = up (just left of the
column) = right-above = down (just left of the column). -/
theorem ray_invariance :
    ∀ (H W : Nat) (on : Seg → Bool), IsLoop H W on → ∀ y x, y ≤ H → x ≤ W → onLoop H W on (y, x) = false →
      CastleWall.inside H W on (y, x) = xf (fun c => arm H W on (y, c) .down) x ∧
      CastleWall.inside H W on (y, x) = xf (fun j => arm H W on (y, x + (1 + j)) .up) (W - x) ∧
      (1 ≤ x → CastleWall.inside H W on (y, x) = xf (fun r => on (Seg.h r (x - 1))) y ∧
        CastleWall.inside H W on (y, x) = xf (fun j => on (Seg.h (y + (1 + j)) (x - 1))) (H - y)) := by
  intro H W on hl y x hy hx hoff
  have S := armSys_of_loop H W on hl
  have harm := arms_of_not_onLoop H W on hoff
  have hup : 1 ≤ x → CastleWall.inside H W on (y, x) = xf (fun r => on (Seg.h r (x - 1))) y := by
    intro hx1
    rcases Nat.eq_zero_or_pos y with rfl | hy0
    · unfold CastleWall.inside CastleWall.crossings
      rw [← xf_count]
      simp only []
      rw [xf_congr (g := fun _ => false) x (fun c _ => by simp [arm]), xf_false]
      rfl
    · rw [← faceUp_eq_inside H W on hl (by omega) hy hx hoff]
      unfold faceUp
      have e : y - 1 + 1 = y := by omega
      rw [e]
  refine ⟨crossings_below H W on hl hy hx hoff, ?_, fun hx1 => ⟨hup hx1, ?_⟩⟩
  · -- the row `y` has an even number of up-arms
    have htot : xf (fun c => gup H W on y c) (W + 1) = false := by
      rw [← rect S y (W + 1), xf_congr (g := fun _ => false) y
        (fun r _ => (garms_outside H W on (y := r) (x := W + 1) (by omega)).2.2.1), xf_false]
    have e : W + 1 = x + (1 + (W - x)) := by omega
    rw [e, xf_split, gup_eq H W on hy hx, harm .up] at htot
    unfold CastleWall.inside CastleWall.crossings
    rw [← xf_count]
    simp only []
    rw [xf_congr (g := fun c => gup H W on y c) x (fun c hc => (gup_eq H W on hy (by omega)).symm),
      xf_congr (g := fun j => gup H W on y (x + (1 + j))) (W - x)
        (fun j hj => (gup_eq H W on hy (by omega)).symm)]
    revert htot
    cases xf (fun c => gup H W on y c) x <;> cases xf (fun j => gup H W on y (x + (1 + j))) (W - x) <;> simp
  · -- the column of steps `(r, x-1) - (r, x)` has an even number of drawn steps
    have htot : xf (fun r => gleft H W on r x) (H + 1) = false := by
      rw [rect S (H + 1) x, xf_congr (g := fun _ => false) x
        (fun c _ => (garms_outside H W on (y := H + 1) (x := c) (by omega)).1), xf_false]
    have e : H + 1 = y + (1 + (H - y)) := by omega
    rw [e, xf_split, gleft_eq H W on hy hx, harm .left] at htot
    rw [hup hx1]
    have hg : ∀ r, r ≤ H → gleft H W on r x = on (Seg.h r (x - 1)) := by
      intro r hr
      have : r ≤ H ∧ x - 1 < W := ⟨hr, by omega⟩
      have h0 : 0 < x := hx1
      simp [gleft, gon, Seg.Valid, this, h0]
    rw [← xf_congr (f := fun r => gleft H W on r x) y (fun r hr => hg r (by omega)),
      ← xf_congr (f := fun j => gleft H W on (y + (1 + j)) x) (H - y) (fun j hj => hg _ (by omega))]
    revert htot
    cases xf (fun r => gleft H W on r x) y <;> cases xf (fun j => gleft H W on (y + (1 + j)) x) (H - y) <;> simp

end Lattice

end Cspuz.Proofs.C11CastleWallPar
