/-
  C11 / LITS — classification of the tetrominoes: two tetrominoes (four orthogonally connected cells, not a
  2 × 2 square) are congruent under a symmetry of the square lattice followed by a translation iff their
  codes (number of straight middles, existence of a cell with three neighbours) agree.

  Plan: `SameShape` is symmetric and transitive (`C11LitsShapeSym`), the code is invariant under `SameShape`
  (`C11LitsShapeInv`); here: every tetromino is congruent to one of the four canonical shapes I, L, S, T
  (its adjacency graph has three edges and no isolated cell (`C11LitsG.counts_of_connected`), hence is a star
  or a path; a finite check over the unit steps of the star / path gives the symmetry), and the codes of the
  four canonical shapes are pairwise different.
-/
import Mathlib.Data.Set.Card
import Mathlib.Data.Fintype.Basic
import Mathlib.Tactic.Abel
import CspuzModel.Spec.PuzzleRules.Lits
import CspuzModel.Proofs.C11LitsG
import CspuzModel.Proofs.C11LitsShapeSym
import CspuzModel.Proofs.C11LitsShapeInv
namespace Cspuz.Proofs.C11LitsShape
open Cspuz Cspuz.Spec Cspuz.Spec.Lits Cspuz.Proofs.C11LitsG Cspuz.Proofs.C11LitsShapeSym
  Cspuz.Proofs.C11LitsShapeInv

/-- `S` contains no 2 × 2 square. -/
def NoSqSet (S : Set (Nat × Nat)) : Prop :=
  ¬ ∃ y x, (y, x) ∈ S ∧ (y, x + 1) ∈ S ∧ (y + 1, x) ∈ S ∧ (y + 1, x + 1) ∈ S

/-! ### the four canonical shapes and their codes -/

/-- The four tetromino shapes of LITS. -/
inductive Shape where
  | I | L | S | T
  deriving DecidableEq

/-- The cells of the canonical tetromino of a shape. -/
def canonList : Shape → List (Nat × Nat)
  | .I => [(0, 0), (0, 1), (0, 2), (0, 3)]
  | .L => [(0, 0), (0, 1), (0, 2), (1, 2)]
  | .S => [(0, 0), (0, 1), (1, 1), (1, 2)]
  | .T => [(0, 1), (0, 0), (0, 2), (1, 1)]

/-- The canonical tetromino of a shape. -/
def canon (k : Shape) : Set (Nat × Nat) := {x | x ∈ canonList k}

theorem ncard_list (L : List (Nat × Nat)) (hnd : L.Nodup) : {x | x ∈ L}.ncard = L.length := by
  have h : {x | x ∈ L} = (↑L.toFinset : Set (Nat × Nat)) := by
    ext x
    simp
  rw [h, Set.ncard_coe_finset, List.toFinset_card_of_nodup hnd]

theorem finite_list (L : List (Nat × Nat)) : {x | x ∈ L}.Finite := L.finite_toSet

theorem straightCount_list (L : List (Nat × Nat)) (hnd : L.Nodup) :
    straightCount {x | x ∈ L} = (L.filter (midB L)).length := by
  have h : {p | StraightMid {x | x ∈ L} p} = {x | x ∈ L.filter (midB L)} := by
    ext p
    simp only [Set.mem_ofPred_eq, List.mem_filter, midB_iff]
    exact ⟨fun h => ⟨h.1, h⟩, fun h => h.2⟩
  rw [straightCount, h, ncard_list _ (hnd.filter _)]

theorem hasT_list (L : List (Nat × Nat)) (hnd : L.Nodup) :
    HasT {x | x ∈ L} ↔ ∃ p ∈ L, 3 ≤ (L.filter (adjB p)).length := by
  have h : ∀ p, {q | q ∈ {x | x ∈ L} ∧ cellGraph.Adj p q}.ncard = (L.filter (adjB p)).length := by
    intro p
    rw [← ncard_list _ (hnd.filter _)]
    congr 1
    ext q
    simp only [Set.mem_ofPred_eq, List.mem_filter, adjB_iff]
  constructor
  · rintro ⟨p, hp, h3⟩
    exact ⟨p, hp, by rwa [h] at h3⟩
  · rintro ⟨p, hp, h3⟩
    exact ⟨p, hp, by rwa [h]⟩

theorem canon_straightCount (k : Shape) :
    straightCount (canon k) = match k with | .I => 2 | .L => 1 | .S => 0 | .T => 1 := by
  cases k <;> rw [canon, straightCount_list _ (by decide)] <;> decide

theorem canon_hasT (k : Shape) : HasT (canon k) ↔ k = .T := by
  cases k <;> rw [canon, hasT_list _ (by decide)] <;> decide

theorem canon_code_inj {i j : Shape} (h : SameCode (canon i) (canon j)) : i = j := by
  obtain ⟨h1, h2⟩ := h
  rw [canon_straightCount, canon_straightCount] at h1
  rw [canon_hasT, canon_hasT] at h2
  cases i <;> cases j <;> simp_all

/-! ### unit steps as Booleans, and the two finite checks -/

/-- The four unit vectors: `ax` = along the first coordinate, `ng` = negative direction. -/
def dirVec (ax ng : Bool) : Int × Int :=
  if ax then (if ng then (-1, 0) else (1, 0)) else (if ng then (0, -1) else (0, 1))

instance : DecidablePred IsUnitVec := fun d => by unfold IsUnitVec; infer_instance

theorem dir_of_unit {d : Int × Int} (h : IsUnitVec d) : ∃ ax ng, d = dirVec ax ng := by
  rcases h with rfl | rfl | rfl | rfl
  · exact ⟨true, false, rfl⟩
  · exact ⟨true, true, rfl⟩
  · exact ⟨false, false, rfl⟩
  · exact ⟨false, true, rfl⟩

/-- The images of the three difference vectors of a path `x – y – z – w` (from `x`) are those of the canonical
I, L (from either end) or S. -/
def PathAlt (f : Int × Int → Int × Int) (e1 e2 e3 : Int × Int) : Prop :=
  (f e1 = (0, 1) ∧ f e2 = (0, 2) ∧ f e3 = (0, 3)) ∨
  (f e1 = (0, 1) ∧ f e2 = (0, 2) ∧ f e3 = (1, 2)) ∨
  (f e1 = (-1, 0) ∧ f e2 = (-1, -1) ∧ f e3 = (-1, -2)) ∨
  (f e1 = (0, 1) ∧ f e2 = (1, 1) ∧ f e3 = (1, 2))

instance (f : Int × Int → Int × Int) (e1 e2 e3 : Int × Int) : Decidable (PathAlt f e1 e2 e3) := by
  unfold PathAlt; infer_instance

/-- A path of three unit steps that does not turn back and whose ends are not adjacent: some lattice symmetry
maps it onto the canonical I, L or S. -/
theorem path_classify : ∀ a1 n1 a2 n2 a3 n3 : Bool,
    dirVec a1 n1 + dirVec a2 n2 ≠ 0 →
    dirVec a1 n1 + dirVec a2 n2 + dirVec a3 n3 ≠ dirVec a1 n1 →
    ¬ IsUnitVec (dirVec a1 n1 + dirVec a2 n2 + dirVec a3 n3) →
    ∃ s n m : Bool, PathAlt (latticeSym s n m) (dirVec a1 n1) (dirVec a1 n1 + dirVec a2 n2)
      (dirVec a1 n1 + dirVec a2 n2 + dirVec a3 n3) := by
  decide

/-- The images of the three arms of a star are the three arms of the canonical T, in some order. -/
def StarAlt (f : Int × Int → Int × Int) (e1 e2 e3 : Int × Int) : Prop :=
  (f e1 = (0, -1) ∧ f e2 = (0, 1) ∧ f e3 = (1, 0)) ∨
  (f e1 = (0, -1) ∧ f e2 = (1, 0) ∧ f e3 = (0, 1)) ∨
  (f e1 = (0, 1) ∧ f e2 = (0, -1) ∧ f e3 = (1, 0)) ∨
  (f e1 = (0, 1) ∧ f e2 = (1, 0) ∧ f e3 = (0, -1)) ∨
  (f e1 = (1, 0) ∧ f e2 = (0, -1) ∧ f e3 = (0, 1)) ∨
  (f e1 = (1, 0) ∧ f e2 = (0, 1) ∧ f e3 = (0, -1))

instance (f : Int × Int → Int × Int) (e1 e2 e3 : Int × Int) : Decidable (StarAlt f e1 e2 e3) := by
  unfold StarAlt; infer_instance

theorem star_classify : ∀ a1 n1 a2 n2 a3 n3 : Bool,
    dirVec a1 n1 ≠ dirVec a2 n2 → dirVec a1 n1 ≠ dirVec a3 n3 → dirVec a2 n2 ≠ dirVec a3 n3 →
    ∃ s n m : Bool, StarAlt (latticeSym s n m) (dirVec a1 n1) (dirVec a2 n2) (dirVec a3 n3) := by
  decide

/-- A graph on `a, b, c, d` with three edges and no isolated vertex is a star or a path (Boolean form). -/
theorem graph_casesB : ∀ ab ac ad bc bd cd : Bool,
    ab.toNat + ac.toNat + ad.toNat + bc.toNat + bd.toNat + cd.toNat = 3 →
    (ab || ac || ad) = true → (ab || bc || bd) = true → (ac || bc || cd) = true → (ad || bd || cd) = true →
    ((ab && ac && ad) || (ab && bc && bd) || (ac && bc && cd) || (ad && bd && cd) ||
    (ac && cd && bd && !ab) || (ad && cd && bc && !ab) ||
    (ab && bd && cd && !ac) || (ad && bd && bc && !ac) ||
    (ab && bc && cd && !ad) || (ac && bc && bd && !ad) ||
    (ab && ad && cd && !bc) || (bd && ad && ac && !bc) ||
    (ab && ac && cd && !bd) || (bc && ac && ad && !bd) ||
    (ac && ab && bd && !cd) || (bc && ab && ad && !cd)) = true := by
  decide

/-- A graph on `a, b, c, d` with three edges and no isolated vertex is a star (four cases: the centre) or a
path (twelve cases). -/
theorem graph_cases (ab ac ad bc bd cd : Bool)
    (h : ab.toNat + ac.toNat + ad.toNat + bc.toNat + bd.toNat + cd.toNat = 3)
    (h1 : (ab || ac || ad) = true) (h2 : (ab || bc || bd) = true) (h3 : (ac || bc || cd) = true)
    (h4 : (ad || bd || cd) = true) :
    (ab = true ∧ ac = true ∧ ad = true) ∨ (ab = true ∧ bc = true ∧ bd = true) ∨
    (ac = true ∧ bc = true ∧ cd = true) ∨ (ad = true ∧ bd = true ∧ cd = true) ∨
    (ac = true ∧ cd = true ∧ bd = true ∧ ab = false) ∨ (ad = true ∧ cd = true ∧ bc = true ∧ ab = false) ∨
    (ab = true ∧ bd = true ∧ cd = true ∧ ac = false) ∨ (ad = true ∧ bd = true ∧ bc = true ∧ ac = false) ∨
    (ab = true ∧ bc = true ∧ cd = true ∧ ad = false) ∨ (ac = true ∧ bc = true ∧ bd = true ∧ ad = false) ∨
    (ab = true ∧ ad = true ∧ cd = true ∧ bc = false) ∨ (bd = true ∧ ad = true ∧ ac = true ∧ bc = false) ∨
    (ab = true ∧ ac = true ∧ cd = true ∧ bd = false) ∨ (bc = true ∧ ac = true ∧ ad = true ∧ bd = false) ∨
    (ac = true ∧ ab = true ∧ bd = true ∧ cd = false) ∨ (bc = true ∧ ab = true ∧ ad = true ∧ cd = false) := by
  have := graph_casesB ab ac ad bc bd cd h h1 h2 h3 h4
  simpa only [Bool.or_eq_true, Bool.and_eq_true, Bool.not_eq_true', or_assoc, and_assoc] using this

/-! ### a path or a star of cells is congruent to a canonical shape -/

theorem castC_sub_ne_zero {x z : Nat × Nat} (h : x ≠ z) : castC z - castC x ≠ 0 := by
  intro h0
  exact h (castC_injective (sub_eq_zero.1 h0)).symm

theorem castC_sub_ne {x y w : Nat × Nat} (h : y ≠ w) : castC w - castC x ≠ castC y - castC x := by
  intro h0
  exact h (castC_injective (sub_left_injective h0)).symm

theorem mem_canon_iff (k : Shape) (c0 c1 c2 c3 : Nat × Nat) (h : canonList k = [c0, c1, c2, c3])
    (p : Nat × Nat) : p ∈ canon k ↔ p = c0 ∨ p = c1 ∨ p = c2 ∨ p = c3 := by
  show p ∈ canonList k ↔ _
  rw [h]
  simp

/-- Cells `x – y – z – w` forming a path without further adjacency between `x` and `w`. -/
theorem path_shape (S : Set (Nat × Nat)) (x y z w : Nat × Nat)
    (hS : ∀ p, p ∈ S ↔ p = x ∨ p = y ∨ p = z ∨ p = w) (hxz : x ≠ z) (hyw : y ≠ w)
    (h1 : adjB x y = true) (h2 : adjB y z = true) (h3 : adjB z w = true) (h4 : adjB x w = false) :
    ∃ k, SameShape S (canon k) := by
  have u1 := (adj_iff_unit x y).1 ((adjB_iff x y).1 h1)
  have u2 := (adj_iff_unit y z).1 ((adjB_iff y z).1 h2)
  have u3 := (adj_iff_unit z w).1 ((adjB_iff z w).1 h3)
  have u4 : ¬ IsUnitVec (castC w - castC x) := by
    intro hu
    have := (adjB_iff x w).2 ((adj_iff_unit x w).2 hu)
    rw [h4] at this
    exact Bool.false_ne_true this
  have n1 := castC_sub_ne_zero hxz
  have n2 := castC_sub_ne (x := x) hyw
  obtain ⟨a1, b1, d1⟩ := dir_of_unit u1
  obtain ⟨a2, b2, d2⟩ := dir_of_unit u2
  obtain ⟨a3, b3, d3⟩ := dir_of_unit u3
  have e2 : castC z - castC x = dirVec a1 b1 + dirVec a2 b2 := by
    rw [← d1, ← d2]; abel
  have e3 : castC w - castC x = dirVec a1 b1 + dirVec a2 b2 + dirVec a3 b3 := by
    rw [← d1, ← d2, ← d3]; abel
  rw [e2] at n1
  rw [e3, d1] at n2
  rw [e3] at u4
  obtain ⟨s, n, m, h⟩ := path_classify a1 b1 a2 b2 a3 b3 n1 n2 u4
  rw [← e3, ← e2, ← d1] at h
  rcases h with ⟨g1, g2, g3⟩ | ⟨g1, g2, g3⟩ | ⟨g1, g2, g3⟩ | ⟨g1, g2, g3⟩
  · exact ⟨.I, sameShape_of_points S (canon .I) x y z w (0, 0) (0, 1) (0, 2) (0, 3) hS
      (mem_canon_iff .I _ _ _ _ rfl) s n m (g1.trans (by decide)) (g2.trans (by decide))
      (g3.trans (by decide))⟩
  · exact ⟨.L, sameShape_of_points S (canon .L) x y z w (0, 0) (0, 1) (0, 2) (1, 2) hS
      (mem_canon_iff .L _ _ _ _ rfl) s n m (g1.trans (by decide)) (g2.trans (by decide))
      (g3.trans (by decide))⟩
  · exact ⟨.L, sameShape_of_points S (canon .L) x y z w (1, 2) (0, 2) (0, 1) (0, 0) hS
      (fun p => (mem_canon_iff .L _ _ _ _ rfl p).trans (Iff.of_eq (by ac_rfl))) s n m (g1.trans (by decide))
      (g2.trans (by decide)) (g3.trans (by decide))⟩
  · exact ⟨.S, sameShape_of_points S (canon .S) x y z w (0, 0) (0, 1) (1, 1) (1, 2) hS
      (mem_canon_iff .S _ _ _ _ rfl) s n m (g1.trans (by decide)) (g2.trans (by decide))
      (g3.trans (by decide))⟩

/-- A cell `x` with three different neighbours `y`, `z`, `w`. -/
theorem star_shape (S : Set (Nat × Nat)) (x y z w : Nat × Nat)
    (hS : ∀ p, p ∈ S ↔ p = x ∨ p = y ∨ p = z ∨ p = w) (hyz : y ≠ z) (hyw : y ≠ w) (hzw : z ≠ w)
    (h1 : adjB x y = true) (h2 : adjB x z = true) (h3 : adjB x w = true) :
    ∃ k, SameShape S (canon k) := by
  have u1 := (adj_iff_unit x y).1 ((adjB_iff x y).1 h1)
  have u2 := (adj_iff_unit x z).1 ((adjB_iff x z).1 h2)
  have u3 := (adj_iff_unit x w).1 ((adjB_iff x w).1 h3)
  have n1 := (castC_sub_ne (x := x) hyz).symm
  have n2 := (castC_sub_ne (x := x) hyw).symm
  have n3 := (castC_sub_ne (x := x) hzw).symm
  obtain ⟨a1, b1, d1⟩ := dir_of_unit u1
  obtain ⟨a2, b2, d2⟩ := dir_of_unit u2
  obtain ⟨a3, b3, d3⟩ := dir_of_unit u3
  rw [d1, d2] at n1
  rw [d1, d3] at n2
  rw [d2, d3] at n3
  obtain ⟨s, n, m, h⟩ := star_classify a1 b1 a2 b2 a3 b3 n1 n2 n3
  rw [← d1, ← d2, ← d3] at h
  refine ⟨.T, ?_⟩
  rcases h with ⟨g1, g2, g3⟩ | ⟨g1, g2, g3⟩ | ⟨g1, g2, g3⟩ | ⟨g1, g2, g3⟩ | ⟨g1, g2, g3⟩ | ⟨g1, g2, g3⟩
  · exact sameShape_of_points S (canon .T) x y z w (0, 1) (0, 0) (0, 2) (1, 1) hS
      (fun p => (mem_canon_iff .T _ _ _ _ rfl p).trans (Iff.of_eq (by ac_rfl))) s n m (g1.trans (by decide))
      (g2.trans (by decide)) (g3.trans (by decide))
  · exact sameShape_of_points S (canon .T) x y z w (0, 1) (0, 0) (1, 1) (0, 2) hS
      (fun p => (mem_canon_iff .T _ _ _ _ rfl p).trans (Iff.of_eq (by ac_rfl))) s n m (g1.trans (by decide))
      (g2.trans (by decide)) (g3.trans (by decide))
  · exact sameShape_of_points S (canon .T) x y z w (0, 1) (0, 2) (0, 0) (1, 1) hS
      (fun p => (mem_canon_iff .T _ _ _ _ rfl p).trans (Iff.of_eq (by ac_rfl))) s n m (g1.trans (by decide))
      (g2.trans (by decide)) (g3.trans (by decide))
  · exact sameShape_of_points S (canon .T) x y z w (0, 1) (0, 2) (1, 1) (0, 0) hS
      (fun p => (mem_canon_iff .T _ _ _ _ rfl p).trans (Iff.of_eq (by ac_rfl))) s n m (g1.trans (by decide))
      (g2.trans (by decide)) (g3.trans (by decide))
  · exact sameShape_of_points S (canon .T) x y z w (0, 1) (1, 1) (0, 0) (0, 2) hS
      (fun p => (mem_canon_iff .T _ _ _ _ rfl p).trans (Iff.of_eq (by ac_rfl))) s n m (g1.trans (by decide))
      (g2.trans (by decide)) (g3.trans (by decide))
  · exact sameShape_of_points S (canon .T) x y z w (0, 1) (1, 1) (0, 2) (0, 0) hS
      (fun p => (mem_canon_iff .T _ _ _ _ rfl p).trans (Iff.of_eq (by ac_rfl))) s n m (g1.trans (by decide))
      (g2.trans (by decide)) (g3.trans (by decide))

/-! ### every tetromino is congruent to a canonical shape -/

theorem exists_list (S : Set (Nat × Nat)) (h : S.ncard = 4) :
    ∃ L : List (Nat × Nat), L.Nodup ∧ L.length = 4 ∧ S = {x | x ∈ L} := by
  have hfin : S.Finite := Set.finite_of_ncard_ne_zero (by omega)
  refine ⟨hfin.toFinset.toList, Finset.nodup_toList _, ?_, ?_⟩
  · rw [Finset.length_toList, ← Set.ncard_eq_toFinset_card S hfin, h]
  · ext x
    simp

theorem flip {p q : Nat × Nat} (h : adjB p q = true) : adjB q p = true := (adjB_comm q p).trans h

theorem classify (S : Set (Nat × Nat)) (hT : IsTetromino S) (hsq : NoSqSet S) :
    ∃ k, SameShape S (canon k) := by
  obtain ⟨hcard, hconn⟩ := hT
  obtain ⟨L, hnd, hlen, rfl⟩ := exists_list S hcard
  obtain ⟨hnb, hpc⟩ := counts_of_connected L hnd hlen hconn hsq
  obtain ⟨a, b, c, d, rfl, hab, hac, had, hbc, hbd, hcd⟩ := exists_four L hnd hlen
  obtain ⟨hsum, f1, f2, f3, f4⟩ := bool_facts hab hac had hbc hbd hcd hnb hpc
  have hS : ∀ p, p ∈ {x | x ∈ [a, b, c, d]} ↔ p = a ∨ p = b ∨ p = c ∨ p = d := by
    intro p
    simp
  rcases graph_cases _ _ _ _ _ _ hsum f1 f2 f3 f4 with
    ⟨e1, e2, e3⟩ | ⟨e1, e2, e3⟩ | ⟨e1, e2, e3⟩ | ⟨e1, e2, e3⟩ | ⟨e1, e2, e3, e4⟩ | ⟨e1, e2, e3, e4⟩ |
    ⟨e1, e2, e3, e4⟩ | ⟨e1, e2, e3, e4⟩ | ⟨e1, e2, e3, e4⟩ | ⟨e1, e2, e3, e4⟩ | ⟨e1, e2, e3, e4⟩ |
    ⟨e1, e2, e3, e4⟩ | ⟨e1, e2, e3, e4⟩ | ⟨e1, e2, e3, e4⟩ | ⟨e1, e2, e3, e4⟩ | ⟨e1, e2, e3, e4⟩
  -- stars with centre a, b, c, d
  · exact star_shape _ a b c d hS hbc hbd hcd e1 e2 e3
  · exact star_shape _ b a c d (fun p => (hS p).trans (Iff.of_eq (by ac_rfl))) hac had hcd (flip e1) e2 e3
  · exact star_shape _ c a b d (fun p => (hS p).trans (Iff.of_eq (by ac_rfl))) hab had hbd (flip e1) (flip e2) e3
  · exact star_shape _ d a b c (fun p => (hS p).trans (Iff.of_eq (by ac_rfl))) hab hac hbc (flip e1) (flip e2) (flip e3)
  -- paths
  · exact path_shape _ a c d b (fun p => (hS p).trans (Iff.of_eq (by ac_rfl))) had hbc.symm e1 e2 (flip e3) e4
  · exact path_shape _ a d c b (fun p => (hS p).trans (Iff.of_eq (by ac_rfl))) hac hbd.symm e1 (flip e2) (flip e3) e4
  · exact path_shape _ a b d c (fun p => (hS p).trans (Iff.of_eq (by ac_rfl))) had hbc e1 e2 (flip e3) e4
  · exact path_shape _ a d b c (fun p => (hS p).trans (Iff.of_eq (by ac_rfl))) hab hcd.symm e1 (flip e2) e3 e4
  · exact path_shape _ a b c d hS hac hbd e1 e2 e3 e4
  · exact path_shape _ a c b d (fun p => (hS p).trans (Iff.of_eq (by ac_rfl))) hab hcd e1 (flip e2) e3 e4
  · exact path_shape _ b a d c (fun p => (hS p).trans (Iff.of_eq (by ac_rfl))) hbd hac (flip e1) e2 (flip e3) e4
  · exact path_shape _ b d a c (fun p => (hS p).trans (Iff.of_eq (by ac_rfl))) hab.symm hcd.symm e1 (flip e2) e3 e4
  · exact path_shape _ b a c d (fun p => (hS p).trans (Iff.of_eq (by ac_rfl))) hbc had (flip e1) e2 e3 e4
  · exact path_shape _ b c a d (fun p => (hS p).trans (Iff.of_eq (by ac_rfl))) hab.symm hcd e1 (flip e2) e3 e4
  · exact path_shape _ c a b d (fun p => (hS p).trans (Iff.of_eq (by ac_rfl))) hbc.symm had (flip e1) e2 e3 e4
  · exact path_shape _ c b a d (fun p => (hS p).trans (Iff.of_eq (by ac_rfl))) hac.symm hbd (flip e1) (flip e2) e3 e4

/-! ### the classification -/

theorem tetromino_finite {S : Set (Nat × Nat)} (h : IsTetromino S) : S.Finite :=
  Set.finite_of_ncard_ne_zero (by rw [h.1]; omega)

/-- The classification lemma. -/
theorem sameShape_iff_sameCode (A B : Set (Nat × Nat)) (hA : IsTetromino A) (hB : IsTetromino B)
    (hAs : NoSqSet A) (hBs : NoSqSet B) : SameShape A B ↔ SameCode A B := by
  have fA := tetromino_finite hA
  have fB := tetromino_finite hB
  constructor
  · exact sameCode_of_sameShape fA fB
  · intro h
    obtain ⟨i, hi⟩ := classify A hA hAs
    obtain ⟨j, hj⟩ := classify B hB hBs
    have ci := sameCode_of_sameShape fA (finite_list _) hi
    have cj := sameCode_of_sameShape fB (finite_list _) hj
    have hij : i = j :=
      canon_code_inj ⟨ci.1.symm.trans (h.1.trans cj.1), ci.2.symm.trans (h.2.trans cj.2)⟩
    subst hij
    exact sameShape_trans hi (sameShape_symm hj)

end Cspuz.Proofs.C11LitsShape
