/-
  C11 / LITS — classification of the tetrominoes: two tetrominoes (four orthogonally connected cells, not a
  2 × 2 square) are congruent under a symmetry of the square lattice followed by a translation iff their
  codes (number of straight middles, existence of a cell with three neighbours) agree.
-/
import Mathlib.Data.Set.Card
import CspuzModel.Spec.PuzzleRules.Lits
import CspuzModel.Proofs.C11LitsG
namespace Cspuz.Proofs.C11LitsShape
open Cspuz Cspuz.Spec Cspuz.Spec.Lits

/-- `S` contains no 2 × 2 square. -/
def NoSqSet (S : Set (Nat × Nat)) : Prop :=
  ¬ ∃ y x, (y, x) ∈ S ∧ (y, x + 1) ∈ S ∧ (y + 1, x) ∈ S ∧ (y + 1, x + 1) ∈ S

/-- The classification lemma. -/
theorem sameShape_iff_sameCode (A B : Set (Nat × Nat)) (hA : IsTetromino A) (hB : IsTetromino B)
    (hAs : NoSqSet A) (hBs : NoSqSet B) : SameShape A B ↔ SameCode A B := by
  sorry

end Cspuz.Proofs.C11LitsShape
