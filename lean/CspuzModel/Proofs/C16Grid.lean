/-
  C16, the six grid puzzles (nurikabe, sudoku, nurimisaki, slitherlink, masyu, yajilin): every problem of the module's
  format lies in `Dom` of the regenerated combinator, hence (C15 round trip + URL layer)
  `deserialize_<p>(serialize_<p>(pb)) = pb`, the URL has the puzz.link frame and `get_puzzle_info_from_url` recovers the
  name, height and width.
-/
import CspuzModel.Proofs.C16Url
import CspuzModel.Proofs.C15Puzzles
set_option linter.unusedVariables false
namespace Cspuz.Proofs.C16Grid
open Cspuz Cspuz.Ser Cspuz.C16F Cspuz.Codecs Cspuz.Proofs.C16Url

/-! ### generic: a grid whose flattened cells are all accepted lies in `Dom` -/

theorem noBoolL_list_of_rows (rows : List PyVal) (h : noBoolL rows = true) : noBoolL [PyVal.list rows] = true := by
  simp [noBoolL, PyVal.noBool, h]

theorem dom_grid (b : Comb) (h w : Nat) (rows : List PyVal) (hs : GridShape h w rows) (hnb : noBoolL rows = true)
    (ht : ∀ p, Tight b ⟨h, w⟩ (rowsFlat rows) p)
    (htot : ∀ p, p < (rowsFlat rows).length →
      ∃ k t, ser b ⟨h, w⟩ (rowsFlat rows) p = .ok (k, t) ∧ 1 ≤ k ∧ p + k ≤ (rowsFlat rows).length) :
    Dom (.grid b none) h w (.list rows) := by
  obtain ⟨hflat, hflen⟩ := gridFlatten_shape h w rows hs
  refine ⟨⟨noBoolL_list_of_rows rows hnb, ?_⟩, ?_⟩
  · simp only [Tight, gridDims]
    intro rows' h'
    simp at h'
    subst h'
    exact ⟨hs, ht⟩
  · obtain ⟨t, ht'⟩ := seqSerLoop_total (ser b ⟨h, w⟩) (rowsFlat rows) htot ((rowsFlat rows).length + 1) 0 []
      (by omega) (by omega)
    refine ⟨t, ?_⟩
    simp only [ser, gridSer, gridDims, withItem]
    simp [hflat, seqSer, withItem, ← hflen, ht']

/-! ### grids of ints -/

theorem rowsFlat_intGrid (g : List (List Int)) :
    rowsFlat (g.map fun r => PyVal.list (r.map PyVal.int)) = g.flatten.map PyVal.int := by
  induction g with
  | nil => rfl
  | cons r g ih => simp [rowsFlat, ih]

theorem noBoolL_ints (l : List Int) : noBoolL (l.map PyVal.int) = true := by
  induction l with
  | nil => rfl
  | cons a l ih => simp [noBoolL, PyVal.noBool, ih]

theorem noBoolL_intRows (g : List (List Int)) : noBoolL (g.map fun r => PyVal.list (r.map PyVal.int)) = true := by
  induction g with
  | nil => rfl
  | cons r g ih => simp [noBoolL, PyVal.noBool, noBoolL_ints, ih]

theorem gridShape_intGrid {P} {h w : Nat} {g : List (List Int)} (hg : IntGrid P h w g) :
    GridShape h w (g.map fun r => PyVal.list (r.map PyVal.int)) := by
  refine ⟨by simpa using hg.1, ?_⟩
  intro r hr
  obtain ⟨r', hr', rfl⟩ := List.mem_map.mp hr
  exact ⟨_, rfl, by simpa using (hg.2 r' hr').1⟩

theorem mem_flatten_intGrid {P} {h w : Nat} {g : List (List Int)} (hg : IntGrid P h w g) : ∀ v ∈ g.flatten, P v := by
  intro v hv
  obtain ⟨r, hr, hvr⟩ := List.mem_flatten.mp hv
  exact (hg.2 r hr).2 v hvr

theorem gridDimsOf_intGrid {P} {h w : Nat} {g : List (List Int)} (hg : IntGrid P h w g) (hh : 1 ≤ h) :
    gridDimsOf (intGridVal g) = .ok (h, w) := by
  obtain ⟨hlen, hrows⟩ := hg
  cases g with
  | nil => simp at hlen; omega
  | cons r g =>
    have := (hrows r (by simp)).1
    simp only [gridDimsOf, intGridVal, asSeq?, List.map_cons, List.length_cons, List.length_map]
    simp only [List.length_cons] at hlen
    rw [this, hlen]

/-- the item at a position of a list of ints -/
theorem getElem?_ints (l : List Int) (p : Nat) (hp : p < (l.map PyVal.int).length) :
    ∃ v, (l.map PyVal.int)[p]? = some (.int v) ∧ v ∈ l := by
  simp only [List.length_map] at hp
  exact ⟨l[p], by simp [hp], List.getElem_mem hp⟩

/-! ### the leaves on one item -/

theorem withItem_some {β} (d : List PyVal) (i : Nat) (v : PyVal) (k : PyVal → Outcome β) (h : d[i]? = some v) :
    withItem d i k = k v := by
  have hlt := getElem?_lt h
  unfold withItem
  rw [if_neg (by omega), h]

theorem spaces_step (sp : PyVal) (o : Int) (ho : 0 ≤ o) (L : List PyVal) (p : Nat) (v : PyVal) (hv : L[p]? = some v)
    (he : pyEq v sp = true) :
    ∃ k t, spacesSer sp o L p = .ok (k, t) ∧ 1 ≤ k ∧ p + k ≤ L.length := by
  have hlt := getElem?_lt hv
  rw [spacesSer, withItem_some L p v _ hv]
  simp only [he, Bool.not_true, Bool.false_eq_true, if_false]
  have hc := countRun_le_length sp (L.drop (p + 1)) ((35 - o) - 1).toNat
  simp only [List.length_drop] at hc
  refine ⟨1 + countRun sp (L.drop (p + 1)) ((35 - o) - 1).toNat,
    toBase 36 (o + ((1 + countRun sp (L.drop (p + 1)) ((35 - o) - 1).toNat : Nat) : Int)).toNat, ?_, by omega, by omega⟩
  unfold toBase36
  rw [if_neg (by omega)]
  rfl

theorem hexInt_step (L : List PyVal) (p : Nat) (v : Int) (hv : L[p]? = some (.int v)) (h0 : 0 ≤ v) (h1 : v ≤ 4095) :
    ∃ t, hexIntSer L p = .ok (1, t) := by
  rw [hexIntSer, withItem_some L p _ _ hv]
  simp only [asInt?]
  have : (0 ≤ v && v ≤ 4095) = true := by simp [h0, h1]
  simp only [this, Bool.not_true, Bool.false_eq_true, if_false]
  exact ⟨_, rfl⟩

theorem hexInt_none (L : List PyVal) (p : Nat) (v : Int) (hv : L[p]? = some (.int v)) (h0 : v < 0) :
    hexIntSer L p = .none := by
  rw [hexIntSer, withItem_some L p _ _ hv]
  simp only [asInt?]
  have : (0 ≤ v && v ≤ 4095) = false := by
    simp only [Bool.and_eq_false_iff, decide_eq_false_iff_not]; left; omega
  simp [this]

theorem dict1_hit (x : Int) (s : Str) (L : List PyVal) (p : Nat) (hv : L[p]? = some (.int x)) :
    dictSer [.int x] [s] L p = .ok (1, s) := by
  rw [dictSer, withItem_some L p _ _ hv]
  simp [dictSerFind, pyEq]

theorem dict1_miss (x : Int) (s : Str) (L : List PyVal) (p : Nat) (v : Int) (hv : L[p]? = some (.int v)) (hne : v ≠ x) :
    dictSer [.int x] [s] L p = .none := by
  rw [dictSer, withItem_some L p _ _ hv]
  simp [dictSerFind, pyEq, hne]

theorem spaces_miss (sp : PyVal) (o : Int) (L : List PyVal) (p : Nat) (v : PyVal) (hv : L[p]? = some v)
    (he : pyEq v sp = false) : spacesSer sp o L p = .none := by
  rw [spacesSer, withItem_some L p v _ hv]
  simp [he]

theorem intSpaces_step (sp : PyVal) (mi ms : Nat) (L : List PyVal) (p : Nat) (v : Int) (hv : L[p]? = some (.int v))
    (h0 : 0 ≤ v) (h1 : v ≤ mi) :
    ∃ k t, intSpacesSer sp mi ms L p = .ok (k, t) ∧ 1 ≤ k ∧ p + k ≤ L.length := by
  have hlt := getElem?_lt hv
  rw [intSpacesSer, withItem_some L p _ _ hv]
  simp only [asInt?]
  have : (0 ≤ v && v ≤ (mi : Int)) = true := by simp [h0, h1]
  simp only [this, Bool.not_true, Bool.false_eq_true, if_false]
  have hc := countRun_le_length sp (L.drop (p + 1)) ms
  simp only [List.length_drop] at hc
  exact ⟨_, _, rfl, by omega, by omega⟩

/-! ### Dom of the five int-grid formats -/

theorem tight_flat (cs : List Comb) (env : Env) (d : List PyVal) (hcs : ∀ c ∈ cs, ∀ p, Tight c env d p) :
    ∀ p, Tight (.oneOf cs) env d p := by
  intro p
  simp only [Tight]
  induction cs with
  | nil => trivial
  | cons c cs ih =>
    exact ⟨hcs c (by simp) p, ih (fun c' hc' => hcs c' (List.mem_cons_of_mem _ hc'))⟩

theorem dom_nurikabe (h w : Nat) (g : List (List Int)) (hg : IntGrid NurikabeCell h w g) :
    Dom Gen.nurikabeCombinator h w (intGridVal g) := by
  unfold Gen.nurikabeCombinator intGridVal
  apply dom_grid _ h w _ (gridShape_intGrid hg) (noBoolL_intRows g)
  · intro p; simp [Tight, TightAll]
  · rw [rowsFlat_intGrid]
    intro p hp
    obtain ⟨v, hv, hmem⟩ := getElem?_ints g.flatten p hp
    have hP := mem_flatten_intGrid hg v hmem
    simp only [ser, serL, oneOfF]
    by_cases h1 : v = -1
    · subst h1
      rw [dict1_hit (-1) [46] _ p hv]
      exact ⟨1, _, rfl, by omega, by omega⟩
    · rw [dict1_miss (-1) [46] _ p v hv h1]
      by_cases h0 : v = 0
      · subst h0
        obtain ⟨k, t, hk, hk1, hk2⟩ := spaces_step (.int 0) 15 (by omega) _ p _ hv (by simp [pyEq])
        rw [hk]
        exact ⟨k, t, rfl, hk1, hk2⟩
      · rw [spaces_miss (.int 0) 15 _ p _ hv (by simp [pyEq, h0])]
        have : 0 ≤ v ∧ v ≤ 4095 := by rcases hP with h | h <;> omega
        obtain ⟨t, ht⟩ := hexInt_step _ p v hv this.1 this.2
        rw [ht]
        exact ⟨1, t, rfl, by omega, by omega⟩

theorem dom_sudoku (h w : Nat) (g : List (List Int)) (hg : IntGrid SudokuCell h w g) :
    Dom Gen.sudokuCombinator h w (intGridVal g) := by
  unfold Gen.sudokuCombinator intGridVal
  apply dom_grid _ h w _ (gridShape_intGrid hg) (noBoolL_intRows g)
  · intro p; simp [Tight, TightAll]
  · rw [rowsFlat_intGrid]
    intro p hp
    obtain ⟨v, hv, hmem⟩ := getElem?_ints g.flatten p hp
    have hP := mem_flatten_intGrid hg v hmem
    simp only [ser, serL, oneOfF]
    by_cases h0 : v = 0
    · subst h0
      obtain ⟨k, t, hk, hk1, hk2⟩ := spaces_step (.int 0) 15 (by omega) _ p _ hv (by simp [pyEq])
      rw [hk]
      exact ⟨k, t, rfl, hk1, hk2⟩
    · rw [spaces_miss (.int 0) 15 _ p _ hv (by simp [pyEq, h0])]
      obtain ⟨t, ht⟩ := hexInt_step _ p v hv hP.1 hP.2
      rw [ht]
      exact ⟨1, t, rfl, by omega, by omega⟩

theorem dom_nurimisaki (h w : Nat) (g : List (List Int)) (hg : IntGrid NurimisakiCell h w g) :
    Dom Gen.nurimisakiCombinator h w (intGridVal g) := by
  unfold Gen.nurimisakiCombinator intGridVal
  apply dom_grid _ h w _ (gridShape_intGrid hg) (noBoolL_intRows g)
  · intro p; simp [Tight, TightAll]
  · rw [rowsFlat_intGrid]
    intro p hp
    obtain ⟨v, hv, hmem⟩ := getElem?_ints g.flatten p hp
    have hP := mem_flatten_intGrid hg v hmem
    simp only [ser, serL, oneOfF]
    by_cases h0 : v = 0
    · subst h0
      rw [dict1_hit 0 [46] _ p hv]
      exact ⟨1, _, rfl, by omega, by omega⟩
    · rw [dict1_miss 0 [46] _ p v hv h0]
      by_cases h1 : v = -1
      · subst h1
        obtain ⟨k, t, hk, hk1, hk2⟩ := spaces_step (.int (-1)) 15 (by omega) _ p _ hv (by simp [pyEq])
        rw [hk]
        exact ⟨k, t, rfl, hk1, hk2⟩
      · rw [spaces_miss (.int (-1)) 15 _ p _ hv (by simp [pyEq, h1])]
        obtain ⟨t, ht⟩ := hexInt_step _ p v hv (by have := hP.1; omega) hP.2
        rw [ht]
        exact ⟨1, t, rfl, by omega, by omega⟩

theorem dom_slitherlink (h w : Nat) (g : List (List Int)) (hg : IntGrid SlitherCell h w g) :
    Dom Gen.slitherlinkCombinator h w (intGridVal g) := by
  unfold Gen.slitherlinkCombinator intGridVal
  apply dom_grid _ h w _ (gridShape_intGrid hg) (noBoolL_intRows g)
  · intro p; simp [Tight, TightAll]
  · rw [rowsFlat_intGrid]
    intro p hp
    obtain ⟨v, hv, hmem⟩ := getElem?_ints g.flatten p hp
    have hP := mem_flatten_intGrid hg v hmem
    simp only [ser, serL, oneOfF]
    by_cases h1 : v = -1
    · subst h1
      obtain ⟨k, t, hk, hk1, hk2⟩ := spaces_step (.int (-1)) 15 (by omega) _ p _ hv (by simp [pyEq])
      rw [hk]
      exact ⟨k, t, rfl, hk1, hk2⟩
    · rw [spaces_miss (.int (-1)) 15 _ p _ hv (by simp [pyEq, h1])]
      obtain ⟨k, t, hk, hk1, hk2⟩ := intSpaces_step (.int (-1)) 4 2 _ p v hv (by have := hP.1; omega)
        (by have := hP.2; omega)
      rw [hk]
      exact ⟨k, t, rfl, hk1, hk2⟩

/-- `mdPack` succeeds on ints below the base -/
theorem mdPack_small (base : Nat) : ∀ (k : Nat) (items : List Int) (acc : Nat),
    (∀ v ∈ items, 0 ≤ v ∧ v < (base : Int)) → ∃ val, mdPack base k (items.map PyVal.int) acc = .ok val := by
  intro k
  induction k with
  | zero => intro items acc _; exact ⟨acc, rfl⟩
  | succ k ih =>
    intro items acc hb
    cases items with
    | nil => simp only [List.map_nil, mdPack]; exact ih [] _ (by intro v hv; cases hv)
    | cons x r =>
      have hx := hb x (by simp)
      simp only [List.map_cons, mdPack, asInt?]
      have : (0 ≤ x && x < (base : Int)) = true := by simp [hx.1, hx.2]
      simp only [this, if_true]
      exact ih r _ (fun v hv => hb v (List.mem_cons_of_mem _ hv))

theorem dom_masyu (h w : Nat) (g : List (List Int)) (hg : IntGrid MasyuCell h w g) :
    Dom Gen.masyuCombinator h w (intGridVal g) := by
  unfold Gen.masyuCombinator intGridVal
  apply dom_grid _ h w _ (gridShape_intGrid hg) (noBoolL_intRows g)
  · intro p; simp [Tight]
  · rw [rowsFlat_intGrid]
    intro p hp
    simp only [ser, multiDigitSer]
    rw [if_neg (by omega), if_neg (by omega)]
    obtain ⟨val, hval⟩ := mdPack_small 3 3 (g.flatten.drop p) 0 (fun v hv => by
      have := mem_flatten_intGrid hg v (List.mem_of_mem_drop hv)
      exact ⟨this.1, by have := this.2; omega⟩)
    rw [← List.map_drop, hval]
    exact ⟨_, _, rfl, by simp at hp ⊢; omega, by simp at hp ⊢; omega⟩

/-! ### yajilin -/

theorem rowsFlat_yGrid (g : List (List YCell)) :
    rowsFlat (g.map fun r => PyVal.list (r.map YCell.val)) = g.flatten.map YCell.val := by
  induction g with
  | nil => rfl
  | cons r g ih => simp [rowsFlat, ih]

theorem noBool_yval (c : YCell) : c.val.noBool = true := by cases c <;> rfl

theorem noBoolL_yvals (l : List YCell) : noBoolL (l.map YCell.val) = true := by
  induction l with
  | nil => rfl
  | cons a l ih => simp [noBoolL, noBool_yval, ih]

theorem noBoolL_yRows (g : List (List YCell)) : noBoolL (g.map fun r => PyVal.list (r.map YCell.val)) = true := by
  induction g with
  | nil => rfl
  | cons r g ih => simp [noBoolL, PyVal.noBool, noBoolL_yvals, ih]

theorem gridShape_yGrid {h w : Nat} {g : List (List YCell)} (hg : YGrid h w g) :
    GridShape h w (g.map fun r => PyVal.list (r.map YCell.val)) := by
  refine ⟨by simpa using hg.1, ?_⟩
  intro r hr
  obtain ⟨r', hr', rfl⟩ := List.mem_map.mp hr
  exact ⟨_, rfl, by simpa using (hg.2 r' hr').1⟩

theorem gridDimsOf_yGrid {h w : Nat} {g : List (List YCell)} (hg : YGrid h w g) (hh : 1 ≤ h) :
    gridDimsOf (yGridVal g) = .ok (h, w) := by
  obtain ⟨hlen, hrows⟩ := hg
  cases g with
  | nil => simp at hlen; omega
  | cons r g =>
    have := (hrows r (by simp)).1
    simp only [gridDimsOf, yGridVal, asSeq?, List.map_cons, List.length_cons, List.length_map]
    simp only [List.length_cons] at hlen
    rw [this, hlen]

theorem toBase10_length_le (n : Nat) (hn : n ≤ 255) : (toBase 10 n).length ≤ 4300 := by
  rw [toBase_length]
  by_cases h1 : n < 10
  · rw [digits_length_of_lt 10 n (by omega) h1]; omega
  · rw [digits_length_of_ge 10 n (by omega) (by omega)]
    by_cases h2 : n / 10 < 10
    · rw [digits_length_of_lt 10 _ (by omega) h2]; omega
    · rw [digits_length_of_ge 10 _ (by omega) (by omega), digits_length_of_lt 10 _ (by omega) (by omega)]; omega

theorem charOfDir_cases (d : Nat) (h1 : 1 ≤ d) (h4 : d ≤ 4) :
    dirOfChar (charOfDir d) = some d ∧ charOfDir d ≠ 46 ∧ charOfDir d ≠ 63 := by
  have : d = 1 ∨ d = 2 ∨ d = 3 ∨ d = 4 := by omega
  rcases this with rfl | rfl | rfl | rfl <;> decide

theorem all_isAsciiDigit_toBase10 (n : Nat) : (toBase 10 n).all isAsciiDigit = true := by
  rw [List.all_eq_true]
  intro c hc
  have := toBase10_ascii n c hc
  simp [isAsciiDigit, this.1, this.2]

theorem pyInt_dot : pyInt [46] = .raised .valueError := by rfl
theorem pyInt_qm : pyInt [63] = .raised .valueError := by rfl

theorem yajilinCanon_yvals (l : List YCell) (p : Nat) (hl : ∀ c ∈ l, c.Ok) : YajilinCanon (l.map YCell.val) p := by
  intro c rest n hc hn
  rw [List.getElem?_map] at hc
  cases hcell : l[p]? with
  | none => rw [hcell] at hc; cases hc
  | some cell =>
    rw [hcell] at hc
    simp only [Option.map_some, Option.some.injEq] at hc
    cases cell with
    | empty =>
      simp only [YCell.val, PyVal.str.injEq, List.cons.injEq] at hc
      obtain ⟨_, rfl⟩ := hc
      rw [pyInt_dot] at hn; cases hn
    | unknown =>
      simp only [YCell.val, PyVal.str.injEq, List.cons.injEq] at hc
      obtain ⟨_, rfl⟩ := hc
      rw [pyInt_qm] at hn; cases hn
    | arrow d m =>
      simp only [YCell.val, PyVal.str.injEq, List.cons.injEq] at hc
      obtain ⟨_, rfl⟩ := hc
      have hok := hl _ (List.mem_of_getElem? hcell)
      rw [pyInt_toBase10 m (toBase10_length_le m hok.2.2)] at hn
      simp only [Outcome.ok.injEq] at hn
      rw [hn]

theorem yajilin_step (L : List YCell) (p : Nat) (hp : p < (L.map YCell.val).length) (hl : ∀ c ∈ L, c.Ok) :
    ∃ k t, oneOfF [yajilinSer, spacesSer (.str [46, 46]) 9] (L.map YCell.val) p = .ok (k, t) ∧ 1 ≤ k ∧
      p + k ≤ (L.map YCell.val).length := by
  have hp' : p < L.length := by simpa using hp
  have hlen : (L.map YCell.val).length = L.length := by simp
  have hv : (L.map YCell.val)[p]? = some (L[p].val) := by simp [hp']
  have hok := hl L[p] (List.getElem_mem hp')
  simp only [oneOfF]
  cases hcell : L[p] with
  | empty =>
    rw [hcell] at hv
    have : yajilinSer (L.map YCell.val) p = .none := by
      unfold yajilinSer
      rw [if_neg (by omega), hv]
      simp [YCell.val, pyEq]
    rw [this]
    obtain ⟨k, t, hk, hk1, hk2⟩ := spaces_step (.str [46, 46]) 9 (by omega) _ p _ hv (by simp [YCell.val, pyEq])
    rw [hk]
    exact ⟨k, t, rfl, hk1, hk2⟩
  | unknown =>
    rw [hcell] at hv
    have : yajilinSer (L.map YCell.val) p = .ok (1, [48, 46]) := by
      unfold yajilinSer
      rw [if_neg (by omega), hv]
      simp [YCell.val, pyEq, qq]
    rw [this]
    exact ⟨1, _, rfl, by omega, by omega⟩
  | arrow d n =>
    rw [hcell] at hv hok
    obtain ⟨hd1, hd4, hn⟩ := hok
    obtain ⟨hdir, hne46, hne63⟩ := charOfDir_cases d hd1 hd4
    have hne : toBase 10 n ≠ [] := toBase_ne_nil 10 n (by omega)
    have : ∃ t, yajilinSer (L.map YCell.val) p = .ok (1, t) := by
      unfold yajilinSer
      rw [if_neg (by omega), hv]
      have e1 : pyEq (.str (charOfDir d :: toBase 10 n)) (.str [46, 46]) = false := by
        simp [pyEq, hne46]
      have e2 : pyEq (.str (charOfDir d :: toBase 10 n)) (.str qq) = false := by
        simp [pyEq, qq, hne63]
      simp only [YCell.val]
      simp only [e1, e2, Bool.false_eq_true, if_false, hdir]
      have e3 : ((toBase 10 n).isEmpty || !(toBase 10 n).all isAsciiDigit) = false := by
        rw [all_isAsciiDigit_toBase10]
        cases h : toBase 10 n with
        | nil => exact absurd h hne
        | cons _ _ => rfl
      simp only [e3, Bool.false_eq_true, if_false, pyInt_toBase10 n (toBase10_length_le n hn)]
      simp only [Outcome.bind]
      by_cases h16 : n < 16
      · rw [if_pos h16]; exact ⟨_, rfl⟩
      · rw [if_neg h16, if_pos (by omega)]; exact ⟨_, rfl⟩
    obtain ⟨t, ht⟩ := this
    rw [ht]
    exact ⟨1, t, rfl, by omega, by omega⟩

theorem dom_yajilin (h w : Nat) (g : List (List YCell)) (hg : YGrid h w g) :
    Dom Gen.yajilinCombinator h w (yGridVal g) := by
  unfold Gen.yajilinCombinator yGridVal
  have hall : ∀ c ∈ g.flatten, c.Ok := by
    intro c hc
    obtain ⟨r, hr, hcr⟩ := List.mem_flatten.mp hc
    exact (hg.2 r hr).2 c hcr
  apply dom_grid _ h w _ (gridShape_yGrid hg) (noBoolL_yRows g)
  · intro p
    simp only [Tight, TightAll, and_true]
    rw [rowsFlat_yGrid]
    exact yajilinCanon_yvals g.flatten p hall
  · rw [rowsFlat_yGrid]
    intro p hp
    simp only [ser, serL]
    exact yajilin_step g.flatten p hp hall

/-! ### the round trip through the URL functions -/

/-- **generic**: a codec over a `Rooms`-free well-formed term round-trips every problem in `Dom` through
`serialize_<p>` / `deserialize_<p>`, with the puzz.link frame and the dimensions recovered by `get_puzzle_info_from_url` -/
theorem grid_codec_roundtrip (pc : Gen.PuzzleCodec) (hwf : wf pc.comb = true) (hnr : noRooms pc.comb = true)
    (hsg : single pc.comb = true) (hnl : noNL pc.comb = true) (hname : NameOk pc.urlName)
    (hal : ∀ names, pc.allowed = some names → names.contains pc.urlName = true) (hrs : pc.returnSize = false)
    (pb : PyVal) (h w : Nat) (hdims : gridDimsOf pb = .ok (h, w)) (hd : Dom pc.comb h w pb)
    (hdh : DecimalOk h) (hdw : DecimalOk w) :
    ∃ body, serProblem pc.comb pb h w = .ok body ∧
      serializeGridPuzzle pc pb = .ok (defaultPrefix ++ tail pc.urlName w h body) ∧
      deserializePuzzle pc (defaultPrefix ++ tail pc.urlName w h body) = .ok pb ∧
      getPuzzleInfo (defaultPrefix ++ tail pc.urlName w h body) = .ok (pc.urlName, h, w) := by
  obtain ⟨body, hser, _, hde⟩ := roundtrip pc.comb h w pb hwf hnr hsg hd
  refine ⟨body, hser, ?_, ?_, ?_⟩
  · unfold serializeGridPuzzle
    rw [hdims]
    exact serProblemAsUrl_frame pc.comb pc.urlName h w pb defaultPrefix body hser
  · unfold deserializePuzzle
    rw [deProblemAsUrl_frame pc.comb pc.urlName w h body pc.allowed pc.allowFailure pc.returnSize hname hdw hdh
      (serProblem_noNL pc.comb hnl pb h w body hser) hal, hde, hrs]
    rfl
  · exact getPuzzleInfo_frame defaultPrefix pc.urlName w h body (Or.inl rfl) hname hdw hdh

theorem nameOk_of_decide (name : Str) (h : (name ≠ [] ∧ ∀ c ∈ name, c ≠ 47)) : NameOk name := h

theorem roundtrip_nurikabe (h w : Nat) (g : List (List Int)) (hh : 1 ≤ h) (hdh : DecimalOk h) (hdw : DecimalOk w)
    (hg : IntGrid NurikabeCell h w g) :
    ∃ body, serProblem Gen.nurikabeCodec.comb (intGridVal g) h w = .ok body ∧
      serializeGridPuzzle Gen.nurikabeCodec (intGridVal g) = .ok (defaultPrefix ++ tail Gen.nurikabeCodec.urlName w h body) ∧
      deserializePuzzle Gen.nurikabeCodec (defaultPrefix ++ tail Gen.nurikabeCodec.urlName w h body) = .ok (intGridVal g) ∧
      getPuzzleInfo (defaultPrefix ++ tail Gen.nurikabeCodec.urlName w h body) = .ok (Gen.nurikabeCodec.urlName, h, w) :=
  grid_codec_roundtrip Gen.nurikabeCodec (by decide) (by decide) (by decide) (by decide) (nameOk_of_decide _ (by decide)) (by decide) (by decide)
    _ h w (gridDimsOf_intGrid hg hh) (dom_nurikabe h w g hg) hdh hdw

theorem roundtrip_sudoku (h w : Nat) (g : List (List Int)) (hh : 1 ≤ h) (hdh : DecimalOk h) (hdw : DecimalOk w)
    (hg : IntGrid SudokuCell h w g) :
    ∃ body, serProblem Gen.sudokuCodec.comb (intGridVal g) h w = .ok body ∧
      serializeGridPuzzle Gen.sudokuCodec (intGridVal g) = .ok (defaultPrefix ++ tail Gen.sudokuCodec.urlName w h body) ∧
      deserializePuzzle Gen.sudokuCodec (defaultPrefix ++ tail Gen.sudokuCodec.urlName w h body) = .ok (intGridVal g) ∧
      getPuzzleInfo (defaultPrefix ++ tail Gen.sudokuCodec.urlName w h body) = .ok (Gen.sudokuCodec.urlName, h, w) :=
  grid_codec_roundtrip Gen.sudokuCodec (by decide) (by decide) (by decide) (by decide) (nameOk_of_decide _ (by decide)) (by decide) (by decide)
    _ h w (gridDimsOf_intGrid hg hh) (dom_sudoku h w g hg) hdh hdw

theorem roundtrip_nurimisaki (h w : Nat) (g : List (List Int)) (hh : 1 ≤ h) (hdh : DecimalOk h) (hdw : DecimalOk w)
    (hg : IntGrid NurimisakiCell h w g) :
    ∃ body, serProblem Gen.nurimisakiCodec.comb (intGridVal g) h w = .ok body ∧
      serializeGridPuzzle Gen.nurimisakiCodec (intGridVal g) = .ok (defaultPrefix ++ tail Gen.nurimisakiCodec.urlName w h body) ∧
      deserializePuzzle Gen.nurimisakiCodec (defaultPrefix ++ tail Gen.nurimisakiCodec.urlName w h body) = .ok (intGridVal g) ∧
      getPuzzleInfo (defaultPrefix ++ tail Gen.nurimisakiCodec.urlName w h body) = .ok (Gen.nurimisakiCodec.urlName, h, w) :=
  grid_codec_roundtrip Gen.nurimisakiCodec (by decide) (by decide) (by decide) (by decide) (nameOk_of_decide _ (by decide)) (by decide) (by decide)
    _ h w (gridDimsOf_intGrid hg hh) (dom_nurimisaki h w g hg) hdh hdw

theorem roundtrip_slitherlink (h w : Nat) (g : List (List Int)) (hh : 1 ≤ h) (hdh : DecimalOk h) (hdw : DecimalOk w)
    (hg : IntGrid SlitherCell h w g) :
    ∃ body, serProblem Gen.slitherlinkCodec.comb (intGridVal g) h w = .ok body ∧
      serializeGridPuzzle Gen.slitherlinkCodec (intGridVal g) = .ok (defaultPrefix ++ tail Gen.slitherlinkCodec.urlName w h body) ∧
      deserializePuzzle Gen.slitherlinkCodec (defaultPrefix ++ tail Gen.slitherlinkCodec.urlName w h body) = .ok (intGridVal g) ∧
      getPuzzleInfo (defaultPrefix ++ tail Gen.slitherlinkCodec.urlName w h body) = .ok (Gen.slitherlinkCodec.urlName, h, w) :=
  grid_codec_roundtrip Gen.slitherlinkCodec (by decide) (by decide) (by decide) (by decide) (nameOk_of_decide _ (by decide)) (by decide) (by decide)
    _ h w (gridDimsOf_intGrid hg hh) (dom_slitherlink h w g hg) hdh hdw

theorem roundtrip_masyu (h w : Nat) (g : List (List Int)) (hh : 1 ≤ h) (hdh : DecimalOk h) (hdw : DecimalOk w)
    (hg : IntGrid MasyuCell h w g) :
    ∃ body, serProblem Gen.masyuCodec.comb (intGridVal g) h w = .ok body ∧
      serializeGridPuzzle Gen.masyuCodec (intGridVal g) = .ok (defaultPrefix ++ tail Gen.masyuCodec.urlName w h body) ∧
      deserializePuzzle Gen.masyuCodec (defaultPrefix ++ tail Gen.masyuCodec.urlName w h body) = .ok (intGridVal g) ∧
      getPuzzleInfo (defaultPrefix ++ tail Gen.masyuCodec.urlName w h body) = .ok (Gen.masyuCodec.urlName, h, w) :=
  grid_codec_roundtrip Gen.masyuCodec (by decide) (by decide) (by decide) (by decide) (nameOk_of_decide _ (by decide)) (by decide) (by decide)
    _ h w (gridDimsOf_intGrid hg hh) (dom_masyu h w g hg) hdh hdw

theorem roundtrip_yajilin (h w : Nat) (g : List (List YCell)) (hh : 1 ≤ h) (hdh : DecimalOk h) (hdw : DecimalOk w)
    (hg : YGrid h w g) :
    ∃ body, serProblem Gen.yajilinCodec.comb (yGridVal g) h w = .ok body ∧
      serializeGridPuzzle Gen.yajilinCodec (yGridVal g) = .ok (defaultPrefix ++ tail Gen.yajilinCodec.urlName w h body) ∧
      deserializePuzzle Gen.yajilinCodec (defaultPrefix ++ tail Gen.yajilinCodec.urlName w h body) = .ok (yGridVal g) ∧
      getPuzzleInfo (defaultPrefix ++ tail Gen.yajilinCodec.urlName w h body) = .ok (Gen.yajilinCodec.urlName, h, w) :=
  grid_codec_roundtrip Gen.yajilinCodec (by decide) (by decide) (by decide) (by decide) (nameOk_of_decide _ (by decide)) (by decide) (by decide)
    _ h w (gridDimsOf_yGrid hg hh) (dom_yajilin h w g hg) hdh hdw

end Cspuz.Proofs.C16Grid
