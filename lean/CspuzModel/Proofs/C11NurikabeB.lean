/-
  C11 / Nurikabe, part B: meaning, typing and variable locality of the local constraints.
-/
import CspuzModel.Proofs.C11NurikabeA
import CspuzModel.Proofs.C11FragWT
namespace Cspuz.Proofs.C11NurikabeB
open Cspuz Cspuz.Spec Cspuz.Puzzles Cspuz.Puzzles.Nurikabe Cspuz.Spec.Nurikabe Cspuz.Proofs
open Cspuz.Proofs.C11NurikabeA

/-- Region labels read off an assignment. -/
def lab (pb : Problem) (σ : Asg) (y x : Nat) : Int := σ.i (y * pb.width + x)

/-- The white flags read off an assignment. -/
def wht (pb : Problem) (σ : Asg) (y x : Nat) : Bool := σ.b (wb pb + (y * pb.width + x))

/-- Number of cells with label `r`. -/
def cnt (pb : Problem) (L : Nat → Nat → Int) (r : Int) : Nat :=
  (cellsOf pb.height pb.width).countP fun p => decide (L p.1 p.2 = r)

/-- What the local constraints say about labels `L` and white flags `Wt`. -/
def LocSem (pb : Problem) (L : Nat → Nat → Int) (Wt : Nat → Nat → Bool) : Prop :=
  (∀ y x, y < pb.height → x < pb.width → (Wt y x = true ↔ L y x ≠ 0)) ∧
  (∀ y x, y + 1 < pb.height → x < pb.width → Wt y x = true → Wt (y + 1) x = true → L y x = L (y + 1) x) ∧
  (∀ y x, y < pb.height → x + 1 < pb.width → Wt y x = true → Wt y (x + 1) = true → L y x = L y (x + 1)) ∧
  (∀ y x, y + 1 < pb.height → x + 1 < pb.width →
    Wt y x = true ∨ Wt y (x + 1) = true ∨ Wt (y + 1) x = true ∨ Wt (y + 1) (x + 1) = true) ∧
  (∀ (j : Nat) (c : Nat × Nat × Int), (clueList pb)[j]? = some c →
    (c.2.2 > 0 → (cnt pb L ((j : Int) + 1) : Int) = c.2.2) ∧
    (c.2.2 = -1 → ∀ low, pb.unknownLow = some low → low ≤ (cnt pb L ((j : Int) + 1) : Int)))

/-! ### evaluation of the pieces -/

theorem eval_W (pb : Problem) (σ : Asg) (y x : Nat) :
    eval σ (Wv pb (y * pb.width + x)) = some (.b (wht pb σ y x)) := by
  simp [Wv, wht]

theorem cellAt_whites {pb : Problem} {p : Nat × Nat} {e : Expr}
    (h : cellAt (whites pb) pb.width p = some e) : e = Wv pb (p.1 * pb.width + p.2) := by
  simp only [cellAt, whites, List.getElem?_map] at h
  cases hr : (List.range (N pb))[p.1 * pb.width + p.2]? with
  | none => simp [hr] at h
  | some i =>
    simp only [hr, Option.map_some, Option.some.injEq] at h
    have := List.getElem?_range (n := N pb) (i := p.1 * pb.width + p.2)
    rcases Nat.lt_or_ge (p.1 * pb.width + p.2) (N pb) with hlt | hge
    · rw [List.getElem?_range hlt] at hr
      cases hr
      exact h.symm
    · rw [List.getElem?_eq_none (by simpa using hge)] at hr
      cases hr

theorem eval_win (pb : Problem) (σ : Asg) (a b y x : Nat) (hy : y + a ≤ pb.height) (hx : x + b ≤ pb.width) :
    eval σ (.node .and (C12Conv.winList (whites pb) pb.width a b y x))
        = some (.b ((windowCells a b y x).all fun p => wht pb σ p.1 p.2)) ∧
    eval σ (.node .or (C12Conv.winList (whites pb) pb.width a b y x))
        = some (.b ((windowCells a b y x).any fun p => wht pb σ p.1 p.2)) := by
  apply C12Conv.eval_window (whites_length pb) hy hx
  intro p _ e he
  rw [cellAt_whites he]
  exact eval_W pb σ p.1 p.2

theorem eval_c1At (pb : Problem) (σ : Asg) (i : Nat) :
    eval σ (.node .iff [Wv pb i, .node .ne [.ivar i, .litI 0]])
      = some (.b (σ.b (wb pb + i) == (σ.i i != 0))) := by
  simp [Wv, evalOp, allBools, allInts, cmpOp]

theorem sat_c1 (pb : Problem) (σ : Asg) :
    (∀ c ∈ c1 pb, eval σ c = some (.b true)) ↔
      ∀ y x, y < pb.height → x < pb.width → (wht pb σ y x = true ↔ lab pb σ y x ≠ 0) := by
  simp only [c1, List.mem_map, List.mem_range, forall_exists_index, and_imp, forall_apply_eq_imp_iff₂]
  constructor
  · intro h y x hy hx
    have := h (y * pb.width + x) (C11Grid.cell_lt hy hx)
    rw [eval_c1At] at this
    simp only [Option.some.injEq, Val.b.injEq, beq_iff_eq] at this
    unfold wht lab
    rw [this]
    simp
  · intro h i hi
    have hdm := C11Grid.div_lt_of_lt_mul hi
    have := h (i / pb.width) (i % pb.width) hdm.1 hdm.2
    unfold wht lab at this
    rw [Nat.div_add_mod' i pb.width] at this
    rw [eval_c1At]
    simp only [Option.some.injEq, Val.b.injEq, beq_iff_eq]
    by_cases hb : σ.b (wb pb + i) = true
    · have := this.1 hb; simp [hb, this]
    · have h0 : ¬ (σ.i i ≠ 0) := fun h' => hb (this.2 h')
      simp only [ne_eq, Decidable.not_not] at h0
      simp [hb, h0]

theorem eval_c2At (pb : Problem) (σ : Asg) (y x : Nat) (hy : y + 1 < pb.height) (hx : x < pb.width) :
    eval σ (.node .imp [.node .and (C12Conv.winList (whites pb) pb.width 2 1 y x),
        .node .eq [.ivar (y * pb.width + x), .ivar ((y + 1) * pb.width + x)]]) = some (.b true) ↔
      (wht pb σ y x = true → wht pb σ (y + 1) x = true → lab pb σ y x = lab pb σ (y + 1) x) := by
  have hw := (eval_win pb σ 2 1 y x (by omega) (by omega)).1
  rw [eval_node]
  simp only [List.map_cons, List.map_nil, hw]
  rw [eval_cmp rfl (eval_ivar _ _) (eval_ivar _ _), evalOp_imp]
  clear hw
  simp [windowCells, List.range_succ, lab]
  generalize wht pb σ y x = a
  generalize wht pb σ (y + 1) x = b
  cases a <;> cases b <;> simp

theorem eval_c3At (pb : Problem) (σ : Asg) (y x : Nat) (hy : y < pb.height) (hx : x + 1 < pb.width) :
    eval σ (.node .imp [.node .and (C12Conv.winList (whites pb) pb.width 1 2 y x),
        .node .eq [.ivar (y * pb.width + x), .ivar (y * pb.width + (x + 1))]]) = some (.b true) ↔
      (wht pb σ y x = true → wht pb σ y (x + 1) = true → lab pb σ y x = lab pb σ y (x + 1)) := by
  have hw := (eval_win pb σ 1 2 y x (by omega) (by omega)).1
  rw [eval_node]
  simp only [List.map_cons, List.map_nil, hw]
  rw [eval_cmp rfl (eval_ivar _ _) (eval_ivar _ _), evalOp_imp]
  clear hw
  simp [windowCells, List.range_succ, lab]
  generalize wht pb σ y x = a
  generalize wht pb σ y (x + 1) = b
  cases a <;> cases b <;> simp

theorem eval_c4At (pb : Problem) (σ : Asg) (y x : Nat) (hy : y + 1 < pb.height) (hx : x + 1 < pb.width) :
    eval σ (.node .or (C12Conv.winList (whites pb) pb.width 2 2 y x)) = some (.b true) ↔
      (wht pb σ y x = true ∨ wht pb σ y (x + 1) = true ∨ wht pb σ (y + 1) x = true ∨
        wht pb σ (y + 1) (x + 1) = true) := by
  rw [(eval_win pb σ 2 2 y x (by omega) (by omega)).2]
  simp [windowCells, List.range_succ]

theorem sat_c2 (pb : Problem) (σ : Asg) :
    (∀ c ∈ c2 pb, eval σ c = some (.b true)) ↔
      ∀ y x, y + 1 < pb.height → x < pb.width → wht pb σ y x = true → wht pb σ (y + 1) x = true →
        lab pb σ y x = lab pb σ (y + 1) x := by
  simp only [c2, List.mem_map, forall_exists_index, and_imp, forall_apply_eq_imp_iff₂]
  constructor
  · intro h y x hy hx
    exact (eval_c2At pb σ y x hy hx).1 (h (y, x) (mem_cellsOf.2 ⟨by simp; omega, hx⟩))
  · intro h p hp
    obtain ⟨h1, h2⟩ := mem_cellsOf.1 hp
    exact (eval_c2At pb σ p.1 p.2 (by omega) h2).2 (h p.1 p.2 (by omega) h2)

theorem sat_c3 (pb : Problem) (σ : Asg) :
    (∀ c ∈ c3 pb, eval σ c = some (.b true)) ↔
      ∀ y x, y < pb.height → x + 1 < pb.width → wht pb σ y x = true → wht pb σ y (x + 1) = true →
        lab pb σ y x = lab pb σ y (x + 1) := by
  simp only [c3, List.mem_map, forall_exists_index, and_imp, forall_apply_eq_imp_iff₂]
  constructor
  · intro h y x hy hx
    exact (eval_c3At pb σ y x hy hx).1 (h (y, x) (mem_cellsOf.2 ⟨hy, by simp; omega⟩))
  · intro h p hp
    obtain ⟨h1, h2⟩ := mem_cellsOf.1 hp
    exact (eval_c3At pb σ p.1 p.2 h1 (by omega)).2 (h p.1 p.2 h1 (by omega))

theorem sat_c4 (pb : Problem) (σ : Asg) :
    (∀ c ∈ c4 pb, eval σ c = some (.b true)) ↔
      ∀ y x, y + 1 < pb.height → x + 1 < pb.width →
        wht pb σ y x = true ∨ wht pb σ y (x + 1) = true ∨ wht pb σ (y + 1) x = true ∨
          wht pb σ (y + 1) (x + 1) = true := by
  simp only [c4, List.mem_map, forall_exists_index, and_imp, forall_apply_eq_imp_iff₂]
  constructor
  · intro h y x hy hx
    exact (eval_c4At pb σ y x hy hx).1 (h (y, x) (mem_cellsOf.2 ⟨by simp; omega, by simp; omega⟩))
  · intro h p hp
    obtain ⟨h1, h2⟩ := mem_cellsOf.1 hp
    exact (eval_c4At pb σ p.1 p.2 (by omega) (by omega)).2 (h p.1 p.2 (by omega) (by omega))

/-! ### counting -/

theorem cellsOf_eq_range (h w : Nat) : cellsOf h w = (List.range (h * w)).map fun i => (i / w, i % w) :=
  C11Grid.flatMap_range_eq (fun y x => (y, x)) h w

theorem eval_regionCount (pb : Problem) (σ : Asg) (r : Int) :
    eval σ (regionCount pb r) = some (.i (cnt pb (lab pb σ) r : Nat)) := by
  unfold regionCount
  rw [eval_countTrueE (σ := σ) ((List.range (N pb)).map fun i => decide (σ.i i = r)) (by
    rw [List.map_map, List.map_map]
    apply List.map_congr_left
    intro i _
    simp only [Function.comp, eval_node, List.map_cons, List.map_nil, eval_ivar, eval_litI]
    rw [evalOp_cmp rfl, cmpOp_eq, C05L1.beq_dec])]
  congr 3
  unfold cnt
  rw [cellsOf_eq_range, List.countP_map, List.count_eq_countP, List.countP_map]
  apply List.countP_congr
  intro i hi
  have hi' : i < pb.height * pb.width := List.mem_range.1 hi
  have hw : 0 < pb.width := by
    rcases Nat.eq_zero_or_pos pb.width with h0 | h0
    · rw [h0] at hi'; simp at hi'
    · exact h0
  simp only [Function.comp, lab, Nat.div_add_mod' i pb.width]
  simp

theorem sat_c5At (pb : Problem) (σ : Asg) (ic : (Nat × Nat × Int) × Nat) :
    (∀ c ∈ c5At pb ic, eval σ c = some (.b true)) ↔
      ((ic.1.2.2 > 0 → (cnt pb (lab pb σ) ((ic.2 : Int) + 1) : Int) = ic.1.2.2) ∧
       (ic.1.2.2 = -1 → ∀ low, pb.unknownLow = some low → low ≤ (cnt pb (lab pb σ) ((ic.2 : Int) + 1) : Int))) := by
  unfold c5At
  by_cases h1 : ic.1.2.2 > 0
  · rw [if_pos h1]
    simp only [List.mem_singleton, forall_eq]
    rw [eval_cmp rfl (eval_regionCount pb σ _) (eval_litI _ _)]
    simp only [cmpOp_eq, Option.some.injEq, Val.b.injEq, beq_iff_eq]
    constructor
    · intro h; exact ⟨fun _ => h, fun h2 => by omega⟩
    · intro h; exact h.1 h1
  · rw [if_neg h1]
    by_cases h2 : ic.1.2.2 = -1
    · rw [if_pos h2]
      cases hl : pb.unknownLow with
      | none => simp [h1]
      | some low =>
        simp only [List.mem_singleton, forall_eq]
        rw [eval_cmp rfl (eval_regionCount pb σ _) (eval_litI _ _)]
        simp only [cmpOp_ge, Option.some.injEq, Val.b.injEq, decide_eq_true_eq]
        constructor
        · intro h; exact ⟨fun h' => absurd h' h1, fun _ low' hl' => by cases hl'; exact h⟩
        · intro h; exact h.2 h2 low rfl
    · rw [if_neg h2]
      simp [h1, h2]

theorem sat_c5 (pb : Problem) (σ : Asg) :
    (∀ c ∈ c5 pb, eval σ c = some (.b true)) ↔
      ∀ (j : Nat) (c : Nat × Nat × Int), (clueList pb)[j]? = some c →
        (c.2.2 > 0 → (cnt pb (lab pb σ) ((j : Int) + 1) : Int) = c.2.2) ∧
        (c.2.2 = -1 → ∀ low, pb.unknownLow = some low → low ≤ (cnt pb (lab pb σ) ((j : Int) + 1) : Int)) := by
  simp only [c5, List.mem_flatMap]
  constructor
  · intro h j c hj
    apply (sat_c5At pb σ (c, j)).1
    intro e he
    exact h e ⟨(c, j), List.mem_zipIdx_iff_getElem?.2 (by simpa using hj), he⟩
  · rintro h e ⟨⟨c, j⟩, hm, he⟩
    have hj := List.mem_zipIdx_iff_getElem?.1 hm
    exact (sat_c5At pb σ (c, j)).2 (h j c (by simpa using hj)) e he

theorem loc_sat_iff (pb : Problem) (σ : Asg) :
    (∀ c ∈ loc pb, eval σ c = some (.b true)) ↔ LocSem pb (lab pb σ) (wht pb σ) := by
  have hsplit : (∀ c ∈ loc pb, eval σ c = some (.b true)) ↔
      (∀ c ∈ c1 pb, eval σ c = some (.b true)) ∧ (∀ c ∈ c2 pb, eval σ c = some (.b true)) ∧
      (∀ c ∈ c3 pb, eval σ c = some (.b true)) ∧ (∀ c ∈ c4 pb, eval σ c = some (.b true)) ∧
      (∀ c ∈ c5 pb, eval σ c = some (.b true)) := by
    unfold loc
    simp only [List.mem_append, or_imp, forall_and, and_assoc]
  rw [hsplit, sat_c1, sat_c2, sat_c3, sat_c4, sat_c5]
  rfl

end Cspuz.Proofs.C11NurikabeB
