/-
  C11 / star_battle — part 2: meaning of the posted constraints, and the theorem.
-/
import CspuzModel.Proofs.C11StarBattle
import Mathlib.Algebra.BigOperators.Group.Finset.Basic
import Mathlib.Algebra.Order.BigOperators.Group.Finset
import Mathlib.Tactic.Ring
import Mathlib.Algebra.BigOperators.Ring.Finset
namespace Cspuz.Proofs.C11StarBattleSem
open Cspuz Cspuz.Spec Cspuz.Puzzles Cspuz.Puzzles.StarBattle Cspuz.Proofs Cspuz.Proofs.C11CL
open Cspuz.Proofs.C11StarBattle

/-! ### Evaluation of the pieces -/

theorem eval_iteE_bvar (σ : Asg) (i : Nat) : eval σ (iteE (.bvar i)) = some (.i (if σ.b i then 1 else 0)) := by
  simp [iteE, evalOp]

theorem eval_add2 (σ : Asg) (a b : Expr) (x y : Int) (ha : eval σ a = some (.i x)) (hb : eval σ b = some (.i y)) :
    eval σ (.node .add [a, b]) = some (.i (x + y)) := by
  simp [ha, hb, evalOp, allInts]

theorem eval_foldl_add {ι : Type} (σ : Asg) (f : ι → Nat) : ∀ (L : List ι) (acc : Expr) (v : Int),
    eval σ acc = some (.i v) →
    eval σ ((L.map fun p => iteE (Expr.bvar (f p))).foldl (fun acc x => Expr.node .add [acc, x]) acc)
      = some (.i (v + ((L.countP fun p => σ.b (f p) : Nat) : Int)))
  | [], acc, v, h => by simpa using h
  | a :: L, acc, v, h => by
    simp only [List.map_cons, List.foldl_cons]
    rw [eval_foldl_add σ f L _ _ (eval_add2 σ _ _ _ _ h (eval_iteE_bvar σ (f a)))]
    congr 2
    rw [List.countP_cons]
    cases σ.b (f a) <;> simp; omega

theorem eval_lineE {ι : Type} (σ : Asg) (L : List ι) (f : ι → Nat) (k : Int) :
    eval σ (lineE (L.map fun p => Expr.bvar (f p)) k)
      = some (.b (((L.countP fun p => σ.b (f p) : Nat) : Int) == k)) := by
  have h := eval_foldl_add σ f L (.litI 0) 0 (eval_litI σ 0)
  simp only [Int.zero_add] at h
  have h' : eval σ (sumE ((L.map fun p => Expr.bvar (f p)).map iteE))
      = some (.i ((L.countP fun p => σ.b (f p) : Nat) : Int)) := by
    rw [← h, sumE, List.map_map]; rfl
  simp only [lineE, eval_node, List.map_cons, List.map_nil, h', eval_litI]
  simp [evalOp, allInts]

theorem eval_adj (σ : Asg) (a b : Nat) :
    eval σ (.node .not [.node .and [.bvar a, .bvar b]]) = some (.b (!(σ.b a && σ.b b))) := by
  simp [evalOp, allBools]

theorem eval_region (σ : Asg) (n : Nat) (reg : Nat → Nat → Int) (i : Nat) (k : Int) :
    eval σ (.node .eq [countTrueE (regionV n reg i), .litI k])
      = some (.b ((((cellsOf n n).countP fun p => decide (reg p.1 p.2 = (i : Int)) && σ.b (p.1 * n + p.2) : Nat) : Int) == k)) := by
  have hE : eval σ (countTrueE (regionV n reg i))
      = some (.i (((cellsOf n n).countP fun p => decide (reg p.1 p.2 = (i : Int)) && σ.b (p.1 * n + p.2) : Nat) : Int)) := by
    rw [eval_countTrueE (σ := σ) ((cellsOf n n).flatMap fun p =>
      if reg p.1 p.2 = (i : Int) then [σ.b (p.1 * n + p.2)] else [])]
    · congr 3
      generalize cellsOf n n = L
      induction L with
      | nil => rfl
      | cons a L ih =>
        rw [List.flatMap_cons, List.count_append, ih, List.countP_cons]
        by_cases h : reg a.1 a.2 = (i : Int)
        · cases σ.b (a.1 * n + a.2) <;> simp [h]; omega
        · simp [h]
    · simp only [regionV]
      generalize cellsOf n n = L
      induction L with
      | nil => rfl
      | cons a L ih =>
        rw [List.flatMap_cons, List.flatMap_cons, List.map_append, List.map_append, ih]
        congr 1
        split <;> simp
  simp only [eval_node, List.map_cons, List.map_nil, hE, eval_litI]
  simp [evalOp, allInts]

/-! ### The constraint groups -/

theorem mem_flatten_map {α β : Type} (L : List α) (f : α → List β) (c : β) :
    c ∈ (L.map f).flatten ↔ ∃ a ∈ L, c ∈ f a := by
  simp [List.mem_flatten]

theorem lines_iff (σ : Asg) (n : Nat) (k : Int) :
    (∀ c ∈ (linesC n k).flatten, eval σ c = some (.b true)) ↔
      ∀ i, i < n → (((List.range n).countP fun x => σ.b (i * n + x) : Nat) : Int) = k ∧
                   (((List.range n).countP fun y => σ.b (y * n + i) : Nat) : Int) = k := by
  simp only [linesC, mem_flatten_map, List.mem_range]
  constructor
  · intro h i hi
    have h1 := h _ ⟨i, hi, List.mem_cons_self⟩
    have h2 := h _ ⟨i, hi, List.mem_cons_of_mem _ List.mem_cons_self⟩
    rw [rowV, eval_lineE] at h1
    rw [colV, eval_lineE] at h2
    simp only [Option.some.injEq, Val.b.injEq, beq_iff_eq] at h1 h2
    exact ⟨h1, h2⟩
  · rintro h c ⟨i, hi, hc⟩
    simp only [List.mem_cons, List.mem_nil_iff, or_false] at hc
    rcases hc with rfl | rfl
    · rw [rowV, eval_lineE]; simp [(h i hi).1]
    · rw [colV, eval_lineE]; simp [(h i hi).2]

theorem regions_iff (σ : Asg) (n : Nat) (reg : Nat → Nat → Int) (k : Int) :
    (∀ c ∈ (regionsC n reg k).flatten, eval σ c = some (.b true)) ↔
      ∀ i, i < n →
        (((cellsOf n n).countP fun p => decide (reg p.1 p.2 = (i : Int)) && σ.b (p.1 * n + p.2) : Nat) : Int) = k := by
  simp only [regionsC, mem_flatten_map, List.mem_range]
  constructor
  · intro h i hi
    have h1 := h _ ⟨i, hi, List.mem_cons_self⟩
    rw [eval_region] at h1
    simpa using h1
  · rintro h c ⟨i, hi, hc⟩
    simp only [List.mem_cons, List.mem_nil_iff, or_false] at hc
    subst hc
    rw [eval_region]; simp [h i hi]

theorem adjC_iff (σ : Asg) (L : List (Nat × Nat)) (fa fb : Nat × Nat → Nat) :
    (∀ c ∈ adjC L fa fb, eval σ c = some (.b true)) ↔ ∀ p ∈ L, ¬ (σ.b (fa p) = true ∧ σ.b (fb p) = true) := by
  simp only [adjC, List.mem_map]
  constructor
  · intro h p hp
    have := h _ ⟨p, hp, rfl⟩
    rw [eval_adj] at this
    rintro ⟨h1, h2⟩
    simp [h1, h2] at this
  · rintro h c ⟨p, hp, rfl⟩
    rw [eval_adj]
    have := h p hp
    simp only [Option.some.injEq, Val.b.injEq, Bool.not_eq_true', Bool.and_eq_false_imp]
    intro h1
    cases h2 : σ.b (fb p)
    · rfl
    · exact absurd ⟨h1, h2⟩ this

theorem adj_iff (σ : Asg) (n : Nat) :
    (∀ c ∈ adjC (cellsOf (n - 1) n) (fun p => p.1 * n + p.2) (fun p => (p.1 + 1) * n + p.2) ++
        adjC (cellsOf n (n - 1)) (fun p => p.1 * n + p.2) (fun p => p.1 * n + (p.2 + 1)) ++
        adjC (cellsOf (n - 1) (n - 1)) (fun p => p.1 * n + p.2) (fun p => (p.1 + 1) * n + (p.2 + 1)) ++
        adjC (cellsOf (n - 1) (n - 1)) (fun p => p.1 * n + (p.2 + 1)) (fun p => (p.1 + 1) * n + p.2),
      eval σ c = some (.b true)) ↔
    ∀ y x y' x', y < n → x < n → y' < n → x' < n → σ.b (y * n + x) = true → σ.b (y' * n + x') = true →
      ¬ Touch y x y' x' := by
  simp only [List.forall_mem_append, adjC_iff, Prod.forall, mem_cellsOf]
  constructor
  · rintro ⟨⟨⟨h1, h2⟩, h3⟩, h4⟩ y x y' x' hy hx hy' hx' hb hb' ⟨hne, t1, t2, t3, t4⟩
    rcases Nat.lt_trichotomy y y' with hlt | heq | hgt
    · have e : y' = y + 1 := by omega
      subst e
      rcases Nat.lt_trichotomy x x' with hlt' | heq' | hgt'
      · have e : x' = x + 1 := by omega
        subst e
        exact h3 y x ⟨by omega, by omega⟩ ⟨hb, hb'⟩
      · subst heq'
        exact h1 y x ⟨by omega, hx⟩ ⟨hb, hb'⟩
      · have e : x = x' + 1 := by omega
        subst e
        exact h4 y x' ⟨by omega, by omega⟩ ⟨hb, hb'⟩
    · subst heq
      rcases Nat.lt_trichotomy x x' with hlt' | heq' | hgt'
      · have e : x' = x + 1 := by omega
        subst e
        exact h2 y x ⟨hy, by omega⟩ ⟨hb, hb'⟩
      · subst heq'; exact hne rfl
      · have e : x = x' + 1 := by omega
        subst e
        exact h2 y x' ⟨hy, by omega⟩ ⟨hb', hb⟩
    · have e : y = y' + 1 := by omega
      subst e
      rcases Nat.lt_trichotomy x x' with hlt' | heq' | hgt'
      · have e : x' = x + 1 := by omega
        subst e
        exact h4 y' x ⟨by omega, by omega⟩ ⟨hb', hb⟩
      · subst heq'
        exact h1 y' x ⟨by omega, hx⟩ ⟨hb', hb⟩
      · have e : x = x' + 1 := by omega
        subst e
        exact h3 y' x' ⟨by omega, by omega⟩ ⟨hb', hb⟩
  · intro h
    refine ⟨⟨⟨?_, ?_⟩, ?_⟩, ?_⟩
    · rintro y x ⟨hy, hx⟩ ⟨hb, hb'⟩
      exact h y x (y + 1) x (by omega) hx (by omega) hx hb hb'
        ⟨by intro e; injection e with e1 _; omega, by omega, by omega, by omega, by omega⟩
    · rintro y x ⟨hy, hx⟩ ⟨hb, hb'⟩
      exact h y x y (x + 1) hy (by omega) hy (by omega) hb hb'
        ⟨by intro e; injection e with _ e2; omega, by omega, by omega, by omega, by omega⟩
    · rintro y x ⟨hy, hx⟩ ⟨hb, hb'⟩
      exact h y x (y + 1) (x + 1) (by omega) (by omega) (by omega) (by omega) hb hb'
        ⟨by intro e; injection e with e1 _; omega, by omega, by omega, by omega, by omega⟩
    · rintro y x ⟨hy, hx⟩ ⟨hb, hb'⟩
      exact h y (x + 1) (y + 1) x (by omega) (by omega) (by omega) (by omega) hb hb'
        ⟨by intro e; injection e with e1 _; omega, by omega, by omega, by omega, by omega⟩

/-! ### Double counting: an unused region id forces `k = 0` -/

theorem count_partition (C : List (Nat × Nat)) (n : Nat) (id : Nat × Nat → Int) (P : Nat × Nat → Bool)
    (hid : ∀ p ∈ C, 0 ≤ id p ∧ id p < n) :
    ∑ i ∈ Finset.range n, C.countP (fun p => decide (id p = (i : Int)) && P p) = C.countP P := by
  induction C with
  | nil => simp
  | cons a C ih =>
    simp only [List.countP_cons]
    rw [Finset.sum_add_distrib, ih (fun p hp => hid p (List.mem_cons_of_mem _ hp))]
    congr 1
    obtain ⟨h0, h1⟩ := hid a List.mem_cons_self
    have hj : (id a).toNat ∈ Finset.range n := by rw [Finset.mem_range]; omega
    rw [Finset.sum_eq_single_of_mem (id a).toNat hj]
    · have : id a = (((id a).toNat : Nat) : Int) := by omega
      simp [← this]
    · intro b _ hb
      have : ¬ id a = (b : Int) := by omega
      simp [this]

theorem countP_cells (ys xs : List Nat) (g : Nat → Nat → Bool) :
    (ys.flatMap fun y => xs.map fun x => (y, x)).countP (fun p => g p.1 p.2)
      = (ys.map fun y => xs.countP (g y)).sum := by
  induction ys with
  | nil => rfl
  | cons a ys ih =>
    rw [List.flatMap_cons, List.countP_append, ih, List.map_cons, List.sum_cons, List.countP_map]
    rfl

theorem sum_const_int (ys : List Nat) (f : Nat → Nat) (k : Int) (h : ∀ y ∈ ys, ((f y : Nat) : Int) = k) :
    (((ys.map f).sum : Nat) : Int) = ys.length * k := by
  induction ys with
  | nil => simp
  | cons a ys ih =>
    rw [List.map_cons, List.sum_cons, Nat.cast_add, h a List.mem_cons_self,
      ih (fun y hy => h y (List.mem_cons_of_mem _ hy))]
    simp only [List.length_cons, Nat.cast_add, Nat.cast_one]
    rw [Int.add_mul, Int.one_mul, Int.add_comm]

/-- With the row rule, "every id of `range(n)` has `k` stars" (what the program posts) and "every region
(non-empty id class) has `k` stars" (the rule) coincide. -/
theorem regions_equiv (n : Nat) (reg : Nat → Nat → Int) (k : Int) (g : Nat → Nat → Bool)
    (hreg : ∀ y x, y < n → x < n → 0 ≤ reg y x ∧ reg y x < n)
    (hrows : ∀ y, y < n → (((List.range n).countP fun x => g y x : Nat) : Int) = k) :
    (∀ i, i < n → (((cellsOf n n).countP fun p => decide (reg p.1 p.2 = (i : Int)) && g p.1 p.2 : Nat) : Int) = k) ↔
    (∀ r : Int, (∃ y x, y < n ∧ x < n ∧ reg y x = r) →
      (((cellsOf n n).countP fun p => decide (reg p.1 p.2 = r) && g p.1 p.2 : Nat) : Int) = k) := by
  constructor
  · rintro h r ⟨y, x, hy, hx, rfl⟩
    obtain ⟨h0, h1⟩ := hreg y x hy hx
    have := h (reg y x).toNat (by omega)
    rwa [Int.toNat_of_nonneg h0] at this
  · intro h i hi
    by_cases hused : ∃ y x, y < n ∧ x < n ∧ reg y x = (i : Int)
    · exact h _ hused
    · -- the id `i` is unused: its count is 0, and the double count forces k = 0
      let cnt : Nat → Nat := fun j => (cellsOf n n).countP fun p => decide (reg p.1 p.2 = (j : Int)) && g p.1 p.2
      have hcnt0 : cnt i = 0 := by
        show List.countP _ _ = 0
        rw [List.countP_eq_zero]
        intro p hp
        obtain ⟨hy, hx⟩ := mem_cellsOf.mp hp
        have : ¬ reg p.1 p.2 = (i : Int) := fun e => hused ⟨p.1, p.2, hy, hx, e⟩
        simp [this]
      have hk0 : 0 ≤ k := by rw [← hrows 0 (by omega)]; exact Int.natCast_nonneg _
      have hle : ∀ j ∈ (Finset.range n).erase i, ((cnt j : Nat) : Int) ≤ k := by
        intro j hj
        have hj' : j < n := Finset.mem_range.mp (Finset.mem_of_mem_erase hj)
        by_cases hu : ∃ y x, y < n ∧ x < n ∧ reg y x = (j : Int)
        · exact le_of_eq (h _ hu)
        · have : cnt j = 0 := by
            show List.countP _ _ = 0
            rw [List.countP_eq_zero]
            intro p hp
            obtain ⟨hy, hx⟩ := mem_cellsOf.mp hp
            have : ¬ reg p.1 p.2 = (j : Int) := fun e => hu ⟨p.1, p.2, hy, hx, e⟩
            simp [this]
          rw [this]; simpa using hk0
      have htot : (((cellsOf n n).countP (fun p => g p.1 p.2) : Nat) : Int) = n * k := by
        have := sum_const_int (List.range n) (fun y => (List.range n).countP (g y)) k
          (fun y hy => hrows y (List.mem_range.mp hy))
        rw [List.length_range] at this
        rw [← this, cellsOf, countP_cells]
      have hpart := count_partition (cellsOf n n) n (fun p => reg p.1 p.2) (fun p => g p.1 p.2)
        (fun p hp => by obtain ⟨hy, hx⟩ := mem_cellsOf.mp hp; exact hreg _ _ hy hx)
      have hsum : ((∑ j ∈ Finset.range n, cnt j : Nat) : Int) = n * k := by rw [← htot]; exact congrArg _ hpart
      rw [Nat.cast_sum, ← Finset.add_sum_erase _ _ (Finset.mem_range.mpr hi), hcnt0] at hsum
      have hbound : ∑ j ∈ (Finset.range n).erase i, ((cnt j : Nat) : Int) ≤ ((n : Int) - 1) * k := by
        calc ∑ j ∈ (Finset.range n).erase i, ((cnt j : Nat) : Int)
            ≤ ∑ _j ∈ (Finset.range n).erase i, k := Finset.sum_le_sum hle
          _ = ((n : Int) - 1) * k := by
            rw [Finset.sum_const, Finset.card_erase_of_mem (Finset.mem_range.mpr hi), Finset.card_range]
            simp only [nsmul_eq_mul]
            congr 1
            omega
      have hk : k = 0 := by
        have h1 : (n : Int) * k ≤ ((n : Int) - 1) * k := by
          rw [← hsum]; simpa using hbound
        have : (n : Int) * k - ((n : Int) - 1) * k = k := by ring
        omega
      show ((cnt i : Nat) : Int) = k
      rw [hcnt0, hk]; rfl

/-! ### The theorem -/

/-- The constraints of the posted program, read on the grid, are the rules
(`n` = board size, `reg` = region ids, `k` = stars per line). -/
theorem cs_iff (n : Nat) (reg : Nat → Nat → Int) (k : Int)
    (hreg : ∀ y x, y < n → x < n → 0 ≤ reg y x ∧ reg y x < n)
    (σ : Asg) (g : Nat → Nat → Bool) (hg : ∀ y, y < n → ∀ x, x < n → g y x = σ.b (y * n + x)) :
    (∀ c ∈ closedCs n reg k, eval σ c = some (.b true)) ↔
    ((∀ y, y < n → (((List.range n).countP fun x => g y x : Nat) : Int) = k) ∧
     (∀ x, x < n → (((List.range n).countP fun y => g y x : Nat) : Int) = k) ∧
     (∀ r : Int, (∃ y x, y < n ∧ x < n ∧ reg y x = r) →
        (((cellsOf n n).countP fun p => decide (reg p.1 p.2 = r) && g p.1 p.2 : Nat) : Int) = k) ∧
     (∀ y x y' x', y < n → x < n → y' < n → x' < n → g y x = true → g y' x' = true → ¬ Touch y x y' x')) := by
  have hrow_eq : ∀ i, i < n → (List.range n).countP (fun x => σ.b (i * n + x)) = (List.range n).countP (fun x => g i x) := by
    intro i hi
    apply List.countP_congr
    intro x hx
    rw [hg i hi x (List.mem_range.mp hx)]
  have hcol_eq : ∀ i, i < n → (List.range n).countP (fun y => σ.b (y * n + i)) = (List.range n).countP (fun y => g y i) := by
    intro i hi
    apply List.countP_congr
    intro y hy
    rw [hg y (List.mem_range.mp hy) i hi]
  have hcnt_eq : ∀ r : Int, (cellsOf n n).countP (fun p => decide (reg p.1 p.2 = r) && σ.b (p.1 * n + p.2))
      = (cellsOf n n).countP (fun p => decide (reg p.1 p.2 = r) && g p.1 p.2) := by
    intro r
    apply List.countP_congr
    intro p hp
    obtain ⟨hy, hx⟩ := mem_cellsOf.mp hp
    rw [hg _ hy _ hx]
  have hadj := adj_iff σ n
  simp only [List.forall_mem_append] at hadj
  simp only [closedCs, List.forall_mem_append, lines_iff, regions_iff]
  constructor
  · rintro ⟨⟨⟨⟨⟨hl, h1⟩, h2⟩, h3⟩, h4⟩, hr⟩
    have hrows : ∀ y, y < n → (((List.range n).countP fun x => g y x : Nat) : Int) = k := by
      intro y hy; rw [← hrow_eq y hy]; exact (hl y hy).1
    refine ⟨hrows, ?_, ?_, ?_⟩
    · intro x hx; rw [← hcol_eq x hx]; exact (hl x hx).2
    · apply (regions_equiv n reg k g hreg hrows).mp
      intro i hi; rw [← hcnt_eq]; exact hr i hi
    · intro y x y' x' hy hx hy' hx' hb hb'
      exact hadj.mp ⟨⟨⟨h1, h2⟩, h3⟩, h4⟩ y x y' x' hy hx hy' hx' (by rw [← hg y hy x hx]; exact hb)
        (by rw [← hg y' hy' x' hx']; exact hb')
  · rintro ⟨hrows, hcols, hregs, htouch⟩
    have hA := hadj.mpr (fun y x y' x' hy hx hy' hx' hb hb' =>
      htouch y x y' x' hy hx hy' hx' (by rw [hg y hy x hx]; exact hb) (by rw [hg y' hy' x' hx']; exact hb'))
    obtain ⟨⟨⟨h1, h2⟩, h3⟩, h4⟩ := hA
    refine ⟨⟨⟨⟨⟨?_, h1⟩, h2⟩, h3⟩, h4⟩, ?_⟩
    · intro i hi
      rw [hrow_eq i hi, hcol_eq i hi]
      exact ⟨hrows i hi, hcols i hi⟩
    · intro i hi
      rw [hcnt_eq]
      exact (regions_equiv n reg k g hreg hrows).mpr hregs i hi

theorem wt_closed (n : Nat) (reg : Nat → Nat → Int) (k : Int) : ∀ c ∈ closedCs n reg k, wtB c = true := by
  have hsum : ∀ (L : List Expr), (∀ e ∈ L, wtB e = true) → wtI (sumE (L.map iteE)) = true := by
    intro L hL
    have : ∀ (L : List Expr) (acc : Expr), wtI acc = true → (∀ e ∈ L, wtB e = true) →
        wtI ((L.map iteE).foldl (fun acc x => Expr.node .add [acc, x]) acc) = true := by
      intro L
      induction L with
      | nil => intro acc h _; simpa using h
      | cons a L ih =>
        intro acc h hL
        simp only [List.map_cons, List.foldl_cons]
        apply ih
        · simp [wtI, wtIs, h, iteE, hL a List.mem_cons_self]
        · exact fun e he => hL e (List.mem_cons_of_mem _ he)
    exact this L (.litI 0) rfl hL
  have hline : ∀ {ι : Type} (L : List ι) (f : ι → Nat), wtB (lineE (L.map fun p => Expr.bvar (f p)) k) = true := by
    intro ι L f
    have := hsum (L.map fun p => Expr.bvar (f p)) (by
      intro e he
      simp only [List.mem_map] at he
      obtain ⟨_, _, rfl⟩ := he; rfl)
    simp only [List.map_map] at this
    simp [lineE, wtB, wtIs, wtI, this]
  have hadj : ∀ (L : List (Nat × Nat)) (fa fb : Nat × Nat → Nat), ∀ c ∈ adjC L fa fb, wtB c = true := by
    intro L fa fb c hc
    simp only [adjC, List.mem_map] at hc
    obtain ⟨_, _, rfl⟩ := hc
    simp [wtB, wtBs]
  have hct : ∀ (L : List Expr), (∀ e ∈ L, ∃ i, e = Expr.bvar i) → wtI (countTrueE L) = true := by
    intro L hL
    have hops : wtIs (ctOps L) = true := by
      induction L with
      | nil => rfl
      | cons a L ih =>
        obtain ⟨i, rfl⟩ := hL a List.mem_cons_self
        simp [ctOps, wtIs, wtI, wtB, ih (fun e he => hL e (List.mem_cons_of_mem _ he))]
    have hc0 : ctConst L = 0 := by
      clear hops
      induction L with
      | nil => rfl
      | cons a L ih =>
        obtain ⟨i, rfl⟩ := hL a List.mem_cons_self
        simp [ctConst, ih (fun e he => hL e (List.mem_cons_of_mem _ he))]
    simp only [countTrueE, hc0, Nat.lt_irrefl, if_false, gt_iff_lt]
    split
    · rfl
    · next h =>
      simp only [wtI, hops, Bool.and_true]
      cases hL' : ctOps L with
      | nil => simp [hL'] at h
      | cons _ _ => rfl
  intro c hc
  simp only [closedCs, List.mem_append] at hc
  rcases hc with ((((hc | hc) | hc) | hc) | hc) | hc
  · simp only [linesC, mem_flatten_map] at hc
    obtain ⟨i, _, hc⟩ := hc
    simp only [List.mem_cons, List.mem_nil_iff, or_false] at hc
    rcases hc with rfl | rfl
    · exact hline _ _
    · exact hline _ _
  · exact hadj _ _ _ c hc
  · exact hadj _ _ _ c hc
  · exact hadj _ _ _ c hc
  · exact hadj _ _ _ c hc
  · simp only [regionsC, mem_flatten_map] at hc
    obtain ⟨i, _, hc⟩ := hc
    simp only [List.mem_cons, List.mem_nil_iff, or_false] at hc
    subst hc
    have := hct (regionV n reg i) (by
      intro e he
      simp only [regionV, List.mem_flatMap] at he
      obtain ⟨p, _, he⟩ := he
      split at he
      · simp only [List.mem_cons, List.mem_nil_iff, or_false] at he; exact ⟨_, he⟩
      · simp at he)
    simp [wtB, wtIs, wtI, this]

theorem encodes (pb : Problem) (hwf : WellFormed pb) : EncodesRules (closed pb) (Rules pb) :=
  Cspuz.Proofs.C11Grid.encodes_bool_grid pb.n pb.n (closedCs pb.n (region pb) pb.k) (GridRules pb)
    (fun σ g hg => cs_iff pb.n (region pb) pb.k hwf.2.2 σ g hg)

theorem main (pb : Problem) (hwf : WellFormed pb) (P : PuzzleProg) (hP : program pb = .ok P) :
    EncodesRules P (Rules pb) ∧ P.KeysOk ∧ (∀ c ∈ P.cs, wtB c = true) := by
  rw [program_closed pb hwf] at hP
  cases hP
  exact ⟨encodes pb hwf, Cspuz.Proofs.C11Grid.keysOk_range _ _ _ (by simp), wt_closed _ _ _⟩

theorem total (pb : Problem) (hwf : WellFormed pb) : ∃ P, program pb = .ok P :=
  ⟨_, program_closed pb hwf⟩

end Cspuz.Proofs.C11StarBattleSem
