/-
  C11 / Fillomino — `solve_fillomino` posts a program that encodes the published rules
  (Spec/PuzzleRules/Fillomino.lean).

  Program: size variables (the keys, `1 … h·w` each), then the hidden fragment
  [border variables ++ division encoding (C07) ++ (checkered) colour variables] with the constraints
  [division ++ `border == (size differs)` ++ (checkered) `border == (colour differs)`], and the local
  constraints `size[y, x] == given`.
-/
import CspuzModel.Properties.C07
import CspuzModel.Proofs.C11Frag
import CspuzModel.Proofs.C11FillominoGeom
namespace Cspuz.Proofs.C11Fillomino
open Cspuz Cspuz.Spec Cspuz.Spec.FrameGeom Cspuz.Puzzles Cspuz.Puzzles.Fillomino Cspuz.Spec.Fillomino Cspuz.Proofs
open Cspuz.Proofs.C11FillominoSem Cspuz.Proofs.C11FillominoProg Cspuz.Proofs.C11FillominoGeom
open Cspuz.Proofs.C14 (graphSegs segEdge graphSegs_valid mem_allSegs)
open Cspuz.Proofs.C11Loop (lg lg_wf lg_pos)

/-! ### one bounded integer variable per cell (all keys), a hidden fragment, local constraints -/

theorem encodes_int_grid_frag (h w : Nat) (lo hi : Int) (p : Prog) (loc cs : List Expr)
    (G : (Nat → Nat → Int) → Prop)
    (hcs : ∀ c, c ∈ cs ↔ c ∈ p.cs ∨ c ∈ loc)
    (hloc : ∀ c ∈ loc, c.varsBelow (h * w) = true)
    (hG : ∀ (σ : Asg) (g : Nat → Nat → Int), (∀ y, y < h → ∀ x, x < w → g y x = σ.i (y * w + x)) →
      (((∀ y, y < h → ∀ x, x < w → lo ≤ g y x ∧ g y x ≤ hi) ∧ Realizable (h * w) p σ ∧
          ∀ c ∈ loc, eval σ c = some (.b true)) ↔ G g)) :
    EncodesRules { decls := List.replicate (h * w) (.int lo hi) ++ p.decls, cs := cs, keys := List.range (h * w) }
      (fun a => ∃ g, a = intGrid h w g ∧ G g) := by
  have hlen : (List.replicate (h * w) (VarDecl.int lo hi)).length = h * w := List.length_replicate
  apply C11Frag.encodes_of_realizable (List.replicate (h * w) (.int lo hi)) p loc cs (List.range (h * w)) _ hcs
    (by rw [hlen]; exact hloc) (by rw [hlen]; intro k hk; exact List.mem_range.mp hk)
  intro a
  rw [hlen]
  have hval : ∀ (σ : Asg) (i : Nat), i < h * w →
      valOf (List.replicate (h * w) (VarDecl.int lo hi)) σ i = some (.i (σ.i i)) := by
    intro σ i hi
    unfold valOf
    rw [List.getElem?_replicate, if_pos hi]
  have hresp : ∀ (σ : Asg), σ.respects (List.replicate (h * w) (VarDecl.int lo hi)) ↔
      ∀ y, y < h → ∀ x, x < w → lo ≤ σ.i (y * w + x) ∧ σ.i (y * w + x) ≤ hi := by
    intro σ
    constructor
    · intro hr y hy x hx
      apply hr (y * w + x) lo hi
      rw [List.getElem?_replicate, if_pos (C11Grid.cell_lt hy hx)]
    · intro hb id lo' hi' hd
      rw [List.getElem?_replicate] at hd
      split at hd
      · next hlt =>
        simp only [Option.some.injEq, VarDecl.int.injEq] at hd
        obtain ⟨rfl, rfl⟩ := hd
        have hdm := C11Grid.div_lt_of_lt_mul hlt
        have := hb (id / w) hdm.1 (id % w) hdm.2
        rwa [Nat.div_add_mod' id w] at this
      · simp at hd
  have hkv : ∀ (σ : Asg) (g : Nat → Nat → Int), (∀ y, y < h → ∀ x, x < w → g y x = σ.i (y * w + x)) →
      (List.range (h * w)).map (valOf (List.replicate (h * w) (VarDecl.int lo hi)) σ) = (intGrid h w g).map some := by
    intro σ g hg
    unfold intGrid
    rw [C11Grid.flatMap_range_eq (fun y x => Val.i (g y x)), List.map_map]
    apply List.map_congr_left
    intro i hi
    have hi' := List.mem_range.mp hi
    rw [hval σ i hi']
    simp only [Function.comp]
    have hdm := C11Grid.div_lt_of_lt_mul hi'
    rw [hg _ hdm.1 _ hdm.2, Nat.div_add_mod' i w]
  constructor
  · rintro ⟨σ, hr, hre, hl, hk⟩
    refine ⟨fun y x => σ.i (y * w + x), ?_, (hG σ _ (fun _ _ _ _ => rfl)).1 ⟨(hresp σ).1 hr, hre, hl⟩⟩
    have hk' : (intGrid h w fun y x => σ.i (y * w + x)).map some = a.map some := by
      rw [← hkv σ _ (fun _ _ _ _ => rfl)]; exact hk
    exact ((List.map_inj_right (fun _ _ e => Option.some.inj e)).mp hk').symm
  · rintro ⟨g, rfl, hg⟩
    let σ : Asg := { b := fun _ => false, i := fun i => g (i / w) (i % w) }
    have hag : ∀ y, y < h → ∀ x, x < w → g y x = σ.i (y * w + x) := by
      intro y _ x hx
      show g y x = g ((y * w + x) / w) ((y * w + x) % w)
      rw [(C11Grid.cell_div_mod hx).1, (C11Grid.cell_div_mod hx).2]
    obtain ⟨hb, hre, hl⟩ := (hG σ g hag).2 hg
    refine ⟨σ, (hresp σ).2 ?_, hre, hl, hkv σ g hag⟩
    intro y hy x hx
    rw [← hag y hy x hx]; exact hb y hy x hx

/-! ### the hidden fragment: borders, division encoding, colours -/

section Frag
variable (H W : Nat)

/-- Everything but the size variables and the givens. -/
def frag (chk : Bool) : Prog :=
  { decls := List.replicate (nB H W) .bool ++ (vgP H W).decls ++
      (if chk then List.replicate (nC H W) VarDecl.bool else []),
    cs := (vgP H W).cs ++ c1 H W ++ (if chk then c3 H W else []) }

/-- The border expressions handed to the division constraint. -/
def edgesE : List Expr := (bsOf (nC H W) H W).map Expr.bvar

/-- The border variable of segment `s`. -/
def bvOf (s : Seg) : Nat := segV (nC H W + H * (W + 1)) (nC H W) W s

/-- "the sizes differ across the `k`-th edge" -/
def bdOf (σ : Asg) (k : Nat) : Bool :=
  match (lg H W).edges[k]? with
  | some e => decide (σ.i e.1 ≠ σ.i e.2)
  | none => false

theorem bdIs (σ : Asg) : BdIs (lg H W) (bdOf H W σ) σ.i := by
  intro k u v hj
  unfold bdOf
  rcases hj with hj | hj
  · rw [hj]; simp
  · rw [hj]; simp only [decide_eq_true_eq]; exact ne_comm

theorem bdOf_congr {σ σ' : Asg} (h : ∀ v, v < nC H W → σ.i v = σ'.i v) : bdOf H W σ = bdOf H W σ' := by
  funext k
  unfold bdOf
  cases hk : (lg H W).edges[k]? with
  | none => rfl
  | some e =>
    obtain ⟨s, _, hs, rfl⟩ := lg_edge hk
    obtain ⟨h1, h2, _⟩ := seg_adj hs
    have e1 : σ.i (segEdge W s).1 = σ'.i (segEdge W s).1 := h _ h1
    have e2 : σ.i (segEdge W s).2 = σ'.i (segEdge W s).2 := h _ h2
    simp only [e1, e2]

theorem c1_sat (σ : Asg) : (∀ c ∈ c1 H W, eval σ c = some (.b true)) ↔
    ∀ s : Seg, s.Valid H W →
      (σ.b (bvOf H W s) = true ↔ σ.i (ptIndex W s.ends.1) ≠ σ.i (ptIndex W s.ends.2)) := by
  have key : ∀ s : Seg, eval σ (defC (nC H W + H * (W + 1)) (nC H W) W .ne Expr.ivar s) = some (.b true) ↔
      (σ.b (bvOf H W s) = true ↔ σ.i (ptIndex W s.ends.1) ≠ σ.i (ptIndex W s.ends.2)) := by
    intro s
    unfold defC
    rw [C07L1.sat_iff2 (eval_bvar _ _) (C07L1.eval_neI (eval_ivar _ _) (eval_ivar _ _)), decide_eq_true_eq]
    rfl
  unfold c1
  constructor
  · intro h s hs
    exact (key s).1 (h _ (List.mem_map_of_mem ((mem_allSegs H W s).2 hs)))
  · intro h c hc
    obtain ⟨s, hs, rfl⟩ := List.mem_map.1 hc
    exact (key s).2 (h s ((mem_allSegs H W s).1 hs))

theorem c3_sat (σ : Asg) : (∀ c ∈ c3 H W, eval σ c = some (.b true)) ↔
    ∀ s : Seg, s.Valid H W →
      (σ.b (bvOf H W s) = true ↔
        σ.b (base2 H W + ptIndex W s.ends.1) ≠ σ.b (base2 H W + ptIndex W s.ends.2)) := by
  have key : ∀ s : Seg, eval σ (defC (nC H W + H * (W + 1)) (nC H W) W .xor
        (fun i => .bvar (base2 H W + i)) s) = some (.b true) ↔
      (σ.b (bvOf H W s) = true ↔
        σ.b (base2 H W + ptIndex W s.ends.1) ≠ σ.b (base2 H W + ptIndex W s.ends.2)) := by
    intro s
    unfold defC
    have hx : eval σ (.node .xor [.bvar (base2 H W + ptIndex W s.ends.1), .bvar (base2 H W + ptIndex W s.ends.2)])
        = some (.b (σ.b (base2 H W + ptIndex W s.ends.1) != σ.b (base2 H W + ptIndex W s.ends.2))) := by
      simp [evalOp, allBools]
    rw [C07L1.sat_iff2 (eval_bvar _ _) hx]
    simp only [bvOf, bne_iff_ne]
  unfold c3
  constructor
  · intro h s hs
    exact (key s).1 (h _ (List.mem_map_of_mem ((mem_allSegs H W s).2 hs)))
  · intro h c hc
    obtain ⟨s, hs, rfl⟩ := List.mem_map.1 hc
    exact (key s).2 (h s ((mem_allSegs H W s).1 hs))

/-- Under the border definitions, the border pattern seen by the division constraint is `bdOf`. -/
theorem truthAt_edges (σ : Asg)
    (h : ∀ s : Seg, s.Valid H W →
      (σ.b (bvOf H W s) = true ↔ σ.i (ptIndex W s.ends.1) ≠ σ.i (ptIndex W s.ends.2))) :
    truthAt σ (edgesE H W) = bdOf H W σ := by
  funext k
  unfold truthAt bdOf edgesE bsOf
  simp only [lg, List.getElem?_map]
  cases hk : (graphSegs H W)[k]? with
  | none => rfl
  | some s =>
    have hs := graphSegs_valid H W s (List.mem_of_getElem? hk)
    have := h s hs
    simp only [Option.map_some, eval_bvar, segEdge]
    unfold bvOf at this
    cases hb : σ.b (segV (nC H W + H * (W + 1)) (nC H W) W s) with
    | true =>
      rw [hb] at this
      simp [this.1 rfl]
    | false =>
      rw [hb] at this
      have : ¬ σ.i (ptIndex W s.ends.1) ≠ σ.i (ptIndex W s.ends.2) := fun hne => by simpa using this.2 hne
      simp [this]

theorem edges_boolArgs : BoolArgs (nC H W + nB H W) (edgesE H W) := by
  intro e he
  simp only [edgesE, List.mem_map] at he
  obtain ⟨b, hb, rfl⟩ := he
  have := bsOf_lt (nC H W) H W b hb
  refine ⟨rfl, ?_⟩
  simp only [Expr.varsBelow, nB]
  exact decide_eq_true this

theorem sizeSpec_gs (σ : Asg) {v : Nat} (hv : v < nC H W) :
    sizeSpec σ (.perVertex (gsOf H W)) v = some (σ.i v) := by
  simp [sizeSpec, gsOf, ivars, hv]

theorem bordersOK_congr {g : Graph} {bd : Nat → Bool} {sz sz' : Nat → Option Int}
    (h : ∀ v, v < g.n → sz v = sz' v) : BordersOK g bd sz ↔ BordersOK g bd sz' := by
  unfold BordersOK
  constructor
  · rintro ⟨h1, h2⟩
    exact ⟨h1, fun v s hv hs => h2 v s hv (by rw [h v hv]; exact hs)⟩
  · rintro ⟨h1, h2⟩
    exact ⟨h1, fun v s hv hs => h2 v s hv (by rw [← h v hv]; exact hs)⟩

/-- C07 for the division fragment of this program. -/
theorem borders_iff (σ : Asg) :
    Realizable (nC H W + nB H W) (vgP H W) σ ↔
      BordersOK (lg H W) (truthAt σ (edgesE H W)) (fun v => some (σ.i v)) := by
  rw [Cspuz.C07.C07_borders_aux (lg H W) (gsOf H W) (edgesE H W) (nC H W + nB H W) (vgP H W) σ (lg_wf H W)
    (gs_sizeArgs H W) (edges_boolArgs H W) (vg_eq H W)]
  exact bordersOK_congr (fun v hv => sizeSpec_gs H W σ hv)

theorem bvOf_ge {s : Seg} (hs : s.Valid H W) : nC H W ≤ bvOf H W s ∧ bvOf H W s < nC H W + nB H W :=
  segV_lt (nC H W) H W hs

theorem frag_decls_ok (chk : Bool) (σ' : Asg) :
    C07L1.DeclOK (nC H W) σ' (frag H W chk).decls ↔ C07L1.DeclOK (nC H W + nB H W) σ' (vgP H W).decls := by
  unfold frag
  simp only
  rw [C07L1.declOK_append, C07L1.declOK_append, List.length_replicate]
  constructor
  · exact fun h => h.1.2
  · intro h
    refine ⟨⟨C07L1.declOK_bool, h⟩, ?_⟩
    cases chk
    · intro k lo hi hk; simp at hk
    · exact C07L1.declOK_bool

theorem mem_frag_cs (chk : Bool) (c : Expr) :
    c ∈ (frag H W chk).cs ↔ c ∈ (vgP H W).cs ∨ c ∈ c1 H W ∨ (chk = true ∧ c ∈ c3 H W) := by
  unfold frag
  cases chk <;> simp [List.mem_append]

/-- The hidden fragment can be completed iff the blocks cut out by "sizes differ" have the sizes written in
them (`BordersOK`), and (checkered) the cells can be 2-coloured with changes exactly where sizes differ. -/
theorem frag_realizable (chk : Bool) (σ : Asg) :
    Realizable (nC H W) (frag H W chk) σ ↔
      (BordersOK (lg H W) (bdOf H W σ) (fun v => some (σ.i v)) ∧
        (chk = true → ∃ c : Nat → Bool, ∀ u v, u < (lg H W).n → v < (lg H W).n →
          cellGraph.Adj (cellOf (W + 1) u) (cellOf (W + 1) v) → (σ.i u ≠ σ.i v ↔ c u ≠ c v))) := by
  constructor
  · rintro ⟨σ', hag, hs⟩
    rw [C07L1.satFrag_iff, frag_decls_ok] at hs
    obtain ⟨hdecl, hcs⟩ := hs
    have hi : ∀ v, v < nC H W → σ.i v = σ'.i v := fun v hv => (hag v hv).2
    have h1 := (c1_sat H W σ').1 (fun c hc => hcs c ((mem_frag_cs H W chk c).2 (Or.inr (Or.inl hc))))
    have hS : SatFrag (nC H W + nB H W) (vgP H W) σ' :=
      C07L1.satFrag_iff.2 ⟨hdecl, fun c hc => hcs c ((mem_frag_cs H W chk c).2 (Or.inl hc))⟩
    have hB := (borders_iff H W σ').1 ⟨σ', AgreeBelow.refl _ _, hS⟩
    rw [truthAt_edges H W σ' h1, ← bdOf_congr H W hi] at hB
    refine ⟨(bordersOK_congr (fun v hv => by rw [hi v hv])).2 hB, ?_⟩
    intro hchk
    have h3 := (c3_sat H W σ').1 (fun c hc => hcs c ((mem_frag_cs H W chk c).2 (Or.inr (Or.inr ⟨hchk, hc⟩))))
    refine ⟨fun u => σ'.b (base2 H W + u), ?_⟩
    intro u v hu hv hadj
    rw [hi u hu, hi v hv]
    obtain ⟨s, hs, he | he⟩ := adj_seg hu hv hadj
    · simp only [segEdge, Prod.mk.injEq] at he
      have a := h1 s hs
      have b := h3 s hs
      rw [he.1, he.2] at a b
      exact a.symm.trans b
    · simp only [segEdge, Prod.mk.injEq] at he
      have a := h1 s hs
      have b := h3 s hs
      rw [he.1, he.2] at a b
      rw [ne_comm, ne_comm (a := σ'.b (base2 H W + u))]
      exact a.symm.trans b
  · rintro ⟨hB, hC⟩
    classical
    -- the border variables
    let σB : Asg :=
      { i := σ.i,
        b := fun id => if id < nC H W then σ.b id
          else decide (∃ s : Seg, s.Valid H W ∧ bvOf H W s = id ∧
            σ.i (ptIndex W s.ends.1) ≠ σ.i (ptIndex W s.ends.2)) }
    have hσB : ∀ s : Seg, s.Valid H W →
        (σB.b (bvOf H W s) = true ↔ σB.i (ptIndex W s.ends.1) ≠ σB.i (ptIndex W s.ends.2)) := by
      intro s hs
      show (if bvOf H W s < nC H W then σ.b (bvOf H W s) else decide _) = true ↔ _
      rw [if_neg (by have := (bvOf_ge H W hs).1; omega), decide_eq_true_eq]
      constructor
      · rintro ⟨t, ht, e, hne⟩
        have := segV_inj (nC H W) ht hs e
        subst this
        exact hne
      · exact fun hne => ⟨s, hs, rfl, hne⟩
    have hagB : AgreeBelow (nC H W) σ σB := by
      intro id hid
      refine ⟨?_, rfl⟩
      show σ.b id = if id < nC H W then σ.b id else _
      rw [if_pos hid]
    -- the division encoding
    have hR : Realizable (nC H W + nB H W) (vgP H W) σB := by
      rw [borders_iff, truthAt_edges H W σB hσB]
      exact hB
    obtain ⟨σ1, hag1, hS1⟩ := hR
    rw [C07L1.satFrag_iff] at hS1
    -- the colours
    let c : Nat → Bool := if h : chk = true then Classical.choose (hC h) else fun _ => false
    let σ2 : Asg :=
      { i := σ1.i, b := fun id => if id < base2 H W then σ1.b id else c (id - base2 H W) }
    have hag2 : AgreeBelow (base2 H W) σ1 σ2 := by
      intro id hid
      refine ⟨?_, rfl⟩
      show σ1.b id = if id < base2 H W then σ1.b id else _
      rw [if_pos hid]
    have hle : nC H W + nB H W ≤ base2 H W := Nat.le_add_right _ _
    have hagB2 : AgreeBelow (nC H W + nB H W) σB σ2 :=
      C11Frag.AgreeBelow.trans hag1 (C11Frag.AgreeBelow.mono hle hag2)
    have h2 : ∀ s : Seg, s.Valid H W →
        (σ2.b (bvOf H W s) = true ↔ σ2.i (ptIndex W s.ends.1) ≠ σ2.i (ptIndex W s.ends.2)) := by
      intro s hs
      obtain ⟨p1, p2, _⟩ := seg_adj hs
      have hb := (bvOf_ge H W hs).2
      have hn : nC H W ≤ nC H W + nB H W := Nat.le_add_right _ _
      rw [← (hagB2 _ hb).1, ← (hagB2 _ (Nat.lt_of_lt_of_le p1 hn)).2, ← (hagB2 _ (Nat.lt_of_lt_of_le p2 hn)).2]
      exact hσB s hs
    refine ⟨σ2, ?_, ?_⟩
    · exact C11Frag.AgreeBelow.trans hagB (C11Frag.AgreeBelow.mono (Nat.le_add_right _ _) hagB2)
    · rw [C07L1.satFrag_iff, frag_decls_ok]
      refine ⟨hS1.1, ?_⟩
      intro e he
      rcases (mem_frag_cs H W chk e).1 he with he | he | ⟨hchk, he⟩
      · rw [← eval_congr_of_varsBelow hag2 e
          ((C11FillominoVG.vgwb_wt (lg_wf H W) (gs_sizeArgs H W) (bsOf_length _ H W)
            (fun b hb => bsOf_lt (nC H W) H W b hb) e he).2)]
        exact hS1.2 e he
      · exact (c1_sat H W σ2).2 h2 e he
      · refine (c3_sat H W σ2).2 ?_ e he
        intro s hs
        rw [h2 s hs]
        obtain ⟨p1, p2, hadj⟩ := seg_adj hs
        have hcs := Classical.choose_spec (hC hchk) _ _ p1 p2 hadj
        have hc : c = Classical.choose (hC hchk) := by simp only [c, hchk, dite_true]
        have e1 : ∀ u, u < nC H W → σ2.i u = σ.i u := fun u hu =>
          ((hagB2 u (Nat.lt_of_lt_of_le hu (Nat.le_add_right _ _))).2).symm
        have e2 : ∀ u, σ2.b (base2 H W + u) = c u := by
          intro u
          show (if base2 H W + u < base2 H W then _ else c (base2 H W + u - base2 H W)) = c u
          rw [if_neg (by omega), Nat.add_sub_cancel_left]
        rw [e1 _ p1, e1 _ p2, e2, e2, hc]
        exact hcs

end Frag

/-! ### the theorem -/

section Main
variable (H W : Nat) (problem : List (List Int)) (chk : Bool)

theorem givens_sat (σ : Asg) :
    (∀ c ∈ givens ⟨H + 1, W + 1, problem, chk⟩, eval σ c = some (.b true)) ↔
      ∀ p, OnBoard (H + 1) (W + 1) p → 1 ≤ val ⟨H + 1, W + 1, problem, chk⟩ p.1 p.2 →
        σ.i (p.1 * (W + 1) + p.2) = val ⟨H + 1, W + 1, problem, chk⟩ p.1 p.2 := by
  constructor
  · intro h p hp hv
    have := h _ (mem_givens.2 ⟨p, hp, hv, rfl⟩)
    exact (C07L1.sat_eqI (eval_ivar _ _) (eval_litI _ _)).1 this
  · intro h c hc
    obtain ⟨p, hp, hv, rfl⟩ := mem_givens.1 hc
    exact (C07L1.sat_eqI (eval_ivar _ _) (eval_litI _ _)).2 (h p hp hv)

theorem progOf_eq : progOf H W problem chk =
    { decls := List.replicate ((H + 1) * (W + 1)) (.int 1 ((nC H W : Nat) : Int)) ++ (frag H W chk).decls,
      cs := (vgP H W).cs ++ c1 H W ++ givens ⟨H + 1, W + 1, problem, chk⟩ ++ (if chk then c3 H W else []),
      keys := List.range ((H + 1) * (W + 1)) } := by
  simp only [progOf, frag, nC, List.append_assoc]

theorem encodes : EncodesRules (progOf H W problem chk) (Rules ⟨H + 1, W + 1, problem, chk⟩) := by
  rw [progOf_eq]
  apply encodes_int_grid_frag (H + 1) (W + 1) 1 ((nC H W : Nat) : Int) (frag H W chk)
    (givens ⟨H + 1, W + 1, problem, chk⟩) _ (RulesGrid ⟨H + 1, W + 1, problem, chk⟩)
  · intro c
    rw [mem_frag_cs]
    cases chk <;> (simp only [List.mem_append, if_true, if_false, List.not_mem_nil, or_false,
      Bool.false_eq_true, false_and, true_and]; try tauto)
  · intro c hc
    obtain ⟨p, hp, _, rfl⟩ := mem_givens.1 hc
    have := C11Grid.cell_lt hp.1 hp.2
    simp only [Expr.varsBelow, Expr.varsBelow.varsBelowList, Bool.and_true, decide_eq_true_eq]
    exact this
  · intro σ g hg
    have hfr := frag_realizable H W chk σ
    simp only [nC] at hfr
    rw [hfr, bordersOK_iff (lg_gridLike H W) (bdIs H W σ) chk, givens_sat]
    constructor
    · rintro ⟨_, ⟨D, hO, hcol⟩, hgiv⟩
      exact ⟨D, hO.conn, fun p hp => (hg p.1 hp.1 p.2 hp.2).trans (hO.size p hp),
        fun p hp hv => (hO.size p hp).symm.trans (hgiv p hp hv), hO.dist, hcol⟩
    · rintro ⟨D, conn, hsz, hgv, dist, hcol⟩
      have hO : Obeys (H + 1) (W + 1) D σ.i :=
        ⟨conn, fun p hp => (hg p.1 hp.1 p.2 hp.2).symm.trans (hsz p hp), dist⟩
      refine ⟨?_, ⟨D, hO, hcol⟩, fun p hp hv => (hO.size p hp).trans (hgv p hp hv)⟩
      intro y hy x hx
      have hB := bordersOK_of_obeys (lg_gridLike H W) (bdIs H W σ) hO
      have hv : y * (W + 1) + x < (lg H W).n := C11Grid.cell_lt hy hx
      have := size_bounds hB hv rfl
      rw [hg y hy x hx]
      exact this

theorem progOf_wt : ∀ c ∈ (progOf H W problem chk).cs, wtB c = true := by
  intro c hc
  simp only [progOf, List.mem_append] at hc
  rcases hc with ((hc | hc) | hc) | hc
  · exact (C11FillominoVG.vgwb_wt (lg_wf H W) (gs_sizeArgs H W) (bsOf_length _ H W)
      (fun b hb => bsOf_lt (nC H W) H W b hb) c hc).1
  · obtain ⟨s, _, rfl⟩ := List.mem_map.1 hc
    rfl
  · obtain ⟨p, _, _, rfl⟩ := mem_givens.1 hc
    rfl
  · cases chk with
    | false => simp at hc
    | true =>
      obtain ⟨s, _, rfl⟩ := List.mem_map.1 hc
      rfl

theorem progOf_keys : (progOf H W problem chk).KeysOk := by
  apply C11Frag.keysOk_range_le
  simp only [List.length_append, List.length_replicate]
  omega

end Main

/-- The full statement for an arbitrary well-formed problem. -/
theorem main (pb : Problem) (hwf : WellFormed pb) (P : PuzzleProg) (hP : program pb = .ok P) :
    EncodesRules P (Rules pb) ∧ P.KeysOk ∧ (∀ c ∈ P.cs, wtB c = true) := by
  obtain ⟨h, w, problem, chk⟩ := pb
  obtain ⟨H, rfl⟩ : ∃ H, h = H + 1 := ⟨h - 1, by have := hwf.1; simp only at this; omega⟩
  obtain ⟨W, rfl⟩ : ∃ W, w = W + 1 := ⟨w - 1, by have := hwf.2.1; simp only at this; omega⟩
  unfold program at hP
  rw [program_eq H W problem chk hwf] at hP
  cases hP
  exact ⟨encodes H W problem chk, progOf_keys H W problem chk, progOf_wt H W problem chk⟩

theorem total (pb : Problem) (hwf : WellFormed pb) : ∃ P, program pb = .ok P := by
  obtain ⟨h, w, problem, chk⟩ := pb
  obtain ⟨H, rfl⟩ : ∃ H, h = H + 1 := ⟨h - 1, by have := hwf.1; simp only at this; omega⟩
  obtain ⟨W, rfl⟩ : ∃ W, w = W + 1 := ⟨w - 1, by have := hwf.2.1; simp only at this; omega⟩
  exact ⟨_, program_eq H W problem chk hwf⟩

end Cspuz.Proofs.C11Fillomino
