/-
  C16, border bitmaps (five borders per base-32 digit): the combinator `Rooms`, the legacy helper
  `encode_grid_segmentation` and the independent pzpr decoder `Pzpr.borders` agree.
-/
import CspuzModel.Spec.C16Formats
import CspuzModel.Proofs.C15RoomsEnc
import CspuzModel.Proofs.C15Roundtrip
namespace Cspuz.Proofs.C16Bits
open Cspuz Cspuz.Ser Cspuz.Codecs Cspuz.C16F

/-! ### one group of five bits -/

/-- a bit as the serializer sees it -/
def bitItem (b : Bool) : PyVal := .int (if b then 1 else 0)

theorem chunkVal_eq (c : List Bool) :
    chunkVal c = (if c.getD 0 false then 16 else 0) + (if c.getD 1 false then 8 else 0) +
      (if c.getD 2 false then 4 else 0) + (if c.getD 3 false then 2 else 0) + (if c.getD 4 false then 1 else 0) := by
  simp [chunkVal, List.range, List.range.loop]

theorem chunkVal_lt (c : List Bool) : chunkVal c < 32 := by
  rw [chunkVal_eq]
  repeat' split
  all_goals omega

theorem bits5_chunk5 : ∀ a b c d e : Bool, Pzpr.bits5 (chunkVal [a, b, c, d, e]) = [a, b, c, d, e] := by decide

theorem mdPack5 : ∀ a b c d e : Bool, ∀ r : List PyVal,
    mdPack 2 5 (bitItem a :: bitItem b :: bitItem c :: bitItem d :: bitItem e :: r) 0 = .ok (chunkVal [a, b, c, d, e]) := by
  intro a b c d e r
  cases a <;> cases b <;> cases c <;> cases d <;> cases e <;> rfl

theorem mdPack_chunk (l : List Bool) : mdPack 2 5 (l.map bitItem) 0 = .ok (chunkVal (l.take 5)) := by
  rcases l with _ | ⟨a, _ | ⟨b, _ | ⟨c, _ | ⟨d, _ | ⟨e, r⟩⟩⟩⟩⟩
  · rfl
  · cases a <;> rfl
  · cases a <;> cases b <;> rfl
  · cases a <;> cases b <;> cases c <;> rfl
  · cases a <;> cases b <;> cases c <;> cases d <;> rfl
  · exact mdPack5 a b c d e _

/-- `bits5` restores the zero-padded group; `take` drops the padding -/
theorem take_bits5 (s : List Bool) (hs : s ≠ []) (X : List Bool) :
    (Pzpr.bits5 (chunkVal (s.take 5)) ++ X).take s.length = s.take 5 ++ X.take (s.length - 5) := by
  rcases s with _ | ⟨a, _ | ⟨b, _ | ⟨c, _ | ⟨d, _ | ⟨e, r⟩⟩⟩⟩⟩
  · exact absurd rfl hs
  · cases a <;> rfl
  · cases a <;> cases b <;> rfl
  · cases a <;> cases b <;> cases c <;> rfl
  · cases a <;> cases b <;> cases c <;> cases d <;> rfl
  · have : (a :: b :: c :: d :: e :: r).take 5 = [a, b, c, d, e] := rfl
    rw [this, bits5_chunk5]
    simp

/-! ### the text of a bit sequence, group by group -/

/-- values of the groups of five -/
def cvals (s : List Bool) : List Nat :=
  (List.range ((s.length + 4) / 5)).map fun i => chunkVal ((s.drop (i * 5)).take 5)

theorem cbs_eq (s : List Bool) : convertBinarySeq s = (cvals s).map digitChar := by
  simp [convertBinarySeq, cvals]

theorem cvals_nil : cvals [] = [] := rfl

theorem cvals_step (s : List Bool) (hs : s ≠ []) : cvals s = chunkVal (s.take 5) :: cvals (s.drop 5) := by
  have hl : 0 < s.length := List.length_pos_iff.2 hs
  have hk : (s.length + 4) / 5 = ((s.drop 5).length + 4) / 5 + 1 := by
    simp only [List.length_drop]; omega
  unfold cvals
  rw [hk, List.range_succ_eq_map]
  simp only [List.map_cons, List.map_map, Nat.zero_mul, List.drop_zero, List.cons.injEq, true_and]
  apply List.map_congr_left
  intro i _
  simp only [Function.comp, List.drop_drop]
  congr 3
  omega

theorem cvals_lt (s : List Bool) : ∀ v ∈ cvals s, v < 32 := by
  intro v hv
  simp only [cvals, List.mem_map] at hv
  obtain ⟨i, _, rfl⟩ := hv
  exact chunkVal_lt _

theorem cvals_length (s : List Bool) : (cvals s).length = (s.length + 4) / 5 := by simp [cvals]

theorem cbs_nil : convertBinarySeq [] = [] := rfl

theorem cbs_step (s : List Bool) (hs : s ≠ []) :
    convertBinarySeq s = digitChar (chunkVal (s.take 5)) :: convertBinarySeq (s.drop 5) := by
  rw [cbs_eq, cbs_eq, cvals_step s hs, List.map_cons]

/-! ### (i) `Seq(MultiDigit(2, 5), n)` writes `convert_binary_seq` -/

theorem mdSer_bits (bits : List Bool) (p : Nat) (hp : p < bits.length) :
    multiDigitSer 2 5 (bits.map bitItem) p =
      .ok (min (bits.length - p) 5, [digitChar (chunkVal ((bits.drop p).take 5))]) := by
  unfold multiDigitSer
  simp only [List.length_map]
  rw [if_neg (by omega), if_neg (by omega), ← List.map_drop, mdPack_chunk, Outcome.bind_ok,
    toBase_of_lt 36 _ (by omega) (by have := chunkVal_lt ((bits.drop p).take 5); omega)]

theorem seqLoop_bits (bits : List Bool) : ∀ fuel p acc, p ≤ bits.length → bits.length - p < fuel →
    seqSerLoop (multiDigitSer 2 5) (bits.map bitItem) bits.length fuel p acc =
      .ok (acc ++ convertBinarySeq (bits.drop p)) := by
  intro fuel
  induction fuel with
  | zero => intro p acc _ h; omega
  | succ fuel ih =>
    intro p acc hp hfu
    unfold seqSerLoop
    by_cases hlt : p < bits.length
    · have hk0 : ¬ min (bits.length - p) 5 = 0 := by omega
      simp only [hlt, if_true, mdSer_bits bits p hlt, hk0, if_false]
      rw [ih _ _ (by omega) (by omega)]
      have hne : bits.drop p ≠ [] := by
        intro h0
        have := congrArg List.length h0
        simp at this; omega
      rw [cbs_step _ hne, List.drop_drop]
      have : bits.drop (p + min (bits.length - p) 5) = bits.drop (p + 5) := by
        by_cases h5 : bits.length - p < 5
        · rw [List.drop_eq_nil_of_le (by omega), List.drop_eq_nil_of_le (by omega)]
        · congr 1; omega
      rw [this]; simp
    · have : p = bits.length := by omega
      subst this; simp [cbs_nil]

/-- **(i)** the combinator `Seq(MultiDigit(2, 5), n)` on a list of `n` bits writes `convert_binary_seq` of the bits -/
theorem seqSer_bits (bits : List Bool) :
    seqSer (multiDigitSer 2 5) bits.length [.list (bits.map fun b => .int (if b then 1 else 0))] 0 =
      .ok (1, convertBinarySeq bits) := by
  have := seqLoop_bits bits (bits.length + 1) 0 [] (by omega) (by omega)
  simp only [List.drop_zero, List.nil_append] at this
  change seqSer _ _ [.list (bits.map bitItem)] 0 = _
  simp [seqSer, withItem, this]

/-! ### (ii) pzpr reads `convert_binary_seq` back -/

theorem digitBelow_digitChar (v : Nat) (hv : v < 32) : Pzpr.digitBelow 32 (digitChar v) = some v := by
  unfold Pzpr.digitBelow Pzpr.digitVal digitChar
  by_cases h : v < 10
  · have h1 : 48 ≤ 48 + v ∧ 48 + v ≤ 57 := by omega
    simp only [h, if_true, h1, and_self]
    simp [hv]
  · have h1 : ¬ (48 ≤ 87 + v ∧ 87 + v ≤ 57) := by omega
    have h2 : 97 ≤ 87 + v ∧ 87 + v ≤ 122 := by omega
    simp only [h, if_false, h1, h2, and_self, if_true]
    simp [hv]

theorem mapOpt_digits : ∀ vs : List Nat, (∀ v ∈ vs, v < 32) →
    Pzpr.mapOpt (Pzpr.digitBelow 32) (vs.map digitChar) = some vs := by
  intro vs
  induction vs with
  | nil => intro _; rfl
  | cons v vs ih =>
    intro h
    simp only [List.map_cons, Pzpr.mapOpt, digitBelow_digitChar v (h v (by simp)),
      ih fun v' hv' => h v' (by simp [hv'])]

theorem unpack_bits : ∀ (n : Nat) (s : List Bool), s.length = n →
    (((cvals s).map Pzpr.bits5).flatten).take s.length = s := by
  intro n
  induction n using Nat.strongRecOn with
  | ind n ih =>
    intro s hn
    by_cases hs : s = []
    · subst hs; rfl
    · have hl : 0 < s.length := List.length_pos_iff.2 hs
      rw [cvals_step s hs, List.map_cons, List.flatten_cons, take_bits5 s hs]
      have := ih (s.drop 5).length (by simp; omega) (s.drop 5) rfl
      rw [List.length_drop] at this
      rw [this, List.take_append_drop]

/-- **(ii)** `Pzpr.bitmap` reads the bits back and leaves the rest of the text -/
theorem bitmap_cbs (bits : List Bool) (rest : Str) :
    Pzpr.bitmap bits.length (convertBinarySeq bits ++ rest) = some (bits, rest) := by
  have hlen : (convertBinarySeq bits).length = (bits.length + 4) / 5 := by rw [cbs_eq]; simp [cvals_length]
  unfold Pzpr.bitmap
  simp only
  rw [if_neg (by simp only [List.length_append]; omega)]
  rw [← hlen, List.take_left', List.drop_left', cbs_eq, mapOpt_digits _ (cvals_lt bits)]
  · simp [unpack_bits bits.length bits rfl]
  · rfl
  · rfl

/-! ### grids of bits -/

/-- row-major bit list of a function on the cells of an `r × c` grid -/
def flatBits (r c : Nat) (F : Nat → Nat → Bool) : List Bool := (cells r c).map fun p => F p.1 p.2

/-- the same bits as the Python list of rows -/
def bitRows (r c : Nat) (F : Nat → Nat → Bool) : List PyVal :=
  (List.range r).map fun y => .list ((List.range c).map fun x => bitItem (F y x))

/-- the same bits as pzpr's rows -/
def boolRows (r c : Nat) (F : Nat → Nat → Bool) : List (List Bool) :=
  (List.range r).map fun y => (List.range c).map fun x => F y x

theorem flatBits_length (r c : Nat) (F : Nat → Nat → Bool) : (flatBits r c F).length = r * c := by
  simp [flatBits, length_cells]

theorem flatBits_eq (r c : Nat) (F : Nat → Nat → Bool) :
    flatBits r c F = (List.range r).flatMap fun y => (List.range c).map fun x => F y x := by
  simp [flatBits, cells, List.map_flatMap, Function.comp_def]

theorem flatBits_congr (r c : Nat) (F G : Nat → Nat → Bool) (hFG : ∀ y x, y < r → x < c → F y x = G y x) :
    flatBits r c F = flatBits r c G := by
  unfold flatBits
  apply List.map_congr_left
  intro p hp
  obtain ⟨a, b⟩ := mem_cells.1 hp
  exact hFG _ _ a b

theorem boolRows_congr (r c : Nat) (F G : Nat → Nat → Bool) (hFG : ∀ y x, y < r → x < c → F y x = G y x) :
    boolRows r c F = boolRows r c G := by
  unfold boolRows
  apply List.map_congr_left
  intro y hy
  apply List.map_congr_left
  intro x hx
  exact hFG _ _ (List.mem_range.1 hy) (List.mem_range.1 hx)

theorem rowsFlat_map (g : Nat → List PyVal) : ∀ ys : List Nat,
    rowsFlat (ys.map fun y => .list (g y)) = ys.flatMap g := by
  intro ys
  induction ys with
  | nil => rfl
  | cons y ys ih => simp [rowsFlat, ih]

theorem rowsFlat_bitRows (r c : Nat) (F : Nat → Nat → Bool) :
    rowsFlat (bitRows r c F) = (flatBits r c F).map bitItem := by
  unfold bitRows
  rw [rowsFlat_map, flatBits_eq]
  simp [List.map_flatMap, Function.comp_def]

theorem gridShape_bitRows (r c : Nat) (F : Nat → Nat → Bool) : GridShape r c (bitRows r c F) := by
  refine ⟨by simp [bitRows], ?_⟩
  intro row hrow
  simp only [bitRows, List.mem_map, List.mem_range] at hrow
  obtain ⟨y, _, rfl⟩ := hrow
  exact ⟨_, rfl, by simp⟩

/-- `Grid(MultiDigit(2, 5), r, c)` on a grid of bits writes `convert_binary_seq` of the row-major bits -/
theorem gridSer_bitRows (r c : Nat) (F : Nat → Nat → Bool) :
    gridSer (multiDigitSer 2 5) r c [.list (bitRows r c F)] 0 = .ok (1, convertBinarySeq (flatBits r c F)) := by
  obtain ⟨hflat, _⟩ := gridFlatten_shape r c _ (gridShape_bitRows r c F)
  have hs := seqSer_bits (flatBits r c F)
  rw [flatBits_length] at hs
  change seqSer _ _ [.list ((flatBits r c F).map bitItem)] 0 = _ at hs
  unfold gridSer withItem
  simp [hflat, rowsFlat_bitRows, hs]

theorem toRows_flat (c : Nat) (G : Nat → Nat → Bool) : ∀ ys : List Nat,
    Pzpr.toRows c (ys.flatMap fun y => (List.range c).map fun x => G y x) ys.length =
      ys.map fun y => (List.range c).map fun x => G y x := by
  intro ys
  induction ys with
  | nil => rfl
  | cons y ys ih =>
    simp only [List.flatMap_cons, List.length_cons, Pzpr.toRows, List.map_cons]
    rw [List.take_left' (by simp), List.drop_left' (by simp), ih]

theorem toRows_flatBits (r c : Nat) (F : Nat → Nat → Bool) :
    Pzpr.toRows c (flatBits r c F) r = boolRows r c F := by
  have := toRows_flat c F (List.range r)
  rw [List.length_range] at this
  rw [flatBits_eq, this, boolRows]

/-! ### the two bitmaps of a grid of ids -/

def vF (g : Grid2 Int) (y x : Nat) : Bool := gv g y x != gv g y (x + 1)
def hF (g : Grid2 Int) (y x : Nat) : Bool := gv g y x != gv g (y + 1) x

/-- the text both encoders write for the id grid `g` -/
def segText (h w : Nat) (g : Grid2 Int) : Str :=
  convertBinarySeq (flatBits h (w - 1) (vF g)) ++ convertBinarySeq (flatBits (h - 1) w (hF g))

theorem vertBits_eq (g : Grid2 Int) (h w : Nat) : vertBits g h w = bitRows h (w - 1) (vF g) := rfl
theorem horBits_eq (g : Grid2 Int) (h w : Nat) : horBits g h w = bitRows (h - 1) w (hF g) := rfl

/-- the bitmap layer of `Rooms` writes `segText` -/
theorem bordersSer_bits (h w : Nat) (g : Grid2 Int) :
    bordersSer h w [.tuple [.list [.list (vertBits g h w)], .list [.list (horBits g h w)]]] 0 =
      .ok (1, segText h w g) := by
  simp [bordersSer, tuplSer, withItem, tuplSerParts, asSeq?, vertBits_eq, horBits_eq, gridSer_bitRows, segText]

/-- pzpr reads `segText` back -/
theorem pzpr_segText (h w : Nat) (g : Grid2 Int) (rest : Str) :
    Pzpr.borders h w (segText h w g ++ rest) = some (⟨boolRows h (w - 1) (vF g), boolRows (h - 1) w (hF g)⟩, rest) := by
  have h1 := bitmap_cbs (flatBits h (w - 1) (vF g)) (convertBinarySeq (flatBits (h - 1) w (hF g)) ++ rest)
  have h2 := bitmap_cbs (flatBits (h - 1) w (hF g)) rest
  rw [flatBits_length] at h1 h2
  unfold Pzpr.borders segText
  rw [List.append_assoc, h1]
  simp only [h2, toRows_flatBits]

/-! ### the legacy helper `encode_grid_segmentation` -/

theorem segBits_ok {h w : Nat} {g : Grid2 Int} (hd : Dims h w g) (dy dx : Nat) : ∀ l : List (Nat × Nat),
    (∀ p ∈ l, p.1 + dy < h ∧ p.2 + dx < w) →
    segBits g dy dx l = .ok (l.map fun p => gv g p.1 p.2 != gv g (p.1 + dy) (p.2 + dx)) := by
  intro l
  induction l with
  | nil => intro _; rfl
  | cons p l ih =>
    intro hin
    obtain ⟨y, x⟩ := p
    obtain ⟨hy, hx⟩ := hin (y, x) (by simp)
    simp only at hy hx
    simp only [segBits, rd2_eq hd (show y < h by omega) (show x < w by omega), rd2_eq hd hy hx, Outcome.bind_ok,
      ih fun p' hp' => hin p' (by simp [hp']), List.map_cons]

/-- on an `h × w` grid of ids the legacy helper writes `segText` -/
theorem encode_ok {h w : Nat} {g : Grid2 Int} (hd : Dims h w g) :
    encodeGridSegmentation h w g = .ok (segText h w g) := by
  unfold encodeGridSegmentation
  rw [segBits_ok hd 0 1 (cells h (w - 1)) (fun p hp => by have := mem_cells.1 hp; omega),
    segBits_ok hd 1 0 (cells (h - 1) w) (fun p hp => by have := mem_cells.1 hp; omega)]
  rfl

theorem idAt_eq_gv (bid : List (List Int)) (y x : Nat) : (bid.getD y []).getD x 0 = gv bid y x := by
  simp [gv, List.getD_eq_getElem?_getD]

theorem bordersOfIds_eq (h w : Nat) (bid : List (List Int)) :
    bordersOfIds h w bid = ⟨boolRows h (w - 1) (vF bid), boolRows (h - 1) w (hF bid)⟩ := by
  simp only [bordersOfIds, idAt_eq_gv]
  rfl

/-- a grid of block ids (star battle): pzpr reads the borders back -/
theorem pzpr_segmentation_ids (h w : Nat) (bid : List (List Int)) (hd : bid.length = h ∧ ∀ r ∈ bid, r.length = w)
    (rest : Str) :
    ∃ t, encodeGridSegmentation h w bid = .ok t ∧ Pzpr.borders h w (t ++ rest) = some (bordersOfIds h w bid, rest) :=
  ⟨segText h w bid, encode_ok hd, by rw [pzpr_segText, bordersOfIds_eq]⟩

/-! ### `Rooms` on a valid partition -/

theorem roomIdx_eq_roomOf : roomIdx = roomOf := rfl

theorem bne_natCast (a b : Nat) : ((a : Int) != (b : Int)) = (a != b) := by
  by_cases h : a = b
  · subst h; simp
  · have : (a : Int) ≠ (b : Int) := by omega
    rw [bne_iff_ne.2 this, bne_iff_ne.2 h]

theorem bordersOf_eq (h w : Nat) (rooms : List (List (Nat × Nat))) (g : Grid2 Int)
    (hg : ∀ y x, y < h → x < w → gv g y x = ((roomOf rooms (y, x) : Nat) : Int)) :
    bordersOf h w rooms = ⟨boolRows h (w - 1) (vF g), boolRows (h - 1) w (hF g)⟩ := by
  have e1 : boolRows h (w - 1) (vF g) =
      boolRows h (w - 1) fun y x => roomIdx rooms (y, x) != roomIdx rooms (y, x + 1) := by
    apply boolRows_congr
    intro y x hy hx
    simp only [vF, hg y x hy (by omega), hg y (x + 1) hy (by omega), bne_natCast, roomIdx_eq_roomOf]
  have e2 : boolRows (h - 1) w (hF g) =
      boolRows (h - 1) w fun y x => roomIdx rooms (y, x) != roomIdx rooms (y + 1, x) := by
    apply boolRows_congr
    intro y x hy hx
    simp only [hF, hg y x (by omega) hx, hg (y + 1) x (by omega) hx, bne_natCast, roomIdx_eq_roomOf]
  rw [e1, e2]
  rfl

/-- what `Rooms` writes for a valid partition: `segText` of a grid holding the room index of every cell -/
theorem rooms_text (h w : Nat) (hh : 1 ≤ h) (hw : 1 ≤ w) (rooms : List (List (Nat × Nat)))
    (hv : ValidPartition h w rooms) (skip allow : Bool) :
    ∃ rid : Grid2 Int, Dims h w rid ∧ (∀ y x, y < h → x < w → gv rid y x = ((roomOf rooms (y, x) : Nat) : Int)) ∧
      ser (.rooms skip allow) ⟨h, w⟩ [roomsVal rooms] 0 = .ok (1, segText h w rid) := by
  obtain ⟨rid, hd, hg, henc⟩ := roomsSerCore_valid h w hh hw rooms hv
  refine ⟨rid, hd, hg, ?_⟩
  simp only [ser]
  unfold roomsSer
  rw [henc, bordersSer_bits]
  cases skip <;> rfl

/-- pzpr reads what `Rooms` writes: the borders of the partition, and leaves the rest of the text untouched -/
theorem pzpr_rooms_borders (h w : Nat) (hh : 1 ≤ h) (hw : 1 ≤ w) (rooms : List (List (Nat × Nat)))
    (hv : ValidPartition h w rooms) (skip allow : Bool) (t : Str)
    (hs : ser (.rooms skip allow) ⟨h, w⟩ [roomsVal rooms] 0 = .ok (1, t)) (rest : Str) :
    Pzpr.borders h w (t ++ rest) = some (bordersOf h w rooms, rest) := by
  obtain ⟨rid, _, hg, hser⟩ := rooms_text h w hh hw rooms hv skip allow
  rw [hser] at hs
  have ht : segText h w rid = t := by
    injection hs with hs
    exact (Prod.mk.inj hs).2
  rw [← ht, pzpr_segText, bordersOf_eq h w rooms rid hg]

/-! ### the legacy helper `blocks_to_block_id` on a valid partition -/

/-- a cell as the pair of Python ints the legacy helpers take -/
def cellI (c : Nat × Nat) : Int × Int := ((c.1 : Int), (c.2 : Int))

theorem pyIdx_nat (n k : Nat) (hk : k < n) : pyIdx n (k : Int) = .ok k := by
  unfold pyIdx
  have h1 : ¬ ((k : Int) < 0) := by omega
  have h2 : (decide (0 ≤ (k : Int)) && decide ((k : Int) < (n : Int))) = true := by simp; omega
  simp only [h1, if_false, h2, if_true, Int.toNat_natCast]

theorem pySet2_nat {h w : Nat} {g : Grid2 Int} (hd : Dims h w g) {y x : Nat} (hy : y < h) (hx : x < w) (v : Int) :
    pySet2 g (y : Int) (x : Int) v = .ok (set2 g y x v) := by
  obtain ⟨hl, hr⟩ := hd
  have hy' : y < g.length := by omega
  have hrow : g[y].length = w := hr _ (List.getElem_mem hy')
  unfold pySet2
  rw [hl, pyIdx_nat h y hy, Outcome.bind_ok, List.getElem?_eq_getElem hy']
  simp only [hrow, pyIdx_nat w x hx, Outcome.bind_ok]

theorem assignBlock_ok (h w : Nat) (i : Int) : ∀ (ps : List (Nat × Nat)) (g : Grid2 Int), Dims h w g →
    (∀ p ∈ ps, p.1 < h ∧ p.2 < w) →
    ∃ g', assignBlock i (ps.map cellI) g = .ok g' ∧ Dims h w g' ∧
      ∀ y x, gv g' y x = if (y, x) ∈ ps then i else gv g y x := by
  intro ps
  induction ps with
  | nil => intro g hd _; exact ⟨g, rfl, hd, by simp⟩
  | cons p ps ih =>
    intro g hd hin
    obtain ⟨y, x⟩ := p
    obtain ⟨hy, hx⟩ := hin (y, x) (by simp)
    simp only at hy hx
    obtain ⟨g', h1, h2, h3⟩ := ih (set2 g y x i) (dims_set2 hd y x i) (fun p hp => hin p (by simp [hp]))
    refine ⟨g', ?_, h2, ?_⟩
    · simp only [List.map_cons, cellI, assignBlock, pySet2_nat hd hy hx, Outcome.bind_ok]
      exact h1
    · intro y' x'
      rw [h3, gv_set2 hd hy hx]
      by_cases hm : (y', x') ∈ ps
      · simp [hm]
      · by_cases he : y' = y ∧ x' = x
        · obtain ⟨rfl, rfl⟩ := he; simp
        · have : ¬ ((y', x') = (y, x)) := by simpa using he
          simp [hm, he, this]

theorem assignBlocks_ok (h w : Nat) : ∀ (rs : List (List (Nat × Nat))) (i : Int) (g : Grid2 Int), Dims h w g →
    rs.flatten.Nodup → (∀ r ∈ rs, ∀ p ∈ r, p.1 < h ∧ p.2 < w) →
    ∃ g', assignBlocks (rs.map fun r => r.map cellI) i g = .ok g' ∧ Dims h w g' ∧
      ∀ y x, gv g' y x =
        if rs.any (·.contains (y, x)) then i + ((rs.findIdx (·.contains (y, x)) : Nat) : Int) else gv g y x := by
  intro rs
  induction rs with
  | nil => intro i g hd _ _; exact ⟨g, rfl, hd, by simp⟩
  | cons r rs ih =>
    intro i g hd hnd hin
    rw [List.flatten_cons, List.nodup_append] at hnd
    obtain ⟨_, hrs, hdis⟩ := hnd
    obtain ⟨g1, h1, h2, h3⟩ := assignBlock_ok h w i r g hd (hin r (by simp))
    obtain ⟨g', k1, k2, k3⟩ := ih (i + 1) g1 h2 hrs (fun r' hr' => hin r' (by simp [hr']))
    refine ⟨g', ?_, k2, ?_⟩
    · simp only [List.map_cons, assignBlocks, h1, Outcome.bind_ok]
      exact k1
    · intro y x
      rw [k3, h3, List.findIdx_cons, List.any_cons]
      by_cases hm : (y, x) ∈ r
      · have hnot : rs.any (·.contains (y, x)) = false := by
          rw [List.any_eq_false]
          intro r' hr'
          have : (y, x) ∉ r' := fun hp => hdis _ hm _ (List.mem_flatten.2 ⟨r', hr', hp⟩) rfl
          simpa using this
        have hc : r.contains (y, x) = true := by simpa using hm
        simp only [hnot, hc, Bool.true_or, cond_true, hm, if_true, Bool.false_eq_true, if_false]
        simp
      · have hc : r.contains (y, x) = false := by simpa using hm
        simp only [hc, Bool.false_or, cond_false, hm, if_false]
        split
        · push_cast; omega
        · rfl

/-- `blocks_to_block_id` on a valid partition: the grid holding the room index of every cell -/
theorem blocksToBlockId_valid (h w : Nat) (rooms : List (List (Nat × Nat))) (hv : ValidPartition h w rooms) :
    ∃ bid : Grid2 Int, blocksToBlockId h w (rooms.map fun r => r.map fun c => ((c.1 : Int), (c.2 : Int))) = .ok bid ∧
      Dims h w bid ∧ ∀ y x, y < h → x < w → gv bid y x = ((roomOf rooms (y, x) : Nat) : Int) := by
  obtain ⟨bid, h1, h2, h3⟩ := assignBlocks_ok h w rooms 0 (List.replicate h (List.replicate w (-1)))
    (dims_replicate h w _) hv.nodup_flatten (fun r hr p hp => hv.mem_board hr hp)
  refine ⟨bid, h1, h2, ?_⟩
  intro y x hy hx
  have hlt := hv.roomOf_lt (c := (y, x)) hy hx
  have hany : rooms.any (·.contains (y, x)) = true := by
    rw [List.any_eq_true]
    exact ⟨_, List.getElem_mem hlt, by simpa using hv.mem_roomOf (c := (y, x)) hy hx hlt⟩
  rw [h3, if_pos hany]
  simp [roomOf]

theorem segText_congr (h w : Nat) (g g' : Grid2 Int) (hg : ∀ y x, y < h → x < w → gv g y x = gv g' y x) :
    segText h w g = segText h w g' := by
  unfold segText
  rw [flatBits_congr h (w - 1) (vF g) (vF g') (fun y x hy hx => by
      simp only [vF, hg y x hy (by omega), hg y (x + 1) hy (by omega)]),
    flatBits_congr (h - 1) w (hF g) (hF g') (fun y x hy hx => by
      simp only [hF, hg y x (by omega) hx, hg (y + 1) x (by omega) hx])]

/-- legacy helper = combinator: `encode_grid_segmentation(h, w, blocks_to_block_id(h, w, rooms))` is the text of `Rooms` -/
theorem legacy_segmentation (h w : Nat) (hh : 1 ≤ h) (hw : 1 ≤ w) (rooms : List (List (Nat × Nat)))
    (hv : ValidPartition h w rooms) (skip allow : Bool) :
    ∃ bid t, blocksToBlockId h w (rooms.map fun r => r.map fun c => ((c.1 : Int), (c.2 : Int))) = .ok bid ∧
      encodeGridSegmentation h w bid = .ok t ∧ ser (.rooms skip allow) ⟨h, w⟩ [roomsVal rooms] 0 = .ok (1, t) := by
  obtain ⟨bid, hb, hd, hg⟩ := blocksToBlockId_valid h w rooms hv
  obtain ⟨rid, _, hg', hser⟩ := rooms_text h w hh hw rooms hv skip allow
  refine ⟨bid, segText h w bid, hb, encode_ok hd, ?_⟩
  rw [hser, segText_congr h w rid bid (fun y x hy hx => by rw [hg y x hy hx, hg' y x hy hx])]

end Cspuz.Proofs.C16Bits

section
open Cspuz.Proofs.C16Bits
#print axioms seqSer_bits
#print axioms bitmap_cbs
#print axioms pzpr_rooms_borders
#print axioms legacy_segmentation
#print axioms pzpr_segmentation_ids
end
