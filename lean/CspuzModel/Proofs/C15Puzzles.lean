/-
  C15 / C17: the decidable side conditions on the REGENERATED puzzle combinators (finite table: `decide`).
-/
import CspuzModel.Spec.Serializer
import CspuzModel.Gen.PuzzleCombinators
namespace Cspuz.Ser
open Cspuz

theorem puzzles_wf : ∀ pc ∈ Gen.puzzleCodecs, wf pc.comb = true ∧ single pc.comb = true ∧ terminating pc.comb = true := by
  decide

end Cspuz.Ser
