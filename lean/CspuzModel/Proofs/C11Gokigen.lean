/-
  C11 / gokigen: the program posted by `solve_gokigen` encodes the published rules (Spec/PuzzleRules/Gokigen.lean).
  Part A: closed form of the program; part G: the forest condition is "no closed loop"; here: the clue constraints
  are the touching counts, everything is well-typed, and the assembly.
-/
import CspuzModel.Proofs.C11GokigenG
namespace Cspuz.Proofs.C11Gokigen
open Cspuz Cspuz.Spec Cspuz.Puzzles Cspuz.Puzzles.Gokigen Cspuz.Proofs Cspuz.Spec.Gokigen
open Cspuz.Proofs.C11GokigenA Cspuz.Proofs.C11GokigenG

/-! ### well-typedness of `count_true` -/

theorem wtIs_ctOps : ∀ xs : List Expr, (∀ x ∈ xs, wtB x = true) → wtIs (ctOps xs) = true
  | [], _ => rfl
  | x :: r, h => by
    have ih := wtIs_ctOps r (fun y hy => h y (List.mem_cons_of_mem _ hy))
    have hx := h x List.mem_cons_self
    cases x <;> simp_all [ctOps, wtIs, wtI, wtB]

theorem wtIs_append : ∀ a b : List Expr, wtIs (a ++ b) = (wtIs a && wtIs b)
  | [], b => by simp [wtIs]
  | x :: a, b => by simp [wtIs, wtIs_append a b, Bool.and_assoc]

theorem wtI_countTrueE (xs : List Expr) (h : ∀ x ∈ xs, wtB x = true) : wtI (countTrueE xs) = true := by
  unfold countTrueE
  have h1 := wtIs_ctOps xs h
  by_cases hc : ctConst xs > 0
  · simp only [hc, if_true]
    have : (ctOps xs ++ [Expr.litI (ctConst xs : Nat)]).isEmpty = false := by simp
    simp only [this, Bool.false_eq_true, if_false, wtI, wtIs_append, h1, wtIs, Bool.and_self, Bool.and_true]
    simp
  · simp only [hc, if_false]
    cases hops : ctOps xs with
    | nil => simp [wtI]
    | cons y ys =>
      rw [hops] at h1
      simp only [List.isEmpty_cons, Bool.false_eq_true, if_false, wtI, h1, Bool.and_true]
      simp

/-! ### the constraints of `active_edges_acyclic` are well-typed -/

theorem forest_wt {g : Graph} {ie : List Expr} {base : Nat} {p : Prog}
    (hwf : g.wf = true) (hlen : ie.length = g.edges.length) (hie : BoolArgs base ie)
    (hp : activeEdgesAcyclic g ie base = .ok p) : ∀ c ∈ p.cs, wtB c = true := by
  have hn := C09L1.forest_ok_pos hp
  rw [C09L1.forest_eq_prog hn hwf hlen hie] at hp
  cases hp
  intro c hc
  simp only [C09L1.forestProg, List.mem_flatten, List.mem_map, List.mem_range] at hc
  obtain ⟨l, ⟨i, _, rfl⟩, hc⟩ := hc
  simp only [C09L1.forestCs, List.mem_append, List.mem_flatMap, List.mem_singleton] at hc
  rcases hc with ⟨it, hit, hc⟩ | rfl
  · simp only [C09L1.itemsE, List.mem_map] at hit
    obtain ⟨je, _, rfl⟩ := hit
    simp only at hc
    split at hc
    · simp only [List.mem_singleton] at hc
      subst hc
      simp [wtB, wtIs, wtI]
    · simp at hc
  · have hit : ∀ x ∈ (C09L1.itemsE g ie base i).map (·.1), wtB x = true := by
      intro x hx
      simp only [C09L1.itemsE, List.map_map, List.mem_map, Function.comp] at hx
      obtain ⟨je, hje, rfl⟩ := hx
      have hb := incident_bounds hwf hje
      have hj : je.2 < ie.length := by omega
      have hgd : ie.getD je.2 .litNone = ie[je.2] := by simp [List.getD, List.getElem?_eq_getElem hj]
      have hw := (hie _ (List.getElem_mem hj)).1
      rw [hgd]
      simp [wtB, wtBs, wtIs, wtI, hw]
    simp [wtB, wtIs, wtI, wtI_countTrueE _ hit]

/-! ### the clue constraints -/

theorem wtB_lit (neg : Bool) (i : Nat) : wtB (lit neg i) = true := by
  cases neg <;> simp [lit, wtB, wtBs]

theorem varsBelow_lit (neg : Bool) {i n : Nat} (hi : i < n) : (lit neg i).varsBelow n = true := by
  cases neg <;> simp [lit, Expr.varsBelow, Expr.varsBelow.varsBelowList, hi]

/-- Every literal of `related` is a literal of a cell of the board. -/
theorem mem_related {h w y x : Nat} (hy : y ≤ h) (hx : x ≤ w) {e : Expr} (he : e ∈ related h w y x) :
    ∃ neg i, i < h * w ∧ e = lit neg i := by
  simp only [related, List.mem_append] at he
  rcases he with ((he | he) | he) | he <;>
  · split at he
    · rename_i hc
      simp only [List.mem_singleton] at he
      exact ⟨_, _, C11Grid.cell_lt (by omega) (by omega), he⟩
    · simp at he

theorem varsBelowList_of_forall {n : Nat} : ∀ l : List Expr, (∀ e ∈ l, e.varsBelow n = true) →
    Expr.varsBelow.varsBelowList n l = true
  | [], _ => rfl
  | e :: r, h => by
    simp only [Expr.varsBelow.varsBelowList, Bool.and_eq_true]
    exact ⟨h e List.mem_cons_self, varsBelowList_of_forall r (fun x hx => h x (List.mem_cons_of_mem _ hx))⟩

theorem varsBelowList_append {n : Nat} : ∀ a b : List Expr,
    Expr.varsBelow.varsBelowList n (a ++ b) =
      (Expr.varsBelow.varsBelowList n a && Expr.varsBelow.varsBelowList n b)
  | [], b => by simp [Expr.varsBelow.varsBelowList]
  | x :: a, b => by simp [Expr.varsBelow.varsBelowList, varsBelowList_append a b, Bool.and_assoc]

theorem varsBelowList_ctOps {n : Nat} : ∀ xs : List Expr, (∀ x ∈ xs, x.varsBelow n = true) →
    Expr.varsBelow.varsBelowList n (ctOps xs) = true
  | [], _ => rfl
  | x :: r, h => by
    have ih := varsBelowList_ctOps r (fun y hy => h y (List.mem_cons_of_mem _ hy))
    have hx := h x List.mem_cons_self
    cases x <;> simp_all [ctOps, Expr.varsBelow, Expr.varsBelow.varsBelowList]

theorem varsBelow_countTrueE {n : Nat} (xs : List Expr) (h : ∀ x ∈ xs, x.varsBelow n = true) :
    (countTrueE xs).varsBelow n = true := by
  unfold countTrueE
  have h1 := varsBelowList_ctOps xs h
  by_cases hc : ctConst xs > 0
  · simp only [hc, if_true]
    have : (ctOps xs ++ [Expr.litI (ctConst xs : Nat)]).isEmpty = false := by simp
    simp [this, Expr.varsBelow, varsBelowList_append, h1, Expr.varsBelow.varsBelowList]
  · simp only [hc, if_false]
    cases hops : ctOps xs with
    | nil => simp [Expr.varsBelow, Expr.varsBelow.varsBelowList]
    | cons y ys =>
      rw [hops] at h1
      simp only [List.isEmpty_cons, Bool.false_eq_true, if_false, Expr.varsBelow, h1]

theorem mem_clueAll {pb : Problem} {c : Expr} :
    c ∈ clueAll pb ↔ ∃ y x, y ≤ pb.height ∧ x ≤ pb.width ∧ c ∈ clueE pb y x := by
  simp only [clueAll, List.mem_flatten, List.mem_map]
  constructor
  · rintro ⟨l, ⟨p, hp, rfl⟩, hc⟩
    obtain ⟨hy, hx⟩ := mem_cellsOf.1 hp
    exact ⟨p.1, p.2, by omega, by omega, hc⟩
  · rintro ⟨y, x, hy, hx, hc⟩
    exact ⟨_, ⟨(y, x), mem_cellsOf.2 ⟨by simp only; omega, by simp only; omega⟩, rfl⟩, hc⟩

theorem clue_wt (pb : Problem) : ∀ c ∈ clueAll pb, wtB c = true := by
  intro c hc
  obtain ⟨y, x, hy, hx, hc⟩ := mem_clueAll.1 hc
  unfold clueE at hc
  split at hc
  · simp only [List.mem_singleton] at hc
    subst hc
    have : ∀ e ∈ related pb.height pb.width y x, wtB e = true := by
      intro e he
      obtain ⟨neg, i, _, rfl⟩ := mem_related hy hx he
      exact wtB_lit _ _
    simp [wtB, wtIs, wtI, wtI_countTrueE _ this]
  · simp at hc

theorem clue_varsBelow (pb : Problem) : ∀ c ∈ clueAll pb, c.varsBelow (pb.height * pb.width) = true := by
  intro c hc
  obtain ⟨y, x, hy, hx, hc⟩ := mem_clueAll.1 hc
  unfold clueE at hc
  split at hc
  · simp only [List.mem_singleton] at hc
    subst hc
    have : ∀ e ∈ related pb.height pb.width y x, e.varsBelow (pb.height * pb.width) = true := by
      intro e he
      obtain ⟨neg, i, hi, rfl⟩ := mem_related hy hx he
      exact varsBelow_lit _ hi
    simp [Expr.varsBelow, Expr.varsBelow.varsBelowList, varsBelow_countTrueE _ this]
  · simp at hc

/-! ### meaning of the clue constraints -/

theorem eval_lit (σ : Asg) (neg : Bool) (i : Nat) :
    eval σ (lit neg i) = some (.b (if neg then !σ.b i else σ.b i)) := by
  cases neg
  · simp [lit]
  · simp only [lit, if_true]
    exact eval_not (eval_bvar σ i)

theorem map_guard {α β : Type} (c : Prop) [Decidable c] (f : α → β) (e : α) :
    (if c then [e] else []).map f = if c then [f e] else [] := by
  split <;> rfl

theorem count_guard (c : Prop) [Decidable c] (b : Bool) :
    (if c then [b] else []).count true = if c ∧ b = true then 1 else 0 := by
  by_cases hc : c <;> cases b <;> simp [hc]

/-- The truth values of the literals of `related` under `σ`. -/
def relatedVals (σ : Asg) (h w y x : Nat) : List Bool :=
  (if 0 < y ∧ 0 < x then [σ.b ((y - 1) * w + (x - 1))] else []) ++
  (if 0 < y ∧ x < w then [!σ.b ((y - 1) * w + x)] else []) ++
  (if y < h ∧ 0 < x then [!σ.b (y * w + (x - 1))] else []) ++
  (if y < h ∧ x < w then [σ.b (y * w + x)] else [])

theorem related_eval (σ : Asg) (h w y x : Nat) :
    (related h w y x).map (eval σ) = (relatedVals σ h w y x).map fun b => some (.b b) := by
  simp only [related, relatedVals, List.map_append, map_guard, eval_lit, if_true, Bool.false_eq_true, if_false]

theorem relatedVals_count {pb : Problem} {σ : Asg} {g : Nat → Nat → Bool}
    (hg : ∀ y, y < pb.height → ∀ x, x < pb.width → g y x = σ.b (y * pb.width + x))
    {y x : Nat} (hy : y ≤ pb.height) (hx : x ≤ pb.width) :
    (relatedVals σ pb.height pb.width y x).count true = touching pb g y x := by
  simp only [relatedVals, List.count_append, count_guard, touching]
  have e1 : (0 < y ∧ 0 < x) ∧ σ.b ((y - 1) * pb.width + (x - 1)) = true ↔ 0 < y ∧ 0 < x ∧ g (y - 1) (x - 1) = true := by
    constructor
    · rintro ⟨⟨a, b⟩, c⟩; exact ⟨a, b, by rw [hg _ (by omega) _ (by omega)]; exact c⟩
    · rintro ⟨a, b, c⟩; exact ⟨⟨a, b⟩, by rw [← hg _ (by omega) _ (by omega)]; exact c⟩
  have e2 : (0 < y ∧ x < pb.width) ∧ (!σ.b ((y - 1) * pb.width + x)) = true ↔ 0 < y ∧ x < pb.width ∧ g (y - 1) x = false := by
    constructor
    · rintro ⟨⟨a, b⟩, c⟩; exact ⟨a, b, by rw [hg _ (by omega) _ b]; simpa using c⟩
    · rintro ⟨a, b, c⟩; exact ⟨⟨a, b⟩, by rw [← hg _ (by omega) _ b, c]; rfl⟩
  have e3 : (y < pb.height ∧ 0 < x) ∧ (!σ.b (y * pb.width + (x - 1))) = true ↔ y < pb.height ∧ 0 < x ∧ g y (x - 1) = false := by
    constructor
    · rintro ⟨⟨a, b⟩, c⟩; exact ⟨a, b, by rw [hg _ a _ (by omega)]; simpa using c⟩
    · rintro ⟨a, b, c⟩; exact ⟨⟨a, b⟩, by rw [← hg _ a _ (by omega), c]; rfl⟩
  have e4 : (y < pb.height ∧ x < pb.width) ∧ σ.b (y * pb.width + x) = true ↔ y < pb.height ∧ x < pb.width ∧ g y x = true := by
    constructor
    · rintro ⟨⟨a, b⟩, c⟩; exact ⟨a, b, by rw [hg _ a _ b]; exact c⟩
    · rintro ⟨a, b, c⟩; exact ⟨⟨a, b⟩, by rw [← hg _ a _ b]; exact c⟩
  rw [if_congr e1 rfl rfl, if_congr e2 rfl rfl, if_congr e3 rfl rfl, if_congr e4 rfl rfl]

theorem clue_sat {pb : Problem} {σ : Asg} {g : Nat → Nat → Bool}
    (hg : ∀ y, y < pb.height → ∀ x, x < pb.width → g y x = σ.b (y * pb.width + x)) :
    (∀ c ∈ clueAll pb, eval σ c = some (.b true)) ↔
      ∀ y, y ≤ pb.height → ∀ x, x ≤ pb.width → 0 ≤ val pb y x → (touching pb g y x : Int) = val pb y x := by
  have key : ∀ y x, y ≤ pb.height → x ≤ pb.width →
      eval σ (.node .eq [countTrueE (related pb.height pb.width y x), .litI (val pb y x)])
        = some (.b ((touching pb g y x : Int) == val pb y x)) := by
    intro y x hy hx
    have hct := eval_countTrueE (σ := σ) (relatedVals σ pb.height pb.width y x) (related_eval σ _ _ y x)
    rw [relatedVals_count hg hy hx] at hct
    rw [eval_cmp rfl hct (eval_litI σ _)]
    rfl
  constructor
  · intro hall y hy x hx hv
    have := hall _ (mem_clueAll.2 ⟨y, x, hy, hx, by rw [clueE, if_pos hv]; exact List.mem_singleton_self _⟩)
    rw [key y x hy hx] at this
    simpa using this
  · intro hall c hc
    obtain ⟨y, x, hy, hx, hc⟩ := mem_clueAll.1 hc
    unfold clueE at hc
    split at hc
    · rename_i hv
      simp only [List.mem_singleton] at hc
      subst hc
      rw [key y x hy hx, hall y hy x hx hv]
      simp
    · simp at hc

/-! ### assembly -/

theorem program_iff_rules (pb : Problem) (hwf : WellFormed pb) (P : PuzzleProg) (hP : program pb = .ok P) :
    EncodesRules P (Rules pb) ∧ P.KeysOk ∧ (∀ c ∈ P.cs, wtB c = true) := by
  obtain ⟨ac, hac, rfl⟩ := program_eq hwf hP
  have hlen : (elE (pb.height * pb.width)).length = (diagGraph pb.height pb.width).edges.length := by
    rw [elE_length, diagGraph_edges_length]
  refine ⟨?_, ?_, ?_⟩
  · have := C11Frag.encodes_bool_grid_frag pb.height pb.width ac (clueAll pb) (ac.cs ++ clueAll pb) (RulesGrid pb)
      (fun c => List.mem_append) (clue_varsBelow pb) (by
        intro σ g hg
        rw [Cspuz.C09.C09_exact (diagGraph pb.height pb.width) (elE (pb.height * pb.width)) (pb.height * pb.width) ac σ
          (diagGraph_wf _ _) (diagGraph_loopFree _ _) hlen (elE_boolArgs _) hac]
        rw [forest_iff_acyclic hg, clue_sat hg]
        rfl)
    intro a
    exact this a
  · apply C11Frag.keysOk_range_le
    simp
  · intro c hc
    rcases List.mem_append.1 hc with h | h
    · exact forest_wt (diagGraph_wf _ _) hlen (elE_boolArgs _) hac c h
    · exact clue_wt pb c h

end Cspuz.Proofs.C11Gokigen
