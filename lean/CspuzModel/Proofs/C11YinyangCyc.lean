/-
  C11 / Yin-Yang — the planarity argument (a discrete Jordan-curve theorem for the colour boundary).

  `lat h w g` (C11YinyangDefs) is the graph of colour-boundary segments between the lattice points of the
  board, with the outline points that carry a boundary segment joined to one outside vertex.
   * every vertex `some p` has an even number of neighbours; in particular none is a leaf (`no_leaf`);
   * hence, if the graph has an edge at all, it contains a cycle `C` (C11YinyangGraph);
   * the segments of `C` form a CLOSED cochain on the cell adjacencies (every lattice point inside the board
     meets 0 or 2 of them, `xor4`) contained in the colour boundary, hence — black connected, white connected —
     by `C11YinyangPot.dichotomy` it is empty (impossible: a cycle has an edge avoiding the outside vertex) or
     the whole colour boundary, i.e. EVERY edge of the lattice graph lies on `C`;
   * so every vertex has at most two neighbours (`degLeTwo`): no lattice point is the centre of a checkered
     2 × 2 block (`noChecker_of_degLeTwo`), and the outside vertex has at most two neighbours, i.e. the colour
     changes at most twice round the outer ring (C11YinyangRing).
-/
import CspuzModel.Proofs.C11YinyangGraph
import CspuzModel.Proofs.C11YinyangPot
import CspuzModel.Proofs.C11YinyangDefs
namespace Cspuz.Proofs.C11YinyangCyc
open SimpleGraph Cspuz.Spec Cspuz.Proofs.C11YinyangDefs Cspuz.Proofs.C11YinyangPot Cspuz.Proofs.C11YinyangGraph

variable {h w : Nat} {g : Nat → Nat → Bool}

/-- the segment from the left neighbour of `p` to `p` is a colour boundary -/
def aL (h w : Nat) (g : Nat → Nat → Bool) (p : Nat × Nat) : Prop := 1 ≤ p.2 ∧ segR h w g (p.1, p.2 - 1)
/-- the segment from the upper neighbour of `p` to `p` is a colour boundary -/
def aU (h w : Nat) (g : Nat → Nat → Bool) (p : Nat × Nat) : Prop := 1 ≤ p.1 ∧ segD h w g (p.1 - 1, p.2)

theorem adj_some_iff (p : Nat × Nat) (a : Option (Nat × Nat)) : (lat h w g).Adj (some p) a ↔
    (a = some (p.1, p.2 + 1) ∧ segR h w g p) ∨ (a = some (p.1 + 1, p.2) ∧ segD h w g p) ∨
    (a = some (p.1, p.2 - 1) ∧ aL h w g p) ∨ (a = some (p.1 - 1, p.2) ∧ aU h w g p) ∨
    (a = none ∧ out h w g p) := by
  obtain ⟨p1, p2⟩ := p
  match a with
  | none =>
    show out h w g (p1, p2) ↔ _
    simp
  | some (q1, q2) =>
    show (seg h w g (p1, p2) (q1, q2) ∨ seg h w g (q1, q2) (p1, p2)) ↔ _
    simp only [seg, aL, aU, Option.some.injEq, Prod.mk.injEq, reduceCtorEq, false_and, or_false]
    constructor
    · rintro ((⟨⟨rfl, rfl⟩, hs⟩ | ⟨⟨rfl, rfl⟩, hs⟩) | (⟨⟨rfl, rfl⟩, hs⟩ | ⟨⟨rfl, rfl⟩, hs⟩))
      · exact Or.inl ⟨⟨rfl, rfl⟩, hs⟩
      · exact Or.inr (Or.inl ⟨⟨rfl, rfl⟩, hs⟩)
      · exact Or.inr (Or.inr (Or.inl ⟨⟨rfl, by omega⟩, by omega, by simpa using hs⟩))
      · exact Or.inr (Or.inr (Or.inr ⟨⟨by omega, rfl⟩, by omega, by simpa using hs⟩))
    · rintro (⟨⟨rfl, rfl⟩, hs⟩ | ⟨⟨rfl, rfl⟩, hs⟩ | ⟨⟨rfl, rfl⟩, h1, hs⟩ | ⟨⟨rfl, rfl⟩, h1, hs⟩)
      · exact Or.inl (Or.inl ⟨⟨rfl, rfl⟩, hs⟩)
      · exact Or.inl (Or.inr ⟨⟨rfl, rfl⟩, hs⟩)
      · exact Or.inr (Or.inl ⟨⟨rfl, by omega⟩, hs⟩)
      · exact Or.inr (Or.inr ⟨⟨by omega, rfl⟩, hs⟩)


/-! ### parity at a lattice point: a colour-boundary segment at `p` is never the only one -/

theorem par_R {p : Nat × Nat} (hR : segR h w g p) :
    segD h w g p ∨ aL h w g p ∨ aU h w g p ∨ out h w g p := by
  obtain ⟨p1, p2⟩ := p
  obtain ⟨h1, h2, h3, h4⟩ := hR
  simp only at h1 h2 h3 h4
  by_cases h0 : p2 = 0
  · exact Or.inr (Or.inr (Or.inr (Or.inl ⟨h0, h1, h2, h3, h4⟩)))
  · by_cases e1 : g p1 (p2 - 1) = g p1 p2
    · by_cases e2 : g (p1 - 1) (p2 - 1) = g p1 (p2 - 1)
      · refine Or.inr (Or.inr (Or.inl ⟨h1, by show 1 ≤ p2; omega, h3, by show p1 - 1 < h; omega, ?_⟩))
        show g (p1 - 1) (p2 - 1) ≠ g (p1 - 1) p2
        intro e3
        exact h4 (by rw [← e3, e2, e1])
      · exact Or.inr (Or.inl ⟨by show 1 ≤ p2; omega, h1, h2, by show p2 - 1 < w; omega, e2⟩)
    · exact Or.inl ⟨by show 1 ≤ p2; omega, h3, by show p1 < h; omega, e1⟩

theorem par_D {p : Nat × Nat} (hD : segD h w g p) :
    segR h w g p ∨ aL h w g p ∨ aU h w g p ∨ out h w g p := by
  obtain ⟨p1, p2⟩ := p
  obtain ⟨h1, h2, h3, h4⟩ := hD
  simp only at h1 h2 h3 h4
  by_cases h0 : p1 = 0
  · exact Or.inr (Or.inr (Or.inr (Or.inr (Or.inr (Or.inl ⟨h0, h1, h2, h3, h4⟩)))))
  · by_cases e1 : g (p1 - 1) p2 = g p1 p2
    · by_cases e2 : g (p1 - 1) (p2 - 1) = g (p1 - 1) p2
      · refine Or.inr (Or.inl ⟨h1, by show 1 ≤ p1; omega, h3, by show p2 - 1 < w; omega, ?_⟩)
        show g (p1 - 1) (p2 - 1) ≠ g p1 (p2 - 1)
        intro e3
        exact h4 (by rw [← e3, e2, e1])
      · exact Or.inr (Or.inr (Or.inl ⟨by show 1 ≤ p1; omega, h1, h2, by show p1 - 1 < h; omega, e2⟩))
    · exact Or.inl ⟨by show 1 ≤ p1; omega, h3, h2, e1⟩

theorem par_L {p : Nat × Nat} (hL : aL h w g p) :
    segR h w g p ∨ segD h w g p ∨ aU h w g p ∨ out h w g p := by
  obtain ⟨p1, p2⟩ := p
  obtain ⟨h0, h1, h2, h3, h4⟩ := hL
  simp only at h0 h1 h2 h3 h4
  by_cases hw : p2 = w
  · exact Or.inr (Or.inr (Or.inr (Or.inr (Or.inl ⟨hw, h0, h1, h2, h3, h4⟩))))
  · have hlt : p2 < w := by omega
    by_cases e1 : g (p1 - 1) p2 = g p1 p2
    · by_cases e2 : g p1 (p2 - 1) = g p1 p2
      · refine Or.inr (Or.inr (Or.inl ⟨h1, h0, hlt, by show p1 - 1 < h; omega, ?_⟩))
        show g (p1 - 1) (p2 - 1) ≠ g (p1 - 1) p2
        intro e3
        exact h4 (by rw [e3, e1, e2])
      · exact Or.inr (Or.inl ⟨h0, hlt, h2, e2⟩)
    · exact Or.inl ⟨h1, h2, hlt, e1⟩

theorem par_U {p : Nat × Nat} (hU : aU h w g p) :
    segR h w g p ∨ segD h w g p ∨ aL h w g p ∨ out h w g p := by
  obtain ⟨p1, p2⟩ := p
  obtain ⟨h0, h1, h2, h3, h4⟩ := hU
  simp only at h0 h1 h2 h3 h4
  by_cases hh : p1 = h
  · exact Or.inr (Or.inr (Or.inr (Or.inr (Or.inr (Or.inr ⟨hh, h0, h1, h2, h3, h4⟩)))))
  · have hlt : p1 < h := by omega
    by_cases e1 : g p1 (p2 - 1) = g p1 p2
    · by_cases e2 : g (p1 - 1) p2 = g p1 p2
      · refine Or.inr (Or.inr (Or.inl ⟨h1, h0, hlt, by show p2 - 1 < w; omega, ?_⟩))
        show g (p1 - 1) (p2 - 1) ≠ g p1 (p2 - 1)
        intro e3
        exact h4 (by rw [e3, e1, e2])
      · exact Or.inl ⟨h0, hlt, h2, e2⟩
    · exact Or.inr (Or.inl ⟨h1, h2, hlt, e1⟩)

theorem par_O {p : Nat × Nat} (hO : out h w g p) :
    segR h w g p ∨ segD h w g p ∨ aL h w g p ∨ aU h w g p := by
  rcases hO with ⟨_, hs⟩ | ⟨_, h1, hs⟩ | ⟨_, hs⟩ | ⟨_, h1, hs⟩
  · exact Or.inl hs
  · exact Or.inr (Or.inr (Or.inl ⟨h1, hs⟩))
  · exact Or.inr (Or.inl hs)
  · exact Or.inr (Or.inr (Or.inr ⟨h1, hs⟩))


macro "ne_tac" : tactic => `(tactic|
  (intro e; first | cases e | (simp only [Option.some.injEq, Prod.mk.injEq] at e; omega)))

/-- no vertex `some p` of the lattice graph is a leaf -/
theorem no_leaf (p : Nat × Nat) (a : Option (Nat × Nat)) (ha : (lat h w g).Adj (some p) a) :
    ∃ b, b ≠ a ∧ (lat h w g).Adj (some p) b := by
  rcases (adj_some_iff p a).1 ha with ⟨rfl, hs⟩ | ⟨rfl, hs⟩ | ⟨rfl, hs⟩ | ⟨rfl, hs⟩ | ⟨rfl, hs⟩
  · rcases par_R hs with h' | h' | h' | h'
    · exact ⟨some (p.1 + 1, p.2), by ne_tac, (adj_some_iff _ _).2 (Or.inr (Or.inl ⟨rfl, h'⟩))⟩
    · exact ⟨some (p.1, p.2 - 1), by have f2 := h'.1; ne_tac, (adj_some_iff _ _).2 (Or.inr (Or.inr (Or.inl ⟨rfl, h'⟩)))⟩
    · exact ⟨some (p.1 - 1, p.2), by have f2 := h'.1; ne_tac, (adj_some_iff _ _).2 (Or.inr (Or.inr (Or.inr (Or.inl ⟨rfl, h'⟩))))⟩
    · exact ⟨none, by ne_tac, (adj_some_iff _ _).2 (Or.inr (Or.inr (Or.inr (Or.inr ⟨rfl, h'⟩))))⟩
  · rcases par_D hs with h' | h' | h' | h'
    · exact ⟨some (p.1, p.2 + 1), by ne_tac, (adj_some_iff _ _).2 (Or.inl ⟨rfl, h'⟩)⟩
    · exact ⟨some (p.1, p.2 - 1), by have f2 := h'.1; ne_tac, (adj_some_iff _ _).2 (Or.inr (Or.inr (Or.inl ⟨rfl, h'⟩)))⟩
    · exact ⟨some (p.1 - 1, p.2), by have f2 := h'.1; ne_tac, (adj_some_iff _ _).2 (Or.inr (Or.inr (Or.inr (Or.inl ⟨rfl, h'⟩))))⟩
    · exact ⟨none, by ne_tac, (adj_some_iff _ _).2 (Or.inr (Or.inr (Or.inr (Or.inr ⟨rfl, h'⟩))))⟩
  · rcases par_L hs with h' | h' | h' | h'
    · exact ⟨some (p.1, p.2 + 1), by have f1 := hs.1; ne_tac, (adj_some_iff _ _).2 (Or.inl ⟨rfl, h'⟩)⟩
    · exact ⟨some (p.1 + 1, p.2), by have f1 := hs.1; ne_tac, (adj_some_iff _ _).2 (Or.inr (Or.inl ⟨rfl, h'⟩))⟩
    · exact ⟨some (p.1 - 1, p.2), by have f1 := hs.1; have f2 := h'.1; ne_tac, (adj_some_iff _ _).2 (Or.inr (Or.inr (Or.inr (Or.inl ⟨rfl, h'⟩))))⟩
    · exact ⟨none, by have f1 := hs.1; ne_tac, (adj_some_iff _ _).2 (Or.inr (Or.inr (Or.inr (Or.inr ⟨rfl, h'⟩))))⟩
  · rcases par_U hs with h' | h' | h' | h'
    · exact ⟨some (p.1, p.2 + 1), by have f1 := hs.1; ne_tac, (adj_some_iff _ _).2 (Or.inl ⟨rfl, h'⟩)⟩
    · exact ⟨some (p.1 + 1, p.2), by have f1 := hs.1; ne_tac, (adj_some_iff _ _).2 (Or.inr (Or.inl ⟨rfl, h'⟩))⟩
    · exact ⟨some (p.1, p.2 - 1), by have f1 := hs.1; have f2 := h'.1; ne_tac, (adj_some_iff _ _).2 (Or.inr (Or.inr (Or.inl ⟨rfl, h'⟩)))⟩
    · exact ⟨none, by have f1 := hs.1; ne_tac, (adj_some_iff _ _).2 (Or.inr (Or.inr (Or.inr (Or.inr ⟨rfl, h'⟩))))⟩
  · rcases par_O hs with h' | h' | h' | h'
    · exact ⟨some (p.1, p.2 + 1), by ne_tac, (adj_some_iff _ _).2 (Or.inl ⟨rfl, h'⟩)⟩
    · exact ⟨some (p.1 + 1, p.2), by ne_tac, (adj_some_iff _ _).2 (Or.inr (Or.inl ⟨rfl, h'⟩))⟩
    · exact ⟨some (p.1, p.2 - 1), by have f2 := h'.1; ne_tac, (adj_some_iff _ _).2 (Or.inr (Or.inr (Or.inl ⟨rfl, h'⟩)))⟩
    · exact ⟨some (p.1 - 1, p.2), by have f2 := h'.1; ne_tac, (adj_some_iff _ _).2 (Or.inr (Or.inr (Or.inr (Or.inl ⟨rfl, h'⟩))))⟩


/-! ### finiteness -/

theorem some_bound {p : Nat × Nat} {a : Option (Nat × Nat)} (ha : (lat h w g).Adj (some p) a) :
    p.1 ≤ h ∧ p.2 ≤ w := by
  rcases (adj_some_iff p a).1 ha with ⟨_, hs⟩ | ⟨_, hs⟩ | ⟨_, hs⟩ | ⟨_, hs⟩ | ⟨_, hs⟩
  · unfold segR at hs; omega
  · unfold segD at hs; omega
  · unfold aL segR at hs; simp only at hs; omega
  · unfold aU segD at hs; simp only at hs; omega
  · unfold out segR segD at hs; simp only at hs; omega

theorem finite_edgeSet (h w : Nat) (g : Nat → Nat → Bool) : Finite (lat h w g).edgeSet := by
  classical
  let S : Finset (Option (Nat × Nat)) :=
    insert none ((Finset.range (h + 1) ×ˢ Finset.range (w + 1)).image some)
  have hS : ∀ a b, (lat h w g).Adj a b → a ∈ S := by
    intro a b hab
    match a, hab with
    | none, _ => exact Finset.mem_insert_self _ _
    | some p, hab =>
      have hb := some_bound hab
      refine Finset.mem_insert_of_mem (Finset.mem_image.2 ⟨p, ?_, rfl⟩)
      rw [Finset.mem_product, Finset.mem_range, Finset.mem_range]
      omega
  refine Set.Finite.subset (S.sym2.finite_toSet) ?_
  intro e he
  induction e using Sym2.ind with
  | _ a b =>
  rw [mem_edgeSet] at he
  rw [Finset.mem_coe, Finset.mk_mem_sym2_iff]
  exact ⟨hS a b he, hS b a he.symm⟩

/-! ### an outline point has exactly one neighbour besides the outside vertex -/

theorem out_unique {p : Nat × Nat} (hO : out h w g p) {a b : Option (Nat × Nat)}
    (ha : (lat h w g).Adj (some p) a) (hb : (lat h w g).Adj (some p) b) (ha0 : a ≠ none) (hb0 : b ≠ none) :
    a = b := by
  have key : ∀ a, (lat h w g).Adj (some p) a → a ≠ none →
      (p.2 = 0 → a = some (p.1, p.2 + 1)) ∧ (p.2 = w → a = some (p.1, p.2 - 1)) ∧
      (p.1 = 0 → 1 ≤ p.2 → p.2 < w → a = some (p.1 + 1, p.2)) ∧ (p.1 = h → 1 ≤ p.2 → p.2 < w → a = some (p.1 - 1, p.2)) := by
    intro a ha ha0
    rcases (adj_some_iff p a).1 ha with ⟨rfl, hs⟩ | ⟨rfl, hs⟩ | ⟨rfl, hs⟩ | ⟨rfl, hs⟩ | ⟨rfl, hs⟩
    · unfold segR at hs
      exact ⟨fun _ => rfl, fun _ => by omega, fun _ _ _ => by omega, fun _ _ _ => by omega⟩
    · unfold segD at hs
      exact ⟨fun _ => by omega, fun _ => by omega, fun _ _ _ => rfl, fun _ _ _ => by omega⟩
    · unfold aL segR at hs; simp only at hs
      exact ⟨fun _ => by omega, fun _ => rfl, fun _ _ _ => by omega, fun _ _ _ => by omega⟩
    · unfold aU segD at hs; simp only at hs
      exact ⟨fun _ => by omega, fun _ => by omega, fun _ _ _ => by omega, fun _ _ _ => rfl⟩
    · exact absurd rfl ha0
  have ka := key a ha ha0
  have kb := key b hb hb0
  unfold out segR segD at hO
  simp only at hO
  rcases hO with ⟨h1, _⟩ | ⟨h1, _⟩ | ⟨h1, h2⟩ | ⟨h1, _, h2⟩
  · rw [ka.1 h1, kb.1 h1]
  · rw [ka.2.1 h1, kb.2.1 h1]
  · rw [ka.2.2.1 h1 h2.1 h2.2.1, kb.2.2.1 h1 h2.1 h2.2.1]
  · rw [ka.2.2.2 h1 h2.1 h2.2.1, kb.2.2.2 h1 h2.1 h2.2.1]

theorem out_inner {p : Nat × Nat} (hO : out h w g p) : ∃ q, (lat h w g).Adj (some p) (some q) := by
  rcases par_O hO with h' | h' | h' | h'
  · exact ⟨_, (adj_some_iff _ _).2 (Or.inl ⟨rfl, h'⟩)⟩
  · exact ⟨_, (adj_some_iff _ _).2 (Or.inr (Or.inl ⟨rfl, h'⟩))⟩
  · exact ⟨_, (adj_some_iff _ _).2 (Or.inr (Or.inr (Or.inl ⟨rfl, h'⟩)))⟩
  · exact ⟨_, (adj_some_iff _ _).2 (Or.inr (Or.inr (Or.inr (Or.inl ⟨rfl, h'⟩))))⟩


/-! ### edges between lattice points as cell adjacencies -/

/-- an edge between two lattice points is the segment separating two vertically adjacent cells
`(i, j)`, `(i+1, j)` or two horizontally adjacent cells `(i, j)`, `(i, j+1)` of different colours -/
theorem some_edge_cases {p q : Nat × Nat} (hpq : (lat h w g).Adj (some p) (some q)) :
    (∃ i j, i + 1 < h ∧ j < w ∧ g i j ≠ g (i + 1) j ∧
      s(some p, some q) = s(some (i + 1, j), some (i + 1, j + 1))) ∨
    (∃ i j, i < h ∧ j + 1 < w ∧ g i j ≠ g i (j + 1) ∧
      s(some p, some q) = s(some (i, j + 1), some (i + 1, j + 1))) := by
  have keyR : ∀ p : Nat × Nat, segR h w g p → ∃ i j, i + 1 < h ∧ j < w ∧ g i j ≠ g (i + 1) j ∧
      p = (i + 1, j) := by
    rintro ⟨p1, p2⟩ ⟨h1, h2, h3, h4⟩
    simp only at h1 h2 h3 h4
    obtain ⟨n, rfl⟩ : ∃ n, p1 = n + 1 := ⟨p1 - 1, by omega⟩
    exact ⟨n, p2, h2, h3, by simpa using h4, rfl⟩
  have keyD : ∀ p : Nat × Nat, segD h w g p → ∃ i j, i < h ∧ j + 1 < w ∧ g i j ≠ g i (j + 1) ∧
      p = (i, j + 1) := by
    rintro ⟨p1, p2⟩ ⟨h1, h2, h3, h4⟩
    simp only at h1 h2 h3 h4
    obtain ⟨n, rfl⟩ : ∃ n, p2 = n + 1 := ⟨p2 - 1, by omega⟩
    exact ⟨p1, n, h3, h2, by simpa using h4, rfl⟩
  rcases hpq with (⟨rfl, hs⟩ | ⟨rfl, hs⟩) | (⟨rfl, hs⟩ | ⟨rfl, hs⟩)
  · obtain ⟨i, j, h1, h2, h3, rfl⟩ := keyR _ hs
    exact Or.inl ⟨i, j, h1, h2, h3, rfl⟩
  · obtain ⟨i, j, h1, h2, h3, rfl⟩ := keyD _ hs
    exact Or.inr ⟨i, j, h1, h2, h3, rfl⟩
  · obtain ⟨i, j, h1, h2, h3, rfl⟩ := keyR _ hs
    exact Or.inl ⟨i, j, h1, h2, h3, Sym2.eq_swap⟩
  · obtain ⟨i, j, h1, h2, h3, rfl⟩ := keyD _ hs
    exact Or.inr ⟨i, j, h1, h2, h3, Sym2.eq_swap⟩

/-- the converse: colour-boundary adjacencies of cells are edges -/
theorem adj_of_H {i j : Nat} (hi : i + 1 < h) (hj : j < w) (hne : g i j ≠ g (i + 1) j) :
    (lat h w g).Adj (some (i + 1, j)) (some (i + 1, j + 1)) :=
  Or.inl (Or.inl ⟨rfl, by show 1 ≤ i + 1; omega, hi, hj, by simpa using hne⟩)

theorem adj_of_V {i j : Nat} (hi : i < h) (hj : j + 1 < w) (hne : g i j ≠ g i (j + 1)) :
    (lat h w g).Adj (some (i, j + 1)) (some (i + 1, j + 1)) :=
  Or.inl (Or.inr ⟨rfl, by show 1 ≤ j + 1; omega, hj, hi, by simpa using hne⟩)

/-! ### parity of four Booleans describing membership in a two-element set -/

set_option linter.unusedSimpArgs false in
theorem xor4 {α : Type} (t1 t2 t3 t4 x y : α) (hx : x = t1 ∨ x = t2 ∨ x = t3 ∨ x = t4)
    (hy : y = t1 ∨ y = t2 ∨ y = t3 ∨ y = t4) (hxy : x ≠ y)
    (d12 : t1 ≠ t2) (d13 : t1 ≠ t3) (d14 : t1 ≠ t4) (d23 : t2 ≠ t3) (d24 : t2 ≠ t4) (d34 : t3 ≠ t4)
    (b1 b2 b3 b4 : Bool) (h1 : b1 = true ↔ (t1 = x ∨ t1 = y)) (h2 : b2 = true ↔ (t2 = x ∨ t2 = y))
    (h3 : b3 = true ↔ (t3 = x ∨ t3 = y)) (h4 : b4 = true ↔ (t4 = x ∨ t4 = y)) :
    (b1 ^^ b2 ^^ b3 ^^ b4) = false := by
  have e1 : ∀ b : Bool, (b = true ↔ True) → b = true := fun b hb => hb.2 trivial
  have e0 : ∀ b : Bool, (b = true ↔ False) → b = false := fun b hb => by cases b <;> simp_all
  rcases hx with rfl | rfl | rfl | rfl <;> rcases hy with rfl | rfl | rfl | rfl <;>
    first
    | exact absurd rfl hxy
    | (simp only [d12, d13, d14, d23, d24, d34, d12.symm, d13.symm, d14.symm, d23.symm, d24.symm, d34.symm,
        or_false, false_or, or_true, true_or, or_self, eq_self_iff_true] at h1 h2 h3 h4
       first
       | (rw [e1 _ h1, e1 _ h2, e0 _ h3, e0 _ h4]; rfl)
       | (rw [e1 _ h1, e0 _ h2, e1 _ h3, e0 _ h4]; rfl)
       | (rw [e1 _ h1, e0 _ h2, e0 _ h3, e1 _ h4]; rfl)
       | (rw [e0 _ h1, e1 _ h2, e1 _ h3, e0 _ h4]; rfl)
       | (rw [e0 _ h1, e1 _ h2, e0 _ h3, e1 _ h4]; rfl)
       | (rw [e0 _ h1, e0 _ h2, e1 _ h3, e1 _ h4]; rfl))


/-! ### the main argument -/

theorem H_of_adj {i j : Nat} (ha : (lat h w g).Adj (some (i + 1, j)) (some (i + 1, j + 1))) :
    g i j ≠ g (i + 1) j := by
  rcases ha with (⟨_, hs⟩ | ⟨e, _⟩) | (⟨e, _⟩ | ⟨e, _⟩)
  · simpa using hs.2.2.2
  all_goals (rw [Prod.mk.injEq] at e; omega)

theorem V_of_adj {i j : Nat} (ha : (lat h w g).Adj (some (i, j + 1)) (some (i + 1, j + 1))) :
    g i j ≠ g i (j + 1) := by
  rcases ha with (⟨e, _⟩ | ⟨_, hs⟩) | (⟨e, _⟩ | ⟨e, _⟩)
  · rw [Prod.mk.injEq] at e; omega
  · simpa using hs.2.2.2
  all_goals (rw [Prod.mk.injEq] at e; omega)

theorem interior_nbr {i j : Nat} (hi : i + 1 < h) (hj : j + 1 < w) {a : Option (Nat × Nat)}
    (ha : (lat h w g).Adj (some (i + 1, j + 1)) a) :
    a = some (i + 1, j) ∨ a = some (i + 1, j + 1 + 1) ∨ a = some (i, j + 1) ∨ a = some (i + 1 + 1, j + 1) := by
  rcases (adj_some_iff _ a).1 ha with ⟨rfl, _⟩ | ⟨rfl, _⟩ | ⟨rfl, _⟩ | ⟨rfl, _⟩ | ⟨_, hs⟩
  · exact Or.inr (Or.inl rfl)
  · exact Or.inr (Or.inr (Or.inr rfl))
  · exact Or.inl rfl
  · exact Or.inr (Or.inr (Or.inl rfl))
  · unfold out segR segD at hs; simp only at hs; omega

/-- If the black cells are connected and the white cells are connected, every vertex of the lattice
graph of the colouring has at most two neighbours. -/
theorem degLeTwo (hB : CellsConnected h w (fun y x => g y x = true))
    (hW : CellsConnected h w (fun y x => g y x = false)) : DegLeTwo h w g := by
  intro v a b c hva hvb hvc
  by_contra hne
  have hab : a ≠ b := fun e => hne (Or.inl e)
  have hac : a ≠ c := fun e => hne (Or.inr (Or.inl e))
  have hbc : b ≠ c := fun e => hne (Or.inr (Or.inr e))
  have := finite_edgeSet h w g
  obtain ⟨v0, C, hC⟩ := exists_cycle_of_no_leaf (lat h w g) ⟨v, a, hva⟩ no_leaf
  classical
  let Hz : Nat → Nat → Bool := fun i j =>
    decide (s((some (i + 1, j) : Option (Nat × Nat)), some (i + 1, j + 1)) ∈ C.edges)
  let Vz : Nat → Nat → Bool := fun i j =>
    decide (s((some (i, j + 1) : Option (Nat × Nat)), some (i + 1, j + 1)) ∈ C.edges)
  have hHz : ∀ i j, Hz i j = true ↔
      s((some (i + 1, j) : Option (Nat × Nat)), some (i + 1, j + 1)) ∈ C.edges := fun i j => decide_eq_true_iff
  have hVz : ∀ i j, Vz i j = true ↔
      s((some (i, j + 1) : Option (Nat × Nat)), some (i + 1, j + 1)) ∈ C.edges := fun i j => decide_eq_true_iff
  -- closed
  have hcl : Closed h w Hz Vz := by
    intro i j hi hj
    have b1 : Hz i j = true ↔ s((some (i + 1, j + 1) : Option (Nat × Nat)), some (i + 1, j)) ∈ C.edges := by
      rw [hHz, Sym2.eq_swap]
    have b2 : Hz i (j + 1) = true ↔
        s((some (i + 1, j + 1) : Option (Nat × Nat)), some (i + 1, j + 1 + 1)) ∈ C.edges := hHz i (j + 1)
    have b3 : Vz i j = true ↔ s((some (i + 1, j + 1) : Option (Nat × Nat)), some (i, j + 1)) ∈ C.edges := by
      rw [hVz, Sym2.eq_swap]
    have b4 : Vz (i + 1) j = true ↔
        s((some (i + 1, j + 1) : Option (Nat × Nat)), some (i + 1 + 1, j + 1)) ∈ C.edges := hVz (i + 1) j
    rcases cyc_nbr C hC (some (i + 1, j + 1)) with hn | ⟨x, y, hxy, hN⟩
    · have e1 : Hz i j = false := by
        cases hb : Hz i j
        · rfl
        · exact absurd (b1.1 hb) (hn _)
      have e2 : Hz i (j + 1) = false := by
        cases hb : Hz i (j + 1)
        · rfl
        · exact absurd (b2.1 hb) (hn _)
      have e3 : Vz i j = false := by
        cases hb : Vz i j
        · rfl
        · exact absurd (b3.1 hb) (hn _)
      have e4 : Vz (i + 1) j = false := by
        cases hb : Vz (i + 1) j
        · rfl
        · exact absurd (b4.1 hb) (hn _)
      rw [e1, e2, e3, e4]; rfl
    · have hx := interior_nbr hi hj (C.adj_of_mem_edges ((hN x).2 (Or.inl rfl)))
      have hy := interior_nbr hi hj (C.adj_of_mem_edges ((hN y).2 (Or.inr rfl)))
      refine xor4 (some (i + 1, j)) (some (i + 1, j + 1 + 1)) (some (i, j + 1)) (some (i + 1 + 1, j + 1))
        x y hx hy hxy ?_ ?_ ?_ ?_ ?_ ?_ _ _ _ _ (b1.trans (hN _)) (b2.trans (hN _)) (b3.trans (hN _))
        (b4.trans (hN _))
      all_goals (intro e; rw [Option.some.injEq, Prod.mk.injEq] at e; omega)
  have hH : ∀ i j, i + 1 < h → j < w → Hz i j = true → g i j ≠ g (i + 1) j := by
    intro i j _ _ hz
    exact H_of_adj (C.adj_of_mem_edges ((hHz i j).1 hz))
  have hV : ∀ i j, i < h → j + 1 < w → Vz i j = true → g i j ≠ g i (j + 1) := by
    intro i j _ _ hz
    exact V_of_adj (C.adj_of_mem_edges ((hVz i j).1 hz))
  rcases dichotomy h w g Hz Vz hB hW hcl hH hV with ⟨e1, e2⟩ | ⟨e1, e2⟩
  · -- the cycle would have no edge between lattice points
    obtain ⟨p, q, hpq⟩ := cyc_some_edge C hC
    rcases some_edge_cases (C.adj_of_mem_edges hpq) with ⟨i, j, hi, hj, _, he⟩ | ⟨i, j, hi, hj, _, he⟩
    · rw [he] at hpq
      have := (hHz i j).2 hpq
      rw [e1 i j hi hj] at this
      cases this
    · rw [he] at hpq
      have := (hVz i j).2 hpq
      rw [e2 i j hi hj] at this
      cases this
  · -- every edge of the lattice graph lies on the cycle
    have hss : ∀ p q, (lat h w g).Adj (some p) (some q) → s(some p, some q) ∈ C.edges := by
      intro p q hpq
      rcases some_edge_cases hpq with ⟨i, j, hi, hj, hne', he⟩ | ⟨i, j, hi, hj, hne', he⟩
      · rw [he]
        apply (hHz i j).1
        rw [e1 i j hi hj]
        simpa using hne'
      · rw [he]
        apply (hVz i j).1
        rw [e2 i j hi hj]
        simpa using hne'
    have hsn : ∀ p, out h w g p → s(some p, (none : Option (Nat × Nat))) ∈ C.edges := by
      intro p hO
      obtain ⟨q, hq⟩ := out_inner hO
      obtain ⟨z, hz, hze⟩ := cyc_other C hC (some p) (some q) (hss p q hq)
      match z, hz, hze with
      | none, _, hze => exact hze
      | some q', hz, hze =>
        exact absurd (out_unique hO (C.adj_of_mem_edges hze) hq (by simp) (by simp)) hz
    have hall : ∀ a b, (lat h w g).Adj a b → s(a, b) ∈ C.edges := by
      intro a b hab
      match a, b, hab with
      | some p, some q, hab => exact hss p q hab
      | some p, none, hab => exact hsn p hab
      | none, some q, hab => rw [Sym2.eq_swap]; exact hsn q hab
    rcases cyc_three C hC v a b c (hall _ _ hva) (hall _ _ hvb) (hall _ _ hvc) with e | e | e
    · exact hab e
    · exact hac e
    · exact hbc e

/-- no checkerboard: the centre of a checkered block would have four neighbours -/
theorem noChecker_of_degLeTwo (hd : DegLeTwo h w g) : NoChecker h w g := by
  intro y x hy hx
  have key : g y x ≠ g (y + 1) x → g y x ≠ g y (x + 1) → g y (x + 1) ≠ g (y + 1) (x + 1) → False := by
    intro n1 n2 n3
    have a1 : (lat h w g).Adj (some (y + 1, x + 1)) (some (y + 1, x)) :=
      (adj_of_H (by omega) (by omega) n1).symm
    have a2 : (lat h w g).Adj (some (y + 1, x + 1)) (some (y, x + 1)) :=
      (adj_of_V (by omega) hx n2).symm
    have a3 : (lat h w g).Adj (some (y + 1, x + 1)) (some (y + 1, x + 1 + 1)) :=
      adj_of_H hy hx n3
    rcases hd _ _ _ _ a1 a2 a3 with e | e | e <;>
      · rw [Option.some.injEq, Prod.mk.injEq] at e; omega
  constructor
  · rintro ⟨h1, h2, h3, h4⟩
    exact key (by rw [h1, h3]; decide) (by rw [h1, h4]; decide) (by rw [h4, h2]; decide)
  · rintro ⟨h1, h2, h3, h4⟩
    exact key (by rw [h1, h3]; decide) (by rw [h1, h4]; decide) (by rw [h4, h2]; decide)

end Cspuz.Proofs.C11YinyangCyc
