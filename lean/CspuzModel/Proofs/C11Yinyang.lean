/-
  C11 / Yin-Yang — assembly: the program posted by `solve_yinyang` says "rules ∧ no checkered 2 × 2 block ∧
  at most two colour changes round the outer ring" (C11YinyangProg), and the two auxiliary conditions follow
  from the rules (C11YinyangPlanar), so the program encodes exactly the rules.
-/
import CspuzModel.Proofs.C11YinyangProg
import CspuzModel.Proofs.C11YinyangPlanar
namespace Cspuz.Proofs.C11Yinyang
open Cspuz Cspuz.Spec Cspuz.Puzzles.Yinyang Cspuz.Spec.Yinyang Cspuz.Proofs.C11YinyangDefs

/-- the auxiliary constraints are implied by the rules -/
theorem aux_of_rules {pb : Problem} (hwf : WellFormed pb) {g : Nat → Nat → Bool} (hr : RulesGrid pb g) :
    C11YinyangProg.AuxGrid pb g :=
  have h := C11YinyangPlanar.aux_of_connected pb.height pb.width hwf.1 hwf.2.1 g hr.1 hr.2.1
  ⟨hr, h.1, h.2⟩

theorem main (pb : Problem) (hwf : WellFormed pb) (P : PuzzleProg) (hP : program pb = .ok P) :
    EncodesRules P (Rules pb) ∧ P.KeysOk ∧ (∀ c ∈ P.cs, wtB c = true) := by
  obtain ⟨henc, hk, hwt⟩ := C11YinyangProg.main_aux pb hwf P hP
  refine ⟨?_, hk, hwt⟩
  intro a
  rw [henc a]
  constructor
  · rintro ⟨g, rfl, hr, _⟩
    exact ⟨g, rfl, hr⟩
  · rintro ⟨g, rfl, hr⟩
    exact ⟨g, rfl, aux_of_rules hwf hr⟩

theorem total (pb : Problem) (hwf : WellFormed pb) : ∃ P, program pb = .ok P :=
  C11YinyangProg.total pb hwf

end Cspuz.Proofs.C11Yinyang
