/-
  C17, second half ("whenever a problem is returned, serializing it succeeds and decoding that canonical text returns the
  same problem again") for `Rooms`, `ValuedRooms` and the three room puzzles (lits, norinori, heyawake).

  * `roomsDe_canonical`: for ANY text, whatever `Rooms.deserialize` returns (with or without `allow_redundant_border`, with
    or without `skip_on_error`) is a valid partition of the board into non-empty connected rooms, in canonical form
    (`canonRooms h w rooms = rooms`), and `canonValues` leaves any values attached to it where they are.
  * `rooms_reencodable`, `valuedRooms_reencodable`: with `C15_rooms` / `C15_valued_rooms` this gives re-encodability.
  * `rooms_puzzles_reencodable`, `rooms_puzzles_reencodable_url`: the regenerated codecs of lits, norinori and heyawake, also
    through `deserialize_problem_as_url(..., return_size=True)`.
-/
import CspuzModel.Proofs.C17RoomsReCanon
import CspuzModel.Proofs.C15Rooms
import CspuzModel.Proofs.C15ValuedRT
import CspuzModel.Proofs.C17Nested
namespace Cspuz.Ser.RoomsRe
open Cspuz Cspuz.Ser Cspuz.Ser.RoomsReFill Cspuz.Ser.RoomsReCanon Cspuz.Ser.Reenc

/-- **every decoded room list is a valid partition in canonical form** (any text, any start index, both flags) -/
theorem roomsDe_canonical {h w : Nat} {skip allow : Bool} {s : Str} {i k : Nat} {items : List PyVal}
    (he : roomsDe ⟨h, w⟩ skip allow s i = .ok (k, items)) :
    1 ≤ h ∧ 1 ≤ w ∧ ∃ rooms, items = [roomsVal rooms] ∧ ValidPartition h w rooms ∧ canonRooms h w rooms = rooms ∧
      ∀ values : List PyVal, values.length = rooms.length → canonValues h w rooms values = values := by
  have he := catchValueError_ok he
  by_cases h0 : h = 0 ∨ w = 0
  · unfold roomsDeCore at he
    simp only [] at he
    rw [if_pos (by simpa using h0)] at he
    cases he
  · have hh : h ≠ 0 := fun e => h0 (Or.inl e)
    have hw : w ≠ 0 := fun e => h0 (Or.inr e)
    cases hb : bordersDe h w s i with
    | ok r =>
      obtain ⟨k', items'⟩ := r
      obtain ⟨vrows, hrows, rfl, hv, hhs⟩ := bordersDe_ok_shape hb
      obtain ⟨ev, hvt⟩ := toBoolGrid_shape hv
      obtain ⟨eh, hhz⟩ := toBoolGrid_shape hhs
      have cs := weak_compCol hhz hvt
      obtain ⟨_, rfl⟩ := roomsDeCore_weak cs hh hw allow hb ev eh he
      exact ⟨by omega, by omega, _, rfl, valid_classes cs, canonRooms_classes,
        fun values hl => canonValues_classes hl⟩
    | none => unfold roomsDeCore at he; simp [hb, h0] at he
    | raised e => unfold roomsDeCore at he; simp [hb, h0] at he
    | diverge => unfold roomsDeCore at he; simp [hb, h0] at he

/-- the same, at the level of terms -/
theorem rooms_decoded_canonical (skip allow : Bool) (h w : Nat) (s : Str) (i k : Nat) (items : List PyVal)
    (hde : de (.rooms skip allow) ⟨h, w⟩ s i = .ok (k, items)) :
    1 ≤ h ∧ 1 ≤ w ∧ ∃ rooms, items = [roomsVal rooms] ∧ ValidPartition h w rooms ∧ canonRooms h w rooms = rooms := by
  have := roomsDe_canonical (skip := skip) (allow := allow) (by simpa only [de] using hde)
  exact ⟨this.1, this.2.1, this.2.2.imp fun _ hr => ⟨hr.1, hr.2.1, hr.2.2.1⟩⟩

/-- **`Rooms`**: a returned problem serializes, and the canonical text decodes to the same problem -/
theorem rooms_reencodable (skip allow : Bool) (h w : Nat) (s : Str) (p : PyVal)
    (hde : deProblem (.rooms skip allow) s h w = .ok p) :
    ∃ s', serProblem (.rooms skip allow) p h w = .ok s' ∧ deProblem (.rooms skip allow) s' h w = .ok p := by
  obtain ⟨k, hk⟩ := deProblem_eq_ok hde
  simp only [de] at hk
  obtain ⟨hh, hw, rooms, hi, hv, hc, _⟩ := roomsDe_canonical hk
  obtain rfl : p = roomsVal rooms := by simpa using hi
  obtain ⟨t, hs, hd⟩ := rooms_roundtrip h w hh hw (borders_roundtrip h w) rooms hv skip allow
  refine ⟨t, ?_, ?_⟩
  · unfold serProblem
    simp only [ser]
    rw [hs]
  · have := hd [] []
    simp only [List.nil_append, List.append_nil, List.length_nil] at this
    unfold deProblem
    simp only [de]
    rw [this, hc]
    rfl

/-- a list of items decoded by a base satisfying the interface is in the domain of `Seq(base, #items)` -/
theorem seq_good_of_items (env : Env) (b : Comb) (P : PyVal → Prop) (hpb : productive b = true)
    (hB : BaseOK (ser b env) (de b env) (Tight b env) P) (l : List PyVal) (hP : ∀ v ∈ l, P v) :
    Good (.seq b l.length) env [.list l] 0 ∧ ∃ t, ser (.seq b l.length) env [.list l] 0 = .ok (1, t) := by
  have hnb : noBoolL l = true := (noBoolL_iff l).mpr (fun v hv => hB.nobool v (hP v hv))
  refine ⟨⟨?_, ?_⟩, ?_⟩
  · simp only [noBoolL, PyVal.noBool, Bool.and_true]
    exact hnb
  · simp only [Tight]
    intro l' hl'
    simp only [List.getElem?_cons_zero, Option.some.injEq, PyVal.list.injEq] at hl'
    subst hl'
    exact ⟨by omega, fun q => hB.tight _ hP q⟩
  · obtain ⟨t, ht⟩ := seqSerLoop_served env b hpb l (hB.serve l hP)
    refine ⟨t, ?_⟩
    simp only [ser, seqSer, withItem]
    simp [ht]

/-- **`ValuedRooms`** over a value term satisfying the interface `BaseOK` -/
theorem valuedRooms_reencodable_of_baseOK (v : Comb) (skip allow : Bool) (h w : Nat) (P : PyVal → Prop)
    (hwf : wf (.valuedRooms v skip allow) = true) (hnr : noRooms v = true)
    (hB : BaseOK (ser v ⟨h, w⟩) (de v ⟨h, w⟩) (Tight v ⟨h, w⟩) P) (s : Str) (p : PyVal)
    (hde : deProblem (.valuedRooms v skip allow) s h w = .ok p) :
    ∃ s', serProblem (.valuedRooms v skip allow) p h w = .ok s' ∧
      deProblem (.valuedRooms v skip allow) s' h w = .ok p := by
  have hpv : productive v = true := by
    simp only [wf, Bool.and_eq_true] at hwf
    exact hwf.1.2
  obtain ⟨k, hk⟩ := deProblem_eq_ok hde
  simp only [de] at hk
  unfold valuedRoomsDe at hk
  obtain ⟨⟨k1, items1⟩, hr, hk⟩ := Outcome.bind_eq_ok.1 hk
  obtain ⟨hh, hw, rooms, rfl, hv, hc, hcv⟩ := roomsDe_canonical hr
  simp only [roomsVal] at hk
  obtain ⟨⟨k2, items2⟩, hr2, hk⟩ := Outcome.bind_eq_ok.1 hk
  obtain ⟨l, rfl, hlen, hP⟩ := seqDe_all _ P hB.closed _ s _ k2 items2 hr2
  simp only [Outcome.ok.injEq, Prod.mk.injEq, List.cons.injEq, and_true] at hk
  obtain ⟨_, rfl⟩ := hk
  have hlen' : l.length = rooms.length := by simpa using hlen
  obtain ⟨hgood, hser⟩ := seq_good_of_items ⟨h, w⟩ v P hpv hB l hP
  rw [hlen'] at hgood hser
  obtain ⟨t, hs, hd⟩ := valuedRooms_term_roundtrip h w v rooms l skip allow hh hw hv hlen' hwf hnr
    (by rw [hcv l hlen']; exact hgood) (by rw [hcv l hlen']; exact hser)
  refine ⟨t, ?_, ?_⟩
  · unfold serProblem
    have hs' : ser (.valuedRooms v skip allow) ⟨h, w⟩
        [.tuple [.list (rooms.map fun r => .list (r.map cellVal)), .list l]] 0 = .ok (1, t) := hs
    rw [hs']
  · have := hd [] []
    simp only [List.nil_append, List.append_nil, List.length_nil] at this
    unfold deProblem
    rw [this, hc, hcv l hlen']
    rfl

/-- the value terms covered: a closed flat base, or a nested `Seq`/`Grid` term over one -/
theorem valueTerm_ok (env : Env) (v : Comb) (hwv : wf v = true)
    (hv : (FlatBase v ∧ closedBase v = true) ∨ SeqGridTerm v) :
    noRooms v = true ∧ ∃ P, BaseOK (ser v env) (de v env) (Tight v env) P := by
  rcases hv with ⟨hf, hc⟩ | hn
  · exact ⟨noRooms_flat v hf, _, baseOK_flat env v hwv hf hc⟩
  · exact ⟨Nested.noRooms_nested v hn, Nested.baseOK_nested env v hn hwv⟩

/-- **`ValuedRooms`** over a closed flat base or a nested `Seq`/`Grid` term -/
theorem valuedRooms_reencodable (v : Comb) (skip allow : Bool) (hwf : wf (.valuedRooms v skip allow) = true)
    (hv : (FlatBase v ∧ closedBase v = true) ∨ SeqGridTerm v) (s : Str) (h w : Nat) (p : PyVal)
    (hde : deProblem (.valuedRooms v skip allow) s h w = .ok p) :
    ∃ s', serProblem (.valuedRooms v skip allow) p h w = .ok s' ∧
      deProblem (.valuedRooms v skip allow) s' h w = .ok p := by
  have hwv : wf v = true := by
    simp only [wf, Bool.and_eq_true] at hwf
    exact hwf.1.1
  obtain ⟨hnr, P, hB⟩ := valueTerm_ok ⟨h, w⟩ v hwv hv
  exact valuedRooms_reencodable_of_baseOK v skip allow h w P hwf hnr hB s p hde

/-! ### the URL layer with `return_size=True`, and the regenerated table -/

/-- a value returned by `deserialize_problem_as_url(..., return_size=True)` is `(height, width, problem)` with the
height and width read from the URL and `problem` returned by `deserialize_problem` on the body -/
theorem deProblemAsUrl_size_eq_ok (c : Comb) (url : Str) (allowed : Option (List Str)) (af : Bool) (r : PyVal)
    (h : deProblemAsUrl c url allowed af true = .ok r) :
    ∃ name wd hd body hh ww p, matchUrl url = some (name, wd, hd, body) ∧ pyInt hd = .ok hh ∧ pyInt wd = .ok ww ∧
      r = .tuple [.int hh, .int ww, p] ∧ deProblem c body hh ww = .ok p := by
  unfold deProblemAsUrl at h
  split at h
  · split at h <;> cases h
  · rename_i name wd hd body hm
    obtain ⟨ww, hw, h⟩ := Outcome.bind_eq_ok.1 h
    obtain ⟨hh, hh', h⟩ := Outcome.bind_eq_ok.1 h
    obtain ⟨_, _, h⟩ := Outcome.bind_eq_ok.1 h
    obtain ⟨p', hp', h⟩ := Outcome.bind_eq_ok.1 h
    simp only [if_true, Outcome.ok.injEq] at h
    subst h
    exact ⟨name, wd, hd, body, hh, ww, p', hm, hh', hw, rfl, hp'⟩

/-- **C17, second half, on the three shipped room puzzles** (regenerated terms) -/
theorem rooms_puzzles_reencodable : ∀ pc ∈ [Gen.litsCodec, Gen.norinoriCodec, Gen.heyawakeCodec],
    ∀ s h w p, deProblem pc.comb s h w = .ok p →
      ∃ s', serProblem pc.comb p h w = .ok s' ∧ deProblem pc.comb s' h w = .ok p := by
  intro pc hpc s h w p hde
  simp only [List.mem_cons, List.mem_nil_iff, or_false] at hpc
  rcases hpc with rfl | rfl | rfl
  · exact rooms_reencodable false false h w s p hde
  · exact rooms_reencodable false false h w s p hde
  · exact valuedRooms_reencodable _ true false (by decide) (Or.inl ⟨by unfold FlatBase; decide, by decide⟩) s h w p hde

theorem rooms_puzzles_reencodable_url : ∀ pc ∈ [Gen.litsCodec, Gen.norinoriCodec, Gen.heyawakeCodec],
    ∀ url r, deProblemAsUrl pc.comb url pc.allowed pc.allowFailure pc.returnSize = .ok r →
      ∃ name wd hd body hh ww p, matchUrl url = some (name, wd, hd, body) ∧ pyInt hd = .ok hh ∧ pyInt wd = .ok ww ∧
        r = .tuple [.int hh, .int ww, p] ∧
        ∃ s', serProblem pc.comb p hh ww = .ok s' ∧ deProblem pc.comb s' hh ww = .ok p := by
  intro pc hpc url r hde
  have hrs : pc.returnSize = true := by
    simp only [List.mem_cons, List.mem_nil_iff, or_false] at hpc
    rcases hpc with rfl | rfl | rfl <;> rfl
  rw [hrs] at hde
  obtain ⟨name, wd, hd, body, hh, ww, p, h1, h2, h3, h4, h5⟩ := deProblemAsUrl_size_eq_ok _ _ _ _ _ hde
  exact ⟨name, wd, hd, body, hh, ww, p, h1, h2, h3, h4, rooms_puzzles_reencodable pc hpc body hh ww p h5⟩

end Cspuz.Ser.RoomsRe
