/-
  C11 (yinyang) helper: a closed cochain on the cell adjacencies of a rectangular board is a coboundary
  (`potential`), and if both colour classes of `g` are connected, a closed cochain contained in the colour
  boundary of `g` is empty or the whole colour boundary (`dichotomy`).
-/
import CspuzModel.Spec.PuzzleRules.CellGraph
namespace Cspuz.Proofs.C11YinyangPot
open Cspuz.Spec

/-- every 2×2 block of the board has an even number of its four adjacencies in Z -/
def Closed (h w : Nat) (Hz Vz : Nat → Nat → Bool) : Prop :=
  ∀ i j, i + 1 < h → j + 1 < w → (Hz i j ^^ Hz i (j + 1) ^^ Vz i j ^^ Vz (i + 1) j) = false

/-- running xor of `F 0, …, F (n-1)` -/
def xs (F : Nat → Bool) : Nat → Bool
  | 0 => false
  | n + 1 => xs F n ^^ F n

/-- the potential: walk from (0,0) down column 0 to row `i`, then right along row `i` -/
def pot (Hz Vz : Nat → Nat → Bool) (i j : Nat) : Bool :=
  xs (fun k => Hz k 0) i ^^ xs (Vz i) j

theorem pot_V (Hz Vz : Nat → Nat → Bool) (i j : Nat) :
    (pot Hz Vz i j != pot Hz Vz i (j + 1)) = Vz i j := by
  simp only [pot, xs]
  generalize xs (fun k => Hz k 0) i = a
  generalize xs (Vz i) j = b
  generalize Vz i j = c
  cases a <;> cases b <;> cases c <;> rfl

theorem pot_H (h w : Nat) (Hz Vz : Nat → Nat → Bool) (hc : Closed h w Hz Vz) (i j : Nat)
    (hi : i + 1 < h) (hj : j < w) :
    (pot Hz Vz i j != pot Hz Vz (i + 1) j) = Hz i j := by
  induction j with
  | zero =>
    simp only [pot, xs]
    generalize xs (fun k => Hz k 0) i = a
    generalize Hz i 0 = b
    cases a <;> cases b <;> rfl
  | succ j ih =>
    have ih' := ih (by omega)
    have hcc := hc i j hi hj
    simp only [pot, xs] at ih' ⊢
    generalize xs (fun k => Hz k 0) i = a at ih' ⊢
    generalize xs (Vz i) j = b at ih' ⊢
    generalize xs (Vz (i + 1)) j = c at ih' ⊢
    generalize Hz i 0 = d at ih' ⊢
    generalize Hz i j = e at ih' hcc ⊢
    generalize Hz i (j + 1) = e' at hcc ⊢
    generalize Vz i j = p at hcc ⊢
    generalize Vz (i + 1) j = q at hcc ⊢
    revert ih' hcc
    cases a <;> cases b <;> cases c <;> cases d <;> cases e <;> cases e' <;> cases p <;> cases q <;>
      decide

/-- a closed cochain on the (simply connected) board is a coboundary -/
theorem potential (h w : Nat) (Hz Vz : Nat → Nat → Bool) (hc : Closed h w Hz Vz) :
    ∃ f : Nat → Nat → Bool,
      (∀ i j, i + 1 < h → j < w → (f i j != f (i + 1) j) = Hz i j) ∧
      (∀ i j, i < h → j + 1 < w → (f i j != f i (j + 1)) = Vz i j) :=
  ⟨pot Hz Vz, fun i j hi hj => pot_H h w Hz Vz hc i j hi hj, fun i j _ _ => pot_V Hz Vz i j⟩

/-- a function that agrees on adjacent cells of `S` is constant on a connected `S` -/
theorem const_of_connected (h w : Nat) (S : Nat → Nat → Prop) (f : Nat → Nat → Bool)
    (hS : CellsConnected h w S)
    (hfH : ∀ i j, i + 1 < h → j < w → S i j → S (i + 1) j → f i j = f (i + 1) j)
    (hfV : ∀ i j, i < h → j + 1 < w → S i j → S i (j + 1) → f i j = f i (j + 1))
    {y x y' x' : Nat} (hy : y < h) (hx : x < w) (hs : S y x) (hy' : y' < h) (hx' : x' < w)
    (hs' : S y' x') : f y x = f y' x' := by
  let G : cellSet h w S → Bool := fun v => f v.1.1 v.1.2
  have hG : ∀ u v, (cellGraph.induce (cellSet h w S)).Adj u v → G u = G v := by
    rintro ⟨⟨a, b⟩, ha, hb, hab⟩ ⟨⟨a', b'⟩, ha', hb', hab'⟩ huv
    have huv' : (a = a' ∧ (b + 1 = b' ∨ b' + 1 = b)) ∨ (b = b' ∧ (a + 1 = a' ∨ a' + 1 = a)) := huv
    simp only [G]
    simp only at ha hb hab ha' hb' hab'
    rcases huv' with ⟨h1, h2 | h2⟩ | ⟨h1, h2 | h2⟩
    · subst h1; subst h2; exact hfV _ _ ha (by omega) hab hab'
    · subst h1; subst h2; exact (hfV _ _ ha (by omega) hab' hab).symm
    · subst h1; subst h2; exact hfH _ _ (by omega) hb hab hab'
    · subst h1; subst h2; exact (hfH _ _ (by omega) hb hab' hab).symm
  have hGr : ∀ u v, (cellGraph.induce (cellSet h w S)).Reachable u v → G u = G v := by
    rintro u v ⟨p⟩
    induction p with
    | nil => rfl
    | cons hadj _ ih => exact (hG _ _ hadj).trans ih
  exact hGr ⟨(y, x), hy, hx, hs⟩ ⟨(y', x'), hy', hx', hs'⟩ (hS _ _)

/-- if the black cells are connected and the white cells are connected, a closed cochain contained in the
colour boundary of `g` is empty or the whole colour boundary -/
theorem dichotomy (h w : Nat) (g : Nat → Nat → Bool) (Hz Vz : Nat → Nat → Bool)
    (hB : CellsConnected h w (fun y x => g y x = true)) (hW : CellsConnected h w (fun y x => g y x = false))
    (hc : Closed h w Hz Vz)
    (hH : ∀ i j, i + 1 < h → j < w → Hz i j = true → g i j ≠ g (i + 1) j)
    (hV : ∀ i j, i < h → j + 1 < w → Vz i j = true → g i j ≠ g i (j + 1)) :
    ((∀ i j, i + 1 < h → j < w → Hz i j = false) ∧ (∀ i j, i < h → j + 1 < w → Vz i j = false)) ∨
    ((∀ i j, i + 1 < h → j < w → Hz i j = (g i j != g (i + 1) j)) ∧
     (∀ i j, i < h → j + 1 < w → Vz i j = (g i j != g i (j + 1)))) := by
  obtain ⟨f, hfH, hfV⟩ := potential h w Hz Vz hc
  -- f agrees on adjacent cells of the same colour
  have hsH : ∀ i j, i + 1 < h → j < w → g i j = g (i + 1) j → f i j = f (i + 1) j := by
    intro i j hi hj hg
    have h1 := hfH i j hi hj
    have h2 := hH i j hi hj
    revert h1 h2 hg
    generalize f i j = a; generalize f (i + 1) j = b; generalize Hz i j = c
    generalize g i j = d; generalize g (i + 1) j = e
    cases a <;> cases b <;> cases c <;> cases d <;> cases e <;> simp
  have hsV : ∀ i j, i < h → j + 1 < w → g i j = g i (j + 1) → f i j = f i (j + 1) := by
    intro i j hi hj hg
    have h1 := hfV i j hi hj
    have h2 := hV i j hi hj
    revert h1 h2 hg
    generalize f i j = a; generalize f i (j + 1) = b; generalize Vz i j = c
    generalize g i j = d; generalize g i (j + 1) = e
    cases a <;> cases b <;> cases c <;> cases d <;> cases e <;> simp
  -- f is constant on each colour class
  have hsame : ∀ y x y' x', y < h → x < w → y' < h → x' < w → g y x = g y' x' → f y x = f y' x' := by
    intro y x y' x' hy hx hy' hx' hg
    cases hcol : g y x with
    | true =>
      exact const_of_connected h w _ f hB
        (fun i j hi hj s1 s2 => hsH i j hi hj (s1.trans s2.symm))
        (fun i j hi hj s1 s2 => hsV i j hi hj (s1.trans s2.symm))
        hy hx hcol hy' hx' (hg ▸ hcol)
    | false =>
      exact const_of_connected h w _ f hW
        (fun i j hi hj s1 s2 => hsH i j hi hj (s1.trans s2.symm))
        (fun i j hi hj s1 s2 => hsV i j hi hj (s1.trans s2.symm))
        hy hx hcol hy' hx' (hg ▸ hcol)
  by_cases hex : ∃ y x y' x', y < h ∧ x < w ∧ y' < h ∧ x' < w ∧ g y x ≠ g y' x' ∧ f y x = f y' x'
  · -- f is constant on the board
    obtain ⟨y, x, y', x', hy, hx, hy', hx', hne, hff⟩ := hex
    have hconst : ∀ a b, a < h → b < w → f a b = f y x := by
      intro a b ha hb
      by_cases h1 : g a b = g y x
      · exact hsame a b y x ha hb hy hx h1
      · have h2 : g a b = g y' x' := by
          revert h1 hne
          generalize g a b = p; generalize g y x = q; generalize g y' x' = r
          cases p <;> cases q <;> cases r <;> simp
        exact (hsame a b y' x' ha hb hy' hx' h2).trans hff.symm
    left
    refine ⟨fun i j hi hj => ?_, fun i j hi hj => ?_⟩
    · rw [← hfH i j hi hj, hconst i j (by omega) hj, hconst (i + 1) j hi hj]
      cases f y x <;> rfl
    · rw [← hfV i j hi hj, hconst i j hi (by omega), hconst i (j + 1) hi hj]
      cases f y x <;> rfl
  · have hdiff : ∀ y x y' x', y < h → x < w → y' < h → x' < w →
        (f y x != f y' x') = (g y x != g y' x') := by
      intro y x y' x' hy hx hy' hx'
      by_cases hg : g y x = g y' x'
      · rw [hsame y x y' x' hy hx hy' hx' hg, hg]
        cases f y' x' <;> cases g y' x' <;> rfl
      · have hf : f y x ≠ f y' x' := fun hf => hex ⟨y, x, y', x', hy, hx, hy', hx', hg, hf⟩
        revert hg hf
        generalize g y x = p; generalize g y' x' = q; generalize f y x = r; generalize f y' x' = s
        cases p <;> cases q <;> cases r <;> cases s <;> simp
    right
    refine ⟨fun i j hi hj => ?_, fun i j hi hj => ?_⟩
    · rw [← hfH i j hi hj]; exact hdiff i j (i + 1) j (by omega) hj hi hj
    · rw [← hfV i j hi hj]; exact hdiff i j i (j + 1) hi (by omega) hi hj


end Cspuz.Proofs.C11YinyangPot
