/-
  C19, part 1: the XorShift state invariant, the `Rand` monad's Hoare rules, and
  randint / choice / shuffle / random.
-/
import CspuzModel.Spec.Generator
import Mathlib.Data.Int.CardIntervalMod
import Mathlib.Tactic.Ring
namespace Cspuz.Gen
open Cspuz

/-! ## XorShift -/

theorem D32_eq : D32 = 2 ^ 32 := by decide
theorem M32_eq : M32 = 2 ^ 32 - 1 := by decide

theorem shr_lt {a : Nat} (k : Nat) (h : a < 2 ^ 32) : a >>> k < 2 ^ 32 :=
  Nat.lt_of_le_of_lt (by rw [Nat.shiftRight_eq_div_pow]; exact Nat.div_le_self _ _) h

/-- One step keeps all four words below 2³² although only `t` is masked. -/
theorem next_wf (s : XS) (h : WF s) : WF s.next.1 ∧ s.next.2 < D32 := by
  obtain ⟨hx, hy, hz, hw⟩ := h
  have ht : ((s.x ^^^ (s.x <<< 11)) &&& M32) < 2 ^ 32 := by
    rw [M32_eq]; exact Nat.and_lt_two_pow _ (by decide)
  rw [D32_eq] at *
  have hw' : (s.w ^^^ (s.w >>> 19)) ^^^ (((s.x ^^^ (s.x <<< 11)) &&& M32) ^^^
      (((s.x ^^^ (s.x <<< 11)) &&& M32) >>> 8)) < 2 ^ 32 :=
    Nat.xor_lt_two_pow (Nat.xor_lt_two_pow hw (shr_lt _ hw)) (Nat.xor_lt_two_pow ht (shr_lt _ ht))
  exact ⟨⟨hy, hz, hw, hw'⟩, hw'⟩

theorem init_wf (seed : Int) : WF (XS.init seed) := by
  refine ⟨by show (123456789 : Nat) < 4294967296; omega, by show (362436069 : Nat) < 4294967296; omega,
    by show (521288629 : Nat) < 4294967296; omega, ?_⟩
  rw [D32_eq]
  apply Nat.xor_lt_two_pow (by decide)
  show (seed % 4294967296).toNat < 2 ^ 32
  omega

theorem iter_wf : ∀ (n : Nat) (s : XS), WF s → WF (XS.iter n s)
  | 0, _, h => h
  | n + 1, s, h => iter_wf n _ (next_wf s h).1

theorem output_lt (n : Nat) (s : XS) (h : WF s) : XS.output n s < D32 :=
  (next_wf _ (iter_wf n s h)).2

theorem xorshift_range (seed : Int) (n : Nat) : XS.output n (XS.init seed) < 2 ^ 32 := by
  have := output_lt n _ (init_wf seed); rwa [D32_eq] at this

/-! ## Hoare rules for `Rand` -/

/-- Partial correctness: every normally returned value satisfies `Q`. -/
def Post {α} (m : Rand α) (Q : α → Prop) : Prop := ∀ s v s', m s = .ok v s' → Q v

theorem Post.pure {α} {Q : α → Prop} {a : α} (h : Q a) : Post (Rand.pure a) Q := by
  intro s v s' e; simp only [Rand.pure, Res.ok.injEq] at e; exact e.1 ▸ h

theorem Post.throw {α} {Q : α → Prop} {e : PyErr} : Post (throwPy e : Rand α) Q := by
  intro s v s' h; simp [throwPy] at h

theorem Post.bind {α β} {m : Rand α} {f : α → Rand β} {R : α → Prop} {Q : β → Prop}
    (hm : Post m R) (hf : ∀ a, R a → Post (f a) Q) : Post (Rand.bind m f) Q := by
  intro s v s' e
  unfold Rand.bind at e
  cases hms : m s with
  | ok a s1 => rw [hms] at e; exact hf a (hm s a s1 hms) s1 v s' e
  | err x => rw [hms] at e; simp at e
  | outOfFuel => rw [hms] at e; simp at e

theorem Post.liftPy {α} {Q : α → Prop} {p : Py α} (h : ∀ v, p = .ok v → Q v) : Post (liftPy p) Q := by
  cases p with
  | ok a => exact Post.pure (h a rfl)
  | error e => exact Post.throw

theorem Post.mono {α} {m : Rand α} {Q R : α → Prop} (h : Post m Q) (hqr : ∀ a, Q a → R a) : Post m R :=
  fun s v s' e => hqr v (h s v s' e)

theorem Post.forEach {β σ} {Inv : σ → Prop} {f : σ → β → Rand σ} :
    ∀ (xs : List β) (acc : σ), Inv acc → (∀ a x, x ∈ xs → Inv a → Post (f a x) Inv) →
      Post (forEach xs acc f) Inv
  | [], acc, h0, _ => Post.pure h0
  | x :: xs, acc, h0, hf =>
    Post.bind (hf acc x (List.mem_cons_self) h0) fun a ha =>
      Post.forEach xs a ha fun a' x' hx' => hf a' x' (List.mem_cons_of_mem _ hx')

/-- Python-level monadic bind on `Py`. -/
theorem py_bind_ok {α β} {m : Py α} {f : α → Py β} {b : β} (h : (m >>= f) = .ok b) :
    ∃ a, m = .ok a ∧ f a = .ok b := by
  cases m with
  | ok a => exact ⟨a, rfl, h⟩
  | error e => cases h

/-! ## randint -/

theorem randintLoop_lt (w limit : Nat) (hw : 0 < w) : ∀ fuel, Post (randintLoop w limit fuel) (· < w)
  | 0 => by intro s v s' h; simp [randintLoop] at h
  | fuel + 1 => by
    intro s v s' h
    simp only [randintLoop] at h
    split at h
    · simp only [Res.ok.injEq] at h; exact h.1 ▸ Nat.mod_lt _ hw
    · exact randintLoop_lt w limit hw fuel _ _ _ h

/-- The loop returns the first accepted output reduced mod `w`; in particular it terminates whenever an
accepted output occurs within `fuel` draws. -/
theorem randintLoop_spec (w limit : Nat) : ∀ (fuel k : Nat) (s : XS), k < fuel →
    (∀ i, i < k → ¬ XS.output i s < limit) → XS.output k s < limit →
    randintLoop w limit fuel s = .ok (XS.output k s % w) (XS.iter (k + 1) s)
  | 0, _, _, h, _, _ => by omega
  | fuel + 1, 0, s, _, _, hk => by
    simp only [randintLoop, XS.output, XS.iter] at *
    rw [if_pos hk]
  | fuel + 1, k + 1, s, h, hnot, hk => by
    have h0 : ¬ s.next.2 < limit := hnot 0 (by omega)
    simp only [randintLoop, if_neg h0]
    have := randintLoop_spec w limit fuel k s.next.1 (by omega)
      (fun i hi => hnot (i + 1) (by omega)) hk
    simpa [XS.output, XS.iter] using this

theorem randintLoop_terminates (w limit fuel : Nat) (s : XS)
    (h : ∃ k, k < fuel ∧ XS.output k s < limit) : ∃ x s', randintLoop w limit fuel s = .ok x s' := by
  classical
  have hex : ∃ k, XS.output k s < limit := h.imp fun k hk => hk.2
  obtain ⟨k, hk, hf⟩ := h
  refine ⟨_, _, randintLoop_spec w limit fuel (Nat.find hex) s ?_ (fun i hi => Nat.find_min hex hi)
    (Nat.find_spec hex)⟩
  exact Nat.lt_of_le_of_lt (Nat.find_min' hex hf) hk

theorem randint_range (fuel : Nat) (a b : Int) : Post (randint fuel a b) fun r => a ≤ r ∧ r ≤ b := by
  unfold randint
  split
  · exact Post.throw
  · rename_i hab
    simp only
    split
    · exact Post.throw
    · have hw : 0 < (b - a + 1).toNat := by omega
      refine Post.bind (randintLoop_lt _ _ hw fuel) fun x hx => Post.pure ?_
      omega

theorem randint_err_gt (fuel : Nat) (a b : Int) (s : XS) (h : a > b) :
    randint fuel a b s = .err .valueError := by
  simp [randint, h, throwPy]

theorem randint_err_wide (fuel : Nat) (a b : Int) (s : XS) (h : b - a + 1 > 4294967296) :
    randint fuel a b s = .err .valueError := by
  unfold randint
  split
  · rfl
  · simp only
    rw [if_pos (by unfold D32; omega)]; rfl

/-- In the admissible case `randint` is the rejection loop shifted by `a`: never an exception. -/
theorem randint_ok_iff (fuel : Nat) (a b : Int) (s : XS) (hab : a ≤ b) (hw : b - a + 1 ≤ 4294967296) :
    randint fuel a b s =
      match randintLoop (b - a + 1).toNat (D32 - D32 % (b - a + 1).toNat) fuel s with
      | .ok x s' => .ok (a + (x : Int)) s'
      | .err e => .err e
      | .outOfFuel => .outOfFuel := by
  unfold randint
  rw [if_neg (by omega)]
  simp only
  rw [if_neg (by unfold D32; omega)]
  unfold Rand.bind Rand.pure
  cases randintLoop (b - a + 1).toNat (D32 - D32 % (b - a + 1).toNat) fuel s <;> rfl

/-- More than half of the 32-bit outputs are accepted. -/
theorem limit_gt_half (w : Nat) (h0 : 0 < w) (hw : w ≤ D32) : D32 < 2 * (D32 - D32 % w) := by
  have h1 : D32 % w < w := Nat.mod_lt _ h0
  have h2 : D32 % w ≤ D32 - w * (D32 / w) := by
    have := Nat.div_add_mod D32 w; omega
  have h3 : 1 ≤ D32 / w := Nat.div_pos hw h0
  have h4 : w ≤ w * (D32 / w) := Nat.le_mul_of_pos_right _ h3
  have := Nat.div_add_mod D32 w
  omega

/-! ## uniformity of the accepted outputs -/

theorem hits_eq_count (limit w r : Nat) (hr : r < w) :
    hits limit w r = Nat.count (· ≡ r [MOD w]) limit := by
  unfold hits Nat.count
  rw [List.countP_eq_length_filter]
  congr 1
  apply List.filter_congr
  intro x _
  simp only [Nat.ModEq, Nat.mod_eq_of_lt hr, decide_eq_decide]

theorem hits_uniform (w : Nat) (h0 : 0 < w) (r : Nat) (hr : r < w) :
    hits (D32 - D32 % w) w r = (D32 - D32 % w) / w := by
  rw [hits_eq_count _ _ _ hr, Nat.count_modEq_card _ h0]
  have : (D32 - D32 % w) % w = 0 := by
    have h := Nat.div_add_mod D32 w
    have : D32 - D32 % w = w * (D32 / w) := by omega
    rw [this]; exact Nat.mul_mod_right _ _
  rw [this]; simp

theorem limit_pos_div (w : Nat) (h0 : 0 < w) (hw : w ≤ D32) : 0 < (D32 - D32 % w) / w := by
  have h := Nat.div_add_mod D32 w
  have e : D32 - D32 % w = w * (D32 / w) := by omega
  rw [e, Nat.mul_div_cancel_left _ h0]
  exact Nat.div_pos hw h0

end Cspuz.Gen
namespace Cspuz.Gen
open Cspuz

theorem pyIndex_ok {α} {l : List α} {k : Int} {v : α} (h : pyIndex l k = .ok v) :
    ∃ p : Nat, (p : Int) = (if k < 0 then k + l.length else k) ∧ p < l.length ∧ l[p]? = some v := by
  unfold pyIndex at h
  by_cases hr : 0 ≤ (if k < 0 then k + (l.length : Int) else k) ∧
      (if k < 0 then k + (l.length : Int) else k) < (l.length : Int)
  · simp only [if_pos hr] at h
    cases hx : l[(if k < 0 then k + (l.length : Int) else k).toNat]? with
    | some x =>
      rw [hx] at h
      cases h
      exact ⟨(if k < 0 then k + (l.length : Int) else k).toNat, by omega, by omega, hx⟩
    | none => rw [hx] at h; cases h
  · simp only [if_neg hr] at h
    cases h

theorem pyIndex_nat {α} {l : List α} {p : Nat} (hp : p < l.length) : pyIndex l (p : Int) = .ok l[p] := by
  have h1 : ¬ ((p : Int) < 0) := by omega
  have h2 : (p : Int) < l.length := by omega
  simp [pyIndex, h1, h2, hp]

theorem pySetItem_nat {α} {l : List α} {p : Nat} (v : α) (hp : p < l.length) :
    pySetItem l (p : Int) v = .ok (l.set p v) := by
  have h1 : ¬ ((p : Int) < 0) := by omega
  have h2 : (p : Int) < l.length := by omega
  simp [pySetItem, h1, h2]

theorem pySwap_nat {α} {l : List α} {i j : Nat} (hi : i < l.length) (hj : j < l.length) :
    pySwap l i j = .ok (swapAt l i j) := by
  unfold pySwap
  rw [pyIndex_nat hj, pyIndex_nat hi]
  show (pySetItem l i l[j] >>= fun seq => pySetItem seq j l[i]) = _
  rw [pySetItem_nat _ hi]
  show pySetItem (l.set i l[j]) j l[i] = _
  rw [pySetItem_nat _ (by simpa using hj)]
  simp [swapAt, hi, hj]

theorem swapAt_perm {α} (l : List α) (i j : Nat) : (swapAt l i j).Perm l := by
  unfold swapAt
  split
  · rename_i a b ha hb
    obtain ⟨hi, rfl⟩ := List.getElem?_eq_some_iff.mp ha
    obtain ⟨hj, rfl⟩ := List.getElem?_eq_some_iff.mp hb
    exact List.set_set_perm hi hj
  · exact List.Perm.refl _

theorem swapAt_length {α} (l : List α) (i j : Nat) : (swapAt l i j).length = l.length :=
  (swapAt_perm l i j).length_eq

theorem swapAt_self {α} (l : List α) (i : Nat) : swapAt l i i = l := by
  unfold swapAt
  split
  · rename_i a b ha hb
    obtain ⟨hi, rfl⟩ := List.getElem?_eq_some_iff.mp ha
    simp
  · rfl

/-- One loop iteration: some `j ≤ i` is drawn and positions `i`, `j` are exchanged. -/
theorem shuffleStep_spec {α} (fuel : Nat) (seq : List α) (i : Nat) (hi : i < seq.length) :
    Post (shuffleStep fuel seq i) fun l' => ∃ j, j ≤ i ∧ l' = swapAt seq i j := by
  unfold shuffleStep
  refine Post.bind (randint_range fuel 0 i) fun j hj => ?_
  obtain ⟨jn, rfl⟩ : ∃ jn : Nat, j = jn := ⟨j.toNat, by omega⟩
  split
  · rw [pySwap_nat hi (by omega)]
    exact Post.pure ⟨jn, by omega, rfl⟩
  · rename_i h
    have : i = jn := by omega
    subst this
    exact Post.pure ⟨i, Nat.le_refl _, (swapAt_self _ _).symm⟩

end Cspuz.Gen
namespace Cspuz.Gen
open Cspuz

theorem shuffleWith_perm {α} : ∀ (js : List Nat) (i : Nat) (l : List α), (shuffleWith js i l).Perm l
  | [], _, _ => List.Perm.refl _
  | j :: js, i, l => (shuffleWith_perm js (i + 1) (swapAt l i j)).trans (swapAt_perm l i j)

theorem shuffleLoop_spec {α} (fuel : Nat) : ∀ (k i : Nat) (acc : List α), i + k ≤ acc.length →
    Post (forEach (List.range' i k) acc (shuffleStep fuel)) fun l' =>
      ∃ js : List Nat, js.length = k ∧ (∀ t (h : t < js.length), js[t] ≤ i + t) ∧ l' = shuffleWith js i acc
  | 0, i, acc, _ => Post.pure ⟨[], rfl, by intro t h; simp at h, rfl⟩
  | k + 1, i, acc, h => by
    rw [List.range'_succ]
    refine Post.bind (shuffleStep_spec fuel acc i (by omega)) fun acc' h' => ?_
    obtain ⟨j, hj, rfl⟩ := h'
    refine Post.mono (shuffleLoop_spec fuel k (i + 1) (swapAt acc i j) (by rw [swapAt_length]; omega)) ?_
    rintro l' ⟨js, hlen, hle, rfl⟩
    refine ⟨j :: js, by simp [hlen], ?_, rfl⟩
    intro t ht
    cases t with
    | zero => simpa using hj
    | succ t =>
      simp only [List.getElem_cons_succ]
      have := hle t (by simpa using ht)
      omega

/-- `shuffle` performs the swaps of some admissible draw sequence. -/
theorem shuffle_spec {α} (fuel : Nat) (seq : List α) :
    Post (shuffle fuel seq) fun l' => ∃ js, Admissible js seq.length ∧ l' = shuffleWith js 1 seq := by
  unfold shuffle
  by_cases h0 : seq.length = 0
  · rw [h0]
    exact Post.pure ⟨[], ⟨by simp [h0], by intro k h; simp at h⟩, rfl⟩
  · refine Post.mono (shuffleLoop_spec fuel (seq.length - 1) 1 seq (by omega)) ?_
    rintro l' ⟨js, hlen, hle, rfl⟩
    exact ⟨js, ⟨hlen, fun k hk => by have := hle k hk; omega⟩, rfl⟩

theorem shuffle_perm {α} (fuel : Nat) (seq : List α) : Post (shuffle fuel seq) fun l' => l'.Perm seq :=
  Post.mono (shuffle_spec fuel seq) fun _ ⟨js, _, e⟩ => e ▸ shuffleWith_perm js 1 seq

/-- `choice`: the element at the index drawn by `randint(0, len - 1)`; never `IndexError`. -/
theorem choice_spec {α} (fuel : Nat) (cand : List α) (s s' : XS) (v : α)
    (h : choice fuel cand s = .ok v s') :
    ∃ idx : Nat, randint fuel 0 ((cand.length : Int) - 1) s = .ok (idx : Int) s' ∧ idx < cand.length ∧
      cand[idx]? = some v := by
  unfold choice at h
  split at h
  · simp [throwPy] at h
  · unfold Rand.bind at h
    cases hr : randint fuel 0 ((cand.length : Int) - 1) s with
    | ok idx s1 =>
      rw [hr] at h
      have hb := randint_range fuel 0 _ s idx s1 hr
      obtain ⟨n, rfl⟩ : ∃ n : Nat, idx = n := ⟨idx.toNat, by omega⟩
      have hn : n < cand.length := by omega
      simp only [pyIndex_nat hn, liftPy, Rand.pure, Res.ok.injEq] at h
      exact ⟨n, by rw [h.2], hn, by rw [← h.1]; simp [hn]⟩
    | err e => rw [hr] at h; simp at h
    | outOfFuel => rw [hr] at h; simp at h

theorem choice_empty {α} (fuel : Nat) (s : XS) : choice fuel ([] : List α) s = .err .valueError := by
  simp [choice, throwPy]

theorem choice_mem {α} (fuel : Nat) (cand : List α) : Post (choice fuel cand) (· ∈ cand) := by
  intro s v s' h
  obtain ⟨idx, _, _, hv⟩ := choice_spec fuel cand s s' v h
  exact List.mem_of_getElem? hv

theorem random_range (s s' : XS) (n : Nat) (hs : WF s) (h : randomNum s = .ok n s') :
    n < 2 ^ 32 ∧ WF s' := by
  simp only [randomNum, nextR, Res.ok.injEq] at h
  rw [← h.1, ← h.2, ← D32_eq]
  exact ⟨(next_wf s hs).2, (next_wf s hs).1⟩

end Cspuz.Gen
