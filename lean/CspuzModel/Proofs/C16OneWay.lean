/-
  C16, the two one-way encoders (`star_battle.problem_to_pzv_url`, `aquarium.problem_to_url`): the URL frame and what the
  independent pzpr decoders read in the body.
-/
import CspuzModel.Proofs.C16Url
import CspuzModel.Proofs.C16Bits
import CspuzModel.Proofs.C16PzprNum
import CspuzModel.Proofs.C16Legacy
set_option linter.unusedVariables false
namespace Cspuz.Proofs.C16OneWay
open Cspuz Cspuz.Ser Cspuz.C16F Cspuz.Codecs Cspuz.Proofs.C16Url

/-! ### decimal numerals as the independent decoder reads them -/

theorem untilSlash_append (a r : Str) (ha : ∀ c ∈ a, c ≠ 47) : Pzpr.untilSlash (a ++ 47 :: r) = some (a, r) := by
  induction a with
  | nil => simp [Pzpr.untilSlash]
  | cons c a ih =>
    have hc : c ≠ 47 := ha c (by simp)
    simp only [List.cons_append, Pzpr.untilSlash, if_neg hc, ih (fun c' hc' => ha c' (List.mem_cons_of_mem _ hc'))]
    rfl

def decStep (acc : Option Nat) (c : Nat) : Option Nat :=
  match acc with
  | some a => if 48 ≤ c ∧ c ≤ 57 then some (a * 10 + (c - 48)) else none
  | none => none

theorem foldl_decStep (D : List Nat) (hD : ∀ d ∈ D, d < 10) (a : Nat) :
    (D.map digitChar).foldl decStep (some a) = some (D.foldl (fun a d => a * 10 + d) a) := by
  induction D generalizing a with
  | nil => rfl
  | cons d D ih =>
    have hd : d < 10 := hD d (by simp)
    have hc : digitChar d = 48 + d := by simp [digitChar, hd]
    simp only [List.map_cons, List.foldl_cons, decStep, hc]
    rw [if_pos (by omega)]
    have : 48 + d - 48 = d := by omega
    rw [this]
    exact ih (fun d' hd' => hD d' (List.mem_cons_of_mem _ hd')) _

theorem pzpr_decimal_toBase10 (n : Nat) : Pzpr.decimal (toBase 10 n) = some n := by
  unfold Pzpr.decimal
  have hne : (toBase 10 n).isEmpty = false := isEmpty_false_of_ne_nil (toBase_ne_nil 10 n (by omega))
  rw [hne]
  simp only [Bool.false_eq_true, if_false]
  have := foldl_decStep (digits 10 n) (digits_lt 10 (by omega) n) 0
  have hod := ofDigits_digits 10 (by omega) n
  unfold ofDigits at hod
  rw [hod] at this
  exact this

theorem toBase10_no_slash (n : Nat) : ∀ c ∈ toBase 10 n, c ≠ 47 := by
  intro c hc
  have := toBase10_ascii n c hc
  omega

theorem intStr_nat (k : Nat) : intStr (k : Int) = toBase 10 k := by
  unfold intStr
  rw [if_neg (by omega)]
  simp

/-! ### star battle -/

def starName : Str := strOfString "starbattle"

theorem starName_ok : NameOk starName := ⟨by decide, by decide⟩

theorem star_battle (n k : Nat) (bid : List (List Int)) (hd : bid.length = n ∧ ∀ r ∈ bid, r.length = n)
    (hdn : DecimalOk n) :
    ∃ body, starBattleProblemToPzvUrl n (k : Int) bid = .ok (pzvPrefix ++ tail starName n n body) ∧
      getPuzzleInfo (pzvPrefix ++ tail starName n n body) = .ok (starName, n, n) ∧
      Pzpr.decodeStarBattle n n body = some (k, bordersOfIds n n bid) := by
  obtain ⟨t, henc, hpz⟩ := C16Bits.pzpr_segmentation_ids n n bid hd []
  simp only [List.append_nil] at hpz
  refine ⟨toBase 10 k ++ [47] ++ t, ?_, ?_, ?_⟩
  · unfold starBattleProblemToPzvUrl
    rw [henc, intStr_nat]
    simp [Outcome.bind, tail, starName, List.append_assoc]
  · exact getPuzzleInfo_frame pzvPrefix starName n n _ (Or.inr rfl) starName_ok hdn hdn
  · unfold Pzpr.decodeStarBattle
    have : toBase 10 k ++ [47] ++ t = toBase 10 k ++ 47 :: t := by simp
    rw [this, untilSlash_append _ _ (toBase10_no_slash k)]
    simp [pzpr_decimal_toBase10, Pzpr.decodeBorders, hpz, Pzpr.whole]

/-! ### aquarium -/

def aquariumName : Str := strOfString "aquarium"

theorem aquariumName_ok : NameOk aquariumName := ⟨by decide, by decide⟩

open C16PzprNum in
theorem step_clue' (env : Env) (ints : List Int) (hP : ∀ v ∈ ints, ClueVal v) :
    StepLaw (ser (.oneOf [.spaces (.int (-1)) 15, .hexInt]) env) ints (fun v => v) := by
  intro p v hv
  have hc := hP v (List.mem_of_getElem? hv)
  have hi := getElem?_lt hv
  simp only [ser, serL]
  by_cases h2 : v = -1
  · subst h2
    obtain ⟨run, hsp, r1, r2, r3, hw⟩ := spaces_step ints p (-1) hv
    exact ⟨run, [102 + run], by simp only [oneOfF, hsp], r1, r3, law_run ints _ p run (-1) hw rfl r1 r2⟩
  · have hr : 0 ≤ v ∧ v ≤ 4095 := by unfold ClueVal at hc; omega
    obtain ⟨tk, hh, hl⟩ := hex_step ints (fun v => v) p v hv hr.1 hr.2 rfl
    exact ⟨1, tk, by simp only [oneOfF, spaces_miss ints p (-1) v hv h2, hh], Nat.le_refl 1, by omega, hl⟩

theorem encodeArray_dim_of_int (a : Int) (r : List PyVal) (m : Nat) (e : PyVal) :
    encodeArray (.int a :: r) m e Option.none = encodeArray (.int a :: r) m e (some 1) := by
  simp [encodeArray, isListVal]

theorem legacyItem_clue (v : Int) (hv : ClueVal v) : C16Legacy.LegacyItem (.int (-1)) (.int v) := by
  rcases hv with rfl | ⟨h0, h1⟩
  · exact Or.inl rfl
  · exact Or.inr ⟨v, rfl, h0, h1⟩

theorem aquarium (h w : Nat) (hh : 1 ≤ h) (hw : 1 ≤ w) (hdh : DecimalOk h) (hdw : DecimalOk w)
    (rooms : List (List (Nat × Nat))) (hv : ValidPartition h w rooms) (clueRow clueCol : List Int)
    (hr : clueRow.length = h) (hc : clueCol.length = w) (hrv : ∀ v ∈ clueRow, ClueVal v) (hcv : ∀ v ∈ clueCol, ClueVal v) :
    ∃ body, aquariumProblemToUrl h w (rooms.map fun r => r.map fun c => ((c.1 : Int), (c.2 : Int)))
          (clueRow.map PyVal.int) (clueCol.map PyVal.int) = .ok (puzzLinkPrefix ++ tail aquariumName w h body) ∧
      getPuzzleInfo (puzzLinkPrefix ++ tail aquariumName w h body) = .ok (aquariumName, h, w) ∧
      Pzpr.decodeAquarium h w body = some (bordersOf h w rooms, clueCol, clueRow) := by
  obtain ⟨bid, t1, hb, henc, hser⟩ := C16Bits.legacy_segmentation h w hh hw rooms hv false false
  -- the clue text
  have hxs : clueCol.map PyVal.int ++ clueRow.map PyVal.int = (clueCol ++ clueRow).map PyVal.int := by simp
  have hall : ∀ v ∈ clueCol ++ clueRow, ClueVal v := by
    intro v hv'
    rcases List.mem_append.mp hv' with h' | h'
    · exact hcv v h'
    · exact hrv v h'
  have hitems : ∀ v ∈ (clueCol ++ clueRow).map PyVal.int, C16Legacy.LegacyItem (.int (-1)) v := by
    intro v hv'
    obtain ⟨c, hc', rfl⟩ := List.mem_map.mp hv'
    exact legacyItem_clue c (hall c hc')
  obtain ⟨t2, ht2, _⟩ := C16Legacy.legacy_encode_array_flat_marker 103 (by decide) (.int (-1)) rfl _ hitems h w
  have ht2' := C16Legacy.legacy_encode_array_flat (.int (-1)) rfl _ hitems h w
  rw [ht2] at ht2'
  have hnone : encodeArray ((clueCol ++ clueRow).map PyVal.int) 103 (.int (-1)) Option.none = .ok t2 := by
    cases hcc : clueCol with
    | nil => rw [hcc] at hc; simp at hc; omega
    | cons a r =>
      rw [hcc] at ht2
      simp only [List.cons_append, List.map_cons] at ht2 ⊢
      rw [encodeArray_dim_of_int, ht2]
  refine ⟨t1 ++ [47] ++ t2, ?_, ?_, ?_⟩
  · unfold aquariumProblemToUrl
    rw [hb]
    simp only [Outcome.bind, henc, hxs, hnone]
    simp [tail, aquariumName, List.append_assoc]
  · rw [puzzLinkPrefix_eq]
    exact getPuzzleInfo_frame defaultPrefix aquariumName w h _ (Or.inl rfl) aquariumName_ok hdw hdh
  · have hbd := C16Bits.pzpr_rooms_borders h w hh hw rooms hv false false t1 hser (47 :: t2)
    have hcat : t1 ++ [47] ++ t2 = t1 ++ 47 :: t2 := by simp
    rw [hcat]
    -- number16 over the outside cells
    have hlen : ((clueCol ++ clueRow).map PyVal.int).length = (clueCol ++ clueRow).length := by simp
    have hk : ∃ k, seqSer (ser (.oneOf [.spaces (.int (-1)) 15, .hexInt]) ⟨h, w⟩) (clueCol ++ clueRow).length
        [.list ((clueCol ++ clueRow).map PyVal.int)] 0 = .ok (k, t2) := by
      have := ht2'.symm
      unfold serProblem at this
      rw [hlen] at this
      have e : ser (.seq (.oneOf [.spaces (.int (-1)) 15, .hexInt]) (clueCol ++ clueRow).length) ⟨h, w⟩
          = seqSer (ser (.oneOf [.spaces (.int (-1)) 15, .hexInt]) ⟨h, w⟩) (clueCol ++ clueRow).length := by
        simp only [ser]
      rw [e] at this
      split at this
      · rename_i r hr'
        simp only [Outcome.ok.injEq] at this
        exact ⟨r.1, by rw [hr', ← this]⟩
      · cases this
      · cases this
      · cases this
    obtain ⟨k, hk⟩ := hk
    have hn := (C16PzprNum.seq_number16 _ (clueCol ++ clueRow) (fun v => v) (step_clue' ⟨h, w⟩ _ hall) k t2 hk).2
    have hl2 : (clueCol ++ clueRow).length = w + h := by simp [hr, hc]
    rw [hl2] at hn
    simp only [List.map_id'] at hn
    unfold Pzpr.decodeAquarium
    rw [hbd]
    simp only [hn, Pzpr.whole, Option.map_some]
    have e1 : (clueCol ++ clueRow).take w = clueCol := by rw [← hc]; simp
    have e2 : (clueCol ++ clueRow).drop w = clueRow := by rw [← hc]; simp
    rw [e1, e2]

end Cspuz.Proofs.C16OneWay
