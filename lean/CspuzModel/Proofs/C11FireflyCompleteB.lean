/-
  C11 / firefly — completeness of the certificate, part B: the orientation (`ulF`, `drF`) and the "turns still to
  come" counter (`ntF`) read off the lines of a rule-abiding drawing, and the conditions `orient`, `ntBound`, `flies`,
  `empties` of the certificate for them.
-/
import CspuzModel.Proofs.C11FireflyCompleteA
namespace Cspuz.Proofs.C11FireflyCompleteB
open Cspuz Cspuz.Spec Cspuz.Spec.FrameGeom Cspuz.Spec.Loop
open Cspuz.Spec.Firefly (firefly segOf opp clue armCount steps walk bends Follows IsLine)
open Cspuz.Puzzles.Firefly (Problem Clue Num)
open Cspuz.Proofs.C11FireflyCert Cspuz.Proofs.C11FireflyCompleteA

/-- What part B uses of the rules (with the board size as parameters). -/
structure Ctx (pb : Problem) (H W : Nat) (on : Seg → Bool) (unk : Int) : Prop where
  pos : 0 < unk
  flyIn : ∀ p d n, firefly pb p = some (d, n) → InB H W p
  lines : ∀ p d n, firefly pb p = some (d, n) →
    ∃ ds, Tail pb H W on p d ds ∧ ∀ k, n = some k → ((bends (d :: ds) : Nat) : Int) = k
  covered : ∀ s : Seg, s.Valid H W → on s = true → ∃ p d, Out pb H W on p d ∧ segOf p d = s
  small : ∀ p d k, firefly pb p = some (d, some k) → k < unk

/-! ### counting over the four directions -/

theorem mem_dirs (d : Dir) : d ∈ dirs := by cases d <;> simp [dirs]

theorem cnt_le_one (f : Dir → Bool) (h : ∀ a a', f a = true → f a' = true → a = a') :
    (dirs.filter f).length ≤ 1 := by
  by_contra hcon
  have h2 : 2 ≤ (dirs.filter f).length := by omega
  match hl : dirs.filter f, h2 with
  | a :: b :: r, _ =>
    have hnd : (dirs.filter f).Nodup := List.Nodup.filter _ (by simp [dirs])
    rw [hl] at hnd
    have ha : a ∈ dirs.filter f := by rw [hl]; simp
    have hb : b ∈ dirs.filter f := by rw [hl]; simp
    have := h a b (List.mem_filter.1 ha).2 (List.mem_filter.1 hb).2
    subst this
    simp at hnd

theorem cnt_pos (f : Dir → Bool) : 0 < (dirs.filter f).length ↔ ∃ a, f a = true := by
  rw [List.length_pos_iff_exists_mem]
  constructor
  · rintro ⟨a, ha⟩
    exact ⟨a, (List.mem_filter.1 ha).2⟩
  · rintro ⟨a, ha⟩
    exact ⟨a, List.mem_filter.2 ⟨mem_dirs a, ha⟩⟩

/-! ### the orientation -/

open Classical in
/-- The step is travelled towards its upper / left end. -/
noncomputable def ulF (pb : Problem) (H W : Nat) (on : Seg → Bool) : Seg → Bool
  | .v y x => decide (Out pb H W on (y + 1, x) .up)
  | .h y x => decide (Out pb H W on (y, x + 1) .left)

open Classical in
/-- The step is travelled towards its lower / right end. -/
noncomputable def drF (pb : Problem) (H W : Nat) (on : Seg → Bool) : Seg → Bool
  | .v y x => decide (Out pb H W on (y, x) .down)
  | .h y x => decide (Out pb H W on (y, x) .right)

section
variable {pb : Problem} {H W : Nat} {on : Seg → Bool}

theorem outFrom_iff {p : Pt} {d : Dir} (hh : has H W p d = true) :
    outFrom (ulF pb H W on) (drF pb H W on) p d = true ↔ Out pb H W on p d := by
  obtain ⟨y, x⟩ := p
  cases d <;> simp only [has, decide_eq_true_eq] at hh <;>
    simp [outFrom, segOf, ulF, drF, Nat.sub_add_cancel hh]

theorem inTo_iff {p : Pt} {d : Dir} (hh : has H W p d = true) :
    inTo (ulF pb H W on) (drF pb H W on) p d = true ↔ Out pb H W on (nb p d) (opp d) := by
  obtain ⟨y, x⟩ := p
  cases d <;> simp [inTo, segOf, ulF, drF, nb, opp]

theorem outFrom_false {p : Pt} {d : Dir} (hh : has H W p d = true) (h : ¬ Out pb H W on p d) :
    outFrom (ulF pb H W on) (drF pb H W on) p d = false := by
  rw [← Bool.not_eq_true, outFrom_iff hh]; exact h

/-- `orient`. -/
theorem orient_ok {unk : Int} (c : Ctx pb H W on unk) (s : Seg) (hs : s.Valid H W) :
    on s = (ulF pb H W on s || drF pb H W on s) ∧ (ulF pb H W on s && drF pb H W on s) = false := by
  have key : ∀ (p : Pt) (d : Dir), InB H W p → has H W p d = true → segOf p d = s →
      (ulF pb H W on s = true ↔ Out pb H W on (nb p d) (opp d)) →
      (drF pb H W on s = true ↔ Out pb H W on p d) →
      on s = (ulF pb H W on s || drF pb H W on s) ∧ (ulF pb H W on s && drF pb H W on s) = false := by
    intro p d hp hh hseg hu hd
    constructor
    · rw [Bool.eq_iff_iff, Bool.or_eq_true, hu, hd]
      constructor
      · intro hon
        obtain ⟨q, e, hq, hqs⟩ := c.covered s hs hon
        have : (q = p ∧ e = d) ∨ (q = nb p d ∧ e = opp d) := by
          have hqh := hq.has
          obtain ⟨y, x⟩ := p
          obtain ⟨y', x'⟩ := q
          rw [← hseg] at hqs
          cases d <;> cases e <;> simp [segOf, has, nb, opp] at hqs hh hqh ⊢ <;> omega
        rcases this with ⟨rfl, rfl⟩ | ⟨rfl, rfl⟩
        · exact Or.inr hq
        · exact Or.inl hq
      · rintro (ho | ho)
        · have := arm_on ho.arm
          rwa [segOf_opp hh, hseg] at this
        · have := arm_on ho.arm
          rwa [hseg] at this
    · rw [← Bool.not_eq_true, Bool.and_eq_true, hu, hd]
      rintro ⟨h1, h2⟩
      exact excl h2 h1
  cases s with
  | v y x =>
    have hv : y < H ∧ x ≤ W := hs
    exact key (y, x) .down ⟨by simp; omega, by simp; omega⟩ (by simp [has]; omega) rfl
      (by simp [ulF, nb, opp]) (by simp [drF])
  | h y x =>
    have hv : y ≤ H ∧ x < W := hs
    exact key (y, x) .right ⟨by simp; omega, by simp; omega⟩ (by simp [has]; omega) rfl
      (by simp [ulF, nb, opp]) (by simp [drF])

/-! ### the counter -/

/-- The step `(p, d)` is on the line of a firefly without a number. -/
def QF (pb : Problem) (H W : Nat) (on : Seg → Bool) (p : Pt) (d : Dir) : Prop :=
  ∃ f d0, OutF pb H W on f p d ∧ firefly pb f = some (d0, none)

open Classical in
/-- Turns still to come after the step `(p, d)` of a line (`unk` on the line of a firefly without a number). -/
noncomputable def ntStep (pb : Problem) (H W : Nat) (on : Seg → Bool) (unk : Int) (p : Pt) (d : Dir) : Int :=
  if Out pb H W on p d then
    if QF pb H W on p d then unk
    else if h : ∃ suf, Tail pb H W on p d suf then ((bends (d :: Classical.choose h) : Nat) : Int) else 0
  else 0

open Classical in
noncomputable def ntF (pb : Problem) (H W : Nat) (on : Seg → Bool) (unk : Int) : Seg → Int
  | .v y x => if Out pb H W on (y, x) .down then ntStep pb H W on unk (y, x) .down
      else ntStep pb H W on unk (y + 1, x) .up
  | .h y x => if Out pb H W on (y, x) .right then ntStep pb H W on unk (y, x) .right
      else ntStep pb H W on unk (y, x + 1) .left

theorem QF.out {p : Pt} {d : Dir} (h : QF pb H W on p d) : Out pb H W on p d := by
  obtain ⟨f, _, hf, _⟩ := h
  exact hf.out

theorem ntStep_q {unk : Int} {p : Pt} {d : Dir} (h : QF pb H W on p d) : ntStep pb H W on unk p d = unk := by
  simp [ntStep, h, h.out]

theorem ntStep_n {unk : Int} {p : Pt} {d : Dir} {suf : List Dir} (ho : Out pb H W on p d)
    (hq : ¬ QF pb H W on p d) (hs : Tail pb H W on p d suf) :
    ntStep pb H W on unk p d = ((bends (d :: suf) : Nat) : Int) := by
  have hex : ∃ suf, Tail pb H W on p d suf := ⟨suf, hs⟩
  have : Classical.choose hex = suf := tail_det (Classical.choose_spec hex) hs
  simp [ntStep, ho, hq, hex, this]

theorem ntStep_bound {unk : Int} (c : Ctx pb H W on unk) (p : Pt) (d : Dir) :
    0 ≤ ntStep pb H W on unk p d ∧ ntStep pb H W on unk p d ≤ unk := by
  have hpos := c.pos
  by_cases ho : Out pb H W on p d
  · by_cases hq : QF pb H W on p d
    · rw [ntStep_q hq]; omega
    · obtain ⟨f, d0, n, ds, hf, ht, hm⟩ := ho
      obtain ⟨suf, hs, _, hb, _⟩ := mem_steps ht hm
      rw [ntStep_n ⟨f, d0, n, ds, hf, ht, hm⟩ hq hs]
      cases n with
      | none => exact absurd ⟨f, d0, ⟨d0, none, ds, hf, ht, hm⟩, hf⟩ hq
      | some k =>
        obtain ⟨ds', ht', hk⟩ := c.lines f d0 _ hf
        obtain rfl := tail_det ht ht'
        have := hk k rfl
        have := c.small f d0 k hf
        omega
  · simp [ntStep, ho]; omega

theorem nt_out {unk : Int} {p : Pt} {d : Dir} (ho : Out pb H W on p d) :
    ntF pb H W on unk (segOf p d) = ntStep pb H W on unk p d := by
  have hh := ho.has
  have hex := excl ho
  obtain ⟨y, x⟩ := p
  cases d <;> simp only [has, decide_eq_true_eq] at hh <;> simp only [nb, opp] at hex
  · simp [ntF, segOf, hex, Nat.sub_add_cancel hh]
  · simp [ntF, segOf, ho]
  · simp [ntF, segOf, hex, Nat.sub_add_cancel hh]
  · simp [ntF, segOf, ho]

theorem nt_in {unk : Int} {p : Pt} {a : Dir} (hh : has H W p a = true) (ho : Out pb H W on (nb p a) (opp a)) :
    ntF pb H W on unk (segOf p a) = ntStep pb H W on unk (nb p a) (opp a) := by
  rw [← segOf_opp hh, nt_out ho]

theorem nt_bound {unk : Int} (c : Ctx pb H W on unk) (s : Seg) :
    0 ≤ ntF pb H W on unk s ∧ ntF pb H W on unk s ≤ unk := by
  cases s <;> simp only [ntF] <;> split <;> exact ntStep_bound c _ _

/-! ### the cells -/

/-- `flies`. -/
theorem fly_ok {unk : Int} (c : Ctx pb H W on unk) (p : Pt) (d0 : Dir) (n : Option Int)
    (hf : firefly pb p = some (d0, n)) :
    FlyOk H W unk (ulF pb H W on) (drF pb H W on) (ntF pb H W on unk) p d0 n := by
  obtain ⟨ds, ht, hk⟩ := c.lines p d0 n hf
  have hoF := outF_first hf ht
  have ho := hoF.out
  refine ⟨ht.has, (outFrom_iff ht.has).2 ho, ?_, ?_⟩
  · rw [nt_out ho]
    cases n with
    | none => rw [ntStep_q ⟨p, d0, hoF, hf⟩]; rfl
    | some k =>
      have hq : ¬ QF pb H W on p d0 := by
        rintro ⟨g, dg, hg, hgf⟩
        obtain ⟨rfl, _⟩ := hg.first hf
        rw [hf] at hgf
        simp at hgf
      rw [ntStep_n ho hq ht, hk k rfl]; rfl
  · intro d hne hh
    refine ⟨outFrom_false hh fun hod => hne (out_fly hod hf), ?_⟩
    intro hin
    have hin' := (inTo_iff hh).1 hin
    rw [nt_in hh hin']
    by_cases hq : QF pb H W on (nb p d) (opp d)
    · right; exact ntStep_q hq
    · left
      obtain ⟨suf, hs⟩ := hin'.tail
      obtain rfl := in_fly hh hs hf
      rw [ntStep_n hin' hq hs]; rfl

/-- `empties`. -/
theorem empty_ok {unk : Int} (p : Pt) (he : firefly pb p = none) :
    EmptyOk H W unk (ulF pb H W on) (drF pb H W on) (ntF pb H W on unk) p := by
  have hI : ∀ a, (has H W p a && inTo (ulF pb H W on) (drF pb H W on) p a) = true ↔
      has H W p a = true ∧ Out pb H W on (nb p a) (opp a) := by
    intro a
    rw [Bool.and_eq_true]
    constructor
    · rintro ⟨h1, h2⟩; exact ⟨h1, (inTo_iff h1).1 h2⟩
    · rintro ⟨h1, h2⟩; exact ⟨h1, (inTo_iff h1).2 h2⟩
  have hO : ∀ a, (has H W p a && outFrom (ulF pb H W on) (drF pb H W on) p a) = true ↔
      has H W p a = true ∧ Out pb H W on p a := by
    intro a
    rw [Bool.and_eq_true]
    constructor
    · rintro ⟨h1, h2⟩; exact ⟨h1, (outFrom_iff h1).1 h2⟩
    · rintro ⟨h1, h2⟩; exact ⟨h1, (outFrom_iff h1).2 h2⟩
  have h1 : inCnt H W (ulF pb H W on) (drF pb H W on) p ≤ 1 := by
    apply cnt_le_one
    intro a a' ha ha'
    obtain ⟨hh, hi⟩ := (hI a).1 ha
    obtain ⟨hh', hi'⟩ := (hI a').1 ha'
    exact in_unique hh hh' hi hi' he
  have h2 : outCnt H W (ulF pb H W on) (drF pb H W on) p ≤ 1 := by
    apply cnt_le_one
    intro a a' ha ha'
    exact out_unique_empty ((hO a).1 ha).2 ((hO a').1 ha').2 he
  have h3 : 0 < inCnt H W (ulF pb H W on) (drF pb H W on) p ↔
      0 < outCnt H W (ulF pb H W on) (drF pb H W on) p := by
    unfold inCnt outCnt
    rw [cnt_pos, cnt_pos]
    constructor
    · rintro ⟨a, ha⟩
      obtain ⟨hh, f, hf⟩ := (hI a).1 ha
      obtain ⟨d, r, _, hout, _⟩ := in_out hh hf he
      exact ⟨d, (hO d).2 ⟨hout.out.has, hout.out⟩⟩
    · rintro ⟨d, hd⟩
      obtain ⟨hh, f, hf⟩ := (hO d).1 hd
      obtain ⟨a, hha, _, hin, _⟩ := out_in hf he
      exact ⟨a, (hI a).2 ⟨hha, hin.out⟩⟩
  refine ⟨h1, by omega, ?_⟩
  intro d d' hne hh hh' hin hout
  have hin' := (inTo_iff hh).1 hin
  have hout' := (outFrom_iff hh').1 hout
  rw [nt_in hh hin', nt_out hout']
  have hqq : QF pb H W on (nb p d) (opp d) ↔ QF pb H W on p d' := by
    constructor
    · rintro ⟨g, dg, hg, hgf⟩
      obtain ⟨d'', r, _, hg', _⟩ := in_out hh hg he
      obtain rfl := out_unique_empty hg'.out hout' he
      exact ⟨g, dg, hg', hgf⟩
    · rintro ⟨g, dg, hg, hgf⟩
      obtain ⟨a, hha, _, hg', _⟩ := out_in hg he
      obtain rfl := in_unique hha hh hg'.out hin' he
      exact ⟨g, dg, hg', hgf⟩
  by_cases hq : QF pb H W on p d'
  · rw [ntStep_q hq, ntStep_q (hqq.2 hq)]
    split
    · rfl
    · left; exact ⟨rfl, rfl⟩
  · have hq' : ¬ QF pb H W on (nb p d) (opp d) := fun h => hq (hqq.1 h)
    obtain ⟨g, hg⟩ := hin'
    obtain ⟨d'', r, _, hg', _, ht1, ht2⟩ := in_out hh hg he
    obtain rfl := out_unique_empty hg'.out hout' he
    rw [ntStep_n hg.out hq' ht1, ntStep_n hout' hq ht2]
    have hb : bends (opp d :: d'' :: r) = (if opp d = d'' then 0 else 1) + bends (d'' :: r) := rfl
    rw [hb]
    have hv := isVert_opp hne
    split
    · rename_i hvv
      rw [if_pos (hv.1 hvv)]; simp
    · rename_i hvv
      rw [if_neg (fun h => hvv (hv.2 h))]
      right; push_cast; omega

end

end Cspuz.Proofs.C11FireflyCompleteB
