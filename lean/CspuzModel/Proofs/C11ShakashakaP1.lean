/-
  C11 / shakashaka, program level, part 1 — Python-level glue of `solve_shakashaka` on a well-formed problem:
  table reads, `answer[cy, cx] == v`, the literal-folding `&` / `|` on the scalars the solver builds, `.then`,
  and the comparison of a 1-D integer array with a literal.
-/
import CspuzModel.Proofs.C11ShakashakaDefs
import CspuzModel.Proofs.C11ArrOps
import CspuzModel.Proofs.C11Norinori
import CspuzModel.Proofs.C11FragWT
namespace Cspuz.Proofs.C11ShakashakaP1
open Cspuz Cspuz.Spec Cspuz.Puzzles Cspuz.Puzzles.Shakashaka Cspuz.Spec.Shakashaka Cspuz.Proofs
  Cspuz.Proofs.C11CL Cspuz.Proofs.C11ShakashakaDefs Cspuz.Proofs.C12Elem

/-! ### The problem table -/

theorem tableGet_eq {pb : Problem} (hwf : WellFormed pb) {y x : Nat} (hy : y < pb.height) (hx : x < pb.width) :
    tableGet' pb.problem (y : Int) (x : Int) = .ok (val pb y x) := by
  obtain ⟨hl, hr⟩ := hwf
  have hy' : y < pb.problem.length := by omega
  have hrow : (pb.problem[y]).length = pb.width := hr _ (List.getElem_mem hy')
  simp only [tableGet', val]
  rw [Cspuz.Proofs.C13.pyIndex_natCast _ _ hy', List.getElem?_eq_getElem hy']
  simp only [ok_bind]
  rw [Cspuz.Proofs.C13.pyIndex_natCast _ _ (by omega), List.getElem?_eq_getElem (by omega)]
  simp [List.getD, List.getElem?_eq_getElem hy', List.getElem?_eq_getElem (show x < (pb.problem[y]).length by omega)]

/-- The same with integer coordinates of a cell on the board. -/
theorem tableGet_int {pb : Problem} (hwf : WellFormed pb) {cy cx : Int} (hin : inB pb cy cx = true) :
    tableGet' pb.problem cy cx = .ok (val pb cy.toNat cx.toNat) := by
  simp only [inB, Bool.and_eq_true, decide_eq_true_eq] at hin
  obtain ⟨⟨⟨h1, h2⟩, h3⟩, h4⟩ := hin
  have := tableGet_eq hwf (y := cy.toNat) (x := cx.toNat) (by omega) (by omega)
  rwa [Int.toNat_of_nonneg h1, Int.toNat_of_nonneg h3] at this

/-! ### `answer[cy, cx]` -/

/-- The array `answer`. -/
def ans (pb : Problem) : PyV := .arr2 false pb.height pb.width (ivars 0 (pb.height * pb.width))

/-- The variable of cell `(cy, cx)`. -/
def cv (pb : Problem) (cy cx : Int) : Expr := .ivar (cy.toNat * pb.width + cx.toNat)

theorem ans_eq (pb : Problem) :
    ans pb = .arr2 false pb.height pb.width ((List.range (pb.height * pb.width)).map Expr.ivar) := by
  simp [ans, ivars]

theorem getitem_int (pb : Problem) {cy cx : Int} (hin : inB pb cy cx = true) :
    getitemV (ans pb) (.pair (.idx cy) (.idx cx)) = .ok (.scalar (cv pb cy cx)) := by
  simp only [inB, Bool.and_eq_true, decide_eq_true_eq] at hin
  obtain ⟨⟨⟨h1, h2⟩, h3⟩, h4⟩ := hin
  have := getitemV_cell false Expr.ivar pb.height pb.width cy.toNat cx.toNat (by omega) (by omega)
  rw [Int.toNat_of_nonneg h1, Int.toNat_of_nonneg h3] at this
  rw [ans_eq, this]; rfl

/-- `answer[cy, cx] == v` as an expression. -/
def isValE (pb : Problem) (cy cx : Int) (v : Int) : Expr := .node .eq [cv pb cy cx, .litI v]

theorem isVal_eq (pb : Problem) {cy cx : Int} (hin : inB pb cy cx = true) (v : Int) :
    isVal (ans pb) cy cx v = .ok (.scalar (isValE pb cy cx v)) := by
  simp only [isVal, getitem_int pb hin, ok_bind]
  rfl

/-! ### `&`, `|`, `.then` on the scalars the solver combines -/

/-- The scalars that occur: a Python `bool` or a Boolean node `==`, `&`, `|`. -/
inductive BS : Expr → Prop
  | lit (b : Bool) : BS (.litB b)
  | eq (l : List Expr) : BS (.node .eq l)
  | and (l : List Expr) : BS (.node .and l)
  | or (l : List Expr) : BS (.node .or l)

/-- `a & b`: two Python `bool`s are folded by Python itself. -/
def andE (a b : Expr) : Expr :=
  match a, b with
  | .litB x, .litB y => .litB (x && y)
  | _, _ => .node .and [a, b]

/-- `a | b`. -/
def orE (a b : Expr) : Expr :=
  match a, b with
  | .litB x, .litB y => .litB (x || y)
  | _, _ => .node .or [a, b]

theorem binop_and {a b : Expr} (ha : BS a) (hb : BS b) :
    binop .and_ (.scalar a) (.scalar b) = .ok (.scalar (andE a b)) := by
  cases ha <;> cases hb <;> first | rfl | (rename_i x y; cases x <;> cases y <;> rfl)

theorem binop_or {a b : Expr} (ha : BS a) (hb : BS b) :
    binop .or_ (.scalar a) (.scalar b) = .ok (.scalar (orE a b)) := by
  cases ha <;> cases hb <;> first | rfl | (rename_i x y; cases x <;> cases y <;> rfl)

theorem callM_then {l : List Expr} {b : Expr} (hb : BS b) :
    callM .then_ (.scalar (.node .eq l)) [.scalar b] = .ok (.scalar (.node .imp [.node .eq l, b])) := by
  cases hb <;> rfl

theorem BS_andE {a b : Expr} (ha : BS a) (hb : BS b) : BS (andE a b) := by
  cases ha <;> cases hb <;> constructor

theorem BS_orE {a b : Expr} (ha : BS a) (hb : BS b) : BS (orE a b) := by
  cases ha <;> cases hb <;> constructor

theorem eval_andE {σ : Asg} {a b : Expr} {x y : Bool} (ha : eval σ a = some (.b x)) (hb : eval σ b = some (.b y)) :
    eval σ (andE a b) = some (.b (x && y)) := by
  unfold andE
  split
  · simp at ha hb; simp [ha, hb]
  · exact eval_and2 ha hb

theorem eval_orE {σ : Asg} {a b : Expr} {x y : Bool} (ha : eval σ a = some (.b x)) (hb : eval σ b = some (.b y)) :
    eval σ (orE a b) = some (.b (x || y)) := by
  unfold orE
  split
  · simp at ha hb; simp [ha, hb]
  · simp [ha, hb, evalOp, allBools]

theorem wtB_andE {a b : Expr} (ha : wtB a = true) (hb : wtB b = true) : wtB (andE a b) = true := by
  unfold andE
  split
  · rfl
  · simp [wtB, wtBs, ha, hb]

theorem wtB_orE {a b : Expr} (ha : wtB a = true) (hb : wtB b = true) : wtB (orE a b) = true := by
  unfold orE
  split
  · rfl
  · simp [wtB, wtBs, ha, hb]

/-! ### `nb != 0` on a 1-D integer array -/

theorem ewData_arr1_lit (op : Op) (k : Bool) (A : List Expr) (e : Expr) :
    ewData op (.d1 A.length) [.arr1 k A, .scalar e] = A.map fun a => .node op [a, e] := by
  apply List.ext_getElem
  · simp [ewData, Shape.size]
  · intro i h1 h2
    simp only [ewData, Shape.size, List.length_map, List.length_range] at h1
    simp [ewData, C12Elem.get, elem?, h1]

theorem binop_ne_arr1_lit (A : List Expr) (v : Int) :
    binop .ne (.arr1 false A) (.scalar (.litI v)) =
      .ok (.arr1 true (A.map fun a => .node .ne [a, .litI v])) := by
  have he : elementwise .ne (.d1 A.length) [.arr1 false A, .scalar (.litI v)] = _ :=
    elementwise_ok (by simp [ewTypeCheck, Op.isCmp, PyV.isIntLike, Expr.isIntLike]) (by
      intro x hx
      simp only [List.mem_cons, List.mem_nil_iff, or_false] at hx
      rcases hx with rfl | rfl
      · exact conf_arr1 _ _
      · exact conf_scalar _ _)
  rw [ewData_arr1_lit] at he
  simp [binop, tryMeth, callMethod, PyV.cls, Cls.defines, arrayMethod, Cls.arrKind?, binarySpec, unarySpec,
    PyV.shape?, PyV.data?, swapIf, BinOp.isCmp, BinOp.meth, he, mkArr, Op.isBoolOp, Cls.properSubclass]

/-! ### One quadrant around a grid point -/

/-- The two entries of `diagonals`, the entry of `is_empty` and the entries of `is_white_angle` a quadrant
contributes (`cy, cx` its cell, `on`: the cell is on the board). -/
def qD (pb : Problem) (on : Bool) (cy cx d : Int) : Expr := if on then isValE pb cy cx d else .litB false

def qE (pb : Problem) (on : Bool) (cy cx : Int) : Expr :=
  if on && (val pb cy.toNat cx.toNat).isNone then isValE pb cy cx 0 else .litB false

def qW (pb : Problem) (on : Bool) (cy cx wv : Int) : List Expr :=
  if on && (val pb cy.toNat cx.toNat).isNone then [.node .or [isValE pb cy cx 0, isValE pb cy cx wv]] else []

theorem quadrant_eq {pb : Problem} (hwf : WellFormed pb) (on : Bool) (cy cx d1 d2 wv : Int)
    (hon : on = true → inB pb cy cx = true) :
    quadrant pb (ans pb) on cy cx d1 d2 wv =
      .ok ([.scalar (qD pb on cy cx d1), .scalar (qD pb on cy cx d2)], .scalar (qE pb on cy cx),
        (qW pb on cy cx wv).map fun e => ANest.leaf (.scalar e)) := by
  cases on with
  | false => rfl
  | true =>
    have hin := hon rfl
    simp only [quadrant, if_true, isVal_eq pb hin, tableGet_int hwf hin, ok_bind, qD, qE, qW, Bool.true_and]
    cases h : (val pb cy.toNat cx.toNat).isNone
    · rfl
    · rfl

theorem BS_qD (pb : Problem) (on : Bool) (cy cx d : Int) : BS (qD pb on cy cx d) := by
  unfold qD; cases on <;> constructor

theorem BS_qE (pb : Problem) (on : Bool) (cy cx : Int) : BS (qE pb on cy cx) := by
  unfold qE; split <;> constructor

/-! ### First loop: the black cells -/

/-- `four_neighbors(y, x) != 0` as a list of expressions. -/
def nbNe (pb : Problem) (y x : Nat) : List Expr :=
  (neighbours pb.height pb.width (y : Int) (x : Int)).map fun q => .node .ne [cv pb q.1 q.2, .litI 0]

def blackList (pb : Problem) (p : Nat × Nat) : List Expr :=
  match val pb p.1 p.2 with
  | none => []
  | some v =>
    [.node .eq [.ivar (p.1 * pb.width + p.2), .litI 0]] ++
      (if v ≥ 0 then [.node .eq [countTrueE (nbNe pb p.1 p.2), .litI v]] else [])

theorem nbNe_boolLike (pb : Problem) (y x : Nat) : ∀ e ∈ nbNe pb y x, e.isBoolLike = true := by
  intro e he
  simp only [nbNe, List.mem_map] at he
  obtain ⟨_, _, rfl⟩ := he
  rfl

theorem blackCs_eq {pb : Problem} (hwf : WellFormed pb) {p : Nat × Nat} (hy : p.1 < pb.height) (hx : p.2 < pb.width) :
    blackCs pb (ans pb) p = .ok (blackList pb p) := by
  unfold blackCs blackList
  simp only [tableGet_eq hwf hy hx, ok_bind]
  cases hv : val pb p.1 p.2 with
  | none => rfl
  | some v =>
    simp only [ans_eq, getitemV_cell false Expr.ivar _ _ _ _ hy hx, ok_bind, binop_eq_ivar_lit,
      ensureV_scalar _ (show (Expr.node .eq [.ivar (p.1 * pb.width + p.2), .litI 0]).isBoolLike = true from rfl)]
    by_cases h0 : v ≥ 0
    · simp only [if_pos h0]
      rw [C11Norinori.fourNeighbors_fresh false Expr.ivar _ _ _ _ hy hx]
      simp only [ok_bind, binop_ne_arr1_lit, List.map_map]
      have e : ((fun a => Expr.node Op.ne [a, Expr.litI 0]) ∘ fun (q : Int × Int) => Expr.ivar (q.1.toNat * pb.width + q.2.toNat))
          = fun q => .node .ne [cv pb q.1 q.2, .litI 0] := rfl
      rw [e, show List.map (fun (q : Int × Int) => Expr.node .ne [cv pb q.1 q.2, .litI 0])
        (neighbours pb.height pb.width (p.1 : Int) (p.2 : Int)) = nbNe pb p.1 p.2 from rfl]
      rw [countTrueA_arr1 _ (nbNe_boolLike pb _ _)]
      simp only [ok_bind]
      rw [C11ArrOps.binop_cmp_countTrueE .eq .eq (Or.inl ⟨rfl, rfl⟩)]
      simp only [ok_bind]
      rw [ensureV_scalar _ rfl]
      rfl
    · simp only [if_neg h0, List.append_nil]

end Cspuz.Proofs.C11ShakashakaP1
