/-
  Lemmas for C20, configuration / dispatch part: `_strtobool` against the explicit word lists, `Config()`
  against the specified configuration, `_get_backend` against the documented name table.  Core Lean only.
-/
import CspuzModel.Model.Config
import CspuzModel.Spec.Config
namespace Cspuz.Proofs.C20
open Cspuz Cspuz.Spec

/-! ### ASCII case folding -/

theorem toLower_val (a : Char) :
    a.toLower.val = if a.val ≥ 'A'.val ∧ a.val ≤ 'Z'.val then a.val + 32 else a.val := by
  unfold Char.toLower
  split <;> rfl

theorem toUpper_val (a : Char) :
    a.toUpper.val = if 'a'.val ≤ a.val ∧ a.val ≤ 'z'.val then a.val + ('A'.val - 'a'.val) else a.val := by
  unfold Char.toUpper
  split <;> rfl

/-- A character folds to the non-capital `c` iff it is `c` or the capital of `c`. -/
theorem toLower_eq_iff (a c : Char) (hc : c.isUpper = false) :
    a.toLower = c ↔ a = c ∨ a = c.toUpper := by
  simp only [Char.ext_iff, toLower_val, toUpper_val]
  simp only [Char.isUpper, decide_eq_false_iff_not] at hc
  have h1 : 'A'.val = 65 := rfl
  have h2 : 'Z'.val = 90 := rfl
  have h3 : 'a'.val = 97 := rfl
  have h4 : 'z'.val = 122 := rfl
  simp only [h1, h2, h3, h4] at *
  generalize a.val = x at *
  generalize c.val = y at *
  simp only [UInt32.le_iff_toNat_le, ge_iff_le, ← UInt32.toNat_inj] at *
  have := x.toNat_lt
  have := y.toNat_lt
  split <;> split <;> (try simp only [UInt32.toNat_add, UInt32.toNat_sub] at *)
  all_goals
    have e1 : UInt32.toNat 65 = 65 := rfl
    have e2 : UInt32.toNat 90 = 90 := rfl
    have e3 : UInt32.toNat 97 = 97 := rfl
    have e4 : UInt32.toNat 122 = 122 := rfl
    have e5 : UInt32.toNat 32 = 32 := rfl
    simp only [e1, e2, e3, e4, e5] at *
    omega

/-- The case variants of a word without capitals are exactly the lists that fold to it. -/
theorem mem_caseVariants : ∀ (w l : List Char), (∀ c ∈ w, c.isUpper = false) →
    (l ∈ caseVariants w ↔ l.map Char.toLower = w)
  | [], l, _ => by cases l <;> simp [caseVariants]
  | c :: r, l, hw => by
    have hc : c.isUpper = false := hw c (by simp)
    have hr : ∀ c ∈ r, c.isUpper = false := fun c h => hw c (by simp [h])
    cases l with
    | nil =>
      simp only [caseVariants, List.mem_flatMap, List.map_nil]
      constructor
      · rintro ⟨t, _, h⟩; split at h <;> simp at h
      · intro h; cases h
    | cons a t =>
      simp only [caseVariants, List.mem_flatMap, List.map_cons, List.cons.injEq,
        toLower_eq_iff a c hc, ← mem_caseVariants r t hr]
      constructor
      · rintro ⟨t', ht', h⟩
        split at h
        · simp only [List.mem_singleton, List.cons.injEq] at h
          exact ⟨Or.inl h.1, h.2 ▸ ht'⟩
        · simp only [List.mem_cons, List.cons.injEq, List.not_mem_nil, or_false] at h
          rcases h with h | h
          · exact ⟨Or.inl h.1, h.2 ▸ ht'⟩
          · exact ⟨Or.inr h.1, h.2 ▸ ht'⟩
      · rintro ⟨h, ht⟩
        refine ⟨t, ht, ?_⟩
        split
        · rename_i he
          rcases h with h | h
          · simp [h]
          · simp [h, he]
        · rcases h with h | h <;> simp [h]

theorem pyLower_eq_iff (s w : String) : pyLower s = w ↔ s.toList.map Char.toLower = w.toList := by
  unfold pyLower
  constructor
  · intro h; rw [← h, String.toList_ofList]
  · intro h; rw [h, String.ofList_toList]

theorem lower_true (s : String) : pyLower s = "true" ↔ s.toList ∈ caseVariants "true".toList := by
  rw [pyLower_eq_iff, mem_caseVariants _ _ (by decide)]

theorem lower_false (s : String) : pyLower s = "false" ↔ s.toList ∈ caseVariants "false".toList := by
  rw [pyLower_eq_iff, mem_caseVariants _ _ (by decide)]

theorem lower_digit (s : String) (d : String) (hd : d.toList.map Char.toLower = d.toList)
    (h1 : d.toList.length = 1) (hu : ∀ c ∈ d.toList, c.isUpper = false ∧ c.toUpper = c) :
    pyLower s = d ↔ s = d := by
  rw [pyLower_eq_iff]
  constructor
  · intro h
    apply String.toList_injective
    generalize s.toList = l at *
    generalize d.toList = w at *
    match w, l with
    | [c], [a] =>
      simp only [List.map_cons, List.map_nil, List.cons.injEq, and_true] at h
      have := (toLower_eq_iff a c (hu c (by simp)).1).1 h
      rw [(hu c (by simp)).2] at this
      rcases this with h | h <;> simp [h]
    | [c], [] => simp at h
    | [c], _ :: _ :: _ => simp at h
    | [], _ => simp at h1
    | _ :: _ :: _, _ => simp at h1
  · intro h; rw [h, hd]

theorem lower_one (s : String) : pyLower s = "1" ↔ s = "1" :=
  lower_digit s "1" (by decide) (by decide) (by decide)

theorem lower_zero (s : String) : pyLower s = "0" ↔ s = "0" :=
  lower_digit s "0" (by decide) (by decide) (by decide)

/-- `_strtobool` is the strict parser of the specification. -/
theorem strtobool_eq (s : String) :
    strtobool s = match parseBool s with
      | some b => .ok b
      | none => .error .valueError := by
  unfold strtobool parseBool
  simp only [lower_true, lower_false, lower_one, lower_zero]
  split
  · rfl
  · split <;> rfl

/-! ### `Config()` -/

theorem detect_eq (a : Avail) : detectBackend a = firstAvailable a := by
  cases a with
  | mk c e p z => cases c <;> cases e <;> cases p <;> cases z <;> rfl

theorem supportsGraph_iff (db : String) :
    (db = "csugar" ∨ db = "enigma_csp" ∨ db = "cspuz_core") ↔ supportsGraphPrimitive db = true := by
  simp only [supportsGraphPrimitive, List.contains_cons, List.contains_nil, Bool.or_false, Bool.or_eq_true,
    beq_iff_eq]

theorem supportsDiv_iff (db : String) :
    (db = "enigma_csp" ∨ db = "cspuz_core") ↔ supportsDivisionPrimitive db = true := by
  simp only [supportsDivisionPrimitive, List.contains_cons, List.contains_nil, Bool.or_false, Bool.or_eq_true,
    beq_iff_eq]

theorem strtobool_True : strtobool "True" = .ok true := by decide
theorem strtobool_False : strtobool "False" = .ok false := by decide

theorem strtobool_default (b : Bool) : strtobool (if b = true then "True" else "False") = .ok b := by
  cases b
  · exact strtobool_False
  · exact strtobool_True

/-- The default backend the constructor computes is the specified one. -/
theorem default_eq (infer : Bool) (env : Env) (a : Avail) :
    (if getDefault infer env "CSPUZ_DEFAULT_BACKEND" "auto" = "auto" then detectBackend a
      else getDefault infer env "CSPUZ_DEFAULT_BACKEND" "auto")
    = defaultBackend (if infer then env "CSPUZ_DEFAULT_BACKEND" else none) a := by
  unfold getDefault defaultBackend
  rw [detect_eq]
  cases infer
  · simp
  · simp only [if_true]
    cases env "CSPUZ_DEFAULT_BACKEND" with
    | none => simp
    | some x => simp

/-- One flag of the constructor against the specification. -/
theorem flag_eq (infer : Bool) (env : Env) (key : String) (b : Bool) :
    strtobool (getDefault infer env key (if b = true then "True" else "False"))
      = match (match (if infer then env key else none) with
               | none => some b
               | some s => parseBool s) with
        | some v => .ok v
        | none => .error .valueError := by
  unfold getDefault
  cases infer
  · simp [strtobool_default]
  · simp only [if_true]
    cases env key with
    | none => simp [strtobool_default]
    | some s => simp [strtobool_eq]

theorem ite_str_decide (p : Prop) [Decidable p] (b : Bool) (h : p ↔ b = true) :
    (if p then "True" else "False") = (if b = true then "True" else "False") := by
  by_cases hp : p
  · simp [hp, h.1 hp]
  · have : b = false := by cases b <;> simp_all
    simp [hp, this]

theorem assemble (db : String) (path : Option String) (f1 f2 : Option Bool) :
    (do let ugp ← (match f1 with | some v => Except.ok v | none => Except.error PyErr.valueError)
        let ugdp ← (match f2 with | some v => Except.ok v | none => Except.error PyErr.valueError)
        (Except.ok { default_backend := db, backend_path := path, use_graph_primitive := ugp,
                     use_graph_division_primitive := ugdp } : Py Config))
    = match (match f1, f2 with
        | some b1, some b2 => some ({ default_backend := db, backend_path := path, use_graph_primitive := b1,
                                      use_graph_division_primitive := b2 } : Config)
        | _, _ => none) with
      | some c => .ok c
      | none => .error .valueError := by
  cases f1 <;> cases f2 <;> rfl

/-- `Config(infer_from_env)` produces exactly the specified configuration, and fails with `ValueError`
exactly when the specification says construction must fail. -/
theorem init_eq (infer : Bool) (env : Env) (a : Avail) :
    Config.init infer env a = match expectedConfig infer env a with
      | some c => .ok c
      | none => .error .valueError := by
  unfold Config.init expectedConfig
  simp only [default_eq]
  generalize defaultBackend (if infer = true then env "CSPUZ_DEFAULT_BACKEND" else none) a = db
  rw [ite_str_decide _ _ (supportsGraph_iff db), ite_str_decide _ _ (supportsDiv_iff db)]
  rw [flag_eq, flag_eq]
  exact assemble _ _ _ _

/-! ### backend dispatch -/

theorem byName_eq (s : String) :
    getBackendByName s = match classOfName s with
      | some c => .ok c
      | none => .error .valueError := by
  unfold getBackendByName classOfName backendTable
  by_cases h1 : s = "sugar"; · subst h1; rfl
  by_cases h2 : s = "sugar_extended"; · subst h2; rfl
  by_cases h3 : s = "z3"; · subst h3; rfl
  by_cases h4 : s = "csugar"; · subst h4; rfl
  by_cases h5 : s = "enigma_csp"; · subst h5; rfl
  by_cases h6 : s = "cspuz_core"; · subst h6; rfl
  simp only [List.lookup_cons, List.lookup_nil, h1, h2, h3, h4, h5, h6, if_false,
    beq_eq_false_iff_ne.2 h1, beq_eq_false_iff_ne.2 h2, beq_eq_false_iff_ne.2 h3,
    beq_eq_false_iff_ne.2 h4, beq_eq_false_iff_ne.2 h5, beq_eq_false_iff_ne.2 h6]

theorem getBackend_eq (arg : BackendArg) (cfg : Config) :
    getBackend arg cfg = match arg with
      | .cls c => .ok c
      | .name s => (match classOfName s with | some c => .ok c | none => .error .valueError)
      | .none => (match classOfName cfg.default_backend with
                  | some c => .ok c | none => .error .valueError) := by
  cases arg <;> simp [getBackend, getDefaultBackend, byName_eq]

set_option linter.unusedSimpArgs false in
theorem backend_spec (arg : BackendArg) (cfg : Config) :
    (∀ cls, getBackend arg cfg = .ok cls ↔
      match arg with
      | .cls c => cls = c
      | .name s => classOfName s = some cls
      | .none => classOfName cfg.default_backend = some cls) ∧
    (∀ e, getBackend arg cfg = .error e ↔
      e = .valueError ∧
      match arg with
      | .cls _ => False
      | .name s => classOfName s = none
      | .none => classOfName cfg.default_backend = none) := by
  rw [getBackend_eq]
  cases arg with
  | cls c => exact ⟨fun cls => by simp [eq_comm], fun e => by simp⟩
  | name s =>
    cases h : classOfName s with
    | none => exact ⟨fun cls => by simp [h], fun e => by simp [h, eq_comm]⟩
    | some c => exact ⟨fun cls => by simp [h, eq_comm], fun e => by simp [h]⟩
  | none =>
    cases h : classOfName cfg.default_backend with
    | none => exact ⟨fun cls => by simp [h], fun e => by simp [h, eq_comm]⟩
    | some c => exact ⟨fun cls => by simp [h, eq_comm], fun e => by simp [h]⟩

theorem default_spec (env : Env) (avail : Avail) (cfg : Config) (h : Config.init true env avail = .ok cfg) :
    cfg.default_backend =
      match env "CSPUZ_DEFAULT_BACKEND" with
      | some x => if x = "auto" then firstAvailable avail else x
      | none => firstAvailable avail := by
  rw [init_eq] at h
  unfold expectedConfig at h
  simp only [if_true] at h
  split at h
  · rename_i c hc
    cases h
    split at hc
    · cases hc
      simp only [defaultBackend]
      cases env "CSPUZ_DEFAULT_BACKEND" <;> rfl
    · cases hc
  · cases h

theorem init_false_indep (env env' : Env) (avail : Avail) :
    Config.init false env avail = Config.init false env' avail := by
  rw [init_eq, init_eq]; rfl

theorem init_false_eq (env : Env) (avail : Avail) :
    Config.init false env avail =
      .ok { default_backend := firstAvailable avail, backend_path := none,
            use_graph_primitive := supportsGraphPrimitive (firstAvailable avail),
            use_graph_division_primitive := supportsDivisionPrimitive (firstAvailable avail) } := by
  rw [init_eq]; rfl

end Cspuz.Proofs.C20
