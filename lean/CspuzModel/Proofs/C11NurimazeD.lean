/-
  C11 / Nurimaze, part D — from the neighbour counts of the hidden `path` grid to paths of the maze
  (the tree of the unshaded cells), and the rules of the puzzle from the meaning of the constraints.
-/
import CspuzModel.Proofs.C11NurimazeC
import CspuzModel.Proofs.C11NurimazeT
import Mathlib.Data.Finset.Prod
import Mathlib.Data.Set.Finite.Basic
namespace Cspuz.Proofs.C11NurimazeD
open Cspuz Cspuz.Spec Cspuz.Puzzles Cspuz.Puzzles.Nurimaze Cspuz.Spec.Nurimaze Cspuz.Proofs
open Cspuz.Proofs.C11NurimazeA Cspuz.Proofs.C11NurimazeB Cspuz.Proofs.C11NurimazeC Cspuz.Proofs.C11NurimazeT

/-! ### generic list / transfer lemmas -/

/-- In a duplicate-free list, exactly two elements satisfy `P` iff the filtered list has length two. -/
theorem filter_length_two_iff {α : Type} (L : List α) (hL : L.Nodup) (P : α → Bool) :
    (L.filter P).length = 2 ↔
      ∃ a b, a ≠ b ∧ (a ∈ L ∧ P a = true) ∧ (b ∈ L ∧ P b = true) ∧ ∀ c, c ∈ L ∧ P c = true → c = a ∨ c = b := by
  have hnd : (L.filter P).Nodup := hL.filter _
  constructor
  · intro h
    obtain ⟨a, b, hab⟩ := List.length_eq_two.mp h
    have hm : ∀ c, c ∈ L ∧ P c = true ↔ c = a ∨ c = b := by
      intro c
      rw [← List.mem_filter, hab]; simp
    rw [hab] at hnd
    refine ⟨a, b, ?_, (hm a).2 (Or.inl rfl), (hm b).2 (Or.inr rfl), fun c hc => (hm c).1 hc⟩
    intro e; subst e; simp at hnd
  · rintro ⟨a, b, hab, ha, hb, hall⟩
    have ha' : a ∈ L.filter P := List.mem_filter.mpr ha
    have hb' : b ∈ L.filter P := List.mem_filter.mpr hb
    have hall' : ∀ c ∈ L.filter P, c = a ∨ c = b := fun c hc => hall c (List.mem_filter.mp hc)
    generalize L.filter P = M at hnd ha' hb' hall'
    have h1 : M.length ≤ 2 := by
      have hs : M ⊆ [a, b] := by
        intro c hc; rcases hall' c hc with rfl | rfl <;> simp
      exact (hnd.subperm hs).length_le
    have h2 : 2 ≤ M.length := by
      have hn2 : [a, b].Nodup := by simp [hab]
      have hs : [a, b] ⊆ M := by
        intro c hc
        simp only [List.mem_cons, List.not_mem_nil, or_false] at hc
        rcases hc with rfl | rfl <;> assumption
      exact (hn2.subperm hs).length_le
    omega

theorem transfer_one {A B : Type} (f : A → B) (hf : Function.Injective f) (R : B → Prop) (S : A → Prop)
    (h : ∀ p, R p ↔ ∃ a, p = f a ∧ S a) :
    (∃ p, R p ∧ ∀ q, R q → q = p) ↔ (∃ a, S a ∧ ∀ b, S b → b = a) := by
  constructor
  · rintro ⟨p, hp, hu⟩
    obtain ⟨a, rfl, ha⟩ := (h p).1 hp
    exact ⟨a, ha, fun b hb => hf (hu (f b) ((h _).2 ⟨b, rfl, hb⟩))⟩
  · rintro ⟨a, ha, hu⟩
    refine ⟨f a, (h _).2 ⟨a, rfl, ha⟩, ?_⟩
    intro q hq
    obtain ⟨b, rfl, hb⟩ := (h q).1 hq
    rw [hu b hb]

theorem transfer_two {A B : Type} (f : A → B) (hf : Function.Injective f) (R : B → Prop) (S : A → Prop)
    (h : ∀ p, R p ↔ ∃ a, p = f a ∧ S a) :
    (∃ p q, p ≠ q ∧ R p ∧ R q ∧ ∀ r, R r → r = p ∨ r = q) ↔
      (∃ a b, a ≠ b ∧ S a ∧ S b ∧ ∀ c, S c → c = a ∨ c = b) := by
  constructor
  · rintro ⟨p, q, hpq, hp, hq, hu⟩
    obtain ⟨a, rfl, ha⟩ := (h p).1 hp
    obtain ⟨b, rfl, hb⟩ := (h q).1 hq
    refine ⟨a, b, fun e => hpq (by rw [e]), ha, hb, ?_⟩
    intro c hc
    rcases hu (f c) ((h _).2 ⟨c, rfl, hc⟩) with e | e
    · exact Or.inl (hf e)
    · exact Or.inr (hf e)
  · rintro ⟨a, b, hab, ha, hb, hu⟩
    refine ⟨f a, f b, fun e => hab (hf e), (h _).2 ⟨a, rfl, ha⟩, (h _).2 ⟨b, rfl, hb⟩, ?_⟩
    intro r hr
    obtain ⟨c, rfl, hc⟩ := (h r).1 hr
    rcases hu c hc with rfl | rfl
    · exact Or.inl rfl
    · exact Or.inr rfl

/-! ### neighbours on the board and adjacency of cells -/

/-- A cell as a pair of integers. -/
def toI (a : Nat × Nat) : Int × Int := ((a.1 : Int), (a.2 : Int))

theorem toI_injective : Function.Injective toI := by
  rintro ⟨a1, a2⟩ ⟨b1, b2⟩ h
  simp only [toI, Prod.mk.injEq] at h
  ext <;> simp only <;> omega

theorem mem_nb_iff {h w y x : Nat} (a : Nat × Nat) :
    toI a ∈ neighbours h w (y : Int) (x : Int) ↔ a.1 < h ∧ a.2 < w ∧ cellGraph.Adj (y, x) a := by
  rw [C11Norinori.mem_neighbours_iff]
  simp only [toI, cellGraph]
  omega

theorem nb_eq_toI {h w : Nat} {y x : Int} {p : Int × Int} (hp : p ∈ neighbours h w y x) :
    p = toI (p.1.toNat, p.2.toNat) := by
  obtain ⟨h1, _, h3, _⟩ := C12Conv.mem_neighbours hp
  obtain ⟨a, b⟩ := p
  simp only [toI, Prod.mk.injEq]
  simp only at h1 h3
  omega

/-! ### the maze -/

/-- The graph of the unshaded cells. -/
abbrev maze (pb : Problem) (g : Nat → Nat → Bool) : SimpleGraph ↥(whiteCells pb g) :=
  cellGraph.induce (whiteCells pb g)

instance finite_white (pb : Problem) (g : Nat → Nat → Bool) : Finite ↥(whiteCells pb g) := by
  have : (whiteCells pb g).Finite :=
    (Finset.range pb.height ×ˢ Finset.range pb.width).finite_toSet.subset (by
      intro p hp
      simp only [Finset.coe_product, Finset.coe_range, Set.mem_prod, Set.mem_Iio]
      exact ⟨hp.1, hp.2.1⟩)
  exact this.to_subtype

/-- The unshaded cells on `pt`. -/
def Qset (pb : Problem) (g pt : Nat → Nat → Bool) : Set ↥(whiteCells pb g) := {c | pt c.1.1 c.1.2 = true}

section counts
variable {pb : Problem} {g pt : Nat → Nat → Bool}
  (hsub : ∀ y, y < pb.height → ∀ x, x < pb.width → pt y x = true → g y x = true)
include hsub

/-- The neighbours counted by the solver are the maze neighbours on `pt`. -/
theorem nb_corr (c : ↥(whiteCells pb g)) (p : Int × Int) :
    (p ∈ neighbours pb.height pb.width (c.1.1 : Int) (c.1.2 : Int) ∧ pt p.1.toNat p.2.toNat = true) ↔
      ∃ a : ↥(whiteCells pb g), p = toI a.1 ∧ ((maze pb g).Adj c a ∧ a ∈ Qset pb g pt) := by
  constructor
  · rintro ⟨hm, hP⟩
    have hpe := nb_eq_toI hm
    have hm' := hm
    rw [hpe] at hm'
    obtain ⟨h1, h2, hadj⟩ := (mem_nb_iff _).1 hm'
    exact ⟨⟨(p.1.toNat, p.2.toNat), h1, h2, hsub _ h1 _ h2 hP⟩, hpe, hadj, hP⟩
  · rintro ⟨a, rfl, hadj, haQ⟩
    refine ⟨(mem_nb_iff _).2 ⟨a.2.1, a.2.2.1, hadj⟩, ?_⟩
    have haQ' : pt a.1.1 a.1.2 = true := haQ
    simpa [toI] using haQ'

theorem count_one_iff (c : ↥(whiteCells pb g)) :
    nbCount pb pt c.1.1 c.1.2 = 1 ↔
      ∃ a, (maze pb g).Adj c a ∧ a ∈ Qset pb g pt ∧ ∀ b, (maze pb g).Adj c b → b ∈ Qset pb g pt → b = a := by
  unfold nbCount
  rw [C11Norinori.filter_length_one_iff _ (C11Norinori.neighbours_nodup _ _ _ _)]
  have := transfer_one (fun a : ↥(whiteCells pb g) => toI a.1)
    (fun a b h => Subtype.ext (toI_injective h)) _ _ (nb_corr hsub c)
  rw [this]
  constructor
  · rintro ⟨a, ⟨h1, h2⟩, hu⟩; exact ⟨a, h1, h2, fun b hb hq => hu b ⟨hb, hq⟩⟩
  · rintro ⟨a, h1, h2, hu⟩; exact ⟨a, ⟨h1, h2⟩, fun b hb => hu b hb.1 hb.2⟩

theorem count_two_iff (c : ↥(whiteCells pb g)) :
    nbCount pb pt c.1.1 c.1.2 = 2 ↔
      ∃ a b, a ≠ b ∧ (maze pb g).Adj c a ∧ a ∈ Qset pb g pt ∧ (maze pb g).Adj c b ∧ b ∈ Qset pb g pt ∧
        ∀ d, (maze pb g).Adj c d → d ∈ Qset pb g pt → d = a ∨ d = b := by
  unfold nbCount
  rw [filter_length_two_iff _ (C11Norinori.neighbours_nodup _ _ _ _)]
  have := transfer_two (fun a : ↥(whiteCells pb g) => toI a.1)
    (fun a b h => Subtype.ext (toI_injective h)) _ _ (nb_corr hsub c)
  rw [this]
  constructor
  · rintro ⟨a, b, hab, ⟨h1, h2⟩, ⟨h3, h4⟩, hu⟩
    exact ⟨a, b, hab, h1, h2, h3, h4, fun d hd hq => hu d ⟨hd, hq⟩⟩
  · rintro ⟨a, b, hab, h1, h2, h3, h4, hu⟩
    exact ⟨a, b, hab, ⟨h1, h2⟩, ⟨h3, h4⟩, fun d hd => hu d hd.1 hd.2⟩

end counts

/-! ### S and G -/

theorem isEnd_iff {pb : Problem} (hwf : WellFormed pb) (y x : Nat) :
    IsEnd pb y x ↔ (y, x) = startCell pb ∨ (y, x) = goalCell pb := by
  obtain ⟨_, _, _, _, _, ⟨s1, _, s3, _⟩, ⟨g1, _, g3, _⟩, _⟩ := hwf
  unfold IsEnd startCell goalCell
  rcases hs : pb.start with ⟨sy, sx⟩
  rcases hg : pb.goal with ⟨gy, gx⟩
  rw [hs] at s1 s3; rw [hg] at g1 g3
  simp only [Prod.mk.injEq] at *
  omega

theorem start_ne_goal {pb : Problem} (hwf : WellFormed pb) : startCell pb ≠ goalCell pb := by
  obtain ⟨_, _, _, _, _, ⟨s1, _, s3, _⟩, ⟨g1, _, g3, _⟩, hne⟩ := hwf
  unfold startCell goalCell
  intro h
  apply hne
  rcases hs : pb.start with ⟨sy, sx⟩
  rcases hg : pb.goal with ⟨gy, gx⟩
  rw [hs] at s1 s3 h; rw [hg] at g1 g3 h
  simp only [Prod.mk.injEq] at *
  omega

theorem start_on_board {pb : Problem} (hwf : WellFormed pb) :
    (startCell pb).1 < pb.height ∧ (startCell pb).2 < pb.width := by
  obtain ⟨_, _, _, _, _, ⟨s1, s2, s3, s4⟩, _, _⟩ := hwf
  unfold startCell; simp only; omega

theorem goal_on_board {pb : Problem} (hwf : WellFormed pb) :
    (goalCell pb).1 < pb.height ∧ (goalCell pb).2 < pb.width := by
  obtain ⟨_, _, _, _, _, _, ⟨s1, s2, s3, s4⟩, _⟩ := hwf
  unfold goalCell; simp only; omega

/-! ### `PathCond` and path-like sets of the maze -/

/-- The part of `PathCond` about S, G and the neighbour counts. -/
def DegCond (pb : Problem) (pt : Nat → Nat → Bool) : Prop :=
  ∀ y, y < pb.height → ∀ x, x < pb.width →
    (IsEnd pb y x → pt y x = true ∧ nbCount pb pt y x = 1) ∧
    (¬ IsEnd pb y x → pt y x = true → nbCount pb pt y x = 2)

theorem pathLike_of_degCond {pb : Problem} (hwf : WellFormed pb) {g pt : Nat → Nat → Bool}
    (hsub : ∀ y, y < pb.height → ∀ x, x < pb.width → pt y x = true → g y x = true)
    (hdeg : DegCond pb pt) (hs : startCell pb ∈ whiteCells pb g) (hg : goalCell pb ∈ whiteCells pb g) :
    PathLike (maze pb g) (Qset pb g pt) ⟨startCell pb, hs⟩ ⟨goalCell pb, hg⟩ := by
  have hend : ∀ v : ↥(whiteCells pb g), IsEnd pb v.1.1 v.1.2 ↔
      (v = ⟨startCell pb, hs⟩ ∨ v = ⟨goalCell pb, hg⟩) := by
    intro v
    rw [isEnd_iff hwf]
    constructor
    · rintro (h | h)
      · exact Or.inl (Subtype.ext h)
      · exact Or.inr (Subtype.ext h)
    · rintro (h | h)
      · exact Or.inl (congrArg Subtype.val h)
      · exact Or.inr (congrArg Subtype.val h)
  refine ⟨?_, ?_, ?_, ?_⟩
  · exact ((hdeg _ hs.1 _ hs.2.1).1 ((hend ⟨startCell pb, hs⟩).2 (Or.inl rfl))).1
  · exact ((hdeg _ hg.1 _ hg.2.1).1 ((hend ⟨goalCell pb, hg⟩).2 (Or.inr rfl))).1
  · intro v hv
    exact (count_one_iff hsub v).1 ((hdeg _ v.2.1 _ v.2.2.1).1 ((hend v).2 hv)).2
  · intro v hvQ hvs hvg
    have hne : ¬ IsEnd pb v.1.1 v.1.2 := fun h => by
      rcases (hend v).1 h with h | h
      · exact hvs h
      · exact hvg h
    exact (count_two_iff hsub v).1 ((hdeg _ v.2.1 _ v.2.2.1).2 hne hvQ)

theorem degCond_of_pathLike {pb : Problem} (hwf : WellFormed pb) {g pt : Nat → Nat → Bool}
    (hsub : ∀ y, y < pb.height → ∀ x, x < pb.width → pt y x = true → g y x = true)
    (hs : startCell pb ∈ whiteCells pb g) (hg : goalCell pb ∈ whiteCells pb g)
    (hpl : PathLike (maze pb g) (Qset pb g pt) ⟨startCell pb, hs⟩ ⟨goalCell pb, hg⟩) : DegCond pb pt := by
  intro y hy x hx
  constructor
  · intro he
    have hc : (y, x) ∈ whiteCells pb g := by
      rcases (isEnd_iff hwf y x).1 he with h | h <;> rw [h] <;> assumption
    have hv : (⟨(y, x), hc⟩ : ↥(whiteCells pb g)) = ⟨startCell pb, hs⟩ ∨
        (⟨(y, x), hc⟩ : ↥(whiteCells pb g)) = ⟨goalCell pb, hg⟩ := by
      rcases (isEnd_iff hwf y x).1 he with h | h
      · exact Or.inl (Subtype.ext h)
      · exact Or.inr (Subtype.ext h)
    refine ⟨?_, (count_one_iff hsub ⟨(y, x), hc⟩).2 (hpl.ends _ hv)⟩
    rcases hv with h | h
    · have := hpl.hs; rw [← h] at this; exact this
    · have := hpl.hg; rw [← h] at this; exact this
  · intro hne hpt
    have hc : (y, x) ∈ whiteCells pb g := ⟨hy, hx, hsub y hy x hx hpt⟩
    refine (count_two_iff hsub ⟨(y, x), hc⟩).2 (hpl.inner ⟨(y, x), hc⟩ hpt ?_ ?_)
    · intro h; exact hne ((isEnd_iff hwf y x).2 (Or.inl (congrArg Subtype.val h)))
    · intro h; exact hne ((isEnd_iff hwf y x).2 (Or.inr (congrArg Subtype.val h)))

/-! ### rooms -/

theorem rooms_iff (pb : Problem) (g : Nat → Nat → Bool) :
    (∀ y, y < pb.height → ∀ x, x < pb.width →
      (x + 1 < pb.width → wallV pb y x = 0 → g y x = g y (x + 1)) ∧
      (y + 1 < pb.height → wallH pb y x = 0 → g y x = g (y + 1) x)) ↔
    (∀ p q, SameRoom pb p q → g p.1 p.2 = g q.1 q.2) := by
  constructor
  · intro h p q hpq
    induction hpq with
    | rel a b hab =>
      rcases hab with ⟨h1, h2, h3, h4, h5⟩ | ⟨h1, h2, h3, h4, h5⟩
      · have := (h a.1 h3 a.2 (by omega)).1 (by omega) h5
        rw [this, h1, h2]
      · have := (h a.1 (by omega) a.2 h4).2 (by omega) h5
        rw [this, h1, h2]
    | refl a => rfl
    | symm a b _ ih => exact ih.symm
    | trans a b c _ _ ih1 ih2 => exact ih1.trans ih2
  · intro h y hy x hx
    constructor
    · intro h1 h2
      exact h (y, x) (y, x + 1) (Relation.EqvGen.rel _ _ (Or.inl ⟨rfl, rfl, hy, h1, h2⟩))
    · intro h1 h2
      exact h (y, x) (y + 1, x) (Relation.EqvGen.rel _ _ (Or.inr ⟨rfl, rfl, h1, hx, h2⟩))

/-! ### no 2 × 2 block of unshaded cells in a tree -/

theorem no_square {V : Type} {T : SimpleGraph V} (hT : T.IsAcyclic) {a b c d : V}
    (hab : T.Adj a b) (hbd : T.Adj b d) (hac : T.Adj a c) (hcd : T.Adj c d) (hbc : b ≠ c) (had : a ≠ d) : False := by
  have hp1 : (SimpleGraph.Walk.cons hab (SimpleGraph.Walk.cons hbd SimpleGraph.Walk.nil)).IsPath := by
    simp [SimpleGraph.Walk.cons_isPath_iff, hab.ne, hbd.ne, had]
  have hp2 : (SimpleGraph.Walk.cons hac (SimpleGraph.Walk.cons hcd SimpleGraph.Walk.nil)).IsPath := by
    simp [SimpleGraph.Walk.cons_isPath_iff, hac.ne, hcd.ne, had]
  have := (hT.subsingleton_path a d).elim ⟨_, hp1⟩ ⟨_, hp2⟩
  have hs := congrArg (fun p : T.Path a d => p.1.support) this
  simp at hs
  exact hbc hs

theorem no_white_block {pb : Problem} {g : Nat → Nat → Bool} (hT : (maze pb g).IsAcyclic) {y x : Nat}
    (hy : y + 1 < pb.height) (hx : x + 1 < pb.width) :
    ¬ (g y x = true ∧ g y (x + 1) = true ∧ g (y + 1) x = true ∧ g (y + 1) (x + 1) = true) := by
  rintro ⟨h00, h01, h10, h11⟩
  let a : ↥(whiteCells pb g) := ⟨(y, x), by omega, by omega, h00⟩
  let b : ↥(whiteCells pb g) := ⟨(y, x + 1), by omega, hx, h01⟩
  let c : ↥(whiteCells pb g) := ⟨(y + 1, x), hy, by omega, h10⟩
  let d : ↥(whiteCells pb g) := ⟨(y + 1, x + 1), hy, hx, h11⟩
  refine no_square hT (a := a) (b := b) (c := c) (d := d) ?_ ?_ ?_ ?_ ?_ ?_
  · show cellGraph.Adj (y, x) (y, x + 1); simp [cellGraph]
  · show cellGraph.Adj (y, x + 1) (y + 1, x + 1); simp [cellGraph]
  · show cellGraph.Adj (y, x) (y + 1, x); simp [cellGraph]
  · show cellGraph.Adj (y + 1, x) (y + 1, x + 1); simp [cellGraph]
  · intro h; have := congrArg (fun v : ↥(whiteCells pb g) => v.1.1) h; simp [b, c] at this
  · intro h; have := congrArg (fun v : ↥(whiteCells pb g) => v.1.1) h; simp [a, d] at this

end Cspuz.Proofs.C11NurimazeD
