/-
  C11 / Nurimisaki — `solve_nurimisaki` posts a program that encodes the published rules
  (Spec/PuzzleRules/Nurimisaki.lean).  Parts A (closed form), B (typing, basic meaning), C (lines, one cell);
  this file: assembly.
-/
import CspuzModel.Proofs.C11NurimisakiC
import CspuzModel.Properties.C04
import CspuzModel.Proofs.C11Frag
import CspuzModel.Proofs.C11CellGraph
namespace Cspuz.Proofs.C11Nurimisaki
open Cspuz Cspuz.Spec Cspuz.Puzzles Cspuz.Puzzles.Nurimisaki Cspuz.Spec.Nurimisaki Cspuz.Proofs
open Cspuz.Proofs.C11NurimisakiA Cspuz.Proofs.C11NurimisakiB Cspuz.Proofs.C11NurimisakiC

theorem mem_cells {pb : Problem} {c : Expr} :
    c ∈ cells pb ↔ ∃ y x, y < pb.height ∧ x < pb.width ∧ c ∈ cellE pb y x := by
  simp only [cells, List.mem_flatMap]
  constructor
  · rintro ⟨p, hp, hc⟩
    obtain ⟨h1, h2⟩ := mem_cellsOf.1 hp
    exact ⟨p.1, p.2, h1, h2, hc⟩
  · rintro ⟨y, x, hy, hx, hc⟩
    exact ⟨(y, x), mem_cellsOf.2 ⟨hy, hx⟩, hc⟩

theorem good_locals {pb : Problem} (hwf : WellFormed pb) :
    ∀ c ∈ locals pb, Good (pb.height * pb.width) c := by
  intro c hc
  rcases List.mem_append.1 hc with hc | hc
  · exact good_blocks c hc
  · obtain ⟨y, x, hy, hx, hc⟩ := mem_cells.1 hc
    exact good_cellE hwf hy hx c hc

/-- The local constraints of the posted program, read on the grid, are rules 4, 2 and 3. -/
theorem locals_sem {pb : Problem} (hwf : WellFormed pb) (σ : Asg) (g : Nat → Nat → Bool)
    (hg : ∀ y, y < pb.height → ∀ x, x < pb.width → g y x = σ.b (y * pb.width + x)) :
    (∀ c ∈ locals pb, eval σ c = some (.b true)) ↔
      ((∀ y x, y + 1 < pb.height → x + 1 < pb.width →
        ¬ (g y x = true ∧ g (y + 1) x = true ∧ g y (x + 1) = true ∧ g (y + 1) (x + 1) = true) ∧
        ¬ (g y x = false ∧ g (y + 1) x = false ∧ g y (x + 1) = false ∧ g (y + 1) (x + 1) = false)) ∧
      (∀ y, y < pb.height → ∀ x, x < pb.width →
        (val pb y x = -1 → ¬ Cape pb g y x) ∧ (val pb y x ≠ -1 → Cape pb g y x)) ∧
      (∀ y, y < pb.height → ∀ x, x < pb.width → 2 ≤ val pb y x →
        ∃ d ∈ dirs, LineIs pb g y x d (val pb y x))) := by
  have hL : (∀ c ∈ locals pb, eval σ c = some (.b true)) ↔
      (∀ c ∈ blocks pb.height pb.width, eval σ c = some (.b true)) ∧
        (∀ c ∈ cells pb, eval σ c = some (.b true)) := by
    simp only [locals, List.mem_append, or_imp, forall_and]
  rw [hL]
  apply and_congr
  · constructor
    · intro h y x hy hx
      exact (blocks_sem σ g hg hy hx).1 ⟨h _ (mem_blocks.2 ⟨y, x, hy, hx, Or.inl rfl⟩),
        h _ (mem_blocks.2 ⟨y, x, hy, hx, Or.inr rfl⟩)⟩
    · intro h c hc
      obtain ⟨y, x, hy, hx, rfl | rfl⟩ := mem_blocks.1 hc
      · exact ((blocks_sem σ g hg hy hx).2 (h y x hy hx)).1
      · exact ((blocks_sem σ g hg hy hx).2 (h y x hy hx)).2
  · constructor
    · intro h
      exact ⟨fun y hy x hx =>
          ((cell_sem σ g hg hwf hy hx).1 fun c hc => h c (mem_cells.2 ⟨y, x, hy, hx, hc⟩)).1,
        fun y hy x hx =>
          ((cell_sem σ g hg hwf hy hx).1 fun c hc => h c (mem_cells.2 ⟨y, x, hy, hx, hc⟩)).2⟩
    · rintro ⟨h2, h3⟩ c hc
      obtain ⟨y, x, hy, hx, hc⟩ := mem_cells.1 hc
      exact (cell_sem σ g hg hwf hy hx).2 ⟨h2 y hy x hx, h3 y hy x hx⟩ c hc

theorem encodes {pb : Problem} (hwf : WellFormed pb) :
    EncodesRules { decls := List.replicate (pb.height * pb.width) .bool ++ (avc pb).decls,
                   cs := (avc pb).cs ++ locals pb, keys := List.range (pb.height * pb.width) } (Rules pb) := by
  apply C11Frag.encodes_bool_grid_frag pb.height pb.width (avc pb) (locals pb) _ (RulesGrid pb)
    (fun c => List.mem_append)
  · intro c hc
    exact (good_locals hwf c hc).2
  · intro σ g hg
    have hreal := Cspuz.C04.C04_aux_exact (Graph.grid pb.height pb.width) (bvars 0 (pb.height * pb.width))
      (pb.height * pb.width) false (avc pb) σ (C04Prim.grid_wf _ _) (by intro h; cases h)
      (by simp [bvars, Graph.grid]) (C11FragWT.bvars_boolArgs _) (avc_eq hwf)
    simp only [Bool.false_eq_true, if_false] at hreal
    rw [hreal, C11CellGraph.activeConnected_grid_iff pb.height pb.width _ (fun y x => g y x = true) (by
      intro y x hy hx
      rw [C11FragWT.truthAt_bvars σ _ _ (C11Grid.cell_lt hy hx), hg y hy x hx]), locals_sem hwf σ g hg]
    rfl

theorem main (pb : Problem) (hwf : WellFormed pb) (P : PuzzleProg) (hP : program pb = .ok P) :
    EncodesRules P (Rules pb) ∧ P.KeysOk ∧ (∀ c ∈ P.cs, wtB c = true) := by
  rw [program_eq hwf] at hP
  cases hP
  refine ⟨encodes hwf, C11Frag.keysOk_range_le _ _ _ (by simp), ?_⟩
  intro c hc
  rcases List.mem_append.1 hc with hc | hc
  · exact (C11FragWT.avcProg_wt (C04Prim.grid_wf _ _) (by simp [bvars, Graph.grid])
      (C11FragWT.bvars_boolArgs _) c hc).1
  · exact (good_locals hwf c hc).1

theorem total (pb : Problem) (hwf : WellFormed pb) : ∃ P, program pb = .ok P := ⟨_, program_eq hwf⟩

/-! ### remark on rule 3 (not used by the theorem)

For a cape and a number `n ≥ 2`, a direction in which the line of unshaded cells has exactly `n` cells is the
direction of the cape's only unshaded neighbour: the `∃ d` of rule 3 in the spec is "the straight line that
runs through its only unshaded neighbour" of the published text. -/

theorem line_dir_unique {pb : Problem} (g : Nat → Nat → Bool) {y x : Nat}
    (hc : Cape pb g y x) {d : Int × Int} (hd : d ∈ dirs) {n : Int} (hn : 2 ≤ n) (hl : LineIs pb g y x d n) :
    onBoardWhite pb g ((y : Int) + d.1) ((x : Int) + d.2) ∧
      ∀ d' ∈ dirs, onBoardWhite pb g ((y : Int) + d'.1) ((x : Int) + d'.2) → d' = d := by
  have h1 := hl.1 1 (by omega) (by omega)
  simp only [one_mul] at h1
  refine ⟨h1, ?_⟩
  intro d' hd' h2
  have hw := hc.2
  unfold whiteNbrs at hw
  have U : onBoardWhite pb g ((y : Int) + -1) ((x : Int) + 0) → (0 < y ∧ g (y - 1) x = true) := by
    intro h
    have h0 := h.1
    exact ⟨by omega, ((onBW_nat g _ _ (y - 1) x (by omega) (by omega)).1 h).2.2⟩
  have D : onBoardWhite pb g ((y : Int) + 1) ((x : Int) + 0) → (y + 1 < pb.height ∧ g (y + 1) x = true) := by
    intro h
    have h0 := (onBW_nat g _ _ (y + 1) x (by omega) (by omega)).1 h
    exact ⟨h0.1, h0.2.2⟩
  have L : onBoardWhite pb g ((y : Int) + 0) ((x : Int) + -1) → (0 < x ∧ g y (x - 1) = true) := by
    intro h
    have h0 := h.2.2.1
    exact ⟨by omega, ((onBW_nat g _ _ y (x - 1) (by omega) (by omega)).1 h).2.2⟩
  have R : onBoardWhite pb g ((y : Int) + 0) ((x : Int) + 1) → (x + 1 < pb.width ∧ g y (x + 1) = true) := by
    intro h
    have h0 := (onBW_nat g _ _ y (x + 1) (by omega) (by omega)).1 h
    exact ⟨h0.2.1, h0.2.2⟩
  simp only [dirs, List.mem_cons, List.not_mem_nil, or_false] at hd hd'
  rcases hd with rfl | rfl | rfl | rfl <;> rcases hd' with rfl | rfl | rfl | rfl
  · rfl
  · exact absurd hw (by rw [if_pos (U h1), if_pos (D h2)]; omega)
  · exact absurd hw (by rw [if_pos (U h1), if_pos (L h2)]; omega)
  · exact absurd hw (by rw [if_pos (U h1), if_pos (R h2)]; omega)
  · exact absurd hw (by rw [if_pos (D h1), if_pos (U h2)]; omega)
  · rfl
  · exact absurd hw (by rw [if_pos (D h1), if_pos (L h2)]; omega)
  · exact absurd hw (by rw [if_pos (D h1), if_pos (R h2)]; omega)
  · exact absurd hw (by rw [if_pos (L h1), if_pos (U h2)]; omega)
  · exact absurd hw (by rw [if_pos (L h1), if_pos (D h2)]; omega)
  · rfl
  · exact absurd hw (by rw [if_pos (L h1), if_pos (R h2)]; omega)
  · exact absurd hw (by rw [if_pos (R h1), if_pos (U h2)]; omega)
  · exact absurd hw (by rw [if_pos (R h1), if_pos (D h2)]; omega)
  · exact absurd hw (by rw [if_pos (R h1), if_pos (L h2)]; omega)
  · rfl

end Cspuz.Proofs.C11Nurimisaki
