/-
  C03: C02 through the plain `sugar` backend (no native deduction: `Solver.solve` runs cspuz's own
  refute-and-re-solve loop over `SugarLikeBackend.solve`).  The loop theorem of C02 (`Proofs/C02.lean`, stated for
  backends correct on ALL well-typed programs) is transported to the Sugar backend, which is correct on the
  programs it prints faithfully, by showing that the loop only ever submits such programs.
-/
import CspuzModel.Proofs.C03Backend
import CspuzModel.Proofs.C03WT
import CspuzModel.Proofs.C02
namespace Cspuz.Proofs.C03Plain
open Cspuz Cspuz.Spec Cspuz.Sugar Cspuz.SugarSyntax
open Cspuz.Proofs.C03Text Cspuz.Proofs.C03Backend Cspuz.Proofs.C03WT Cspuz.Proofs.C02Loop

/-- The constraints of the plain-`sugar` route: C01's well-typed trees, no one-operand `SUB`, mentioning
only declared variables at their declared type. -/
def goodC (decls : List VarDecl) (c : Expr) : Bool := wtB c && unarySubFree c && inScope decls c

theorem goodC_iff {decls : List VarDecl} {c : Expr} :
    goodC decls c = true ↔ wtB c = true ∧ unarySubFree c = true ∧ inScope decls c = true := by
  simp [goodC, Bool.and_eq_true, and_assoc]

theorem good_of_goodC {decls : List VarDecl} {cs : List Expr} (h : ∀ c ∈ cs, goodC decls c = true) :
    Good decls cs := fun c hc => by
  obtain ⟨h1, h2, h3⟩ := goodC_iff.1 (h c hc)
  exact ⟨printable_of_wtB c h1 h2, h3⟩

/-- Some correct backend (classical): used only where the Sugar backend is not specified. -/
noncomputable def oracleBackend : Backend := fun decls cs =>
  .ok (by classical exact if h : Satisfiable decls cs then some (Classical.choose h) else none)

theorem oracle_correct : oracleBackend.Correct := by
  intro decls cs _
  classical
  by_cases h : Satisfiable decls cs
  · refine ⟨some (Classical.choose h), by simp [oracleBackend, h], ?_, by simp⟩
    intro σ hσ; cases hσ; exact Classical.choose_spec h
  · exact ⟨none, by simp [oracleBackend, h], by simp, fun _ => h⟩

noncomputable def wrap (S : Call) : Backend := fun decls cs =>
  if cs.all (goodC decls) then sugarBackend S decls cs else oracleBackend decls cs

theorem wrap_eq (S : Call) {decls : List VarDecl} {cs : List Expr} (h : ∀ c ∈ cs, goodC decls c = true) :
    wrap S decls cs = sugarBackend S decls cs := by
  have : cs.all (goodC decls) = true := List.all_eq_true.2 h
  simp [wrap, this]

theorem wrap_correct {S : Call} (hS : SolverCorrect S) : (wrap S).Correct := by
  intro decls cs hwt
  by_cases h : cs.all (goodC decls) = true
  · have hg := List.all_eq_true.1 h
    simpa [wrap, h] using backend_correct hS (good_of_goodC hg)
  · simpa [wrap, h] using oracle_correct decls cs hwt

/-! ### the loop only submits good programs -/

theorem good_differs {decls : List VarDecl} {i : Nat} {a : Val} (hk : KindOk decls i a) :
    goodC decls (differs i a) = true := by
  cases a with
  | b v =>
    simp only [KindOk] at hk
    simp [goodC, differs, wtB, wtBs, unarySubFree, unarySubFrees, inScope, inScopes, hk]
  | i v =>
    obtain ⟨lo, hi, hd⟩ := hk
    simp [goodC, differs, wtB, wtIs, wtI, unarySubFree, unarySubFrees, inScope, inScopes, hd]

theorem unarySubFrees_of_forall : ∀ l : List Expr, (∀ x ∈ l, unarySubFree x = true) → unarySubFrees l = true
  | [], _ => rfl
  | x :: r, h => by
    simp only [unarySubFrees, Bool.and_eq_true]
    exact ⟨h x (by simp), unarySubFrees_of_forall r fun y hy => h y (List.mem_cons_of_mem _ hy)⟩

theorem inScopes_of_forall {decls : List VarDecl} : ∀ l : List Expr, (∀ x ∈ l, inScope decls x = true) →
    inScopes decls l = true
  | [], _ => rfl
  | x :: r, h => by
    simp only [inScopes, Bool.and_eq_true]
    exact ⟨h x (by simp), inScopes_of_forall r fun y hy => h y (List.mem_cons_of_mem _ hy)⟩

theorem good_refuting {decls : List VarDecl} {answer : List (Option Val)} (hk : Kinds decls answer) :
    goodC decls (refuting answer) = true := by
  apply goodC_iff.2
  refine ⟨wtB_refuting answer, ?_, ?_⟩
  · unfold refuting
    simp only [unarySubFree, Bool.true_and]
    apply unarySubFrees_of_forall
    intro x hx
    obtain ⟨i, a, hi, rfl⟩ := mem_refuting_args.1 hx
    exact (goodC_iff.1 (good_differs (hk i a hi))).2.1
  · unfold refuting
    simp only [inScope]
    apply inScopes_of_forall
    intro x hx
    obtain ⟨i, a, hi, rfl⟩ := mem_refuting_args.1 hx
    exact (goodC_iff.1 (good_differs (hk i a hi))).2.2

theorem kinds_demote {decls : List VarDecl} {answer : List (Option Val)} (hk : Kinds decls answer) (σ : Asg) :
    Kinds decls (demote decls answer σ) := fun i a hi => hk i a (demote_some hi).1

theorem refineLoop_congr {B B' : Backend} {decls : List VarDecl} {cs : List Expr}
    (hcs : ∀ c ∈ cs, goodC decls c = true)
    (hB : ∀ cs', (∀ c ∈ cs', goodC decls c = true) → B decls cs' = B' decls cs') :
    ∀ (fuel : Nat) (extra : List Expr) (answer : List (Option Val)),
      (∀ x ∈ extra, goodC decls x = true) → Kinds decls answer →
      refineLoop B decls cs fuel extra answer = refineLoop B' decls cs fuel extra answer
  | 0, _, _, _, _ => rfl
  | fuel + 1, extra, answer, hex, hk => by
    have hall : ∀ c ∈ cs ++ (extra ++ [refuting answer]), goodC decls c = true := by
      intro c hc
      rcases List.mem_append.1 hc with hc | hc
      · exact hcs c hc
      · rcases List.mem_append.1 hc with hc | hc
        · exact hex c hc
        · simp only [List.mem_singleton] at hc; subst hc; exact good_refuting hk
    have hex' : ∀ x ∈ extra ++ [refuting answer], goodC decls x = true :=
      fun x hx => hall x (List.mem_append_right _ hx)
    rw [refineLoop, refineLoop, hB _ hall]
    cases hr : B' decls (cs ++ (extra ++ [refuting answer])) with
    | error e => rfl
    | ok r =>
      cases r with
      | none => rfl
      | some σ =>
        simp only [ok_bind]
        exact refineLoop_congr hcs hB fuel _ _ hex' (kinds_demote hk σ)

theorem kinds_initial (decls : List VarDecl) (isKey : List Bool) (σ : Asg) :
    Kinds decls ((List.range decls.length).map fun i =>
      if isKey.getD i false then (publish decls σ).getD i none else none) := by
  intro i a hi
  rw [getD_map_range] at hi
  split at hi
  · split at hi
    · rw [C03Backend.publish_getD] at hi; exact kindOk_of_valOf hi
    · cases hi
  · cases hi

theorem solveRefine_congr {B B' : Backend} (st : SolverState) (hcs : ∀ c ∈ st.cs, goodC st.decls c = true)
    (hB : ∀ cs', (∀ c ∈ cs', goodC st.decls c = true) → B st.decls cs' = B' st.decls cs') :
    solveRefine B st = solveRefine B' st := by
  unfold solveRefine
  rw [hB st.cs hcs]
  cases hr : B' st.decls st.cs with
  | error e => rfl
  | ok r =>
    cases r with
    | none => rfl
    | some σ =>
      simp only
      rw [refineLoop_congr hcs hB _ [] _ (by simp) (kinds_initial st.decls st.isKey σ)]

/-- `Solver.solve("sugar")`: the class raises NotImplementedError for native deduction, so the refinement loop runs
over `SugarLikeBackend.solve`, and reports exactly the facts common to all solutions. -/
theorem plain_sugar {S : Call} (hS : SolverCorrect S) (st : SolverState)
    (hcs : ∀ c ∈ st.cs, goodC st.decls c = true) (hlen : st.isKey.length = st.decls.length) :
    sugarSolve .sugar S st = solveRefine (sugarBackend S) st ∧
    ((sugarSolve .sugar S st).2 = .verdict true ∨ (sugarSolve .sugar S st).2 = .verdict false) ∧
    ((sugarSolve .sugar S st).2 = .verdict true ↔ Satisfiable st.decls st.cs) ∧
    ((sugarSolve .sugar S st).2 = .verdict true →
      ∀ i, i < st.decls.length → st.isKey.getD i false = true →
        (∀ v, (sugarSolve .sugar S st).1.sol.getD i none = some v ↔ CommonValue st.decls st.cs i v) ∧
        ((sugarSolve .sugar S st).1.sol.getD i none = none ↔ Undetermined st.decls st.cs i)) := by
  have hp : ∀ c ∈ st.cs, printable c = true := fun c hc => (good_of_goodC hcs c hc).1
  obtain ⟨be, hbe, _⟩ := addConstraints_eq (enumVars st.decls) hp
  have hnat : Kind.native .sugar = false := by decide
  have e1 : sugarSolve .sugar S st = solveRefine (sugarBackend S) st := by
    simp [sugarSolve, sugarDeduce, hbe, solveIrrefutablyOf, hnat]
  have e2 : solveRefine (sugarBackend S) st = solveRefine (wrap S) st :=
    solveRefine_congr st hcs fun cs' h => (wrap_eq S h).symm
  have hwt : ∀ c ∈ st.cs, wtB c = true := fun c hc => (goodC_iff.1 (hcs c hc)).1
  have := Cspuz.Proofs.C02.exact (wrap S) (wrap_correct hS) st hwt hlen
  rw [e1, e2]
  exact ⟨rfl, this⟩

end Cspuz.Proofs.C03Plain
