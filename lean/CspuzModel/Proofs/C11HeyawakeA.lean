/-
  C11 / Heyawake, part A — closed form of the first loop of `solve_heyawake` (`roomLoop`: the `room_id`
  table and the room-count constraints) and of the border search `firstBorder`, under `WellFormed`.
-/
import CspuzModel.Spec.PuzzleRules.Heyawake
import CspuzModel.Proofs.C11CL
namespace Cspuz.Proofs.C11HeyawakeA
open Cspuz Cspuz.Spec Cspuz.Puzzles Cspuz.Puzzles.Heyawake Cspuz.Spec.Heyawake Cspuz.Proofs

theorem bvars_eq (n : Nat) : bvars 0 n = (List.range n).map Expr.bvar := by
  simp [bvars]

/-! ### Python lists of lists as tables -/

/-- `t` is an `h × w` table (Python list of lists) whose entries are given by `f`. -/
def Rep (h w : Nat) (t : List (List Int)) (f : Nat → Nat → Int) : Prop :=
  t.length = h ∧ ∀ y, y < h → ∃ row, t[y]? = some row ∧ row.length = w ∧ ∀ x, x < w → row[x]? = some (f y x)

theorem rep_replicate (h w : Nat) (v : Int) : Rep h w (List.replicate h (List.replicate w v)) (fun _ _ => v) := by
  refine ⟨by simp, fun y hy => ⟨List.replicate w v, ?_, by simp, fun x hx => ?_⟩⟩
  · rw [List.getElem?_replicate, if_pos hy]
  · rw [List.getElem?_replicate, if_pos hx]

theorem pyIndex_of_getElem? {α : Type} (l : List α) (k : Nat) (a : α) (hk : l[k]? = some a) :
    pyIndex l (k : Int) = .ok a := by
  have hlt : k < l.length := by
    rcases Nat.lt_or_ge k l.length with h | h
    · exact h
    · rw [List.getElem?_eq_none h] at hk; cases hk
  unfold pyIndex
  simp only [show ¬ ((k : Int) < 0) by omega, if_false]
  rw [if_pos (by omega), Int.toNat_natCast, hk]

theorem tableGet_rep {h w : Nat} {t : List (List Int)} {f : Nat → Nat → Int} (hr : Rep h w t f)
    {y x : Nat} (hy : y < h) (hx : x < w) : tableGet t (y : Int) (x : Int) = .ok (f y x) := by
  obtain ⟨row, hrow, _, hf⟩ := hr.2 y hy
  unfold tableGet
  rw [pyIndex_of_getElem? t y row hrow]
  exact pyIndex_of_getElem? row x _ (hf x hx)

theorem pySet_nat {α : Type} (l : List α) (k : Nat) (v : α) (hk : k < l.length) :
    pySet l (k : Int) v = .ok (l.set k v) := by
  unfold pySet
  simp only [show ¬ ((k : Int) < 0) by omega, if_false]
  rw [if_pos (by omega), Int.toNat_natCast]

theorem tableSet_rep {h w : Nat} {t : List (List Int)} {f : Nat → Nat → Int} (hr : Rep h w t f)
    (cy cx : Nat) (hy : cy < h) (hx : cx < w) (v : Int) :
    ∃ t', tableSet t (cy : Int) (cx : Int) v = .ok t' ∧
      Rep h w t' (fun y x => if y = cy ∧ x = cx then v else f y x) := by
  obtain ⟨row, hrow, hlen, hf⟩ := hr.2 cy hy
  refine ⟨t.set cy (row.set cx v), ?_, ?_⟩
  · unfold tableSet
    rw [pyIndex_of_getElem? t cy row hrow]
    simp only [ok_bind]
    rw [pySet_nat row cx v (by omega)]
    simp only [ok_bind]
    exact pySet_nat t cy _ (by rw [hr.1]; exact hy)
  · refine ⟨by rw [List.length_set]; exact hr.1, fun y hy' => ?_⟩
    by_cases hyc : y = cy
    · subst hyc
      refine ⟨row.set cx v, ?_, by rw [List.length_set]; exact hlen, fun x hx' => ?_⟩
      · rw [List.getElem?_set_self (by rw [hr.1]; exact hy)]
      · by_cases hxc : x = cx
        · subst hxc
          rw [List.getElem?_set_self (by omega)]
          simp
        · rw [List.getElem?_set_ne (Ne.symm hxc), hf x hx']
          simp [hxc]
    · obtain ⟨row', hrow', hlen', hf'⟩ := hr.2 y hy'
      refine ⟨row', ?_, hlen', fun x hx' => ?_⟩
      · rw [List.getElem?_set_ne (Ne.symm hyc)]; exact hrow'
      · rw [hf' x hx']; simp [hyc]

theorem rep_congr {h w : Nat} {t : List (List Int)} {f f' : Nat → Nat → Int} (hr : Rep h w t f)
    (hff : ∀ y, y < h → ∀ x, x < w → f y x = f' y x) : Rep h w t f' := by
  refine ⟨hr.1, fun y hy => ?_⟩
  obtain ⟨row, hrow, hlen, hf⟩ := hr.2 y hy
  exact ⟨row, hrow, hlen, fun x hx => by rw [hf x hx, hff y hy x hx]⟩

/-! ### the inner loop `for y, x in rooms[i]` -/

/-- All cells of the room lie on the board. -/
def OnBoard (h w : Nat) (b : List (Int × Int)) : Prop :=
  ∀ c ∈ b, 0 ≤ c.1 ∧ c.1 < (h : Int) ∧ 0 ≤ c.2 ∧ c.2 < (w : Int)

theorem cell_eq_iff {c : Int × Int} (h1 : 0 ≤ c.1) (h2 : 0 ≤ c.2) (y x : Nat) :
    ((y : Int), (x : Int)) = c ↔ y = c.1.toNat ∧ x = c.2.toNat := by
  obtain ⟨a, b⟩ := c
  simp only [Prod.mk.injEq]
  simp only at h1 h2
  omega

/-- The inner loop on a room none of whose cells is claimed yet: the cells of the room get the entry `i`. -/
theorem fill_room {h w : Nat} (i : Int) : ∀ (b : List (Int × Int)) (t : List (List Int)) (f : Nat → Nat → Int),
    Rep h w t f → OnBoard h w b → b.Nodup → (∀ c ∈ b, f c.1.toNat c.2.toNat = -1) →
    ∃ t', b.foldlM (fun (t : List (List Int)) (yx : Int × Int) => do
        let cur ← tableGet t yx.1 yx.2
        if cur != -1 then .error .valueError
        else tableSet t yx.1 yx.2 i) t = .ok t' ∧
      Rep h w t' (fun y x => if ((y : Int), (x : Int)) ∈ b then i else f y x)
  | [], t, f, hr, _, _, _ => ⟨t, rfl, rep_congr hr (by intro y _ x _; simp)⟩
  | c :: r, t, f, hr, hb, hnd, hfree => by
    obtain ⟨h1, h2, h3, h4⟩ := hb c (by simp)
    have e1 : c.1 = ((c.1.toNat : Nat) : Int) := (Int.toNat_of_nonneg h1).symm
    have e2 : c.2 = ((c.2.toNat : Nat) : Int) := (Int.toNat_of_nonneg h3).symm
    have hg : tableGet t c.1 c.2 = .ok (-1) := by
      have := tableGet_rep hr (y := c.1.toNat) (x := c.2.toNat) (by omega) (by omega)
      rw [← e1, ← e2, hfree c (by simp)] at this
      exact this
    obtain ⟨t1, ht1, hr1⟩ := tableSet_rep hr c.1.toNat c.2.toNat (by omega) (by omega) i
    rw [← e1, ← e2] at ht1
    have hnd' := List.nodup_cons.1 hnd
    obtain ⟨t', ht', hr'⟩ := fill_room i r t1 _ hr1 (fun c' hc' => hb c' (by simp [hc'])) hnd'.2 (by
      intro c' hc'
      obtain ⟨g1, _, g3, _⟩ := hb c' (by simp [hc'])
      have hne : c' ≠ c := fun h => hnd'.1 (h ▸ hc')
      have : ¬ (c'.1.toNat = c.1.toNat ∧ c'.2.toNat = c.2.toNat) := by
        rintro ⟨q1, q2⟩
        apply hne
        apply Prod.ext <;> omega
      simp only [this, if_false]
      exact hfree c' (by simp [hc']))
    refine ⟨t', ?_, rep_congr hr' ?_⟩
    · rw [List.foldlM_cons, hg]
      simp only [ok_bind, bne_self_eq_false, Bool.false_eq_true, if_false]
      rw [ht1]; exact ht'
    · intro y _ x _
      show (if ((y : Int), (x : Int)) ∈ r then i else if y = c.1.toNat ∧ x = c.2.toNat then i else f y x)
        = if ((y : Int), (x : Int)) ∈ c :: r then i else f y x
      have hiff := cell_eq_iff h1 h3 y x
      by_cases hin : ((y : Int), (x : Int)) ∈ r
      · rw [if_pos hin, if_pos (by simp [hin])]
      · rw [if_neg hin]
        by_cases hc : y = c.1.toNat ∧ x = c.2.toNat
        · rw [if_pos hc, if_pos (by rw [List.mem_cons]; exact Or.inl (hiff.2 hc))]
        · rw [if_neg hc, if_neg (by
            rw [List.mem_cons]
            rintro (h' | h')
            · exact hc (hiff.1 h')
            · exact hin h')]

/-! ### the room-count constraints -/

/-- The constraint `count_true(is_black[room]) == n`. -/
def roomE (w : Nat) (r : List (Int × Int)) (n : Int) : Expr :=
  .node .eq [countTrueE (r.map fun p => Expr.bvar (p.1.toNat * w + p.2.toNat)), .litI n]

theorem bvar_map_isBoolLike {ι : Type} (L : List ι) (f : ι → Nat) :
    ∀ x ∈ L.map (fun p => Expr.bvar (f p)), x.isBoolLike = true := by
  intro x hx
  simp only [List.mem_map] at hx
  obtain ⟨_, _, rfl⟩ := hx; rfl

/-- The body of the outer loop (one room). -/
def body (pb : Problem) (isBlack : PyV) (acc : List (List Int) × List Expr) (ri : List (Int × Int) × Nat) :
    Py (List (List Int) × List Expr) := do
  let t ← ri.1.foldlM (fun (t : List (List Int)) (yx : Int × Int) => do
      let cur ← tableGet t yx.1 yx.2
      if cur != -1 then .error .valueError
      else tableSet t yx.1 yx.2 (ri.2 : Int)) acc.1
  let n ← pyIndex pb.clues (ri.2 : Int)
  if n ≥ 0 then do
    let sel ← getitemV isBlack (.coords ri.1)
    let ct ← countTrueA [.leaf sel]
    let c ← binop .eq (.scalar ct) (.scalar (.litI n))
    let cs ← ensureV c
    .ok (t, acc.2 ++ cs)
  else .ok (t, acc.2)

theorem roomLoop_eq (pb : Problem) (isBlack : PyV) :
    roomLoop pb isBlack = pb.rooms.zipIdx.foldlM (body pb isBlack)
      (List.replicate pb.height (List.replicate pb.width (-1)), []) := rfl

/-- The constraints posted for the room `r` with index `k`. -/
def roomCs1 (pb : Problem) (r : List (Int × Int)) (k : Nat) : List Expr :=
  if 0 ≤ clue pb k then [roomE pb.width r (clue pb k)] else []

theorem pyIndex_clue (pb : Problem) (k : Nat) (hk : k < pb.clues.length) :
    pyIndex pb.clues (k : Int) = .ok (clue pb k) := by
  apply pyIndex_of_getElem?
  simp [clue, List.getD, List.getElem?_eq_getElem hk]

/-- One iteration of the outer loop on a room whose cells are all unclaimed. -/
theorem body_eq (pb : Problem) (r : List (Int × Int)) (k : Nat) (t : List (List Int)) (f : Nat → Nat → Int)
    (cs : List Expr) (hr : Rep pb.height pb.width t f) (hb : OnBoard pb.height pb.width r) (hnd : r.Nodup)
    (hfree : ∀ c ∈ r, f c.1.toNat c.2.toNat = -1) (hk : k < pb.clues.length) :
    ∃ t', body pb (.arr2 true pb.height pb.width (bvars 0 (pb.height * pb.width))) (t, cs) (r, k)
        = .ok (t', cs ++ roomCs1 pb r k) ∧
      Rep pb.height pb.width t' (fun y x => if ((y : Int), (x : Int)) ∈ r then (k : Int) else f y x) := by
  obtain ⟨t', ht', hr'⟩ := fill_room (k : Int) r t f hr hb hnd hfree
  refine ⟨t', ?_, hr'⟩
  unfold body
  simp only
  rw [ht', ok_bind, pyIndex_clue pb k hk, ok_bind]
  unfold roomCs1
  by_cases hv : clue pb k ≥ 0
  · rw [if_pos hv, if_pos hv]
    rw [bvars_eq, C11CL.getitemV_coords true Expr.bvar _ _ r hb, ok_bind]
    rw [C11CL.countTrueA_arr1 _ (bvar_map_isBoolLike _ _), ok_bind]
    obtain ⟨op, args, hE, hop⟩ := C11CL.countTrueE_isNode
      (r.map fun p => Expr.bvar (p.1.toNat * pb.width + p.2.toNat))
    rw [hE, C11CL.binop_eq_node_lit _ _ _ hop, ok_bind, C11CL.ensureV_scalar _ rfl, ok_bind]
    simp only [roomE, hE]
  · rw [if_neg hv, if_neg hv, List.append_nil]

/-- The constraints posted for the rooms `rest`, numbered from `k`. -/
def roomCsFrom (pb : Problem) (rest : List (List (Int × Int))) (k : Nat) : List Expr :=
  (rest.zipIdx k).flatMap fun ri => roomCs1 pb ri.1 ri.2

/-- The outer loop on rooms none of whose cells is claimed yet. -/
theorem rooms_loop (pb : Problem) : ∀ (rest : List (List (Int × Int))) (k : Nat) (t : List (List Int))
    (f : Nat → Nat → Int) (cs : List Expr), Rep pb.height pb.width t f →
    (∀ r ∈ rest, OnBoard pb.height pb.width r) → rest.flatten.Nodup →
    (∀ r ∈ rest, ∀ c ∈ r, f c.1.toNat c.2.toNat = -1) → k + rest.length ≤ pb.clues.length →
    ∃ t' f', (rest.zipIdx k).foldlM (body pb (.arr2 true pb.height pb.width (bvars 0 (pb.height * pb.width)))) (t, cs)
        = .ok (t', cs ++ roomCsFrom pb rest k) ∧
      Rep pb.height pb.width t' f' ∧
      ∀ y x : Nat, (∀ j (hj : j < rest.length), ((y : Int), (x : Int)) ∈ rest[j] → f' y x = ((k + j : Nat) : Int)) ∧
        ((∀ r ∈ rest, ((y : Int), (x : Int)) ∉ r) → f' y x = f y x)
  | [], k, t, f, cs, hr, _, _, _, _ =>
    ⟨t, f, by simp [roomCsFrom, pure, Except.pure], hr, fun y x => ⟨fun j hj => absurd hj (by simp), fun _ => rfl⟩⟩
  | b :: rest, k, t, f, cs, hr, hb, hnd, hfree, hk => by
    rw [List.flatten_cons, List.nodup_append] at hnd
    obtain ⟨hndb, hndr, hdisj⟩ := hnd
    obtain ⟨t1, ht1, hr1⟩ := body_eq pb b k t f cs hr (hb b (by simp)) hndb (hfree b (by simp))
      (by simp only [List.length_cons] at hk; omega)
    obtain ⟨t', f', ht', hr', hf'⟩ := rooms_loop pb rest (k + 1) t1 _ (cs ++ roomCs1 pb b k) hr1
      (fun r hr => hb r (by simp [hr])) hndr (by
        intro r hrr c hc
        have : c ∉ b := fun hcb => hdisj c hcb c (List.mem_flatten.2 ⟨r, hrr, hc⟩) rfl
        obtain ⟨g1, _, g3, _⟩ := hb r (by simp [hrr]) c hc
        have e : ((c.1.toNat : Int), (c.2.toNat : Int)) = c := by
          apply Prod.ext <;> simp <;> omega
        simp only [e, this, if_false]
        exact hfree r (by simp [hrr]) c hc)
      (by simp only [List.length_cons] at hk; omega)
    refine ⟨t', f', ?_, hr', fun y x => ⟨?_, ?_⟩⟩
    · rw [List.zipIdx_cons, List.foldlM_cons, ht1, ok_bind, ht']
      simp only [roomCsFrom, List.zipIdx_cons, List.flatMap_cons, List.append_assoc]
    · intro j hj hin
      cases j with
      | zero =>
        have hin' : ((y : Int), (x : Int)) ∈ b := by simpa using hin
        rw [(hf' y x).2 (by
          intro r hrr hc
          exact hdisj _ hin' _ (List.mem_flatten.2 ⟨r, hrr, hc⟩) rfl)]
        simp [hin']
      | succ j =>
        have hin' : ((y : Int), (x : Int)) ∈ rest[j]'(by simpa using hj) := by simpa using hin
        rw [(hf' y x).1 j (by simpa using hj) hin']
        congr 1; omega
    · intro hnone
      rw [(hf' y x).2 (fun r hrr => hnone r (by simp [hrr]))]
      simp [hnone b (by simp)]

/-- The room-count constraints of the instance. -/
def roomCs (pb : Problem) : List Expr := roomCsFrom pb pb.rooms 0

theorem mem_rooms_of_cell {pb : Problem} (hwf : WellFormed pb) {y x : Nat} (hy : y < pb.height) (hx : x < pb.width) :
    ∃ hj : roomOf pb y x < pb.rooms.length, ((y : Int), (x : Int)) ∈ pb.rooms[roomOf pb y x] := by
  obtain ⟨r, hr, hc⟩ := hwf.2.2.2.2.2 y hy x hx
  have hlt : roomOf pb y x < pb.rooms.length := by
    unfold roomOf
    rw [List.findIdx_lt_length]
    exact ⟨r, hr, by simp [inRoom, hc]⟩
  refine ⟨hlt, ?_⟩
  have := List.findIdx_getElem (w := hlt) (p := fun r => inRoom r y x) (xs := pb.rooms)
  simpa [inRoom, roomOf] using this

/-- The first loop of `solve_heyawake` on a well-formed instance: it posts the room-count constraints and
returns the table of the room indices. -/
theorem roomLoop_wf {pb : Problem} (hwf : WellFormed pb) :
    ∃ rid, roomLoop pb (.arr2 true pb.height pb.width (bvars 0 (pb.height * pb.width))) = .ok (rid, roomCs pb) ∧
      Rep pb.height pb.width rid (fun y x => (roomOf pb y x : Int)) := by
  obtain ⟨_, _, hcl, hon, hnd, hcov⟩ := hwf
  obtain ⟨t', f', ht', hr', hf'⟩ := rooms_loop pb pb.rooms 0 _ _ [] (rep_replicate pb.height pb.width (-1))
    hon hnd (fun _ _ _ _ => rfl) (by omega)
  refine ⟨t', ?_, rep_congr hr' ?_⟩
  · rw [roomLoop_eq]
    show (pb.rooms.zipIdx 0).foldlM _ _ = _
    rw [ht']; rfl
  · intro y hy x hx
    obtain ⟨hj, hin⟩ := mem_rooms_of_cell ⟨‹_›, ‹_›, hcl, hon, hnd, hcov⟩ hy hx
    rw [(hf' y x).1 _ hj hin]
    simp

/-! ### the border search -/

/-- The least `k` in `[s, s + n)` with `d k`. -/
def firstB (d : Nat → Bool) (s n : Nat) : Option Nat := (List.range' s n).find? d

theorem firstB_zero (d : Nat → Bool) (s : Nat) : firstB d s 0 = none := rfl

theorem firstB_succ (d : Nat → Bool) (s n : Nat) :
    firstB d s (n + 1) = if d s = true then some s else firstB d (s + 1) n := by
  simp only [firstB, List.range'_succ, List.find?_cons]
  cases d s <;> rfl

theorem firstB_some {d : Nat → Bool} : ∀ {n s k : Nat}, firstB d s n = some k ↔
    s ≤ k ∧ k < s + n ∧ d k = true ∧ ∀ j, s ≤ j → j < k → d j = false
  | 0, s, k => by
    rw [firstB_zero]
    constructor
    · intro h; cases h
    · rintro ⟨h1, h2, _⟩; omega
  | n + 1, s, k => by
    rw [firstB_succ]
    by_cases hd : d s = true
    · rw [if_pos hd]
      constructor
      · intro h
        cases h
        exact ⟨le_refl _, by omega, hd, fun j h1 h2 => by omega⟩
      · rintro ⟨h1, h2, h3, h4⟩
        by_cases hk : s = k
        · rw [hk]
        · have := h4 s (le_refl _) (by omega)
          rw [this] at hd; cases hd
    · rw [if_neg hd, firstB_some (n := n)]
      have hd' : d s = false := by simpa using hd
      constructor
      · rintro ⟨h1, h2, h3, h4⟩
        refine ⟨by omega, by omega, h3, fun j g1 g2 => ?_⟩
        by_cases hj : j = s
        · rw [hj]; exact hd'
        · exact h4 j (by omega) g2
      · rintro ⟨h1, h2, h3, h4⟩
        have hne : s ≠ k := fun h => by rw [h] at hd'; rw [hd'] at h3; cases h3
        exact ⟨by omega, by omega, h3, fun j g1 g2 => h4 j (by omega) g2⟩

theorem firstB_none {d : Nat → Bool} : ∀ {n s : Nat}, firstB d s n = none ↔ ∀ j, s ≤ j → j < s + n → d j = false
  | 0, s => by
    rw [firstB_zero]
    exact ⟨fun _ j h1 h2 => by omega, fun _ => rfl⟩
  | n + 1, s => by
    rw [firstB_succ]
    by_cases hd : d s = true
    · rw [if_pos hd]
      constructor
      · intro h; cases h
      · intro h
        rw [h s (le_refl _) (by omega)] at hd; cases hd
    · rw [if_neg hd, firstB_none (n := n)]
      have hd' : d s = false := by simpa using hd
      constructor
      · intro h j h1 h2
        by_cases hj : j = s
        · rw [hj]; exact hd'
        · exact h j (by omega) (by omega)
      · intro h j h1 h2
        exact h j (by omega) (by omega)

theorem firstBorder_go (differs : Int → Py Bool) (d : Nat → Bool) : ∀ (fuel s : Nat),
    (∀ k, s ≤ k → k < s + fuel → differs (k : Int) = .ok (d k)) →
    firstBorder.go differs fuel (s : Int) = .ok ((firstB d s fuel).map fun k => (k : Int))
  | 0, s, _ => rfl
  | fuel + 1, s, h => by
    rw [firstBorder.go, h s (le_refl _) (by omega), ok_bind, firstB_succ]
    by_cases hd : d s = true
    · rw [if_pos hd, if_pos hd]; rfl
    · rw [if_neg hd, if_neg hd]
      have := firstBorder_go differs d fuel (s + 1) (fun k h1 h2 => h k (by omega) (by omega))
      rw [← this]; rfl

/-- `firstBorder differs s l` for natural bounds `s ≤ l`. -/
theorem firstBorder_eq (differs : Int → Py Bool) (d : Nat → Bool) (s l : Nat) (start limit : Int)
    (hs : start = (s : Int)) (hl : limit = (l : Int))
    (h : ∀ k, s ≤ k → k < l → differs (k : Int) = .ok (d k)) :
    firstBorder differs start limit = .ok ((firstB d s (l - s)).map fun k => (k : Int)) := by
  subst hs hl
  unfold firstBorder
  have : ((l : Int) - (s : Int)).toNat = l - s := by omega
  rw [this]
  exact firstBorder_go differs d (l - s) s (fun k h1 h2 => h k h1 (by omega))

end Cspuz.Proofs.C11HeyawakeA
