/-
  C08, planar lemma: coordinates for the graph of white (inactive) cells of the grid.
-/
import Mathlib.Combinatorics.SimpleGraph.Acyclic
import CspuzModel.Spec.C08Spec
import CspuzModel.Proofs.C04Prim
namespace Cspuz.Proofs.C08PlanarGrid
open Cspuz Cspuz.Spec SimpleGraph

variable {h w : Nat} {act : Nat → Bool}

/-- the white cells, as a set of vertices of the grid graph -/
abbrev WSet (h w : Nat) (act : Nat → Bool) : Set (Fin (Graph.grid h w).n) :=
  activeSet (Graph.grid h w) (fun v => !act v)

/-- the graph induced on the white cells -/
abbrev WG (h w : Nat) (act : Nat → Bool) : SimpleGraph (WSet h w act) :=
  (toSimple (Graph.grid h w)).induce (WSet h w act)

theorem activeConnected_iff : ActiveConnected (Graph.grid h w) (fun v => !act v) ↔
    (WG h w act).Preconnected := Iff.rfl

theorem divmod_cell {w y x : Nat} (hx : x < w) : (y * w + x) / w = y ∧ (y * w + x) % w = x := by
  have hw : 0 < w := by omega
  rw [Nat.mul_comm y w]
  exact ⟨by rw [Nat.mul_add_div hw, Nat.div_eq_of_lt hx, Nat.add_zero],
         by rw [Nat.mul_add_mod, Nat.mod_eq_of_lt hx]⟩

theorem idx_lt {h w y x : Nat} (hy : y < h) (hx : x < w) : y * w + x < h * w := by
  have := Nat.mul_le_mul_right w (show y + 1 ≤ h by omega)
  rw [Nat.add_mul] at this
  omega

/-- the white cell `(y, x)` as a vertex -/
def mkV (y x : Nat) (hy : y < h) (hx : x < w) (hwh : act (y * w + x) = false) : WSet h w act :=
  ⟨⟨y * w + x, idx_lt hy hx⟩, by simp [activeSet, hwh]⟩

theorem exists_coords (v : WSet h w act) :
    ∃ (y x : Nat) (hy : y < h) (hx : x < w) (hwh : act (y * w + x) = false), v = mkV y x hy hx hwh := by
  obtain ⟨⟨v, hv⟩, hact⟩ := v
  have hn : (Graph.grid h w).n = h * w := rfl
  have hv' : v < h * w := hv
  have hw : 0 < w := by
    rcases Nat.eq_zero_or_pos w with h0 | h0
    · subst h0; simp at hv'
    · exact h0
  have hd := Nat.div_add_mod v w
  rw [Nat.mul_comm] at hd
  have hact' : act v = false := by simpa [activeSet] using hact
  refine ⟨v / w, v % w, Nat.div_lt_of_lt_mul (by rw [Nat.mul_comm]; exact hv'), Nat.mod_lt v hw,
    by rw [hd]; exact hact', ?_⟩
  apply Subtype.ext
  apply Fin.ext
  exact hd.symm

theorem mkV_adj_iff {y x y' x' : Nat} {hy : y < h} {hx : x < w} {hwh : act (y * w + x) = false}
    {hy' : y' < h} {hx' : x' < w} {hwh' : act (y' * w + x') = false} :
    (WG h w act).Adj (mkV y x hy hx hwh) (mkV y' x' hy' hx' hwh') ↔
      ((y = y' ∧ (x + 1 = x' ∨ x' + 1 = x)) ∨ (x = x' ∧ (y + 1 = y' ∨ y' + 1 = y))) := by
  rw [SimpleGraph.comap_adj]
  show (toSimple (Graph.grid h w)).Adj ⟨y * w + x, _⟩ ⟨y' * w + x', _⟩ ↔ _
  rw [C04Prim.grid_adj]
  simp only [(divmod_cell hx).1, (divmod_cell hx).2, (divmod_cell hx').1, (divmod_cell hx').2]

/-- a function on cells that is invariant along white–white grid edges is constant on white
components -/
theorem const_of_reachable {α : Type} (g : Nat → Nat → α)
    (hg : ∀ y x y' x', y < h → x < w → act (y * w + x) = false → y' < h → x' < w →
      act (y' * w + x') = false →
      ((y = y' ∧ x + 1 = x') ∨ (x = x' ∧ y + 1 = y')) → g y x = g y' x')
    {y x y' x' : Nat} {hy : y < h} {hx : x < w} {hwh : act (y * w + x) = false}
    {hy' : y' < h} {hx' : x' < w} {hwh' : act (y' * w + x') = false}
    (hr : (WG h w act).Reachable (mkV y x hy hx hwh) (mkV y' x' hy' hx' hwh')) :
    g y x = g y' x' := by
  let G : WSet h w act → α := fun v => g (v.1.1 / w) (v.1.1 % w)
  have hG : ∀ u v, (WG h w act).Adj u v → G u = G v := by
    intro u v huv
    obtain ⟨a, b, ha, hb, hab, rfl⟩ := exists_coords u
    obtain ⟨a', b', ha', hb', hab', rfl⟩ := exists_coords v
    rw [mkV_adj_iff] at huv
    simp only [G, mkV, (divmod_cell hb).1, (divmod_cell hb).2, (divmod_cell hb').1,
      (divmod_cell hb').2]
    rcases huv with ⟨h1, h2 | h2⟩ | ⟨h1, h2 | h2⟩
    · exact hg _ _ _ _ ha hb hab ha' hb' hab' (Or.inl ⟨h1, h2⟩)
    · exact (hg _ _ _ _ ha' hb' hab' ha hb hab (Or.inl ⟨h1.symm, h2⟩)).symm
    · exact hg _ _ _ _ ha hb hab ha' hb' hab' (Or.inr ⟨h1, h2⟩)
    · exact (hg _ _ _ _ ha' hb' hab' ha hb hab (Or.inr ⟨h1.symm, h2⟩)).symm
  have hGr : ∀ u v, (WG h w act).Reachable u v → G u = G v := by
    rintro u v ⟨p⟩
    induction p with
    | nil => rfl
    | cons hadj _ ih => exact (hG _ _ hadj).trans ih
  have := hGr _ _ hr
  simpa only [G, mkV, (divmod_cell hx).1, (divmod_cell hx).2, (divmod_cell hx').1,
    (divmod_cell hx').2] using this

end Cspuz.Proofs.C08PlanarGrid
