/-
  C12 — the regenerated dunder table agrees with the model (`decide +kernel` on a finite table), and
  the structural equality used for the comparison is sound.
-/
import CspuzModel.Gen.DunderTable
namespace Cspuz.Proofs.C12Table
open Cspuz Cspuz.Gen.DunderTable

mutual
theorem beq_sound : ∀ a b : Expr, Expr.beq a b = true → a = b
  | .bvar a, .bvar b, h => by simp [Expr.beq] at h; rw [h]
  | .ivar a, .ivar b, h => by simp [Expr.beq] at h; rw [h]
  | .litB a, .litB b, h => by simp [Expr.beq] at h; rw [h]
  | .litI a, .litI b, h => by simp [Expr.beq] at h; rw [h]
  | .litNone, .litNone, _ => rfl
  | .node o1 a1, .node o2 a2, h => by
    simp [Expr.beq] at h
    rw [h.1, beqList_sound a1 a2 h.2]
  | .bvar _, .ivar _, h | .bvar _, .litB _, h | .bvar _, .litI _, h | .bvar _, .litNone, h | .bvar _, .node _ _, h
  | .ivar _, .bvar _, h | .ivar _, .litB _, h | .ivar _, .litI _, h | .ivar _, .litNone, h | .ivar _, .node _ _, h
  | .litB _, .bvar _, h | .litB _, .ivar _, h | .litB _, .litI _, h | .litB _, .litNone, h | .litB _, .node _ _, h
  | .litI _, .bvar _, h | .litI _, .ivar _, h | .litI _, .litB _, h | .litI _, .litNone, h | .litI _, .node _ _, h
  | .litNone, .bvar _, h | .litNone, .ivar _, h | .litNone, .litB _, h | .litNone, .litI _, h | .litNone, .node _ _, h
  | .node _ _, .bvar _, h | .node _ _, .ivar _, h | .node _ _, .litB _, h | .node _ _, .litI _, h
  | .node _ _, .litNone, h => by simp [Expr.beq] at h
theorem beqList_sound : ∀ a b : List Expr, Expr.beqList a b = true → a = b
  | [], [], _ => rfl
  | a :: r, b :: s, h => by
    simp [Expr.beqList] at h
    rw [beq_sound a b h.1, beqList_sound r s h.2]
  | [], _ :: _, h | _ :: _, [], h => by simp [Expr.beqList] at h
end

theorem pyv_beq_sound (a b : PyV) (h : PyV.beq a b = true) : a = b := by
  cases a <;> cases b <;> simp [PyV.beq] at h
  · rw [beq_sound _ _ h]
  · rw [h.1, beqList_sound _ _ h.2]
  · obtain ⟨⟨⟨h1, h2⟩, h3⟩, h4⟩ := h
    rw [h1, h2, h3, beqList_sound _ _ h4]
  · rfl

theorem outcome_beq_sound (a b : Outcome) (h : Outcome.beq a b = true) : a = b := by
  cases a <;> cases b <;> simp [Outcome.beq] at h
  · rw [pyv_beq_sound _ _ h]
  · rfl
  · rw [h]
  · rfl

theorem chunk0_ok : chunk0.all Row.ok = true := by decide +kernel
theorem chunk1_ok : chunk1.all Row.ok = true := by decide +kernel
theorem chunk2_ok : chunk2.all Row.ok = true := by decide +kernel
theorem chunk3_ok : chunk3.all Row.ok = true := by decide +kernel
theorem chunk4_ok : chunk4.all Row.ok = true := by decide +kernel
theorem chunk5_ok : chunk5.all Row.ok = true := by decide +kernel
theorem chunk6_ok : chunk6.all Row.ok = true := by decide +kernel
theorem chunk7_ok : chunk7.all Row.ok = true := by decide +kernel
theorem chunk8_ok : chunk8.all Row.ok = true := by decide +kernel
theorem chunk9_ok : chunk9.all Row.ok = true := by decide +kernel
theorem chunk10_ok : chunk10.all Row.ok = true := by decide +kernel
theorem chunk11_ok : chunk11.all Row.ok = true := by decide +kernel
theorem chunk12_ok : chunk12.all Row.ok = true := by decide +kernel
theorem chunk13_ok : chunk13.all Row.ok = true := by decide +kernel
theorem chunk14_ok : chunk14.all Row.ok = true := by decide +kernel
theorem chunk15_ok : chunk15.all Row.ok = true := by decide +kernel

/-- Every row recorded from the live classes is what the model predicts. -/
theorem dunder_table_agrees : ∀ c ∈ chunks, ∀ r ∈ c, r.form.run = r.expected := by
  intro c hc r hr
  apply outcome_beq_sound
  have key : ∀ c ∈ chunks, c.all Row.ok = true := by
    intro c hc
    simp only [chunks, List.mem_cons, List.not_mem_nil, or_false] at hc
    rcases hc with rfl | rfl | rfl | rfl | rfl | rfl | rfl | rfl | rfl | rfl | rfl | rfl | rfl | rfl | rfl | rfl
    · exact chunk0_ok
    · exact chunk1_ok
    · exact chunk2_ok
    · exact chunk3_ok
    · exact chunk4_ok
    · exact chunk5_ok
    · exact chunk6_ok
    · exact chunk7_ok
    · exact chunk8_ok
    · exact chunk9_ok
    · exact chunk10_ok
    · exact chunk11_ok
    · exact chunk12_ok
    · exact chunk13_ok
    · exact chunk14_ok
    · exact chunk15_ok
  exact List.all_eq_true.mp (key c hc) r hr |> id

/-- The table is taken from the eight classes the property is about. -/
theorem receivers_are_the_classes :
    receiverClasses = ["BoolArray1D", "BoolArray2D", "IntArray1D", "IntArray2D",
                       "BoolVar", "BoolExpr", "IntVar", "IntExpr"] := by decide

end Cspuz.Proofs.C12Table
