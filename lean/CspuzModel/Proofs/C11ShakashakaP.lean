/-
  C11 / shakashaka — the program-level half of the theorem: on a well-formed problem `solve_shakashaka` posts a
  program (`total`) that encodes exactly the local reading `LocalCode` of its constraints (`encodes`): the answer
  alphabet and the black-cell clues (`CluesOK`) and, around every grid point, `PointOK`.
-/
import CspuzModel.Proofs.C11ShakashakaP3
namespace Cspuz.Proofs.C11ShakashakaP
open Cspuz Cspuz.Spec Cspuz.Puzzles Cspuz.Puzzles.Shakashaka Cspuz.Spec.Shakashaka Cspuz.Proofs
  Cspuz.Proofs.C11ShakashakaDefs Cspuz.Proofs.C11ShakashakaP1 Cspuz.Proofs.C11ShakashakaP2
  Cspuz.Proofs.C11ShakashakaP3

/-! ### Typing of the posted constraints -/

theorem wtB_isValE (pb : Problem) (cy cx v : Int) : wtB (isValE pb cy cx v) = true := by
  simp [isValE, cv, wtB, wtIs, wtI]

theorem wtB_dE (pb : Problem) (y x : Int) (i : Nat) : wtB (dE pb y x i) = true := by
  unfold dE qD; split
  · exact wtB_isValE _ _ _ _
  · rfl

theorem wtB_eE (pb : Problem) (y x : Int) (j : Nat) : wtB (eE pb y x j) = true := by
  unfold eE qE; split
  · exact wtB_isValE _ _ _ _
  · rfl

theorem wtB_wE (pb : Problem) (y x : Int) (j : Nat) : ∀ e ∈ wE pb y x j, wtB e = true := by
  intro e he
  unfold wE qW at he
  split at he
  · simp only [List.mem_singleton] at he
    subst he
    simp [wtB, wtBs, wtB_isValE]
  · simp at he

theorem wtB_impOf {di dj dk ej : Expr} (h1 : wtB di = true) (h2 : wtB dj = true) (h3 : wtB dk = true)
    (h4 : wtB ej = true) : ∀ e ∈ impOf di dj dk ej, wtB e = true := by
  intro e he
  unfold impOf at he
  split at he
  · simp at he
  · simp only [List.mem_singleton] at he
    subst he
    simp [wtB, wtBs, h1, wtB_orE h2 (wtB_andE h4 h3)]

theorem wtB_pointList (pb : Problem) (p : Nat × Nat) : ∀ e ∈ pointList pb p, wtB e = true := by
  intro e he
  simp only [pointList, List.mem_append, List.mem_flatten, List.mem_map, List.mem_singleton] at he
  rcases he with ⟨l, ⟨i, _, rfl⟩, he⟩ | rfl
  · exact wtB_impOf (wtB_dE _ _ _ _) (wtB_dE _ _ _ _) (wtB_dE _ _ _ _) (wtB_eE _ _ _ _) e he
  · apply C11FragWT.wtB_cmp_countTrueE .ne rfl
    intro e he
    simp only [List.mem_append] at he
    rcases he with ((he | he) | he) | he <;> exact wtB_wE _ _ _ _ _ he

theorem wtB_blackList (pb : Problem) (p : Nat × Nat) : ∀ e ∈ blackList pb p, wtB e = true := by
  intro e he
  unfold blackList at he
  split at he
  · simp at he
  · simp only [List.mem_append, List.mem_singleton] at he
    rcases he with rfl | he
    · simp [wtB, wtIs, wtI]
    · split at he
      · simp only [List.mem_singleton] at he
        subst he
        apply C11FragWT.wtB_cmp_countTrueE .eq rfl
        intro e he
        simp only [nbNe, List.mem_map] at he
        obtain ⟨q, _, rfl⟩ := he
        simp [cv, wtB, wtIs, wtI]
      · simp at he

theorem wt_closed (pb : Problem) : ∀ c ∈ closedCs pb, wtB c = true := by
  intro c hc
  simp only [closedCs, List.mem_append, List.mem_flatten, List.mem_map] at hc
  rcases hc with ⟨l, ⟨p, _, rfl⟩, hc⟩ | ⟨l, ⟨p, _, rfl⟩, hc⟩
  · exact wtB_blackList pb p c hc
  · exact wtB_pointList pb p c hc

/-! ### Assembly -/

theorem total (pb : Problem) (hwf : WellFormed pb) : ∃ P, program pb = .ok P :=
  ⟨_, program_closed hwf⟩

theorem encodes_closed (pb : Problem) :
    EncodesRules (closed pb)
      (fun a => ∃ g : Nat → Nat → Int, a = intGrid pb.height pb.width g ∧ LocalCode pb g) := by
  apply C11Grid.encodes_int_grid pb.height pb.width 0 4 (closedCs pb) (LocalCode pb)
  intro σ g hg
  rw [closed_sem (pb := pb) (σ := σ) (g := g) hg]
  unfold LocalCode CluesOK
  exact and_assoc.symm

theorem encodes (pb : Problem) (hwf : WellFormed pb) (P : PuzzleProg) (hP : program pb = .ok P) :
    EncodesRules P (fun a => ∃ g : Nat → Nat → Int, a = intGrid pb.height pb.width g ∧ LocalCode pb g)
      ∧ P.KeysOk ∧ (∀ c ∈ P.cs, wtB c = true) := by
  rw [program_closed hwf] at hP
  cases hP
  exact ⟨encodes_closed pb, C11Grid.keysOk_range _ _ _ (by simp), wt_closed pb⟩

/-- Non-vacuity: a concrete well-formed problem (with a numbered black cell), and its program exists. -/
example : WellFormed { height := 2, width := 2, problem := [[none, some 1], [none, none]] } ∧
    ∃ P, program { height := 2, width := 2, problem := [[none, some 1], [none, none]] } = .ok P :=
  ⟨⟨rfl, by simp⟩, total _ ⟨rfl, by simp⟩⟩

end Cspuz.Proofs.C11ShakashakaP
