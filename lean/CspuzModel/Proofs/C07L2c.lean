/-
  C07, layer L2, completeness: from a partition whose blocks are connected (and meet the demanded
  sizes) build a `GroupCert` whose ids realise the partition.
    root of a block := its least vertex;  gid := index of the root;  rank := distance from the root
    inside the block;  ae := one chosen parent entry per non-root vertex;
    ds := the solution of the size equations (recursion on `n - rank`);  ts := block size.
  That `ds` of a root is the block size is the double-counting lemma of `C07L2`.
-/
import CspuzModel.Proofs.C07L2
namespace Cspuz.Proofs.C07L2c
open Cspuz Cspuz.Spec
open Cspuz.Proofs.C04L2 Cspuz.Proofs.C07L2
open Cspuz.Proofs.C05L2 (joins_unique countInc_le_one_of_eq)

section
variable (g : Graph) (P : VPartition g.n)

/-- Same-block adjacency on all vertices. -/
def HP : SimpleGraph (Fin g.n) where
  Adj u v := u ≠ v ∧ P.same u.1 v.1 ∧ ∃ e, Joins g e u.1 v.1
  symm := ⟨by
    rintro u v ⟨h1, h2, e, he⟩
    exact ⟨h1.symm, P.symm _ _ h2, e, he.symm⟩⟩
  loopless := ⟨fun v h => h.1 rfl⟩

/-- Forgetting the membership proof is a homomorphism from the induced graph on a block into `HP`. -/
def homToHP (v : Nat) : (toSimple g).induce (blockOf g P v) →g HP g P where
  toFun x := x.1
  map_rel' := by
    rintro ⟨a, ha⟩ ⟨b, hb⟩ h
    have h' : (toSimple g).Adj a b := h
    have ha' : P.same v a.1 := ha
    have hb' : P.same v b.1 := hb
    exact ⟨h'.1, P.trans _ _ _ (P.symm _ _ ha') hb', h'.2⟩

/-- "every block is connected" -/
def BlocksConnected : Prop :=
  ∀ v, v < g.n → ((toSimple g).induce (blockOf g P v)).Preconnected

variable {g P}

theorem reach_HP (hconn : BlocksConnected g P) (u v : Fin g.n) (h : P.same u.1 v.1) :
    (HP g P).Reachable u v :=
  (hconn u.1 u.2 ⟨u, P.refl u.1 u.2⟩ ⟨v, h⟩).map (homToHP g P u.1)

variable (g P)

open Classical in
/-- The root of the block of `v`: its least vertex. -/
noncomputable def rootOf (v : Nat) : Nat :=
  if h : ∃ w, w < g.n ∧ P.same v w then Nat.find h else 0

theorem rootOf_spec {v : Nat} (hv : v < g.n) : rootOf g P v < g.n ∧ P.same v (rootOf g P v) := by
  classical
  have h : ∃ w, w < g.n ∧ P.same v w := ⟨v, hv, P.refl v hv⟩
  unfold rootOf
  rw [dif_pos h]
  exact Nat.find_spec h

theorem rootOf_congr {u v : Nat} (h : P.same u v) : rootOf g P u = rootOf g P v := by
  classical
  have hiff : ∀ w, P.same u w ↔ P.same v w := fun w =>
    ⟨fun h' => P.trans _ _ _ (P.symm _ _ h) h', fun h' => P.trans _ _ _ h h'⟩
  unfold rootOf
  by_cases hu : ∃ w, w < g.n ∧ P.same u w
  · have hv : ∃ w, w < g.n ∧ P.same v w := by
      obtain ⟨w, hw, hs⟩ := hu
      exact ⟨w, hw, (hiff w).1 hs⟩
    rw [dif_pos hu, dif_pos hv]
    apply le_antisymm
    · apply Nat.find_min'
      have := Nat.find_spec hv
      exact ⟨this.1, (hiff _).2 this.2⟩
    · apply Nat.find_min'
      have := Nat.find_spec hu
      exact ⟨this.1, (hiff _).1 this.2⟩
  · have hv : ¬ ∃ w, w < g.n ∧ P.same v w := by
      rintro ⟨w, hw, hs⟩
      exact hu ⟨w, hw, (hiff w).2 hs⟩
    rw [dif_neg hu, dif_neg hv]

theorem rootOf_idem {v : Nat} (hv : v < g.n) : rootOf g P (rootOf g P v) = rootOf g P v :=
  (rootOf_congr g P (rootOf_spec g P hv).2).symm

noncomputable def cgid (v : Nat) : Int := (rootOf g P v : Int)

theorem realises : Realises g.n P (cgid g P) := by
  intro u v hu hv
  unfold cgid
  constructor
  · intro h
    have h' : rootOf g P u = rootOf g P v := by exact_mod_cast h
    have h1 := (rootOf_spec g P hu).2
    have h2 := (rootOf_spec g P hv).2
    rw [h'] at h1
    exact P.trans _ _ _ h1 (P.symm _ _ h2)
  · intro h
    rw [rootOf_congr g P h]

/-- Distance inside the block from the root of the block. -/
noncomputable def depth (v : Nat) : Nat :=
  if h : v < g.n ∧ rootOf g P v < g.n then
    (HP g P).dist ⟨rootOf g P v, h.2⟩ ⟨v, h.1⟩ else 0

theorem depth_eq {v r : Nat} (hv : v < g.n) (hr : r < g.n) (h : rootOf g P v = r) :
    depth g P v = (HP g P).dist ⟨r, hr⟩ ⟨v, hv⟩ := by
  subst h
  unfold depth
  rw [dif_pos ⟨hv, hr⟩]

theorem depth_lt {v : Nat} (hv : v < g.n) : depth g P v < g.n := by
  have hr := (rootOf_spec g P hv).1
  rw [depth_eq g P hv hr rfl]
  by_cases hre : (HP g P).Reachable ⟨rootOf g P v, hr⟩ ⟨v, hv⟩
  · obtain ⟨p, hp, hl⟩ := hre.exists_path_of_dist
    have := hp.length_lt
    rw [Fintype.card_fin] at this
    omega
  · rw [SimpleGraph.dist_eq_zero_iff_eq_or_not_reachable.2 (Or.inr hre)]
    omega

theorem depth_le (v : Nat) : depth g P v ≤ g.n := by
  by_cases hv : v < g.n
  · exact Nat.le_of_lt (depth_lt g P hv)
  · unfold depth
    rw [dif_neg (fun h => hv h.1)]
    omega

noncomputable def crank (v : Nat) : Int := (depth g P v : Int)

theorem crank_lt (a b : Nat) : crank g P a < crank g P b ↔ depth g P a < depth g P b := by
  unfold crank; exact Int.ofNat_lt

noncomputable def croot (v : Nat) : Bool := decide (rootOf g P v = v)

open Classical in
/-- admissible parent entries of `v` -/
noncomputable def cand (v : Nat) (je : Nat × Nat) : Bool :=
  decide (P.same v je.1) && decide (depth g P je.1 < depth g P v)

/-- the chosen parent entry of `v` -/
noncomputable def par (v : Nat) : Option (Nat × Nat) := (g.incident v).find? (cand g P v)

open Classical in
/-- active edges: the chosen parent entries of the non-roots -/
noncomputable def cae (e : Nat) : Bool :=
  decide (∃ w, w < g.n ∧ croot g P w = false ∧ ∃ j, par g P w = some (j, e))

theorem par_spec {v j e : Nat} (h : par g P v = some (j, e)) :
    Joins g e v j ∧ P.same v j ∧ depth g P j < depth g P v := by
  classical
  unfold par at h
  have h1 := List.find?_some h
  have h2 := List.mem_of_find?_eq_some h
  simp only [cand, Bool.and_eq_true, decide_eq_true_eq] at h1
  exact ⟨mem_incident.1 h2, h1.1, h1.2⟩

variable {g P}

theorem croot_iff (hconn : BlocksConnected g P) {v : Nat} (hv : v < g.n) :
    croot g P v = true ↔ crank g P v = 0 := by
  have hr := rootOf_spec g P hv
  have hre : (HP g P).Reachable ⟨rootOf g P v, hr.1⟩ ⟨v, hv⟩ :=
    reach_HP hconn _ _ (P.symm _ _ hr.2)
  unfold croot crank
  rw [depth_eq g P hv hr.1 rfl, decide_eq_true_eq]
  constructor
  · intro h
    have : (HP g P).dist ⟨rootOf g P v, hr.1⟩ ⟨v, hv⟩ = 0 := by
      rw [hre.dist_eq_zero_iff]; exact Fin.ext h
    omega
  · intro h
    have h0 : (HP g P).dist ⟨rootOf g P v, hr.1⟩ ⟨v, hv⟩ = 0 := by omega
    exact congrArg Fin.val (hre.dist_eq_zero_iff.1 h0)

theorem par_exists (hconn : BlocksConnected g P) {v : Nat} (hv : v < g.n)
    (hr : croot g P v = false) : ∃ j e, par g P v = some (j, e) := by
  classical
  obtain ⟨hrn, hrl⟩ := rootOf_spec g P hv
  have hne : (⟨v, hv⟩ : Fin g.n) ≠ ⟨rootOf g P v, hrn⟩ := by
    intro h
    have h' : v = rootOf g P v := congrArg Fin.val h
    simp only [croot, decide_eq_false_iff_not] at hr
    exact hr h'.symm
  obtain ⟨w, hadj, hlt⟩ := exists_closer
    (reach_HP hconn ⟨rootOf g P v, hrn⟩ ⟨v, hv⟩ (P.symm _ _ hrl)) hne
  obtain ⟨_, hl, e, he⟩ := hadj
  have hl' : P.same v w.1 := hl
  have he' : Joins g e v w.1 := he
  have hd : depth g P w.1 < depth g P v := by
    rw [depth_eq g P w.2 hrn (by rw [← rootOf_congr g P hl']), depth_eq g P hv hrn rfl]
    exact hlt
  have hc : cand g P v (w.1, e) = true := by
    unfold cand
    rw [Bool.and_eq_true, decide_eq_true_eq, decide_eq_true_eq]
    exact ⟨hl', hd⟩
  have hs : (par g P v).isSome = true := by
    unfold par
    rw [List.find?_isSome]
    exact ⟨(w.1, e), mem_incident.2 he', hc⟩
  obtain ⟨⟨j, e'⟩, h⟩ := Option.isSome_iff_exists.1 hs
  exact ⟨j, e', h⟩

variable (g P)

theorem cae_of_par {w j e : Nat} (hw : w < g.n) (hr : croot g P w = false)
    (hp : par g P w = some (j, e)) : cae g P e = true := by
  classical
  unfold cae
  rw [decide_eq_true_eq]
  exact ⟨w, hw, hr, j, hp⟩

theorem cae_spec {e : Nat} (h : cae g P e = true) :
    ∃ w, w < g.n ∧ croot g P w = false ∧ ∃ j, par g P w = some (j, e) := by
  classical
  unfold cae at h
  rwa [decide_eq_true_eq] at h

/-- A lower active entry of `v` is the chosen parent entry of `v`, and `v` is not a root. -/
theorem cae_lower {v j e : Nat} (hJ : Joins g e v j) (hae : cae g P e = true)
    (hlt : depth g P j < depth g P v) :
    croot g P v = false ∧ par g P v = some (j, e) := by
  obtain ⟨w, hw, hrw, j', hp⟩ := cae_spec g P hae
  obtain ⟨hJ', _, hlt'⟩ := par_spec g P hp
  rcases joins_unique hJ hJ' with ⟨rfl, rfl⟩ | ⟨rfl, rfl⟩
  · exact ⟨hrw, hp⟩
  · omega

theorem cae_same {e u v : Nat} (hJ : Joins g e u v) (hae : cae g P e = true) : P.same u v := by
  obtain ⟨w, hw, hrw, j', hp⟩ := cae_spec g P hae
  obtain ⟨hJ', hs, _⟩ := par_spec g P hp
  rcases joins_unique hJ hJ' with ⟨rfl, rfl⟩ | ⟨rfl, rfl⟩
  · exact hs
  · exact P.symm _ _ hs

theorem cae_rank_ne {e u v : Nat} (hJ : Joins g e u v) (hae : cae g P e = true) :
    depth g P v ≠ depth g P u := by
  obtain ⟨w, hw, hrw, j', hp⟩ := cae_spec g P hae
  obtain ⟨hJ', _, hlt⟩ := par_spec g P hp
  rcases joins_unique hJ hJ' with ⟨rfl, rfl⟩ | ⟨rfl, rfl⟩ <;> omega

theorem loc_root {v : Nat} (hr : croot g P v = true) :
    countInc g v (fun je => cae g P je.2 && decide (crank g P je.1 < crank g P v)) = 0 := by
  by_contra hne
  obtain ⟨j, e, hJ, hp⟩ := countInc_pos_iff.1 (Nat.one_le_iff_ne_zero.2 hne)
  simp only [Bool.and_eq_true, decide_eq_true_eq, crank_lt] at hp
  have := (cae_lower g P hJ hp.1 hp.2).1
  rw [hr] at this
  cases this

variable {g P}

theorem loc_nonroot (hconn : BlocksConnected g P) {v : Nat} (hv : v < g.n)
    (hr : croot g P v = false) :
    countInc g v (fun je => cae g P je.2 && decide (crank g P je.1 < crank g P v)) = 1 := by
  apply le_antisymm
  · apply countInc_le_one_of_eq
    · intro x _ hp
      simp only [Bool.and_eq_true, decide_eq_true_eq] at hp
      intro h
      rw [h] at hp
      omega
    · intro x hx hpx y hy hpy
      simp only [Bool.and_eq_true, decide_eq_true_eq, crank_lt] at hpx hpy
      have h1 := (cae_lower g P (mem_incident.1 (show (x.1, x.2) ∈ g.incident v from hx))
        hpx.1 hpx.2).2
      have h2 := (cae_lower g P (mem_incident.1 (show (y.1, y.2) ∈ g.incident v from hy))
        hpy.1 hpy.2).2
      rw [h1] at h2
      exact Option.some.inj h2
  · obtain ⟨j, e, hp⟩ := par_exists hconn hv hr
    obtain ⟨hJ, _, hlt⟩ := par_spec g P hp
    apply countInc_pos_iff.2
    refine ⟨j, e, hJ, ?_⟩
    simp only [Bool.and_eq_true, decide_eq_true_eq, crank_lt]
    exact ⟨cae_of_par g P hv hr hp, hlt⟩

/-- The size-free certificate. -/
noncomputable def baseCert (hconn : BlocksConnected g P) (size : Nat → Option Int) :
    GroupCert g size false false where
  gid := cgid g P
  rank := crank g P
  root := croot g P
  ae := cae g P
  ds := fun _ => 0
  ts := fun _ => 0
  gid_rng := by
    intro i hi
    have := (rootOf_spec g P hi).1
    unfold cgid; omega
  rank_rng := by
    intro i hi
    have := depth_lt g P hi
    unfold crank; omega
  root_iff := fun i hi => croot_iff hconn hi
  root_gid := by
    intro i _ h
    simp only [croot, decide_eq_true_eq] at h
    unfold cgid; rw [h]
  ae_rank := by
    intro i _ je hje hae
    have hJ : Joins g je.2 i je.1 := mem_incident.1 (show (je.1, je.2) ∈ g.incident i from hje)
    have := cae_rank_ne g P hJ hae
    unfold crank
    exact_mod_cast this
  loc := by
    intro i hi
    cases hr : croot g P i
    · simpa using loc_nonroot hconn hi hr
    · simpa using loc_root g P hr
  ae_gid := by
    intro k u v hk hae
    have hJ : Joins g k u v := Or.inl hk
    unfold cgid
    rw [rootOf_congr g P (cae_same g P hJ hae)]
  sz_rng := by intro h; cases h
  sz_le := by intro h; cases h
  sz_root := by intro h; cases h
  sz_sum := by intro h; cases h
  sz_spec := by intro h; cases h
  sz_edge := by intro h; cases h

end

/-! ### the sizes -/
section Sizes
variable (g : Graph) (P : VPartition g.n)

/-- The solution of the size equations, by recursion on `n - depth`. -/
noncomputable def dsz (v : Nat) : Int :=
  ((g.incident v).map fun je =>
    if _h : cae g P je.2 = true ∧ depth g P v < depth g P je.1 then dsz je.1 else 0).sum + 1
termination_by g.n - depth g P v
decreasing_by
  have := depth_le g P je.1
  omega

theorem dsz_eq (v : Nat) :
    ((g.incident v).map fun je =>
      if cae g P je.2 && decide (crank g P je.1 > crank g P v) then dsz g P je.1 else 0).sum + 1 =
      dsz g P v := by
  conv_rhs => rw [dsz]
  congr 2
  apply List.map_congr_left
  intro je _
  by_cases h : cae g P je.2 = true ∧ depth g P v < depth g P je.1
  · rw [dif_pos h, if_pos]
    simp only [Bool.and_eq_true, decide_eq_true_eq, gt_iff_lt, crank_lt]
    exact h
  · rw [dif_neg h, if_neg]
    simp only [Bool.and_eq_true, decide_eq_true_eq, gt_iff_lt, crank_lt]
    exact h

theorem dsz_sumEq : SumEq g (cae g P) (crank g P) (dsz g P) := fun i _ => dsz_eq g P i

theorem dsz_pos : ∀ (m v : Nat), g.n - depth g P v ≤ m → 1 ≤ dsz g P v := by
  intro m
  induction m with
  | zero =>
    intro v hm
    rw [← dsz_eq]
    have : 0 ≤ ((g.incident v).map fun je =>
      if cae g P je.2 && decide (crank g P je.1 > crank g P v) then dsz g P je.1 else 0).sum := by
      apply List.sum_nonneg
      intro x hx
      obtain ⟨je, _, rfl⟩ := List.mem_map.1 hx
      split
      · rename_i h
        simp only [Bool.and_eq_true, decide_eq_true_eq, gt_iff_lt, crank_lt] at h
        have := depth_le g P je.1
        omega
      · exact le_refl _
    omega
  | succ m ih =>
    intro v hm
    rw [← dsz_eq]
    have : 0 ≤ ((g.incident v).map fun je =>
      if cae g P je.2 && decide (crank g P je.1 > crank g P v) then dsz g P je.1 else 0).sum := by
      apply List.sum_nonneg
      intro x hx
      obtain ⟨je, _, rfl⟩ := List.mem_map.1 hx
      split
      · rename_i h
        simp only [Bool.and_eq_true, decide_eq_true_eq, gt_iff_lt, crank_lt] at h
        have := depth_le g P je.1
        have := ih je.1 (by omega)
        omega
      · exact le_refl _
    omega

theorem dsz_pos' (v : Nat) : 1 ≤ dsz g P v := dsz_pos g P _ v le_rfl

/-- A child's value is at most its parent's. -/
theorem dsz_le_par {v j e : Nat} (hv : v < g.n) (hr : croot g P v = false)
    (hp : par g P v = some (j, e)) : dsz g P v ≤ dsz g P j := by
  obtain ⟨hJ, _, hlt⟩ := par_spec g P hp
  have hae := cae_of_par g P hv hr hp
  rw [← dsz_eq g P j]
  have hmem : dsz g P v ∈ (g.incident j).map fun je =>
      if cae g P je.2 && decide (crank g P je.1 > crank g P j) then dsz g P je.1 else 0 := by
    refine List.mem_map.2 ⟨(v, e), mem_incident.2 hJ.symm, ?_⟩
    rw [if_pos]
    simp only [Bool.and_eq_true, decide_eq_true_eq, gt_iff_lt, crank_lt]
    exact ⟨hae, hlt⟩
  have := List.single_le_sum (l := (g.incident j).map fun je =>
      if cae g P je.2 && decide (crank g P je.1 > crank g P j) then dsz g P je.1 else 0) (by
    intro x hx
    obtain ⟨je, _, rfl⟩ := List.mem_map.1 hx
    split
    · have := dsz_pos' g P je.1; omega
    · exact le_refl _) _ hmem
  omega

variable {g P}

theorem dsz_le_root (hwf : g.wf = true) (hconn : BlocksConnected g P) :
    ∀ (m v : Nat), v < g.n → depth g P v ≤ m → dsz g P v ≤ dsz g P (rootOf g P v) := by
  intro m
  induction m with
  | zero =>
    intro v hv hm
    have : croot g P v = true := (croot_iff hconn hv).2 (by unfold crank; omega)
    simp only [croot, decide_eq_true_eq] at this
    rw [this]
  | succ m ih =>
    intro v hv hm
    cases hr : croot g P v
    · obtain ⟨j, e, hp⟩ := par_exists hconn hv hr
      obtain ⟨hJ, hs, hlt⟩ := par_spec g P hp
      have hj := (joins_lt hwf hJ).2
      have h1 := dsz_le_par g P hv hr hp
      have h2 := ih j hj (by omega)
      rw [← rootOf_congr g P hs] at h2
      omega
    · simp only [croot, decide_eq_true_eq] at hr
      rw [hr]

theorem blockOf_congr {u v : Nat} (h : P.same u v) : blockOf g P u = blockOf g P v := by
  ext w
  exact ⟨fun h' => P.trans _ _ _ (P.symm _ _ h) h', fun h' => P.trans _ _ _ h h'⟩

theorem blockSize_congr {u v : Nat} (h : P.same u v) : blockSize g P u = blockSize g P v := by
  unfold blockSize; rw [blockOf_congr h]

open Classical in
theorem blockSize_eq {v : Nat} (hv : v < g.n) :
    blockSize g P v = ((Finset.range g.n).filter fun w => cgid g P w = cgid g P v).card := by
  have hset : blockOf g P v = {w : Fin g.n | cgid g P w.1 = cgid g P v} := by
    ext w
    show P.same v w.1 ↔ cgid g P w.1 = cgid g P v
    rw [← realises g P v w.1 hv w.2]
    exact eq_comm
  unfold blockSize
  rw [hset, ncard_fin g.n (fun w => cgid g P w = cgid g P v)]

theorem blockSize_rng {v : Nat} (hv : v < g.n) : 1 ≤ blockSize g P v ∧ blockSize g P v ≤ g.n := by
  classical
  rw [blockSize_eq hv]
  constructor
  · apply Finset.card_pos.2
    exact ⟨v, by simp [hv]⟩
  · have := Finset.card_filter_le (Finset.range g.n) (fun w => cgid g P w = cgid g P v)
    simpa using this

theorem dsz_root (hwf : g.wf = true) (hconn : BlocksConnected g P) {r : Nat} (hr : r < g.n)
    (hroot : croot g P r = true) : dsz g P r = (blockSize g P r : Int) := by
  classical
  rw [blockSize_eq hr]
  exact root_ds_eq_card hwf (baseCert hconn (fun _ => none)) (dsz g P) (dsz_sumEq g P) r hr hroot

theorem croot_rootOf {v : Nat} (hv : v < g.n) : croot g P (rootOf g P v) = true := by
  simp only [croot, decide_eq_true_eq]
  exact rootOf_idem g P hv

theorem dsz_le_block (hwf : g.wf = true) (hconn : BlocksConnected g P) {v : Nat} (hv : v < g.n) :
    dsz g P v ≤ (blockSize g P v : Int) := by
  have h1 := dsz_le_root hwf hconn _ v hv le_rfl
  have hr := rootOf_spec g P hv
  rw [dsz_root hwf hconn hr.1 (croot_rootOf hv), ← blockSize_congr hr.2] at h1
  exact h1

/-- Completeness: a valid partition is realised by the ids of some certificate. -/
theorem ok_cert (hwf : g.wf = true) (size : Nat → Option Int) (ws pe : Bool)
    (hok : PartitionOK g P size) : ∃ C : GroupCert g size ws pe, Realises g.n P C.gid := by
  obtain ⟨hconn, hsize⟩ := hok
  have hconn : BlocksConnected g P := hconn
  let B := baseCert hconn size
  refine ⟨{ gid := cgid g P, rank := crank g P, root := croot g P, ae := cae g P,
            ds := dsz g P, ts := fun v => (blockSize g P v : Int),
            gid_rng := B.gid_rng, rank_rng := B.rank_rng, root_iff := B.root_iff,
            root_gid := B.root_gid, ae_rank := B.ae_rank, loc := B.loc, ae_gid := B.ae_gid,
            sz_rng := ?_, sz_le := ?_, sz_root := ?_, sz_sum := ?_, sz_spec := ?_, sz_edge := ?_ },
          realises g P⟩
  · intro _ i hi
    have h1 := dsz_pos' g P i
    have h2 := dsz_le_block hwf hconn hi
    have h3 := blockSize_rng (P := P) hi
    refine ⟨h1, ?_, ?_, ?_⟩ <;> omega
  · intro _ i hi
    exact dsz_le_block hwf hconn hi
  · intro _ i hi hr
    exact dsz_root hwf hconn hi hr
  · intro _ i _
    exact dsz_eq g P i
  · intro _ i s hi hs
    exact hsize i s hi hs
  · intro _ _ k u v hk hae
    have hJ : Joins g k u v := Or.inl hk
    show (blockSize g P u : Int) = (blockSize g P v : Int)
    rw [blockSize_congr (cae_same g P hJ hae)]

end Sizes

end Cspuz.Proofs.C07L2c
