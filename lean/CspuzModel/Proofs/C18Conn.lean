/-
  C18 — basic facts about `Reach` / `ConnectedOn` / `OrthConnected` (Spec/Partition.lean).
-/
import CspuzModel.Spec.Partition
namespace Cspuz.Seg.Proofs
open Cspuz.Seg Cspuz.Seg.Spec

theorem _root_.Cspuz.Seg.Spec.Adj4.symm {a b : Cell} (h : Adj4 a b) : Adj4 b a := by
  unfold Adj4 at *
  omega

theorem adj4_of_mem_nbrs4 {c n : Cell} (h : n ∈ nbrs4 c) : Adj4 c n := by
  obtain ⟨y, x⟩ := c
  simp only [nbrs4, List.mem_cons, List.not_mem_nil, or_false] at h
  unfold Adj4
  rcases h with h | h | h | h <;> subst h <;> simp <;> omega

theorem mem_nbrs4_of_adj4 {c n : Cell} (h : Adj4 c n) : n ∈ nbrs4 c := by
  obtain ⟨y, x⟩ := c
  obtain ⟨y', x'⟩ := n
  simp only [nbrs4, List.mem_cons, List.not_mem_nil, or_false, Prod.mk.injEq]
  unfold Adj4 at h
  simp only at h
  omega

theorem _root_.Cspuz.Seg.Spec.Reach.left_mem {S : Cell → Prop} {a b : Cell} (h : Reach S a b) : S a := by
  induction h with
  | refl h => exact h
  | step _ _ _ ih => exact ih

theorem _root_.Cspuz.Seg.Spec.Reach.right_mem {S : Cell → Prop} {a b : Cell} (h : Reach S a b) : S b := by
  cases h with
  | refl h => exact h
  | step _ h _ => exact h

theorem _root_.Cspuz.Seg.Spec.Reach.mono {S T : Cell → Prop} (hST : ∀ c, S c → T c) {a b : Cell} (h : Reach S a b) :
    Reach T a b := by
  induction h with
  | refl h => exact .refl (hST _ h)
  | step _ hc hadj ih => exact .step ih (hST _ hc) hadj

theorem _root_.Cspuz.Seg.Spec.Reach.trans {S : Cell → Prop} {a b c : Cell} (h1 : Reach S a b) (h2 : Reach S b c) :
    Reach S a c := by
  induction h2 with
  | refl _ => exact h1
  | step _ hc hadj ih => exact .step ih hc hadj

theorem _root_.Cspuz.Seg.Spec.Reach.head {S : Cell → Prop} {a b c : Cell} (ha : S a) (hadj : Adj4 a b) (h : Reach S b c) :
    Reach S a c := by
  induction h with
  | refl hb => exact .step (.refl ha) hb hadj
  | step _ hc hadj' ih => exact .step ih hc hadj'

theorem _root_.Cspuz.Seg.Spec.Reach.symm {S : Cell → Prop} {a b : Cell} (h : Reach S a b) : Reach S b a := by
  induction h with
  | refl h => exact .refl h
  | step h1 hc hadj ih => exact Reach.head hc (Adj4.symm hadj) ih

/-- A set all of whose members are reachable from one hub is connected. -/
theorem connectedOn_of_hub {S : Cell → Prop} (s : Cell) (h : ∀ c, S c → Reach S s c) : ConnectedOn S :=
  fun a b ha hb => (h a ha).symm.trans (h b hb)

theorem connectedOn_congr {S T : Cell → Prop} (hST : ∀ c, S c ↔ T c) (h : ConnectedOn S) : ConnectedOn T :=
  fun a b ha hb => (h a b ((hST a).2 ha) ((hST b).2 hb)).mono (fun c => (hST c).1)

/-- Two connected sets joined by an edge. -/
theorem connectedOn_union {S T : Cell → Prop} (hS : ConnectedOn S) (hT : ConnectedOn T) {a b : Cell}
    (ha : S a) (hb : T b) (hadj : Adj4 a b) : ConnectedOn (fun c => S c ∨ T c) := by
  apply connectedOn_of_hub a
  intro c hc
  rcases hc with hc | hc
  · exact (hS a c ha hc).mono (fun _ h => Or.inl h)
  · have h1 : Reach (fun c => S c ∨ T c) a b := .step (.refl (Or.inl ha)) (Or.inr hb) hadj
    exact h1.trans ((hT b c hb hc).mono (fun _ h => Or.inr h))

theorem orthConnected_congr {A B : Block} (h : ∀ c, c ∈ A ↔ c ∈ B) (hA : OrthConnected A) : OrthConnected B :=
  connectedOn_congr h hA

/-- Merge: two connected blocks touching along an edge. -/
theorem orthConnected_append {A B : Block} (hA : OrthConnected A) (hB : OrthConnected B) {a b : Cell}
    (ha : a ∈ A) (hb : b ∈ B) (hadj : Adj4 a b) : OrthConnected (A ++ B) := by
  have := connectedOn_union hA hB ha hb hadj
  exact connectedOn_congr (fun c => by simp [List.mem_append]) this

theorem orthConnected_singleton (c : Cell) : OrthConnected [c] := by
  intro a b ha hb
  simp only [List.mem_singleton] at ha hb
  subst ha; subst hb
  exact .refl (by simp)

/-- Move: a connected block plus one cell adjacent to it. -/
theorem orthConnected_snoc {B : Block} (hB : OrthConnected B) {b c : Cell} (hb : b ∈ B) (hadj : Adj4 b c) :
    OrthConnected (B ++ [c]) :=
  orthConnected_append hB (orthConnected_singleton c) hb (by simp) hadj

/-! ### The whole board is connected -/

theorem mem_rowCells {y w : Nat} {c : Cell} : c ∈ rowCells y w ↔ c.1 = y ∧ 0 ≤ c.2 ∧ c.2 < w := by
  obtain ⟨cy, cx⟩ := c
  simp only [rowCells, List.mem_map, List.mem_range, Prod.mk.injEq]
  constructor
  · rintro ⟨x, hx, rfl, rfl⟩
    omega
  · rintro ⟨rfl, h0, h1⟩
    exact ⟨cx.toNat, by omega, rfl, by omega⟩

theorem mem_allCells {h w : Nat} {c : Cell} : c ∈ allCells h w ↔ InBoard h w c := by
  obtain ⟨cy, cx⟩ := c
  simp only [allCells, List.mem_flatMap, List.mem_range, mem_rowCells, InBoard]
  constructor
  · rintro ⟨y, hy, rfl, h0, h1⟩
    omega
  · rintro ⟨h0, h1, h2, h3⟩
    exact ⟨cy.toNat, by omega, by omega, h2, h3⟩

theorem reach_board_origin {h w : Nat} :
    ∀ (n : Nat) (c : Cell), InBoard h w c → (c.1 + c.2).toNat = n → Reach (InBoard h w) (0, 0) c := by
  intro n
  induction n with
  | zero =>
    intro c hc hn
    obtain ⟨cy, cx⟩ := c
    unfold InBoard at hc
    simp only at hc hn
    have h1 : cy = 0 := by omega
    have h2 : cx = 0 := by omega
    subst h1; subst h2
    exact .refl (by unfold InBoard; simp; omega)
  | succ n ih =>
    intro c hc hn
    obtain ⟨cy, cx⟩ := c
    have hc' := hc
    unfold InBoard at hc
    simp only at hc hn
    by_cases hy : 0 < cy
    · have hp : InBoard h w (cy - 1, cx) := by unfold InBoard; simp only; omega
      exact .step (ih (cy - 1, cx) hp (by simp only; omega)) hc' (by unfold Adj4; simp)
    · have hp : InBoard h w (cy, cx - 1) := by unfold InBoard; simp only; omega
      exact .step (ih (cy, cx - 1) hp (by simp only; omega)) hc' (by unfold Adj4; simp)

theorem orthConnected_allCells (h w : Nat) : OrthConnected (allCells h w) := by
  apply connectedOn_congr (S := InBoard h w) (fun c => mem_allCells.symm)
  apply connectedOn_of_hub (0, 0)
  intro c hc
  exact reach_board_origin _ c hc rfl

end Cspuz.Seg.Proofs
