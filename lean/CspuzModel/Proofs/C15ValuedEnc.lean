/-
  C15 for `ValuedRooms`, encoder half: `ValuedRooms.serialize` sorts the (room, value) pairs by the least cell of the
  room (stable insertion sort) and then runs `Rooms` on the sorted rooms and `Seq(value)` on the sorted values.
-/
import CspuzModel.Proofs.C15Rooms
namespace Cspuz.Ser
open Cspuz

/-- lexicographic (= row-major) order on cells -/
def lexLt (a b : Nat × Nat) : Prop := a.1 < b.1 ∨ (a.1 = b.1 ∧ a.2 < b.2)

instance : DecidableRel lexLt := fun a b => by unfold lexLt; infer_instance

/-- least cell of `m :: r` -/
def minNat : List (Nat × Nat) → Nat × Nat → Nat × Nat
  | [], m => m
  | c :: r, m => minNat r (if lexLt c m then c else m)

/-- least cell of a room (`(0, 0)` for the empty room) -/
def roomMin : List (Nat × Nat) → Nat × Nat
  | [] => (0, 0)
  | c :: r => minNat r c

/-- stable insertion by the least cell of the room, on (room, value) pairs -/
def insertZ (e : List (Nat × Nat) × PyVal) : List (List (Nat × Nat) × PyVal) → List (List (Nat × Nat) × PyVal)
  | [] => [e]
  | x :: r => if lexLt (roomMin e.1) (roomMin x.1) then e :: x :: r else x :: insertZ e r

def sortZ (l : List (List (Nat × Nat) × PyVal)) : List (List (Nat × Nat) × PyVal) :=
  l.foldl (fun acc e => insertZ e acc) []

end Cspuz.Ser
