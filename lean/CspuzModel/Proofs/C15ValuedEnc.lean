/-
  C15 for `ValuedRooms`, encoder half: `ValuedRooms.serialize` sorts the (room, value) pairs by the least cell of the
  room (stable insertion sort) and then runs `Rooms` on the sorted rooms and `Seq(value)` on the sorted values.
-/
import CspuzModel.Proofs.C15Rooms
namespace Cspuz.Ser
open Cspuz

/-- lexicographic (= row-major) order on cells -/
def lexLt (a b : Nat × Nat) : Prop := a.1 < b.1 ∨ (a.1 = b.1 ∧ a.2 < b.2)

instance : DecidableRel lexLt := fun a b => by unfold lexLt; infer_instance

/-- least cell of `m :: r` -/
def minNat : List (Nat × Nat) → Nat × Nat → Nat × Nat
  | [], m => m
  | c :: r, m => minNat r (if lexLt c m then c else m)

/-- least cell of a room (`(0, 0)` for the empty room) -/
def roomMin : List (Nat × Nat) → Nat × Nat
  | [] => (0, 0)
  | c :: r => minNat r c

/-- stable insertion by the least cell of the room, on (room, value) pairs -/
def insertZ (e : List (Nat × Nat) × PyVal) : List (List (Nat × Nat) × PyVal) → List (List (Nat × Nat) × PyVal)
  | [] => [e]
  | x :: r => if lexLt (roomMin e.1) (roomMin x.1) then e :: x :: r else x :: insertZ e r

def sortZ (l : List (List (Nat × Nat) × PyVal)) : List (List (Nat × Nat) × PyVal) :=
  l.foldl (fun acc e => insertZ e acc) []

/-! ### order facts -/

theorem lexLt_irrefl (a : Nat × Nat) : ¬ lexLt a a := by
  unfold lexLt; omega

theorem lexLt_trans {a b c : Nat × Nat} : lexLt a b → lexLt b c → lexLt a c := by
  unfold lexLt; omega

theorem lexLt_total (a b : Nat × Nat) : lexLt a b ∨ a = b ∨ lexLt b a := by
  obtain ⟨a1, a2⟩ := a
  obtain ⟨b1, b2⟩ := b
  unfold lexLt
  simp only [Prod.mk.injEq]
  omega

theorem minNat_mem (r : List (Nat × Nat)) (m : Nat × Nat) : minNat r m ∈ m :: r := by
  induction r generalizing m with
  | nil => simp [minNat]
  | cons c r ih =>
    simp only [minNat]
    split
    · rcases List.mem_cons.1 (ih c) with h | h
      · rw [h]; simp
      · exact List.mem_cons_of_mem _ (List.mem_cons_of_mem _ h)
    · rcases List.mem_cons.1 (ih m) with h | h
      · rw [h]; simp
      · exact List.mem_cons_of_mem _ (List.mem_cons_of_mem _ h)

theorem minNat_le_init (r : List (Nat × Nat)) (m : Nat × Nat) : ¬ lexLt m (minNat r m) := by
  induction r generalizing m with
  | nil => exact lexLt_irrefl m
  | cons c r ih =>
    simp only [minNat]
    split
    · rename_i h
      intro h2
      exact ih c (lexLt_trans h h2)
    · exact ih m

theorem minNat_le (r : List (Nat × Nat)) (m c : Nat × Nat) (hc : c ∈ m :: r) : ¬ lexLt c (minNat r m) := by
  induction r generalizing m with
  | nil =>
    simp only [List.mem_singleton] at hc
    subst hc; exact lexLt_irrefl c
  | cons d r ih =>
    simp only [minNat]
    rcases List.mem_cons.1 hc with rfl | hc
    · split
      · rename_i h
        intro h2
        exact minNat_le_init r d (lexLt_trans h h2)
      · exact minNat_le_init r c
    · rcases List.mem_cons.1 hc with rfl | hc
      · split
        · exact minNat_le_init r c
        · rename_i h
          intro h2
          have h3 := minNat_le_init r m
          rcases lexLt_total c m with h4 | h4 | h4
          · exact h h4
          · subst h4; exact h3 h2
          · exact h3 (lexLt_trans h4 h2)
      · exact ih _ (List.mem_cons_of_mem _ hc)

theorem roomMin_mem {r : List (Nat × Nat)} (hr : r ≠ []) : roomMin r ∈ r := by
  cases r with
  | nil => exact absurd rfl hr
  | cons c r => exact minNat_mem r c

theorem roomMin_le {r : List (Nat × Nat)} {c : Nat × Nat} (hc : c ∈ r) : ¬ lexLt c (roomMin r) := by
  cases r with
  | nil => simp at hc
  | cons d r => exact minNat_le r d c hc

/-! sorting -/
theorem insertZ_perm (e : List (Nat × Nat) × PyVal) (l : List (List (Nat × Nat) × PyVal)) :
    (insertZ e l).Perm (e :: l) := by
  induction l with
  | nil => simp [insertZ]
  | cons x r ih =>
    simp only [insertZ]
    split
    · exact List.Perm.refl _
    · exact (List.Perm.cons x ih).trans (List.Perm.swap e x r)

theorem foldl_insertZ_perm (l acc : List (List (Nat × Nat) × PyVal)) :
    (l.foldl (fun acc e => insertZ e acc) acc).Perm (acc ++ l) := by
  induction l generalizing acc with
  | nil => simp
  | cons e l ih =>
    simp only [List.foldl_cons]
    refine (ih _).trans ?_
    refine ((insertZ_perm e acc).append_right l).trans ?_
    simp only [List.cons_append]
    exact List.perm_middle.symm

theorem sortZ_perm (l : List (List (Nat × Nat) × PyVal)) : (sortZ l).Perm l := by
  have := foldl_insertZ_perm l []
  simpa [sortZ] using this

theorem insertZ_sorted (e : List (Nat × Nat) × PyVal) (l : List (List (Nat × Nat) × PyVal))
    (h : l.Pairwise fun a b => ¬ lexLt (roomMin b.1) (roomMin a.1)) :
    (insertZ e l).Pairwise fun a b => ¬ lexLt (roomMin b.1) (roomMin a.1) := by
  induction l with
  | nil => simp [insertZ]
  | cons x r ih =>
    simp only [insertZ]
    rw [List.pairwise_cons] at h
    split
    · rename_i hlt
      rw [List.pairwise_cons]
      refine ⟨?_, List.pairwise_cons.2 h⟩
      intro b hb
      rcases List.mem_cons.1 hb with rfl | hb
      · intro h2; exact lexLt_irrefl _ (lexLt_trans hlt h2)
      · intro h2; exact h.1 b hb (lexLt_trans h2 hlt)
    · rename_i hlt
      rw [List.pairwise_cons]
      refine ⟨?_, ih h.2⟩
      intro b hb
      have hb' := (insertZ_perm e r).mem_iff.1 hb
      rcases List.mem_cons.1 hb' with rfl | hb'
      · exact hlt
      · exact h.1 b hb'

theorem foldl_insertZ_sorted (l acc : List (List (Nat × Nat) × PyVal))
    (h : acc.Pairwise fun a b => ¬ lexLt (roomMin b.1) (roomMin a.1)) :
    (l.foldl (fun acc e => insertZ e acc) acc).Pairwise fun a b => ¬ lexLt (roomMin b.1) (roomMin a.1) := by
  induction l generalizing acc with
  | nil => simpa
  | cons e l ih => exact ih _ (insertZ_sorted e acc h)

theorem sortZ_sorted (l : List (List (Nat × Nat) × PyVal)) :
    (sortZ l).Pairwise fun a b => ¬ lexLt (roomMin b.1) (roomMin a.1) :=
  foldl_insertZ_sorted l [] List.Pairwise.nil

/-! encoder -/
def roomPy (r : List (Nat × Nat)) : PyVal := .list (r.map cellVal)

theorem roomsVal_eq (rooms : List (List (Nat × Nat))) : roomsVal rooms = .list (rooms.map roomPy) := rfl

theorem pyLt_iff (c m : Nat × Nat) :
    (((c.1 : Int) < (m.1 : Int) || ((c.1 : Int) == (m.1 : Int) && (c.2 : Int) < (m.2 : Int))) = true) ↔ lexLt c m := by
  unfold lexLt
  simp only [Bool.or_eq_true, Bool.and_eq_true, decide_eq_true_eq, beq_iff_eq]
  omega

theorem minCell_some (r : List (Nat × Nat)) (m : Nat × Nat) :
    minCell (r.map cellVal) (some ((m.1 : Int), (m.2 : Int))) =
      .ok (((minNat r m).1 : Int), ((minNat r m).2 : Int)) := by
  induction r generalizing m with
  | nil => simp [minCell, minNat]
  | cons c r ih =>
    simp only [List.map_cons, cellVal, minCell, asInt?, minNat]
    by_cases h : lexLt c m
    · rw [if_pos ((pyLt_iff c m).2 h), if_pos h]
      exact ih c
    · rw [if_neg (fun h' => h ((pyLt_iff c m).1 h')), if_neg h]
      exact ih m

theorem minCell_none (c : Nat × Nat) (r : List (Nat × Nat)) :
    minCell ((c :: r).map cellVal) none =
      .ok (((roomMin (c :: r)).1 : Int), ((roomMin (c :: r)).2 : Int)) := by
  simp only [List.map_cons, cellVal, minCell, asInt?, roomMin]
  exact minCell_some r c

def trip (rv : List (Nat × Nat) × PyVal) : (Int × Int) × PyVal × PyVal :=
  ((((roomMin rv.1).1 : Int), ((roomMin rv.1).2 : Int)), roomPy rv.1, rv.2)

theorem keyedPairs_eq (rooms : List (List (Nat × Nat))) (values : List PyVal) (hne : ∀ r ∈ rooms, r ≠ []) :
    keyedPairs (rooms.map roomPy) values = .ok ((rooms.zip values).map trip) := by
  induction rooms generalizing values with
  | nil => simp [keyedPairs]
  | cons r rooms ih =>
    cases values with
    | nil => simp [keyedPairs]
    | cons v values =>
      have hr : r ≠ [] := hne r List.mem_cons_self
      obtain ⟨c, r', rfl⟩ := List.exists_cons_of_ne_nil hr
      simp only [List.map_cons, keyedPairs]
      have : asSeq? (roomPy (c :: r')) = some ((c :: r').map cellVal) := rfl
      rw [this]
      have hm := minCell_none c r'
      rw [List.map_cons] at hm
      simp only [hm, Outcome.bind_ok,
        ih values (fun r hr => hne r (List.mem_cons_of_mem _ hr)), List.zip_cons_cons, List.map_cons, trip]

theorem keyLt_trip (e x : List (Nat × Nat) × PyVal) :
    (keyLt (trip e).1 (trip x).1 = true) ↔ lexLt (roomMin e.1) (roomMin x.1) := by
  unfold keyLt trip
  exact pyLt_iff _ _

theorem insertByKey_trip (e : List (Nat × Nat) × PyVal) (l : List (List (Nat × Nat) × PyVal)) :
    insertByKey (trip e) (l.map trip) = (insertZ e l).map trip := by
  induction l with
  | nil => simp [insertByKey, insertZ]
  | cons x r ih =>
    simp only [List.map_cons, insertByKey, insertZ]
    by_cases h : lexLt (roomMin e.1) (roomMin x.1)
    · rw [if_pos ((keyLt_trip e x).2 h), if_pos h]; simp
    · rw [if_neg (fun h' => h ((keyLt_trip e x).1 h')), if_neg h, ih]; simp

theorem foldl_insertByKey_trip (l acc : List (List (Nat × Nat) × PyVal)) :
    (l.map trip).foldl (fun acc e => insertByKey e acc) (acc.map trip) =
      (l.foldl (fun acc e => insertZ e acc) acc).map trip := by
  induction l generalizing acc with
  | nil => simp
  | cons e l ih =>
    simp only [List.map_cons, List.foldl_cons, insertByKey_trip]
    exact ih _

theorem sortByKey_trip (l : List (List (Nat × Nat) × PyVal)) : sortByKey (l.map trip) = (sortZ l).map trip := by
  have := foldl_insertByKey_trip l []
  simpa [sortByKey, sortZ] using this

theorem sortZ_length (l : List (List (Nat × Nat) × PyVal)) : (sortZ l).length = l.length :=
  (sortZ_perm l).length_eq

theorem tuplSer_two (f g : SerF) (a b : List PyVal) :
    tuplSer [f, g] [.tuple [.list a, .list b]] 0 =
      (f a 0).bind fun r1 => (g b 0).bind fun r2 => .ok (1, r1.2 ++ r2.2) := by
  simp only [tuplSer, withItem, List.length_cons, List.length_nil, List.getElem?_cons_zero, tuplSerParts, asSeq?]
  cases h1 : f a 0 <;> cases h2 : g b 0 <;> simp [Outcome.bind]

theorem valuedRoomsSer_sorted (fv : SerF) (env : Env) (skip : Bool) (rooms : List (List (Nat × Nat))) (values : List PyVal)
    (hne : ∀ r ∈ rooms, r ≠ []) (hl : values.length = rooms.length) (hn : rooms ≠ []) :
    valuedRoomsSer fv env skip [.tuple [roomsVal rooms, .list values]] 0 =
      (roomsSer env skip [roomsVal ((sortZ (rooms.zip values)).map (·.1))] 0).bind fun r1 =>
      (seqSer fv rooms.length [.list ((sortZ (rooms.zip values)).map (·.2))] 0).bind fun r2 =>
        .ok (1, r1.2 ++ r2.2) := by
  have hlen : (sortZ (rooms.zip values)).length = rooms.length := by
    rw [sortZ_length, List.length_zip, hl, Nat.min_self]
  have hpos : 0 < rooms.length := List.length_pos_iff.2 hn
  have hemp : ((sortZ (rooms.zip values)).map trip).isEmpty = false := by
    cases h : sortZ (rooms.zip values) with
    | nil => rw [h] at hlen; simp at hlen; omega
    | cons a b => rfl
  have hm1 : ((sortZ (rooms.zip values)).map trip).map (fun e => e.2.1) =
      ((sortZ (rooms.zip values)).map (·.1)).map roomPy := by
    simp [List.map_map, Function.comp_def, trip]
  have hm2 : ((sortZ (rooms.zip values)).map trip).map (fun e => e.2.2) =
      (sortZ (rooms.zip values)).map (·.2) := by
    simp [List.map_map, Function.comp_def, trip]
  simp only [valuedRoomsSer, withItem, List.length_cons, List.length_nil, List.getElem?_cons_zero]
  simp only [asSeq?, keyedPairs_eq rooms values hne, Outcome.bind_ok, sortByKey_trip, hemp, hm1, hm2,
    List.length_map, hlen, tuplSer_two, roomsVal_eq]
  rw [if_neg (by omega), if_neg (by simp)]
  cases h1 : roomsSer env skip [PyVal.list (List.map roomPy (List.map (fun x => x.fst) (sortZ (rooms.zip values))))] 0 <;>
    cases h2 : seqSer fv rooms.length [PyVal.list (List.map (fun x => x.snd) (sortZ (rooms.zip values)))] 0 <;>
    simp [Outcome.bind]
end Cspuz.Ser
