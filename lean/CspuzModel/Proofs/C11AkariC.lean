/-
  C11 / akari, part C — the combinatorial core: the meaning of the posted constraints (part B) is the
  published rules (Spec/PuzzleRules/Akari.lean).
-/
import CspuzModel.Proofs.C11AkariB
import Mathlib.Data.List.Nodup
namespace Cspuz.Proofs.C11AkariC
open Cspuz Cspuz.Spec Cspuz.Puzzles Cspuz.Puzzles.Akari Cspuz.Spec.Akari Cspuz.Proofs
open Cspuz.Proofs.C11AkariA Cspuz.Proofs.C11AkariB

/-! ### Generic list facts -/

/-- Members of the scanned prefix of an ascending range. -/
theorem mem_run_range' {α : Type} (P : α → Bool) (f : Nat → α) (q : α) : ∀ (n a : Nat),
    q ∈ ((List.range' a n).map f).takeWhile P ↔
      ∃ k, a ≤ k ∧ k < a + n ∧ f k = q ∧ ∀ j, a ≤ j → j ≤ k → P (f j) = true
  | 0, a => by
    simp only [List.range'_zero, List.map_nil, List.takeWhile_nil, List.not_mem_nil, false_iff]
    rintro ⟨k, h1, h2, _⟩; omega
  | n + 1, a => by
    rw [List.range'_succ, List.map_cons, List.takeWhile_cons]
    by_cases ha : P (f a) = true
    · rw [if_pos ha, List.mem_cons, mem_run_range' P f q n (a + 1)]
      constructor
      · rintro (h | ⟨k, h1, h2, h3, h4⟩)
        · exact ⟨a, Nat.le_refl _, by omega, h.symm, fun j h1 h2 => by
            have : j = a := by omega
            subst this; exact ha⟩
        · refine ⟨k, by omega, by omega, h3, fun j h5 h6 => ?_⟩
          by_cases hj : j = a
          · subst hj; exact ha
          · exact h4 j (by omega) h6
      · rintro ⟨k, h1, h2, h3, h4⟩
        by_cases hk : k = a
        · subst hk; exact Or.inl h3.symm
        · exact Or.inr ⟨k, by omega, by omega, h3, fun j h5 h6 => h4 j (by omega) h6⟩
    · rw [if_neg ha]
      simp only [List.not_mem_nil, false_iff]
      rintro ⟨k, h1, _, _, h4⟩
      exact ha (h4 a (Nat.le_refl _) h1)

/-- Members of the scanned prefix of a descending range. -/
theorem mem_run_rev {α : Type} (P : α → Bool) (f : Nat → α) (q : α) : ∀ n : Nat,
    q ∈ ((List.range n).reverse.map f).takeWhile P ↔
      ∃ k, k < n ∧ f k = q ∧ ∀ j, k ≤ j → j < n → P (f j) = true
  | 0 => by simp
  | n + 1 => by
    rw [List.range_succ, List.reverse_append, List.reverse_singleton, List.singleton_append, List.map_cons,
      List.takeWhile_cons]
    by_cases ha : P (f n) = true
    · rw [if_pos ha, List.mem_cons, mem_run_rev P f q n]
      constructor
      · rintro (h | ⟨k, h1, h3, h4⟩)
        · exact ⟨n, by omega, h.symm, fun j h1 h2 => by
            have : j = n := by omega
            subst this; exact ha⟩
        · refine ⟨k, by omega, h3, fun j h5 h6 => ?_⟩
          by_cases hj : j = n
          · subst hj; exact ha
          · exact h4 j h5 (by omega)
      · rintro ⟨k, h1, h3, h4⟩
        by_cases hk : k = n
        · subst hk; exact Or.inl h3.symm
        · exact Or.inr ⟨k, by omega, h3, fun j h5 h6 => h4 j h5 (by omega)⟩
    · rw [if_neg ha]
      simp only [List.not_mem_nil, false_iff]
      rintro ⟨k, h1, _, h4⟩
      exact ha (h4 n (by omega) (by omega))

theorem two_le_countP {α : Type} (P : α → Bool) : ∀ {l : List α} {a b : α}, a ∈ l → b ∈ l → a ≠ b →
    P a = true → P b = true → 2 ≤ l.countP P
  | [], _, _, ha, _, _, _, _ => by simp at ha
  | c :: r, a, b, ha, hb, hab, pa, pb => by
    rw [List.countP_cons]
    rcases List.mem_cons.1 ha with rfl | ha' <;> rcases List.mem_cons.1 hb with rfl | hb'
    · exact absurd rfl hab
    · have : 0 < r.countP P := List.countP_pos_iff.2 ⟨b, hb', pb⟩
      rw [if_pos pa]; omega
    · have : 0 < r.countP P := List.countP_pos_iff.2 ⟨a, ha', pa⟩
      rw [if_pos pb]; omega
    · have := two_le_countP P ha' hb' hab pa pb
      omega

theorem exists_two_of_countP {α : Type} (P : α → Bool) : ∀ {l : List α}, l.Nodup → 2 ≤ l.countP P →
    ∃ a ∈ l, ∃ b ∈ l, a ≠ b ∧ P a = true ∧ P b = true
  | [], _, h => by simp at h
  | c :: r, hn, h => by
    rw [List.nodup_cons] at hn
    rw [List.countP_cons] at h
    by_cases h2 : 2 ≤ r.countP P
    · obtain ⟨a, ha, b, hb, hab, pa, pb⟩ := exists_two_of_countP P hn.2 h2
      exact ⟨a, List.mem_cons_of_mem _ ha, b, List.mem_cons_of_mem _ hb, hab, pa, pb⟩
    · have pc : P c = true := by
        by_contra hc
        rw [if_neg hc] at h; omega
      have : 0 < r.countP P := by rw [if_pos pc] at h; omega
      obtain ⟨b, hb, pb⟩ := List.countP_pos_iff.1 this
      refine ⟨c, List.mem_cons_self, b, List.mem_cons_of_mem _ hb, ?_, pc, pb⟩
      rintro rfl; exact hn.1 hb

/-- A maximal run downwards from `n`: where it starts. -/
theorem exists_run_start (P : Nat → Prop) : ∀ n, P n →
    ∃ m, m ≤ n ∧ (∀ k, m ≤ k → k ≤ n → P k) ∧ (m = 0 ∨ ¬ P (m - 1))
  | 0, h => by
    refine ⟨0, Nat.le_refl _, fun k _ h2 => ?_, Or.inl rfl⟩
    have : k = 0 := by omega
    subst this; exact h
  | n + 1, h => by
    by_cases hn : P n
    · obtain ⟨m, h1, h2, h3⟩ := exists_run_start P n hn
      refine ⟨m, by omega, fun k h4 h5 => ?_, h3⟩
      by_cases hk : k = n + 1
      · subst hk; exact h
      · exact h2 k h4 (by omega)
    · refine ⟨n + 1, Nat.le_refl _, fun k h4 h5 => ?_, Or.inr (by simpa using hn)⟩
      have : k = n + 1 := by omega
      subst this; exact h

/-! ### The scanned runs -/

section runs
variable {pb : Problem}

theorem mem_vRun {y x : Nat} {q : Nat × Nat} :
    q ∈ vRun pb (y, x) ↔ q.2 = x ∧ y ≤ q.1 ∧ q.1 < pb.height ∧ ∀ j, y ≤ j → j ≤ q.1 → isW pb (j, x) = true := by
  unfold vRun downFrom
  rw [mem_run_range']
  constructor
  · rintro ⟨k, h1, h2, rfl, h3⟩; exact ⟨rfl, h1, by show k < pb.height; omega, h3⟩
  · rintro ⟨rfl, h1, h2, h3⟩; exact ⟨q.1, h1, by omega, rfl, h3⟩

theorem mem_hRun {y x : Nat} {q : Nat × Nat} :
    q ∈ hRun pb (y, x) ↔ q.1 = y ∧ x ≤ q.2 ∧ q.2 < pb.width ∧ ∀ j, x ≤ j → j ≤ q.2 → isW pb (y, j) = true := by
  unfold hRun rightFrom
  rw [mem_run_range']
  constructor
  · rintro ⟨k, h1, h2, rfl, h3⟩; exact ⟨rfl, h1, by show k < pb.width; omega, h3⟩
  · rintro ⟨rfl, h1, h2, h3⟩; exact ⟨q.2, h1, by omega, rfl, h3⟩

theorem mem_down {y x : Nat} {q : Nat × Nat} :
    q ∈ (downOf pb y x).takeWhile (isW pb) ↔
      q.2 = x ∧ y < q.1 ∧ q.1 < pb.height ∧ ∀ j, y < j → j ≤ q.1 → isW pb (j, x) = true := by
  unfold downOf
  rw [mem_run_range']
  constructor
  · rintro ⟨k, h1, h2, rfl, h3⟩; exact ⟨rfl, h1, by show k < pb.height; omega, fun j a b => h3 j a b⟩
  · rintro ⟨rfl, h1, h2, h3⟩; exact ⟨q.1, h1, by omega, rfl, fun j a b => h3 j a b⟩

theorem mem_right {y x : Nat} {q : Nat × Nat} :
    q ∈ (rightOf pb y x).takeWhile (isW pb) ↔
      q.1 = y ∧ x < q.2 ∧ q.2 < pb.width ∧ ∀ j, x < j → j ≤ q.2 → isW pb (y, j) = true := by
  unfold rightOf
  rw [mem_run_range']
  constructor
  · rintro ⟨k, h1, h2, rfl, h3⟩; exact ⟨rfl, h1, by show k < pb.width; omega, fun j a b => h3 j a b⟩
  · rintro ⟨rfl, h1, h2, h3⟩; exact ⟨q.2, h1, by omega, rfl, fun j a b => h3 j a b⟩

theorem mem_up {y x : Nat} {q : Nat × Nat} :
    q ∈ (upOf y x).takeWhile (isW pb) ↔ q.2 = x ∧ q.1 < y ∧ ∀ j, q.1 ≤ j → j < y → isW pb (j, x) = true := by
  unfold upOf
  rw [mem_run_rev]
  constructor
  · rintro ⟨k, h1, rfl, h3⟩; exact ⟨rfl, h1, h3⟩
  · rintro ⟨rfl, h1, h3⟩; exact ⟨q.1, h1, rfl, h3⟩

theorem mem_left {y x : Nat} {q : Nat × Nat} :
    q ∈ (leftOf y x).takeWhile (isW pb) ↔ q.1 = y ∧ q.2 < x ∧ ∀ j, q.2 ≤ j → j < x → isW pb (y, j) = true := by
  unfold leftOf
  rw [mem_run_rev]
  constructor
  · rintro ⟨k, h1, rfl, h3⟩; exact ⟨rfl, h1, h3⟩
  · rintro ⟨rfl, h1, h3⟩; exact ⟨q.2, h1, rfl, h3⟩

theorem vRun_nodup (p : Nat × Nat) : (vRun pb p).Nodup := by
  unfold vRun downFrom
  refine List.Nodup.sublist (List.takeWhile_sublist _) ?_
  exact List.Nodup.map (fun a b h => by simpa using h) List.nodup_range'

theorem hRun_nodup (p : Nat × Nat) : (hRun pb p).Nodup := by
  unfold hRun rightFrom
  refine List.Nodup.sublist (List.takeWhile_sublist _) ?_
  exact List.Nodup.map (fun a b h => by simpa using h) List.nodup_range'

end runs

/-! ### `Sees` -/

theorem wh {pb : Problem} (hwf : WellFormed pb) (a b : Nat) : White pb a b ↔ isW pb (a, b) = true :=
  (isW_iff hwf (a, b)).symm

theorem sees_inB {pb : Problem} {p q : Nat × Nat} (h : Sees pb p q) : InB pb q := by
  rcases h with ⟨e, h⟩ | ⟨e, h⟩
  · have := h q.2 (by omega) (by omega)
    exact ⟨by rw [← e]; exact this.1, this.2.1⟩
  · have := h q.1 (by omega) (by omega)
    exact ⟨this.1, by rw [← e]; exact this.2.1⟩

/-- The cells scanned around a white cell are the cells it sees. -/
theorem seen_iff {pb : Problem} (hwf : WellFormed pb) {y x : Nat} (hW : isW pb (y, x) = true) (q : Nat × Nat) :
    q ∈ seenList pb (y, x) ↔ Sees pb (y, x) q := by
  obtain ⟨qy, qx⟩ := q
  unfold seenList Sees
  simp only [List.mem_cons, List.mem_append, mem_up, mem_down, mem_left, mem_right, wh hwf, Prod.mk.injEq]
  constructor
  · rintro (⟨rfl, rfl⟩ | ((⟨rfl, h1, h2⟩ | ⟨rfl, h1, h2, h3⟩) | ⟨rfl, h1, h2⟩) | ⟨rfl, h1, h2, h3⟩)
    · left
      refine ⟨rfl, fun x' a b => ?_⟩
      have : x' = qx := by omega
      subst this; exact hW
    · right
      refine ⟨rfl, fun y' a b => ?_⟩
      by_cases hy : y' = y
      · subst hy; exact hW
      · exact h2 y' (by omega) (by omega)
    · right
      refine ⟨rfl, fun y' a b => ?_⟩
      by_cases hy : y' = y
      · subst hy; exact hW
      · exact h3 y' (by omega) (by omega)
    · left
      refine ⟨rfl, fun x' a b => ?_⟩
      by_cases hx : x' = x
      · subst hx; exact hW
      · exact h2 x' (by omega) (by omega)
    · left
      refine ⟨rfl, fun x' a b => ?_⟩
      by_cases hx : x' = x
      · subst hx; exact hW
      · exact h3 x' (by omega) (by omega)
  · rintro (⟨rfl, h⟩ | ⟨rfl, h⟩)
    · rcases Nat.lt_trichotomy qx x with hlt | rfl | hgt
      · exact Or.inr (Or.inl (Or.inr ⟨rfl, hlt, fun j a b => h j (by omega) (by omega)⟩))
      · exact Or.inl ⟨rfl, rfl⟩
      · have hq := (isW_inB hwf (h qx (by omega) (by omega))).2
        exact Or.inr (Or.inr ⟨rfl, hgt, hq, fun j a b => h j (by omega) (by omega)⟩)
    · rcases Nat.lt_trichotomy qy y with hlt | rfl | hgt
      · exact Or.inr (Or.inl (Or.inl (Or.inl ⟨rfl, hlt, fun j a b => h j (by omega) (by omega)⟩)))
      · exact Or.inl ⟨rfl, rfl⟩
      · have hq := (isW_inB hwf (h qy (by omega) (by omega))).1
        exact Or.inr (Or.inl (Or.inl (Or.inr ⟨rfl, hgt, hq, fun j a b => h j (by omega) (by omega)⟩)))

/-! ### Rule 3 -/

/-- Two lit cells of one column joined by white cells violate the vertical-run constraint. -/
theorem col_conflict {pb : Problem} (hwf : WellFormed pb) (σ : Asg) (hR : ∀ p, InB pb p → RunProp pb σ p)
    {x y1 y2 : Nat} (hlt : y1 < y2) (hall : ∀ j, y1 ≤ j → j ≤ y2 → isW pb (j, x) = true)
    (l1 : lit pb σ (y1, x) = true) (l2 : lit pb σ (y2, x) = true) : False := by
  obtain ⟨m, hm, hrun, hstart⟩ := exists_run_start (fun j => isW pb (j, x) = true) y1 (hall y1 (Nat.le_refl _) (by omega))
  have hWm : isW pb (m, x) = true := hrun m (Nat.le_refl _) hm
  have hall' : ∀ j, m ≤ j → j ≤ y2 → isW pb (j, x) = true := fun j a b => by
    by_cases hj : j ≤ y1
    · exact hrun j a hj
    · exact hall j (by omega) b
  have hin2 := isW_inB hwf (hall y2 (by omega) (Nat.le_refl _))
  have hsv : startV pb (m, x) = true := by
    unfold startV
    rcases hstart with rfl | h
    · simp
    · simp only [Bool.or_eq_true, Bool.not_eq_true']
      right; simpa using h
  have hc := ((hR (m, x) (isW_inB hwf hWm)) hWm).1 hsv
  have m1 : (y1, x) ∈ vRun pb (m, x) := mem_vRun.2 ⟨rfl, hm, by have := hin2.1; simp only at this; omega,
    fun j a b => hall' j a (by simp only at b; omega)⟩
  have m2 : (y2, x) ∈ vRun pb (m, x) := mem_vRun.2 ⟨rfl, by simp only; omega, hin2.1, fun j a b => hall' j a b⟩
  have := two_le_countP (lit pb σ) m1 m2 (by intro h; simp at h; omega) l1 l2
  omega

theorem row_conflict {pb : Problem} (hwf : WellFormed pb) (σ : Asg) (hR : ∀ p, InB pb p → RunProp pb σ p)
    {y x1 x2 : Nat} (hlt : x1 < x2) (hall : ∀ j, x1 ≤ j → j ≤ x2 → isW pb (y, j) = true)
    (l1 : lit pb σ (y, x1) = true) (l2 : lit pb σ (y, x2) = true) : False := by
  obtain ⟨m, hm, hrun, hstart⟩ := exists_run_start (fun j => isW pb (y, j) = true) x1 (hall x1 (Nat.le_refl _) (by omega))
  have hWm : isW pb (y, m) = true := hrun m (Nat.le_refl _) hm
  have hall' : ∀ j, m ≤ j → j ≤ x2 → isW pb (y, j) = true := fun j a b => by
    by_cases hj : j ≤ x1
    · exact hrun j a hj
    · exact hall j (by omega) b
  have hin2 := isW_inB hwf (hall x2 (by omega) (Nat.le_refl _))
  have hsv : startH pb (y, m) = true := by
    unfold startH
    rcases hstart with rfl | h
    · simp
    · simp only [Bool.or_eq_true, Bool.not_eq_true']
      right; simpa using h
  have hc := ((hR (y, m) (isW_inB hwf hWm)) hWm).2 hsv
  have m1 : (y, x1) ∈ hRun pb (y, m) := mem_hRun.2 ⟨rfl, hm, by have := hin2.2; simp only at this; omega,
    fun j a b => hall' j a (by simp only at b; omega)⟩
  have m2 : (y, x2) ∈ hRun pb (y, m) := mem_hRun.2 ⟨rfl, by simp only; omega, hin2.2, fun j a b => hall' j a b⟩
  have := two_le_countP (lit pb σ) m1 m2 (by intro h; simp at h; omega) l1 l2
  omega

/-- The constraints of the first loop exclude two lights that see each other. -/
theorem no_conflict {pb : Problem} (hwf : WellFormed pb) (σ : Asg) (hR : ∀ p, InB pb p → RunProp pb σ p)
    {a b : Nat × Nat} (hab : a ≠ b) (la : lit pb σ a = true) (lb : lit pb σ b = true) (hs : Sees pb a b) : False := by
  obtain ⟨ay, ax⟩ := a
  obtain ⟨by', bx⟩ := b
  rcases hs with ⟨e, h⟩ | ⟨e, h⟩
  · simp only at e h; subst e
    simp only [wh hwf] at h
    rcases Nat.lt_trichotomy ax bx with hlt | rfl | hgt
    · exact row_conflict hwf σ hR hlt (fun j a b => h j (by omega) (by omega)) la lb
    · exact hab rfl
    · exact row_conflict hwf σ hR hgt (fun j a b => h j (by omega) (by omega)) lb la
  · simp only at e h; subst e
    simp only [wh hwf] at h
    rcases Nat.lt_trichotomy ay by' with hlt | rfl | hgt
    · exact col_conflict hwf σ hR hlt (fun j a b => h j (by omega) (by omega)) la lb
    · exact hab rfl
    · exact col_conflict hwf σ hR hgt (fun j a b => h j (by omega) (by omega)) lb la

/-- Conversely, rule 3 bounds the number of lights in every scanned run. -/
theorem vRun_amo {pb : Problem} (hwf : WellFormed pb) (σ : Asg)
    (h3 : ∀ a b : Nat × Nat, a ≠ b → lit pb σ a = true → lit pb σ b = true → ¬ Sees pb a b) (p : Nat × Nat) :
    (vRun pb p).countP (lit pb σ) ≤ 1 := by
  by_contra hc
  obtain ⟨a, ha, b, hb, hab, la, lb⟩ := exists_two_of_countP (lit pb σ) (vRun_nodup (pb := pb) p) (by omega)
  obtain ⟨y, x⟩ := p
  obtain ⟨a2, a1, a3, a4⟩ := mem_vRun.1 ha
  obtain ⟨b2, b1, b3, b4⟩ := mem_vRun.1 hb
  refine h3 a b hab la lb (Or.inr ⟨by omega, fun j c d => ?_⟩)
  rw [a2, wh hwf]
  by_cases hj : j ≤ a.1
  · exact a4 j (by omega) hj
  · exact b4 j (by omega) (by omega)

theorem hRun_amo {pb : Problem} (hwf : WellFormed pb) (σ : Asg)
    (h3 : ∀ a b : Nat × Nat, a ≠ b → lit pb σ a = true → lit pb σ b = true → ¬ Sees pb a b) (p : Nat × Nat) :
    (hRun pb p).countP (lit pb σ) ≤ 1 := by
  by_contra hc
  obtain ⟨a, ha, b, hb, hab, la, lb⟩ := exists_two_of_countP (lit pb σ) (hRun_nodup (pb := pb) p) (by omega)
  obtain ⟨y, x⟩ := p
  obtain ⟨a2, a1, a3, a4⟩ := mem_hRun.1 ha
  obtain ⟨b2, b1, b3, b4⟩ := mem_hRun.1 hb
  refine h3 a b hab la lb (Or.inl ⟨by omega, fun j c d => ?_⟩)
  rw [a2, wh hwf]
  by_cases hj : j ≤ a.2
  · exact a4 j (by omega) hj
  · exact b4 j (by omega) (by omega)

/-! ### Rule 4 -/

theorem nbL_count {pb : Problem} (L : Nat × Nat → Bool) (G : Prop) [Decidable G] (b : Bool) (q : Nat × Nat)
    (hG : G → (L q = true → isW pb q = true) ∧ L q = b) :
    (nbL pb (decide G) q).countP L = if G ∧ b = true then 1 else 0 := by
  by_cases hg : G
  · obtain ⟨h1, h2⟩ := hG hg
    subst h2
    cases hl : L q
    · cases hw : isW pb q <;> simp [nbL, hg, hl, hw]
    · have hw := h1 hl
      simp [nbL, hg, hl, hw]
  · simp [nbL, hg]

/-- Given rule 1, the white neighbours the code counts carry as many lights as all neighbours. -/
theorem nb_count {pb : Problem} (σ : Asg) (g : Nat → Nat → Bool)
    (hL : ∀ p, InB pb p → lit pb σ p = g p.1 p.2)
    (h1 : ∀ q, InB pb q → lit pb σ q = true → isW pb q = true) {y x : Nat} (hy : y < pb.height) (hx : x < pb.width) :
    (nbList pb (y, x)).countP (lit pb σ) = lightsAround pb g y x := by
  unfold nbList lightsAround
  simp only [List.countP_append]
  have i1 : y > 0 → InB pb (y - 1, x) := fun _ => ⟨by show y - 1 < pb.height; omega, hx⟩
  have i2 : y + 1 < pb.height → InB pb (y + 1, x) := fun h => ⟨h, hx⟩
  have i3 : x > 0 → InB pb (y, x - 1) := fun _ => ⟨hy, by show x - 1 < pb.width; omega⟩
  have i4 : x + 1 < pb.width → InB pb (y, x + 1) := fun h => ⟨hy, h⟩
  rw [nbL_count (lit pb σ) (y > 0) (g (y - 1) x) (y - 1, x) (fun h => ⟨h1 _ (i1 h), hL _ (i1 h)⟩),
    nbL_count (lit pb σ) (y + 1 < pb.height) (g (y + 1) x) (y + 1, x) (fun h => ⟨h1 _ (i2 h), hL _ (i2 h)⟩),
    nbL_count (lit pb σ) (x > 0) (g y (x - 1)) (y, x - 1) (fun h => ⟨h1 _ (i3 h), hL _ (i3 h)⟩),
    nbL_count (lit pb σ) (x + 1 < pb.width) (g y (x + 1)) (y, x + 1) (fun h => ⟨h1 _ (i4 h), hL _ (i4 h)⟩)]

/-! ### The constraints are the rules -/

theorem core {pb : Problem} (hwf : WellFormed pb) (σ : Asg) (g : Nat → Nat → Bool)
    (hag : ∀ y, y < pb.height → ∀ x, x < pb.width → g y x = σ.b (y * pb.width + x)) :
    ((∀ p, InB pb p → RunProp pb σ p) ∧ (∀ p, InB pb p → CellProp pb σ p)) ↔ RulesGrid pb g := by
  have hL : ∀ p, InB pb p → lit pb σ p = g p.1 p.2 := fun p hp => (hag _ hp.1 _ hp.2).symm
  constructor
  · rintro ⟨hR, hC⟩
    have r1 : ∀ q, InB pb q → lit pb σ q = true → isW pb q = true := by
      intro q hq hl
      by_contra hw
      have hw' : isW pb q = false := by simpa using hw
      have := ((hC q hq).2 hw').1
      rw [this] at hl; cases hl
    refine ⟨?_, ?_, ?_, ?_⟩
    · intro y hy x hx hg
      exact (isW_iff hwf (y, x)).1 (r1 (y, x) ⟨hy, hx⟩ (by rw [hL _ ⟨hy, hx⟩]; exact hg))
    · intro y x hW
      have hw := (isW_iff hwf (y, x)).2 hW
      obtain ⟨q, hq, hl⟩ := (hC (y, x) ⟨hW.1, hW.2.1⟩).1 hw
      have hs := (seen_iff hwf hw q).1 hq
      have hqin : InB pb q := sees_inB hs
      exact ⟨q.1, q.2, hqin.1, hqin.2, by rw [← hL q hqin]; exact hl, hs⟩
    · intro y x y' x' hy hx hy' hx' gl gl' hne hs
      exact no_conflict hwf σ hR hne (by rw [hL _ ⟨hy, hx⟩]; exact gl) (by rw [hL _ ⟨hy', hx'⟩]; exact gl') hs
    · intro y hy x hx hv
      have hw : isW pb (y, x) = false := by
        simp only [isW, decide_eq_false_iff_not]; omega
      have := ((hC (y, x) ⟨hy, hx⟩).2 hw).2 hv
      rw [nb_count σ g hL r1 hy hx] at this
      exact this
  · rintro ⟨R1, R2, R3, R4⟩
    have r1 : ∀ q, InB pb q → lit pb σ q = true → isW pb q = true := by
      intro q hq hl
      exact (isW_iff hwf q).2 (R1 q.1 hq.1 q.2 hq.2 (by rw [← hL q hq]; exact hl))
    have h3 : ∀ a b : Nat × Nat, a ≠ b → lit pb σ a = true → lit pb σ b = true → ¬ Sees pb a b := by
      intro a b hab la lb hs
      have hb := sees_inB hs
      have ha : InB pb a := by
        rcases hs with ⟨e, h⟩ | ⟨e, h⟩
        · have := h a.2 (by omega) (by omega); exact ⟨this.1, this.2.1⟩
        · have := h a.1 (by omega) (by omega); exact ⟨this.1, this.2.1⟩
      exact R3 a.1 a.2 b.1 b.2 ha.1 ha.2 hb.1 hb.2 (by rw [← hL a ha]; exact la) (by rw [← hL b hb]; exact lb) hab hs
    refine ⟨fun p _ _ => ⟨fun _ => vRun_amo hwf σ h3 p, fun _ => hRun_amo hwf σ h3 p⟩, fun p hp => ⟨?_, ?_⟩⟩
    · intro hw
      obtain ⟨y', x', hy', hx', gl, hs⟩ := R2 p.1 p.2 ((isW_iff hwf p).1 hw)
      exact ⟨(y', x'), (seen_iff hwf (y := p.1) (x := p.2) hw (y', x')).2 hs, by rw [hL _ ⟨hy', hx'⟩]; exact gl⟩
    · intro hw
      refine ⟨?_, fun hv => ?_⟩
      · cases hl : lit pb σ p
        · rfl
        · rw [r1 p hp hl] at hw; cases hw
      · have := R4 p.1 hp.1 p.2 hp.2 hv
        rw [nb_count σ g hL r1 (y := p.1) (x := p.2) hp.1 hp.2]
        exact this

end Cspuz.Proofs.C11AkariC
