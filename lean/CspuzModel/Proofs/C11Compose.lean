/-
  C11 — generic composition: a program that encodes the rules `R` + C02 (solve() reports exactly the
  facts common to all models)  ⇒  `solve_<puzzle>` reports exactly the facts common to all
  rule-obeying answer grids.
-/
import CspuzModel.Spec.C11Spec
import CspuzModel.Properties.C02
namespace Cspuz.Proofs.C11Compose
open Cspuz Cspuz.Spec

theorem valOf_some_of_lt (decls : List VarDecl) (σ : Asg) (k : Nat) (hk : k < decls.length) :
    ∃ v, valOf decls σ k = some v := by
  unfold valOf
  rw [List.getElem?_eq_getElem hk]
  cases decls[k] with
  | bool => exact ⟨_, rfl⟩
  | int lo hi => exact ⟨_, rfl⟩

/-- Every model's key values form a list of (defined) values. -/
theorem keyVals_eq_map_some (P : PuzzleProg) (hK : P.KeysOk) (σ : Asg) :
    P.keyVals σ = (P.keys.map fun k => (valOf P.decls σ k).getD (.b false)).map some := by
  unfold PuzzleProg.keyVals
  rw [List.map_map]
  apply List.map_congr_left
  intro k hk
  obtain ⟨v, hv⟩ := valOf_some_of_lt P.decls σ k (hK.2 k hk)
  simp only [Function.comp, hv, Option.getD_some]

/-- Every model yields a rule-obeying answer list. -/
theorem model_to_ans (P : PuzzleProg) (R : List Val → Prop) (hE : EncodesRules P R) (hK : P.KeysOk)
    (σ : Asg) (hσ : Sat P.decls P.cs σ) :
    ∃ a, R a ∧ P.keyVals σ = a.map some :=
  ⟨_, (hE _).1 ⟨σ, hσ, keyVals_eq_map_some P hK σ⟩, keyVals_eq_map_some P hK σ⟩

/-- Positionwise reading of `keyVals σ = a.map some`. -/
theorem getElem?_of_keyVals (P : PuzzleProg) (σ : Asg) (a : List Val)
    (h : P.keyVals σ = a.map some) (j : Nat) (hj : j < P.keys.length) :
    (a[j]?).map some = some (valOf P.decls σ (P.keys[j])) := by
  have := congrArg (fun l => l[j]?) h
  simp only [PuzzleProg.keyVals, List.getElem?_map, List.getElem?_eq_getElem hj, Option.map_some] at this
  exact this.symm

theorem getElem?_eq_iff_valOf (P : PuzzleProg) (σ : Asg) (a : List Val)
    (h : P.keyVals σ = a.map some) (j : Nat) (hj : j < P.keys.length) (v : Val) :
    a[j]? = some v ↔ valOf P.decls σ (P.keys[j]) = some v := by
  have := getElem?_of_keyVals P σ a h j hj
  cases ha : a[j]? with
  | none => rw [ha] at this; simp at this
  | some w =>
    rw [ha] at this
    simp only [Option.map_some, Option.some.injEq] at this
    rw [← this]

theorem getElem?_ne_iff_valOf (P : PuzzleProg) (σ σ' : Asg) (a a' : List Val)
    (h : P.keyVals σ = a.map some) (h' : P.keyVals σ' = a'.map some)
    (j : Nat) (hj : j < P.keys.length) :
    a[j]? ≠ a'[j]? ↔ valOf P.decls σ (P.keys[j]) ≠ valOf P.decls σ' (P.keys[j]) := by
  have e := getElem?_of_keyVals P σ a h j hj
  have e' := getElem?_of_keyVals P σ' a' h' j hj
  cases ha : a[j]? with
  | none => rw [ha] at e; simp at e
  | some w =>
    cases ha' : a'[j]? with
    | none => rw [ha'] at e'; simp at e'
    | some w' =>
      rw [ha] at e; rw [ha'] at e'
      simp only [Option.map_some, Option.some.injEq] at e e'
      rw [← e, ← e']

theorem state_isKey_length (P : PuzzleProg) : P.state.isKey.length = P.state.decls.length := by
  simp [PuzzleProg.state]

theorem state_isKey (P : PuzzleProg) (hK : P.KeysOk) (j : Nat) (hj : j < P.keys.length) :
    P.state.isKey.getD (P.keys[j]) false = true := by
  have hm : P.keys[j] ∈ P.keys := List.getElem_mem hj
  have hlt := hK.2 _ hm
  simp only [PuzzleProg.state, List.getD_eq_getElem?_getD, List.getElem?_map,
    List.getElem?_range hlt, Option.map_some, Option.getD_some]
  exact List.contains_iff_mem.2 hm

theorem compose :
    ∀ (P : PuzzleProg) (R : List Val → Prop) (B : Backend),
    EncodesRules P R → P.KeysOk → (∀ c ∈ P.cs, wtB c = true) → B.Correct →
    ((solveRefine B P.state).2 = .verdict true ∨ (solveRefine B P.state).2 = .verdict false) ∧
    ((solveRefine B P.state).2 = .verdict true ↔ ∃ a, R a) ∧
    ((solveRefine B P.state).2 = .verdict true →
      ∀ j (hj : j < P.keys.length),
        (∀ v, (solveRefine B P.state).1.sol.getD (P.keys[j]) none = some v ↔ ∀ a, R a → a[j]? = some v) ∧
        ((solveRefine B P.state).1.sol.getD (P.keys[j]) none = none ↔
          ∃ a a', R a ∧ R a' ∧ a[j]? ≠ a'[j]?)) := by
  intro P R B hE hK hwt hB
  obtain ⟨h1, h2, h3⟩ := Cspuz.C02.C02_exact B hB P.state hwt (state_isKey_length P)
  refine ⟨h1, ?_, ?_⟩
  · rw [h2]
    constructor
    · rintro ⟨σ, hσ⟩
      obtain ⟨a, hR, _⟩ := model_to_ans P R hE hK σ hσ
      exact ⟨a, hR⟩
    · rintro ⟨a, hR⟩
      obtain ⟨σ, hσ, _⟩ := (hE a).2 hR
      exact ⟨σ, hσ⟩
  · intro hv j hj
    have hlt : P.keys[j] < P.state.decls.length := hK.2 _ (List.getElem_mem hj)
    obtain ⟨hc, hu⟩ := h3 hv (P.keys[j]) hlt (state_isKey P hK j hj)
    refine ⟨fun v => ?_, ?_⟩
    · rw [hc v]
      constructor
      · intro hcv a hR
        obtain ⟨σ, hσ, hkv⟩ := (hE a).2 hR
        exact (getElem?_eq_iff_valOf P σ a hkv j hj v).2 (hcv σ hσ)
      · intro hall σ hσ
        obtain ⟨a, hR, hkv⟩ := model_to_ans P R hE hK σ hσ
        exact (getElem?_eq_iff_valOf P σ a hkv j hj v).1 (hall a hR)
    · rw [hu]
      constructor
      · rintro ⟨σ₁, σ₂, hs₁, hs₂, hne⟩
        obtain ⟨a, hR, hkv⟩ := model_to_ans P R hE hK σ₁ hs₁
        obtain ⟨a', hR', hkv'⟩ := model_to_ans P R hE hK σ₂ hs₂
        exact ⟨a, a', hR, hR', (getElem?_ne_iff_valOf P σ₁ σ₂ a a' hkv hkv' j hj).2 hne⟩
      · rintro ⟨a, a', hR, hR', hne⟩
        obtain ⟨σ₁, hs₁, hkv⟩ := (hE a).2 hR
        obtain ⟨σ₂, hs₂, hkv'⟩ := (hE a').2 hR'
        exact ⟨σ₁, σ₂, hs₁, hs₂, (getElem?_ne_iff_valOf P σ₁ σ₂ a a' hkv hkv' j hj).1 hne⟩

end Cspuz.Proofs.C11Compose
