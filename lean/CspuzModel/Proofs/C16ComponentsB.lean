/-
  C16, rooms of a border set (part B): the relaxation of `Pzpr.roomsOfBorders` converges.  The labels after `k` rounds,
  seen as a function `F k` of the cell: (a) `F k c` is always the id of a cell of the room of `c`; (b) `F k c` is at most
  the id of every cell that a walk of length `≤ k` inside the room reaches from `c`.  A room is connected, and a walk
  can be shortened to a path, which has fewer than `h·w` steps; hence after `h·w` rounds every cell carries the least
  id of its room.
-/
import CspuzModel.Proofs.C16ComponentsA
import CspuzModel.Proofs.C16Rooms
import Mathlib.Combinatorics.SimpleGraph.Paths
namespace Cspuz.Proofs.C16ComponentsB
open Cspuz Cspuz.Ser Cspuz.C16F Cspuz.Proofs.C16ComponentsA

/-- inside the board -/
def InB (h w : Nat) (c : Nat × Nat) : Prop := c.1 < h ∧ c.2 < w

/-- the graph whose components the routine computes: orthogonally adjacent cells of the board of the same colour -/
def G (h w : Nat) (col : Nat × Nat → Nat) : SimpleGraph (Nat × Nat) where
  Adj a b := InB h w a ∧ InB h w b ∧ Adj4 a b ∧ col a = col b
  symm := ⟨fun a b hab => ⟨hab.2.1, hab.1, by
    rcases hab.2.2.1 with ⟨e, h1⟩ | ⟨e, h1⟩
    · exact Or.inl ⟨e.symm, h1.symm⟩
    · exact Or.inr ⟨e.symm, h1.symm⟩, hab.2.2.2.symm⟩⟩
  loopless := ⟨fun a ha => by
    rcases ha.2.2.1 with ⟨_, h1⟩ | ⟨_, h1⟩ <;> omega⟩

theorem G_adj {h w : Nat} {col : Nat × Nat → Nat} {a b : Nat × Nat} :
    (G h w col).Adj a b ↔ InB h w a ∧ InB h w b ∧ Adj4 a b ∧ col a = col b := Iff.rfl

/-! ### one round -/

section step
variable {h w : Nat} {col : Nat × Nat → Nat} {L : Nat × Nat → Nat} {c : Nat × Nat}

theorem stepVal_le_self : stepVal h w col L c ≤ L c := by
  unfold stepVal
  exact Nat.min_le_left _ _

theorem stepVal_le_up (h1 : 0 < c.1) (h2 : col (c.1 - 1, c.2) = col c) : stepVal h w col L c ≤ L (c.1 - 1, c.2) := by
  unfold stepVal
  simp only
  rw [if_pos ⟨h1, h2⟩]
  exact Nat.le_trans (Nat.min_le_right _ _) (Nat.le_trans (Nat.min_le_left _ _) (Nat.min_le_left _ _))

theorem stepVal_le_dn (h1 : c.1 + 1 < h) (h2 : col c = col (c.1 + 1, c.2)) :
    stepVal h w col L c ≤ L (c.1 + 1, c.2) := by
  unfold stepVal
  simp only
  rw [if_pos (show c.1 + 1 < h ∧ col c = col (c.1 + 1, c.2) from ⟨h1, h2⟩)]
  exact Nat.le_trans (Nat.min_le_right _ _) (Nat.le_trans (Nat.min_le_left _ _) (Nat.min_le_right _ _))

theorem stepVal_le_lf (h1 : 0 < c.2) (h2 : col (c.1, c.2 - 1) = col c) : stepVal h w col L c ≤ L (c.1, c.2 - 1) := by
  unfold stepVal
  simp only
  rw [if_pos (show 0 < c.2 ∧ col (c.1, c.2 - 1) = col c from ⟨h1, h2⟩)]
  exact Nat.le_trans (Nat.min_le_right _ _) (Nat.le_trans (Nat.min_le_right _ _) (Nat.min_le_left _ _))

theorem stepVal_le_rg (h1 : c.2 + 1 < w) (h2 : col c = col (c.1, c.2 + 1)) :
    stepVal h w col L c ≤ L (c.1, c.2 + 1) := by
  unfold stepVal
  simp only
  rw [if_pos (show c.2 + 1 < w ∧ col c = col (c.1, c.2 + 1) from ⟨h1, h2⟩)]
  exact Nat.le_trans (Nat.min_le_right _ _) (Nat.le_trans (Nat.min_le_right _ _) (Nat.min_le_right _ _))

theorem stepVal_le_adj {d : Nat × Nat} (hcd : (G h w col).Adj c d) : stepVal h w col L c ≤ L d := by
  obtain ⟨hc, hd, ha, he⟩ := hcd
  obtain ⟨c1, c2⟩ := c
  obtain ⟨d1, d2⟩ := d
  simp only [InB] at hc hd
  rcases ha with ⟨e, h1 | h1⟩ | ⟨e, h1 | h1⟩ <;> simp only at e h1 <;> subst e
  · subst h1; exact stepVal_le_rg hd.2 he
  · subst h1
    have := @stepVal_le_lf h w col L (c1, d2 + 1) (by simp) (by simpa using he.symm)
    simpa using this
  · subst h1; exact stepVal_le_dn hd.1 he
  · subst h1
    have := @stepVal_le_up h w col L (d1 + 1, c2) (by simp) (by simpa using he.symm)
    simpa using this

theorem min_ind {P : Nat → Prop} {a b : Nat} (ha : P a) (hb : P b) : P (min a b) := by
  rcases Nat.le_total a b with hab | hab
  · rwa [Nat.min_eq_left hab]
  · rwa [Nat.min_eq_right hab]

theorem stepVal_mem (hc : InB h w c) :
    stepVal h w col L c = L c ∨ ∃ d, (G h w col).Adj c d ∧ stepVal h w col L c = L d := by
  let P : Nat → Prop := fun v => v = L c ∨ ∃ d, (G h w col).Adj c d ∧ v = L d
  have hme : P (L c) := Or.inl rfl
  have hup : P (if 0 < c.1 ∧ col (c.1 - 1, c.2) = col c then L (c.1 - 1, c.2) else L c) := by
    split
    · rename_i hcond
      have h1 := hc.1
      exact Or.inr ⟨(c.1 - 1, c.2), ⟨hc, ⟨by show c.1 - 1 < h; omega, hc.2⟩,
        Or.inr ⟨rfl, Or.inr (by show c.1 - 1 + 1 = c.1; omega)⟩, hcond.2.symm⟩, rfl⟩
    · exact hme
  have hdn : P (if c.1 + 1 < h ∧ col c = col (c.1 + 1, c.2) then L (c.1 + 1, c.2) else L c) := by
    split
    · rename_i hcond
      exact Or.inr ⟨(c.1 + 1, c.2), ⟨hc, ⟨hcond.1, hc.2⟩, Or.inr ⟨rfl, Or.inl rfl⟩, hcond.2⟩, rfl⟩
    · exact hme
  have hlf : P (if 0 < c.2 ∧ col (c.1, c.2 - 1) = col c then L (c.1, c.2 - 1) else L c) := by
    split
    · rename_i hcond
      have h2 := hc.2
      exact Or.inr ⟨(c.1, c.2 - 1), ⟨hc, ⟨hc.1, by show c.2 - 1 < w; omega⟩,
        Or.inl ⟨rfl, Or.inr (by show c.2 - 1 + 1 = c.2; omega)⟩, hcond.2.symm⟩, rfl⟩
    · exact hme
  have hrg : P (if c.2 + 1 < w ∧ col c = col (c.1, c.2 + 1) then L (c.1, c.2 + 1) else L c) := by
    split
    · rename_i hcond
      exact Or.inr ⟨(c.1, c.2 + 1), ⟨hc, ⟨hc.1, hcond.1⟩, Or.inl ⟨rfl, Or.inl rfl⟩, hcond.2⟩, rfl⟩
    · exact hme
  have : P (stepVal h w col L c) := by
    unfold stepVal
    exact min_ind hme (min_ind (min_ind hup hdn) (min_ind hlf hrg))
  exact this

end step

/-! ### the labels after `k` rounds -/

section rounds
variable (h w : Nat) (rooms : List (List (Nat × Nat)))

/-- the label list after `k` rounds -/
def labs (k : Nat) : List Nat := Pzpr.iter (Pzpr.relax h w (bordersOf h w rooms)) k (List.range (h * w))

/-- the label of a cell after `k` rounds -/
def F (k : Nat) (c : Nat × Nat) : Nat := labF w (labs h w rooms k) c

theorem labs_length (k : Nat) : (labs h w rooms k).length = h * w := by
  cases k with
  | zero => simp [labs, Pzpr.iter]
  | succ k => unfold labs; rw [iter_succ, relax_length]

variable {h w rooms}

theorem F_zero {c : Nat × Nat} (hc : InB h w c) : F h w rooms 0 c = cid w c := labF_range hc

theorem F_succ (k : Nat) {c : Nat × Nat} (hc : InB h w c) :
    F h w rooms (k + 1) c = stepVal h w (roomOf rooms) (F h w rooms k) c := by
  unfold F
  have : labs h w rooms (k + 1) = Pzpr.relax h w (bordersOf h w rooms) (labs h w rooms k) := iter_succ _ _ _
  rw [this, relax_step h w rooms _ (labs_length h w rooms k) hc]

theorem F_anti {c : Nat × Nat} (hc : InB h w c) {j k : Nat} (hjk : j ≤ k) : F h w rooms k c ≤ F h w rooms j c := by
  induction hjk with
  | refl => exact Nat.le_refl _
  | step _ ih => exact Nat.le_trans (by rw [F_succ _ hc]; exact stepVal_le_self) ih

/-- (a) a label is always the id of a cell of the same room -/
theorem F_class (k : Nat) : ∀ {c : Nat × Nat}, InB h w c →
    ∃ c', InB h w c' ∧ roomOf rooms c' = roomOf rooms c ∧ F h w rooms k c = cid w c' := by
  induction k with
  | zero => intro c hc; exact ⟨c, hc, rfl, F_zero hc⟩
  | succ k ih =>
    intro c hc
    rw [F_succ k hc]
    rcases stepVal_mem (L := F h w rooms k) (col := roomOf rooms) hc with e | ⟨d, had, e⟩
    · rw [e]; exact ih hc
    · rw [e]
      obtain ⟨c', h1, h2, h3⟩ := ih had.2.1
      exact ⟨c', h1, h2.trans had.2.2.2.symm, h3⟩

/-- (b) labels travel along walks, one step per round -/
theorem F_walk {a b : Nat × Nat} (p : (G h w (roomOf rooms)).Walk a b) : ∀ k, InB h w a → p.length ≤ k →
    F h w rooms k a ≤ cid w b := by
  induction p with
  | nil =>
    intro k ha _
    exact Nat.le_trans (F_anti ha (Nat.zero_le k)) (Nat.le_of_eq (F_zero ha))
  | cons hadj p ih =>
    intro k ha hk
    rw [SimpleGraph.Walk.length_cons] at hk
    obtain ⟨k', rfl⟩ : ∃ k', k = k' + 1 := ⟨k - 1, by omega⟩
    rw [F_succ k' ha]
    exact Nat.le_trans (stepVal_le_adj hadj) (ih k' hadj.2.1 (by omega))

end rounds

/-! ### short walks -/

theorem walk_support_board {h w : Nat} {col : Nat × Nat → Nat} {a b : Nat × Nat} (p : (G h w col).Walk a b)
    (ha : InB h w a) : ∀ v ∈ p.support, InB h w v := by
  induction p with
  | nil => intro v hv; simp only [SimpleGraph.Walk.support_nil, List.mem_singleton] at hv; rw [hv]; exact ha
  | cons hadj p ih =>
    intro v hv
    rw [SimpleGraph.Walk.support_cons, List.mem_cons] at hv
    rcases hv with rfl | hv
    · exact ha
    · exact ih hadj.2.1 v hv

theorem short_walk {h w : Nat} {col : Nat × Nat → Nat} {a b : Nat × Nat} (p : (G h w col).Walk a b)
    (ha : InB h w a) : ∃ q : (G h w col).Walk a b, q.length < h * w := by
  refine ⟨p.bypass, ?_⟩
  have hnd : p.bypass.support.Nodup := (SimpleGraph.Walk.bypass_isPath p).support_nodup
  have hsub : p.bypass.support ⊆ cells h w := fun v hv => mem_cells.2 (walk_support_board p.bypass ha v hv)
  have hle := (hnd.subperm hsub).length_le
  rw [SimpleGraph.Walk.length_support, length_cells] at hle
  omega

/-! ### a room is connected -/

theorem room_walk {h w : Nat} {rooms : List (List (Nat × Nat))} (hv : ValidPartition h w rooms) {c d : Nat × Nat}
    (hc : InB h w c) (hd : InB h w d) (e : roomOf rooms c = roomOf rooms d) :
    Nonempty ((G h w (roomOf rooms)).Walk c d) := by
  obtain ⟨r, hr, hcr, hdr⟩ := (Cspuz.Proofs.C16Rooms.sameRoom_iff hv hc hd).1 e
  have key : ∀ b, Relation.ReflTransGen (fun x y => Adj4 x y ∧ y ∈ r) c b →
      b ∈ r ∧ Nonempty ((G h w (roomOf rooms)).Walk c b) := by
    intro b hb
    induction hb with
    | refl => exact ⟨hcr, ⟨SimpleGraph.Walk.nil⟩⟩
    | @tail b' c' _ hstep ih =>
      obtain ⟨hb'r, ⟨p⟩⟩ := ih
      have hbb : InB h w b' := hv.mem_board hr hb'r
      have hcb : InB h w c' := hv.mem_board hr hstep.2
      have hadj : (G h w (roomOf rooms)).Adj b' c' :=
        ⟨hbb, hcb, hstep.1, (Cspuz.Proofs.C16Rooms.sameRoom_iff hv hbb hcb).2 ⟨r, hr, hb'r, hstep.2⟩⟩
      exact ⟨hstep.2, ⟨p.concat hadj⟩⟩
  exact (key d (hv.connected r hr c hcr d hdr)).2

/-! ### the fixed point -/

/-- after `h·w` rounds a cell carries the least id of its room -/
theorem F_final {h w : Nat} {rooms : List (List (Nat × Nat))} (hv : ValidPartition h w rooms) {c : Nat × Nat}
    (hc : InB h w c) :
    ∃ m, InB h w m ∧ roomOf rooms m = roomOf rooms c ∧ F h w rooms (h * w) c = cid w m ∧
      ∀ d, InB h w d → roomOf rooms d = roomOf rooms c → cid w m ≤ cid w d := by
  obtain ⟨m, hm, hmc, hF⟩ := F_class (rooms := rooms) (h * w) hc
  refine ⟨m, hm, hmc, hF, fun d hd hdc => ?_⟩
  obtain ⟨p⟩ := room_walk hv hc hd hdc.symm
  obtain ⟨q, hq⟩ := short_walk p hc
  rw [← hF]
  exact F_walk q (h * w) hc (Nat.le_of_lt hq)

end Cspuz.Proofs.C16ComponentsB
