/-
  C15 for `Rooms`: a valid room partition (rooms in any order, cells in any order) survives
  `Rooms.serialize` / `Rooms.deserialize` up to the canonical ordering of rooms and cells, for every board size
  `h, w ≥ 1`, in any text context, given the round trip of the two border bitmaps (`BordersRT`).
  Encoder half: `C15RoomsEnc`; decoder half for an abstract colouring: `C15RoomsDec`; here the two are joined.
-/
import CspuzModel.Proofs.C15RoomsEnc
import CspuzModel.Proofs.C15RoomsDec
namespace Cspuz.Ser
open Cspuz

/-! ### the bitmaps written by the encoder, read back as Boolean grids -/

theorem truthy_bitVal (a b : Int) : truthy (bitVal a b) = (a != b) := by
  unfold bitVal truthy
  by_cases h : a = b <;> simp [h]

theorem dims_vertBits (rid : Grid2 Int) (h w : Nat) : Dims h (w - 1) ((vertBits rid h w).map boolRow) := by
  refine ⟨by simp [vertBits], ?_⟩
  intro r hr
  simp only [vertBits, List.map_map, List.mem_map, List.mem_range, Function.comp] at hr
  obtain ⟨y, _, rfl⟩ := hr
  simp [boolRow]

theorem dims_horBits (rid : Grid2 Int) (h w : Nat) : Dims (h - 1) w ((horBits rid h w).map boolRow) := by
  refine ⟨by simp [horBits], ?_⟩
  intro r hr
  simp only [horBits, List.map_map, List.mem_map, List.mem_range, Function.comp] at hr
  obtain ⟨y, _, rfl⟩ := hr
  simp [boolRow]

theorem gv_vertBits (rid : Grid2 Int) {h w y x : Nat} (hy : y < h) (hx : x + 1 < w) :
    gv ((vertBits rid h w).map boolRow) y x = (gv rid y x != gv rid y (x + 1)) := by
  have hx' : x < w - 1 := by omega
  simp [gv, vertBits, boolRow, hy, hx', truthy_bitVal]

theorem gv_horBits (rid : Grid2 Int) {h w y x : Nat} (hy : y + 1 < h) (hx : x < w) :
    gv ((horBits rid h w).map boolRow) y x = (gv rid y x != gv rid (y + 1) x) := by
  have hy' : y < h - 1 := by omega
  simp [gv, horBits, boolRow, hy', hx, truthy_bitVal]

theorem toBoolGrid_vertBits (rid : Grid2 Int) (h w : Nat) :
    toBoolGrid (.list (vertBits rid h w)) = .ok ((vertBits rid h w).map boolRow) :=
  toBoolGrid_ok (fun r hr => by
    simp only [vertBits, List.mem_map] at hr
    obtain ⟨y, _, rfl⟩ := hr
    exact ⟨_, rfl⟩)

theorem toBoolGrid_horBits (rid : Grid2 Int) (h w : Nat) :
    toBoolGrid (.list (horBits rid h w)) = .ok ((horBits rid h w).map boolRow) :=
  toBoolGrid_ok (fun r hr => by
    simp only [horBits, List.mem_map] at hr
    obtain ⟨y, _, rfl⟩ := hr
    exact ⟨_, rfl⟩)

/-! ### the room index is a colouring described by these bitmaps -/

theorem open_of_adj {h w : Nat} {rid : Grid2 Int} {a b : Nat × Nat} (ha : a.1 < h ∧ a.2 < w) (hb : b.1 < h ∧ b.2 < w)
    (hab : Adj4 a b) (he : gv rid a.1 a.2 = gv rid b.1 b.2) :
    Open ((horBits rid h w).map boolRow) ((vertBits rid h w).map boolRow) h w a b := by
  obtain ⟨y1, x1⟩ := a
  obtain ⟨y2, x2⟩ := b
  simp only [Adj4] at hab ha hb he
  rcases hab with ⟨rfl, rfl | rfl⟩ | ⟨rfl, rfl | rfl⟩
  · right; right; right
    exact ⟨hb.2, by rw [gv_vertBits rid ha.1 hb.2]; simp [he], rfl⟩
  · right; right; left
    refine ⟨by simp, ?_, by simp⟩
    simp only [Nat.add_sub_cancel]
    rw [gv_vertBits rid ha.1 ha.2]; simp [he]
  · right; left
    exact ⟨hb.1, by rw [gv_horBits rid hb.1 ha.2]; simp [he], rfl⟩
  · left
    refine ⟨by simp, ?_, by simp⟩
    simp only [Nat.add_sub_cancel]
    rw [gv_horBits rid ha.1 ha.2]; simp [he]

theorem colorSys_of_valid {h w : Nat} {rooms : List (List (Nat × Nat))} (hv : ValidPartition h w rooms)
    {rid : Grid2 Int} (hg : ∀ y x, y < h → x < w → gv rid y x = ((roomOf rooms (y, x) : Nat) : Int)) :
    ColorSys ((horBits rid h w).map boolRow) ((vertBits rid h w).map boolRow) h w (roomOf rooms) where
  hhz := dims_horBits rid h w
  hvt := dims_vertBits rid h w
  hz_col := fun y x h1 h2 => by
    rw [gv_horBits rid h1 h2, hg y x (by omega) h2, hg (y + 1) x h1 h2]
    simp only [bne_eq_false_iff_eq]
    constructor <;> intro e <;> omega
  vt_col := fun y x h1 h2 => by
    rw [gv_vertBits rid h1 h2, hg y x h1 (by omega), hg y (x + 1) h1 h2]
    simp only [bne_eq_false_iff_eq]
    constructor <;> intro e <;> omega
  conn := fun a b ha1 ha2 hb1 hb2 e => by
    have hk := hv.roomOf_lt ha1 ha2
    have hk' := hv.roomOf_lt hb1 hb2
    have har := hv.mem_roomOf ha1 ha2 hk
    have hbr : b ∈ rooms[roomOf rooms a] := by
      have := hv.mem_roomOf hb1 hb2 hk'
      simpa only [e] using this
    have hrm : rooms[roomOf rooms a] ∈ rooms := List.getElem_mem hk
    have hsame : ∀ p ∈ rooms[roomOf rooms a], ∀ q ∈ rooms[roomOf rooms a], gv rid p.1 p.2 = gv rid q.1 q.2 := by
      intro p hp q hq
      have hpb := hv.mem_board hrm hp
      have hqb := hv.mem_board hrm hq
      rw [hg p.1 p.2 hpb.1 hpb.2, hg q.1 q.2 hqb.1 hqb.2, hv.roomOf_eq hk hp, hv.roomOf_eq hk hq]
    have hchain := hv.connected _ hrm a har b hbr
    clear hbr hk' hb1 hb2 e
    have : Relation.ReflTransGen (Open ((horBits rid h w).map boolRow) ((vertBits rid h w).map boolRow) h w) a b ∧
        b ∈ rooms[roomOf rooms a] := by
      induction hchain with
      | refl => exact ⟨Relation.ReflTransGen.refl, har⟩
      | @tail p q _ hpq ih =>
        exact ⟨ih.1.tail (open_of_adj (hv.mem_board hrm ih.2) (hv.mem_board hrm hpq.2) hpq.1
          (hsame p ih.2 q hpq.2)), hpq.2⟩
    exact this.1

/-! ### the canonical form is the list of colour classes -/

theorem find?_eq_getElem?_findIdx {α} (p : α → Bool) (l : List α) : l.find? p = l[l.findIdx p]? := by
  induction l with
  | nil => rfl
  | cons a l ih => rw [List.find?_cons, List.findIdx_cons]; cases h : p a <;> simp [ih]

theorem filterMap_ite {α β} (p : α → Bool) (g : α → β) (l : List α) :
    l.filterMap (fun c => if p c = true then some (g c) else none) = (l.filter p).map g := by
  induction l with
  | nil => rfl
  | cons a l ih => cases h : p a <;> simp [h, ih]

theorem canonRoom_eq {h w : Nat} {rooms : List (List (Nat × Nat))} (hv : ValidPartition h w rooms) {c : Nat × Nat}
    (hk : roomOf rooms c < rooms.length) :
    canonRoom h w rooms[roomOf rooms c] = (cells h w).filter fun a => roomOf rooms a == roomOf rooms c := by
  unfold canonRoom
  apply List.filter_congr
  intro a ha
  have hab := mem_cells.1 ha
  apply Bool.eq_iff_iff.2
  simp only [List.contains_iff_mem, beq_iff_eq]
  constructor
  · intro hm; exact hv.roomOf_eq hk hm
  · intro e
    have := hv.mem_roomOf hab.1 hab.2 (hv.roomOf_lt hab.1 hab.2)
    simpa only [e] using this

theorem canonRooms_eq {h w : Nat} {rooms : List (List (Nat × Nat))} (hv : ValidPartition h w rooms) :
    canonRooms h w rooms = colorRooms h w (roomOf rooms) := by
  unfold canonRooms colorRooms
  rw [← filterMap_ite]
  apply List.filterMap_congr
  intro c hc
  have hcb := mem_cells.1 hc
  have hk := hv.roomOf_lt hcb.1 hcb.2
  have hf : rooms.find? (fun r => r.contains c) = some rooms[roomOf rooms c] := by
    rw [find?_eq_getElem?_findIdx]; exact List.getElem?_eq_getElem hk
  rw [hf, Option.bind_some, canonRoom_eq hv hk, List.head?_filter]
  unfold isLeader
  simp only [beq_iff_eq]

/-! ### the round trip -/

/-- **C15, rooms**: every valid partition of the `h × w` board is accepted by `Rooms.serialize`, and the emitted text,
embedded anywhere, is decoded by `Rooms.deserialize` (with or without `allow_redundant`, with or without
`skip_invalid`) to the canonical form of the partition, consuming exactly the emitted characters. -/
theorem rooms_roundtrip (h w : Nat) (hh : 1 ≤ h) (hw : 1 ≤ w) (hB : BordersRT h w)
    (rooms : List (List (Nat × Nat))) (hv : ValidPartition h w rooms) (skip allow : Bool) :
    ∃ t, roomsSer ⟨h, w⟩ skip [roomsVal rooms] 0 = .ok (1, t) ∧
      ∀ pre rest, roomsDe ⟨h, w⟩ skip allow (pre ++ t ++ rest) pre.length
                    = .ok (t.length, [roomsVal (canonRooms h w rooms)]) := by
  obtain ⟨rid, _, hg, henc⟩ := roomsSerCore_valid h w hh hw rooms hv
  obtain ⟨t, hser, hde⟩ := hB (.list (vertBits rid h w)) (.list (horBits rid h w)) (bitGrid_vertBits rid h w)
    (bitGrid_horBits rid h w)
  refine ⟨t, ?_, ?_⟩
  · unfold roomsSer
    rw [henc, hser]
    cases skip <;> rfl
  · intro pre rest
    unfold roomsDe
    rw [roomsDeCore_colors (colorSys_of_valid hv hg) (by omega) (by omega) allow (hde pre rest)
      (toBoolGrid_vertBits rid h w) (toBoolGrid_horBits rid h w), canonRooms_eq hv]
    cases skip <;> rfl

end Cspuz.Ser
