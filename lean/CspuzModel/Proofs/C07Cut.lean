/-
  C07, the `_with_borders` form at certificate level: a `GroupCert` whose ids differ exactly across
  the border edges exists iff `BordersOK`.  The partition is "joined by non-border edges".
-/
import CspuzModel.Proofs.C07L2c
namespace Cspuz.Proofs.C07Cut
open Cspuz Cspuz.Spec
open Cspuz.Proofs.C04L2 Cspuz.Proofs.C07L2 Cspuz.Proofs.C07L2c

/-- The partition obtained by cutting the border edges. -/
def cutP (g : Graph) (bd : Nat → Bool) : VPartition g.n where
  same u v := ∃ (hu : u < g.n) (hv : v < g.n), (cutGraph g bd).Reachable ⟨u, hu⟩ ⟨v, hv⟩
  refl _ hv := ⟨hv, hv, SimpleGraph.Reachable.refl _⟩
  symm _ _ := fun ⟨hu, hv, h⟩ => ⟨hv, hu, h.symm⟩
  trans _ _ _ := fun ⟨hu, _, h1⟩ ⟨_, hw, h2⟩ => ⟨hu, hw, h1.trans h2⟩

variable {g : Graph} {bd : Nat → Bool} {size : Nat → Option Int}

theorem cutP_same {u v : Fin g.n} : (cutP g bd).same u.1 v.1 ↔ (cutGraph g bd).Reachable u v :=
  ⟨fun ⟨_, _, h⟩ => h, fun h => ⟨u.2, v.2, h⟩⟩

theorem blockOf_cutP {v : Nat} (hv : v < g.n) :
    blockOf g (cutP g bd) v = {w : Fin g.n | (cutGraph g bd).Reachable ⟨v, hv⟩ w} := by
  ext w
  exact cutP_same (u := ⟨v, hv⟩) (v := w)

theorem cut_adj {u v : Fin g.n} :
    (cutGraph g bd).Adj u v ↔ u ≠ v ∧ ∃ k, bd k = false ∧ Joins g k u.1 v.1 := Iff.rfl

/-- The blocks of the cut partition are connected, and its sizes are the component sizes. -/
theorem partitionOK_iff_sizes :
    PartitionOK g (cutP g bd) size ↔
      ∀ v s (hv : v < g.n), size v = some s →
        (Set.ncard {w : Fin g.n | (cutGraph g bd).Reachable ⟨v, hv⟩ w} : Int) = s := by
  have hconn : ∀ v, v < g.n → ((toSimple g).induce (blockOf g (cutP g bd) v)).Preconnected := by
    intro v hv
    rintro ⟨a, ha⟩ ⟨b, hb⟩
    rw [blockOf_cutP hv] at ha hb
    have hab : (cutGraph g bd).Reachable a b := SimpleGraph.Reachable.trans (SimpleGraph.Reachable.symm ha) hb
    obtain ⟨_, h⟩ := reach_induce (G := toSimple g) (blockOf g (cutP g bd) v)
      (fun x y hxy => by
        obtain ⟨hne, k, _, hJ⟩ := hxy
        exact ⟨hne, k, hJ⟩)
      (fun x y hxy hx => by
        have hx' : (cutP g bd).same v x.1 := hx
        show (cutP g bd).same v y.1
        exact (cutP g bd).trans _ _ _ hx' (cutP_same.2 (SimpleGraph.Adj.reachable hxy)))
      hab (by rw [blockOf_cutP hv]; exact ha)
    exact h
  unfold PartitionOK
  constructor
  · rintro ⟨_, h⟩ v s hv hs
    have := h v s hv hs
    unfold blockSize at this
    rw [blockOf_cutP hv] at this
    exact this
  · intro h
    refine ⟨hconn, ?_⟩
    intro v s hv hs
    unfold blockSize
    rw [blockOf_cutP hv]
    exact h v s hv hs

theorem hbd_joins {gid : Nat → Int}
    (hbd : ∀ k u v, g.edges[k]? = some (u, v) → (bd k = true ↔ gid u ≠ gid v))
    {k u v : Nat} (hJ : Joins g k u v) : bd k = true ↔ gid u ≠ gid v := by
  rcases hJ with h | h
  · exact hbd k u v h
  · rw [hbd k v u h]
    exact ⟨fun h' h'' => h' h''.symm, fun h' h'' => h' h''.symm⟩

/-- certificate with border-compatible ids ⇒ `BordersOK` -/
theorem cert_bordersOK (hwf : g.wf = true) (C : GroupCert g size true true)
    (hbd : ∀ k u v, g.edges[k]? = some (u, v) → (bd k = true ↔ C.gid u ≠ C.gid v)) :
    BordersOK g bd size := by
  have hiff : ∀ u v : Fin g.n, C.gid u.1 = C.gid v.1 ↔ (cutGraph g bd).Reachable u v := by
    intro u v
    constructor
    · intro h
      have h1 := (gid_eq_iff_reach hwf C u v).1 h
      refine h1.mono ?_
      intro a b hab
      obtain ⟨hne, k, hk, hJ⟩ := hab
      refine ⟨hne, k, ?_, hJ⟩
      have := hbd_joins hbd hJ
      have hg := ae_gid' C hJ hk
      cases hb : bd k
      · rfl
      · exact absurd hg (this.1 hb)
    · intro h
      exact reach_inv (fun w : Fin g.n => C.gid w.1) (fun a b hab => by
        obtain ⟨_, k, hk, hJ⟩ := hab
        by_contra hne
        have := (hbd_joins hbd hJ).2 hne
        rw [hk] at this
        cases this) h
  have hR : Realises g.n (cutP g bd) C.gid := by
    intro u v hu hv
    rw [hiff ⟨u, hu⟩ ⟨v, hv⟩]
    exact (cutP_same (u := ⟨u, hu⟩) (v := ⟨v, hv⟩)).symm
  have hok := cert_ok hwf C (cutP g bd) hR (Or.inl rfl) (Or.inl rfl)
  refine ⟨?_, partitionOK_iff_sizes.1 hok⟩
  intro k u v hb hJ hu hv hreach
  exact (hbd_joins hbd hJ).1 hb ((hiff ⟨u, hu⟩ ⟨v, hv⟩).2 hreach)

/-- `BordersOK` ⇒ certificate with border-compatible ids -/
theorem bordersOK_cert (hwf : g.wf = true) (h : BordersOK g bd size) :
    ∃ C : GroupCert g size true true,
      ∀ k u v, g.edges[k]? = some (u, v) → (bd k = true ↔ C.gid u ≠ C.gid v) := by
  obtain ⟨h1, h2⟩ := h
  obtain ⟨C, hR⟩ := ok_cert (P := cutP g bd) hwf size true true (partitionOK_iff_sizes.2 h2)
  refine ⟨C, ?_⟩
  intro k u v hk
  have hJ : Joins g k u v := Or.inl hk
  obtain ⟨hu, hv⟩ := joins_lt hwf hJ
  have hRuv := hR u v hu hv
  constructor
  · intro hb heq
    exact h1 k u v hb hJ hu hv (cutP_same.1 (hRuv.1 heq))
  · intro hne
    cases hb : bd k
    · exfalso
      apply hne
      by_cases huv : u = v
      · rw [huv]
      · apply hRuv.2
        refine cutP_same (u := ⟨u, hu⟩) (v := ⟨v, hv⟩) |>.2 (SimpleGraph.Adj.reachable ?_)
        exact ⟨fun h' => huv (congrArg Fin.val h'), k, hb, hJ⟩
    · rfl

theorem cert_iff_bordersOK (hwf : g.wf = true) :
    (∃ C : GroupCert g size true true,
      ∀ k u v, g.edges[k]? = some (u, v) → (bd k = true ↔ C.gid u ≠ C.gid v)) ↔
    BordersOK g bd size :=
  ⟨fun ⟨C, hbd⟩ => cert_bordersOK hwf C hbd, bordersOK_cert hwf⟩

end Cspuz.Proofs.C07Cut
