/-
  C19, part 4: the shapes of the updates offered by ArrayBuilder2D.candidates and what they guarantee.
-/
import CspuzModel.Proofs.C19Grid
namespace Cspuz.Gen
open Cspuz

variable {V : Type} [DecidableEq V]

/-- The two forms of update produced by the `use_move` part of `candidates`. -/
inductive MoveShape (c : ArrayCfg V) (g : Grid V) : CellUpd V → Prop
  | sym (y1 x1 y2 x2 : Int) (c1 c2 c1b c2b : V) (hs : c.symmetry = true)
      (h1 : InR c y1 x1) (h2 : InR c y2 x2) (hne : ¬ (y1 = y2 ∧ x1 = x2))
      (hnc : ¬ (y1 = c.height - 1 - y1 ∧ x1 = c.width - 1 - x1))
      (hnb : ¬ (y1 = c.height - 1 - y2 ∧ x1 = c.width - 1 - x2))
      (e1 : cellI g y1 x1 = some c1) (e2 : cellI g y2 x2 = some c2)
      (e1b : cellI g (c.height - 1 - y1) (c.width - 1 - x1) = some c1b)
      (e2b : cellI g (c.height - 1 - y2) (c.width - 1 - x2) = some c2b) (hc : c1 ≠ c2) :
      MoveShape c g [(y1, x1, c2), (y2, x2, c1), (c.height - 1 - y1, c.width - 1 - x1, c2b),
        (c.height - 1 - y2, c.width - 1 - x2, c1b)]
  | plain (y1 x1 y2 x2 : Int) (c1 c2 : V) (hs : c.symmetry = false)
      (h1 : InR c y1 x1) (h2 : InR c y2 x2) (hne : ¬ (y1 = y2 ∧ x1 = x2))
      (e1 : cellI g y1 x1 = some c1) (e2 : cellI g y2 x2 = some c2) (hc : c1 ≠ c2) :
      MoveShape c g [(y1, x1, c2), (y2, x2, c1)]

/-- The forms of update produced by the value-setting part of `candidates`. -/
inductive ValueShape (c : ArrayCfg V) (g : Grid V) : CellUpd V → Prop
  | symClear (y x : Int) (cv : V) (hs : c.symmetry = true) (h : InR c y x)
      (e : cellI g y x = some cv) (hcv : cv ≠ c.default) :
      ValueShape c g [(y, x, c.default), (c.height - 1 - y, c.width - 1 - x, c.default)]
  | symPair (y x : Int) (v v2 : V) (hs : c.symmetry = true) (h : InR c y x)
      (e : cellI g y x = some c.default) (hv : v ∈ c.nonDefault) (hv2 : v2 ∈ c.nonDefault)
      (hnb : ∀ d ∈ c.disallow, InR c (y + d.1) (x + d.2) → cellI g (y + d.1) (x + d.2) = some c.default)
      (hself : ((c.height : Int) - 1 - y - y, (c.width : Int) - 1 - x - x) ∉ c.disallow) :
      ValueShape c g [(y, x, v), (c.height - 1 - y, c.width - 1 - x, v2)]
  | symChange (y x : Int) (v cv : V) (hs : c.symmetry = true) (h : InR c y x)
      (e : cellI g y x = some cv) (hcv : cv ≠ c.default) (hv : v ∈ c.nonDefault) (hne : v ≠ cv) :
      ValueShape c g [(y, x, v)]
  | plain (y x : Int) (v cv : V) (hs : c.symmetry = false) (h : InR c y x) (hv : v ∈ c.choice)
      (e : cellI g y x = some cv) (hne : v ≠ cv)
      (hnb : v ≠ c.default → ∀ d ∈ c.disallow, InR c (y + d.1) (x + d.2) →
        cellI g (y + d.1) (x + d.2) = some c.default) :
      ValueShape c g [(y, x, v)]

theorem mem_cellsOf {h w : Nat} {p : Nat × Nat} (hp : p ∈ cellsOf h w) : p.1 < h ∧ p.2 < w := by
  simp only [cellsOf, List.mem_flatMap, List.mem_range, List.mem_map] at hp
  obtain ⟨y, hy, x, hx, rfl⟩ := hp
  exact ⟨hy, hx⟩

theorem moveTrySym_post (fuel : Nat) (c : ArrayCfg V) (g : Grid V) (y1 x1 : Nat) (ret : List (CellUpd V))
    (hs : c.symmetry = true) (hy : y1 < c.height) (hx : x1 < c.width)
    (hret : ∀ u ∈ ret, MoveShape c g u) :
    Post (moveTrySym fuel c g y1 x1 ret) fun r => ∀ u ∈ r, MoveShape c g u := by
  unfold moveTrySym
  refine Post.bind (randint_range fuel 0 _) fun y2 hy2 => ?_
  refine Post.bind (randint_range fuel 0 _) fun x2 hx2 => ?_
  split
  · exact Post.pure hret
  · rename_i hne
    simp only
    split
    · exact Post.pure hret
    · rename_i hnc
      split
      · exact Post.pure hret
      · rename_i hnb
        refine Post.liftPy fun r hr => ?_
        obtain ⟨c1, hc1, hr⟩ := py_bind_ok hr
        obtain ⟨c2, hc2, hr⟩ := py_bind_ok hr
        split at hr
        · rename_i hc
          obtain ⟨c2b, hc2b, hr⟩ := py_bind_ok hr
          obtain ⟨c1b, hc1b, hr⟩ := py_bind_ok hr
          cases hr
          intro u hu
          rcases List.mem_append.mp hu with hu | hu
          · exact hret u hu
          · rw [List.mem_singleton] at hu
            subst hu
            exact MoveShape.sym _ _ _ _ c1 c2 c1b c2b hs (by unfold InR; omega) (by unfold InR; omega)
              hne hnc hnb (gridGet_cell (by omega) (by omega) hc1) (gridGet_cell (by omega) (by omega) hc2)
              (gridGet_cell (by omega) (by omega) hc1b) (gridGet_cell (by omega) (by omega) hc2b) hc
        · cases hr; exact hret

theorem moveTry_post (fuel : Nat) (c : ArrayCfg V) (g : Grid V) (y1 x1 : Nat) (ret : List (CellUpd V))
    (hs : c.symmetry = false) (hy : y1 < c.height) (hx : x1 < c.width)
    (hret : ∀ u ∈ ret, MoveShape c g u) :
    Post (moveTry fuel c g y1 x1 ret) fun r => ∀ u ∈ r, MoveShape c g u := by
  unfold moveTry
  refine Post.bind (randint_range fuel 0 _) fun y2 hy2 => ?_
  refine Post.bind (randint_range fuel 0 _) fun x2 hx2 => ?_
  split
  · exact Post.pure hret
  · rename_i hne
    refine Post.liftPy fun r hr => ?_
    obtain ⟨c1, hc1, hr⟩ := py_bind_ok hr
    obtain ⟨c2, hc2, hr⟩ := py_bind_ok hr
    split at hr
    · rename_i hc
      cases hr
      intro u hu
      rcases List.mem_append.mp hu with hu | hu
      · exact hret u hu
      · rw [List.mem_singleton] at hu
        subst hu
        exact MoveShape.plain _ _ _ _ c1 c2 hs (by unfold InR; omega) (by unfold InR; omega)
          hne (gridGet_cell (by omega) (by omega) hc1) (gridGet_cell (by omega) (by omega) hc2) hc
    · cases hr; exact hret

theorem moveCands_post (fuel : Nat) (c : ArrayCfg V) (g : Grid V) :
    Post (moveCands fuel c g) fun r => (∀ u ∈ r, MoveShape c g u) ∧ (c.useMove = false → r = []) := by
  unfold moveCands
  split
  · rename_i hm
    refine Post.mono (Q := fun r => ∀ u ∈ r, MoveShape c g u) ?_ (fun r hr => ⟨hr, by simp [hm]⟩)
    refine Post.forEach _ _ (by simp) fun ret p hp hret => ?_
    obtain ⟨hy, hx⟩ := mem_cellsOf hp
    refine Post.forEach _ _ hret fun ret' _ _ hret' => ?_
    cases hs : c.symmetry with
    | true => simpa [hs] using moveTrySym_post fuel c g p.1 p.2 ret' hs hy hx hret'
    | false => simpa [hs] using moveTry_post fuel c g p.1 p.2 ret' hs hy hx hret'
  · exact Post.pure ⟨by simp, fun _ => rfl⟩

end Cspuz.Gen
namespace Cspuz.Gen
open Cspuz
variable {V : Type} [DecidableEq V]
theorem defaultOnlyLoop_spec (c : ArrayCfg V) (g : Grid V) (y x : Nat) :
    ∀ (D : List (Int × Int)) (acc b : Bool), defaultOnlyLoop c g y x D acc = .ok b → b = false →
      acc = false ∧ ∀ d ∈ D, InR c (y + d.1) (x + d.2) → cellI g (y + d.1) (x + d.2) = some c.default
  | [], acc, b, h, hb => by
    simp only [defaultOnlyLoop, Except.ok.injEq] at h
    exact ⟨h ▸ hb, by simp⟩
  | (dy, dx) :: rest, acc, b, h, hb => by
    simp only [defaultOnlyLoop] at h
    split at h
    · rename_i hin
      obtain ⟨v, hv, h⟩ := py_bind_ok h
      obtain ⟨hacc, hrest⟩ := defaultOnlyLoop_spec c g y x rest _ b h hb
      have hvd : v = c.default := by
        by_contra hne
        simp [hne] at hacc
      have hacc' : acc = false := by simpa [hvd] using hacc
      refine ⟨hacc', ?_⟩
      intro d hd hind
      rcases List.mem_cons.mp hd with rfl | hd
      · have := gridGet_cell (by omega) (by omega) hv
        rw [this, hvd]
      · exact hrest d hd hind
    · rename_i hin
      obtain ⟨hacc, hrest⟩ := defaultOnlyLoop_spec c g y x rest _ b h hb
      refine ⟨hacc, ?_⟩
      intro d hd hind
      rcases List.mem_cons.mp hd with rfl | hd
      · exact absurd (by unfold InR at hind; simpa using hind) hin
      · exact hrest d hd hind

end Cspuz.Gen
namespace Cspuz.Gen
open Cspuz
variable {V : Type} [DecidableEq V]

/-- `acc` extends `ret0` by value-setting updates only. -/
def Ext (c : ArrayCfg V) (g : Grid V) (ret0 acc : List (CellUpd V)) : Prop :=
  ∃ vs, acc = ret0 ++ vs ∧ ∀ u ∈ vs, ValueShape c g u

theorem Ext.refl (c : ArrayCfg V) (g : Grid V) (ret0 : List (CellUpd V)) : Ext c g ret0 ret0 :=
  ⟨[], by simp, by simp⟩

theorem Ext.append {c : ArrayCfg V} {g : Grid V} {ret0 acc new : List (CellUpd V)}
    (h : Ext c g ret0 acc) (hn : ∀ u ∈ new, ValueShape c g u) : Ext c g ret0 (acc ++ new) := by
  obtain ⟨vs, rfl, hvs⟩ := h
  refine ⟨vs ++ new, by simp, ?_⟩
  intro u hu
  rcases List.mem_append.mp hu with hu | hu
  · exact hvs u hu
  · exact hn u hu

theorem symPairLoop_post (fuel : Nat) (c : ArrayCfg V) (g : Grid V) (y x : Nat) (ret0 ret : List (CellUpd V))
    (hs : c.symmetry = true) (hin : InR c y x) (e : cellI g y x = some c.default)
    (hnb : ∀ d ∈ c.disallow, InR c (y + d.1) (x + d.2) → cellI g (y + d.1) (x + d.2) = some c.default)
    (hself : ((c.height : Int) - 1 - y - y, (c.width : Int) - 1 - x - x) ∉ c.disallow)
    (hret : Ext c g ret0 ret) :
    Post (symPairLoop fuel c g y x ((c.height : Int) - 1 - y) ((c.width : Int) - 1 - x) c.default ret)
      (Ext c g ret0) := by
  unfold symPairLoop
  refine Post.forEach _ _ hret fun acc v hv hacc => ?_
  refine Post.bind (choice_mem fuel c.nonDefault) fun v2 hv2 => ?_
  have hshape : ∀ u ∈ [[((y : Int), (x : Int), v), ((c.height : Int) - 1 - y, (c.width : Int) - 1 - x, v2)]],
      ValueShape c g u := by
    intro u hu
    rw [List.mem_singleton] at hu
    subst hu
    exact ValueShape.symPair _ _ v v2 hs hin e hv hv2 hnb hself
  split
  · exact Post.pure (hacc.append hshape)
  · refine Post.bind (R := fun _ => True) (fun _ _ _ _ => trivial) fun c2 _ => ?_
    split
    · exact Post.pure (hacc.append hshape)
    · exact Post.pure hacc

theorem mem_nonDefault {c : ArrayCfg V} {v : V} (h : v ∈ c.nonDefault) : v ∈ c.choice ∧ v ≠ c.default := by
  simpa [ArrayCfg.nonDefault] using h

theorem valueCell_post (fuel : Nat) (c : ArrayCfg V) (g : Grid V) (ret0 ret : List (CellUpd V))
    (p : Nat × Nat) (hp : p ∈ cellsOf c.height c.width) (hret : Ext c g ret0 ret) :
    Post (valueCell fuel c g ret p) (Ext c g ret0) := by
  obtain ⟨hy, hx⟩ := mem_cellsOf hp
  have hin : InR c (p.1 : Int) (p.2 : Int) := by unfold InR; omega
  unfold valueCell
  simp only
  refine Post.bind (Post.liftPy (Q := fun b => b = false → ∀ d ∈ c.disallow,
      InR c ((p.1 : Int) + d.1) ((p.2 : Int) + d.2) →
      cellI g ((p.1 : Int) + d.1) ((p.2 : Int) + d.2) = some c.default)
    (fun b hb hf => (defaultOnlyLoop_spec c g p.1 p.2 _ _ b hb hf).2)) fun dOnly hd => ?_
  cases hs : c.symmetry with
  | true =>
    simp only [if_true]
    refine Post.bind (Post.liftPy (Q := fun cv => cellI g (p.1 : Int) (p.2 : Int) = some cv)
      (fun v hv => gridGet_cell (by omega) (by omega) hv)) fun cv hcv => ?_
    -- the "clear both" update
    have hret1 : Ext c g ret0 (if cv ≠ c.default then
        ret ++ [[((p.1 : Int), (p.2 : Int), c.default),
          ((c.height : Int) - 1 - p.1, (c.width : Int) - 1 - p.2, c.default)]] else ret) := by
      split
      · rename_i hne
        refine hret.append ?_
        intro u hu
        rw [List.mem_singleton] at hu
        subst hu
        exact ValueShape.symClear _ _ cv hs hin hcv hne
      · exact hret
    by_cases hself : ((c.height : Int) - 1 - p.1 - p.1, (c.width : Int) - 1 - p.2 - p.2) ∈ c.disallow
    · simp only [if_pos hself, Bool.not_true, Bool.false_eq_true, if_false]
      exact Post.pure hret1
    · simp only [if_neg hself]
      cases hdo : dOnly with
      | true =>
        simp only [Bool.not_true, Bool.false_eq_true, if_false]
        exact Post.pure hret1
      | false =>
        simp only [Bool.not_false, if_true]
        by_cases hcd : cv = c.default
        · subst hcd
          rw [if_pos rfl, if_neg (by simp)]
          exact symPairLoop_post fuel c g p.1 p.2 ret0 ret hs hin hcv (hd hdo) hself hret
        · rw [if_neg hcd]
          refine Post.pure (hret1.append ?_)
          intro u hu
          simp only [List.mem_map, List.mem_filter] at hu
          obtain ⟨v, ⟨hv, hne⟩, rfl⟩ := hu
          exact ValueShape.symChange _ _ v cv hs hin hcv hcd hv (by simpa using hne)
  | false =>
    simp only [Bool.false_eq_true, if_false]
    split
    · exact Post.pure hret
    · refine Post.bind (Post.liftPy (Q := fun cv => cellI g (p.1 : Int) (p.2 : Int) = some cv)
        (fun v hv => gridGet_cell (by omega) (by omega) hv)) fun cv hcv => ?_
      refine Post.pure (hret.append ?_)
      intro u hu
      simp only [List.mem_map, List.mem_filter] at hu
      obtain ⟨v, ⟨⟨hv, hok⟩, hne⟩, rfl⟩ := hu
      refine ValueShape.plain _ _ v cv hs hin hv hcv (by simpa using hne) ?_
      intro hvd
      have : dOnly = false := by
        cases hdo : dOnly with
        | false => rfl
        | true => simp [hdo, hvd] at hok
      exact hd this

theorem valueCands_post (fuel : Nat) (c : ArrayCfg V) (g : Grid V) (ret0 : List (CellUpd V)) :
    Post (valueCands fuel c g ret0) (Ext c g ret0) :=
  Post.forEach _ _ (Ext.refl c g ret0) fun acc p hp hacc => valueCell_post fuel c g ret0 acc p hp hacc

/-- `candidates` = move updates followed by value-setting updates, each of one of the listed shapes. -/
theorem arrayCandidates_post (fuel : Nat) (c : ArrayCfg V) (g : Grid V) :
    Post (arrayCandidates fuel c g) fun us => ∃ mv vs, us = mv ++ vs ∧ (c.useMove = false → mv = []) ∧
      (∀ u ∈ mv, MoveShape c g u) ∧ ∀ u ∈ vs, ValueShape c g u := by
  unfold arrayCandidates
  refine Post.bind (moveCands_post fuel c g) fun mv hmv => ?_
  refine Post.mono (valueCands_post fuel c g mv) ?_
  rintro us ⟨vs, rfl, hvs⟩
  exact ⟨mv, vs, rfl, hmv.2, hmv.1, hvs⟩

end Cspuz.Gen
namespace Cspuz.Gen
open Cspuz
variable {V : Type} [DecidableEq V]

theorem sym_iff (c : ArrayCfg V) (g : Grid V) : Sym c g ↔ SymF c (cellI g) := Iff.rfl
theorem noAdj_iff (c : ArrayCfg V) (g : Grid V) : NoAdj c g ↔ NoAdjF c (cellI g) := Iff.rfl

theorem inR_mirror {c : ArrayCfg V} {y x : Int} (h : InR c y x) :
    InR c ((c.height : Int) - 1 - y) ((c.width : Int) - 1 - x) := by
  unfold InR at *; omega

/-- Cells named by an update of one of the two kinds, and the values it writes. -/
theorem shape_coords (c : ArrayCfg V) (g : Grid V) (u : CellUpd V)
    (h : MoveShape c g u ∨ ValueShape c g u) :
    (∀ t ∈ u, InR c t.1 t.2.1) ∧
    (∀ t ∈ u, t.2.2 ∈ c.choice ∨ t.2.2 = c.default ∨ ∃ y x, InR c y x ∧ cellI g y x = some t.2.2) := by
  rcases h with h | h
  · cases h with
    | sym y1 x1 y2 x2 c1 c2 c1b c2b hs h1 h2 hne hnc hnb e1 e2 e1b e2b hc =>
      constructor
      · intro t ht
        simp only [List.mem_cons, List.not_mem_nil, or_false] at ht
        rcases ht with rfl | rfl | rfl | rfl
        · exact h1
        · exact h2
        · exact inR_mirror h1
        · exact inR_mirror h2
      · intro t ht
        simp only [List.mem_cons, List.not_mem_nil, or_false] at ht
        rcases ht with rfl | rfl | rfl | rfl
        · exact Or.inr (Or.inr ⟨_, _, h2, e2⟩)
        · exact Or.inr (Or.inr ⟨_, _, h1, e1⟩)
        · exact Or.inr (Or.inr ⟨_, _, inR_mirror h2, e2b⟩)
        · exact Or.inr (Or.inr ⟨_, _, inR_mirror h1, e1b⟩)
    | plain y1 x1 y2 x2 c1 c2 hs h1 h2 hne e1 e2 hc =>
      constructor
      · intro t ht
        simp only [List.mem_cons, List.not_mem_nil, or_false] at ht
        rcases ht with rfl | rfl
        · exact h1
        · exact h2
      · intro t ht
        simp only [List.mem_cons, List.not_mem_nil, or_false] at ht
        rcases ht with rfl | rfl
        · exact Or.inr (Or.inr ⟨_, _, h2, e2⟩)
        · exact Or.inr (Or.inr ⟨_, _, h1, e1⟩)
  · cases h with
    | symClear y x cv hs h e hcv =>
      constructor
      · intro t ht
        simp only [List.mem_cons, List.not_mem_nil, or_false] at ht
        rcases ht with rfl | rfl
        · exact h
        · exact inR_mirror h
      · intro t ht
        simp only [List.mem_cons, List.not_mem_nil, or_false] at ht
        rcases ht with rfl | rfl <;> exact Or.inr (Or.inl rfl)
    | symPair y x v v2 hs h e hv hv2 hnb hself =>
      constructor
      · intro t ht
        simp only [List.mem_cons, List.not_mem_nil, or_false] at ht
        rcases ht with rfl | rfl
        · exact h
        · exact inR_mirror h
      · intro t ht
        simp only [List.mem_cons, List.not_mem_nil, or_false] at ht
        rcases ht with rfl | rfl
        · exact Or.inl (mem_nonDefault hv).1
        · exact Or.inl (mem_nonDefault hv2).1
    | symChange y x v cv hs h e hcv hv hne =>
      constructor
      · intro t ht
        simp only [List.mem_cons, List.not_mem_nil, or_false] at ht
        subst ht; exact h
      · intro t ht
        simp only [List.mem_cons, List.not_mem_nil, or_false] at ht
        subst ht; exact Or.inl (mem_nonDefault hv).1
    | plain y x v cv hs h hv e hne hnb =>
      constructor
      · intro t ht
        simp only [List.mem_cons, List.not_mem_nil, or_false] at ht
        subst ht; exact h
      · intro t ht
        simp only [List.mem_cons, List.not_mem_nil, or_false] at ht
        subst ht; exact Or.inl hv

/-- Point symmetry is preserved by every update shape offered when `symmetry` is on. -/
theorem shape_sym (c : ArrayCfg V) (g : Grid V) (u : CellUpd V)
    (h : MoveShape c g u ∨ ValueShape c g u) (hs : c.symmetry = true) (hsym : SymF c (cellI g)) :
    SymF c (writes u (cellI g)) := by
  rcases h with h | h
  · cases h with
    | sym y1 x1 y2 x2 c1 c2 c1b c2b _ h1 h2 hne hnc hnb e1 e2 e1b e2b hc =>
      exact symF_move c _ y1 x1 y2 x2 c1 c2 c1b c2b h1 h2 hne hnc hnb e1 e2 e1b e2b hsym
    | plain y1 x1 y2 x2 c1 c2 hs' => rw [hs] at hs'; cases hs'
  · cases h with
    | symClear y x cv _ h e hcv => exact symF_clear c _ y x hsym
    | symPair y x v v2 _ h e hv hv2 hnb hself =>
      exact symF_pair c _ y x v v2 (mem_nonDefault hv).2 (mem_nonDefault hv2).2 hsym
    | symChange y x v cv _ h e hcv hv hne =>
      exact symF_change c _ y x v cv e hcv (mem_nonDefault hv).2 hsym
    | plain y x v cv hs' => rw [hs] at hs'; cases hs'

/-- The adjacency rule is preserved by every value-setting update. -/
theorem shape_noAdj (c : ArrayCfg V) (g : Grid V) (u : CellUpd V) (h : ValueShape c g u)
    (hD : ClosedNeg c.disallow) (hsym : c.symmetry = true → SymF c (cellI g)) (hna : NoAdjF c (cellI g)) :
    NoAdjF c (writes u (cellI g)) := by
  cases h with
  | symClear y x cv hs h e hcv =>
    -- two single writes of the default value
    have h1 : NoAdjF c (writes [(y, x, c.default)] (cellI g)) :=
      noAdjF_single c _ y x c.default hD (fun hne => absurd rfl hne) hna
    have h2 := noAdjF_single c _ ((c.height : Int) - 1 - y) ((c.width : Int) - 1 - x) c.default hD
      (fun hne => absurd rfl hne) h1
    simpa [writes] using h2
  | symPair y x v v2 hs h e hv hv2 hnb hself =>
    exact noAdjF_symPair c _ y x v v2 h hD hnb hself (hsym hs) hna
  | symChange y x v cv hs h e hcv hv hne =>
    exact noAdjF_same c _ _ (change_same c _ y x v cv e hcv (mem_nonDefault hv).2) hna
  | plain y x v cv hs h hv e hne hnb =>
    exact noAdjF_single c _ y x v hD hnb hna

theorem updateOk_of_shape (c : ArrayCfg V) (g : Grid V) (u : CellUpd V)
    (hsh : Shaped c.height c.width g) (h : MoveShape c g u ∨ ValueShape c g u) : UpdateOk c g u := by
  obtain ⟨hco, hval⟩ := shape_coords c g u h
  have hnn : ∀ t ∈ u, 0 ≤ t.1 ∧ 0 ≤ t.2.1 := fun t ht => ⟨(hco t ht).1, (hco t ht).2.2.1⟩
  refine ⟨hco, hval, applyCells_ok u g hsh (fun t ht => hco t ht), ?_⟩
  intro g' hg'
  obtain ⟨hsh', hcell⟩ := applyCells_spec u g g' hsh hnn hg'
  have hfun : cellI g' = writes u (cellI g) := by funext y x; exact hcell y x
  refine ⟨hsh', ?_, ?_, ?_, ?_⟩
  · intro y x hno
    rw [hcell, writes_not_listed u _ y x hno]
  · intro y x
    rw [hcell]
    exact writes_cases u _ y x
  · intro hvalid y x hin
    rcases writes_cases u (cellI g) y x with e | ⟨t, ht, _, _, e⟩
    · rw [hcell, e]; exact hvalid y x hin
    · refine ⟨t.2.2, by rw [hcell, e], ?_⟩
      rcases hval t ht with h1 | h1 | ⟨y', x', hin', e'⟩
      · exact Or.inl h1
      · exact Or.inr h1
      · obtain ⟨v, hv, hv'⟩ := hvalid y' x' hin'
        rw [e'] at hv
        cases hv
        exact hv'
  · intro hs hsym
    rw [sym_iff, hfun]
    exact shape_sym c g u h hs hsym

end Cspuz.Gen
