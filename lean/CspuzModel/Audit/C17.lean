import CspuzModel.Properties.C17
#print axioms Cspuz.C17.C17_total
#print axioms Cspuz.C17.C17_total_problem
#print axioms Cspuz.C17.C17_total_url
#print axioms Cspuz.C17.C17_total_puzzles
#print axioms Cspuz.C17.C17_reencodable_fails
#print axioms Cspuz.C17.C17_reencodable_partial
#print axioms Cspuz.C17.C17_reencodable_nested
#print axioms Cspuz.C17.C17_reencodable_puzzles
#print axioms Cspuz.C17.C17_rooms_decoded_canonical
#print axioms Cspuz.C17.C17_reencodable_rooms
#print axioms Cspuz.C17.C17_reencodable_valued_rooms
#print axioms Cspuz.C17.C17_reencodable_rooms_puzzles
