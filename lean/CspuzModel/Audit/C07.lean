import CspuzModel.Properties.C07
#print axioms Cspuz.C07.C07_groups_exact
#print axioms Cspuz.C07.C07_groups_nosize
#print axioms Cspuz.C07.C07_borders_aux
#print axioms Cspuz.C07.C07_borders_prim
