import CspuzModel.Properties.C08
#print axioms Cspuz.C08.C08_not_adjacent_graph
#print axioms Cspuz.C08.C08_not_adjacent_grid
#print axioms Cspuz.C08.C08_segmenting_graph
#print axioms Cspuz.C08.C08_grid_line
#print axioms Cspuz.C08.C08_grid_diag_sound
#print axioms Cspuz.C08.C08_grid_diag_complete
#print axioms Cspuz.C08.C08_planar
#print axioms Cspuz.C08.C08_grid
