import CspuzModel.Properties.C10
#print axioms Cspuz.C10.C10_exact_aux
#print axioms Cspuz.C10.C10_exact_prim
#print axioms Cspuz.C10.C10_total
#print axioms Cspuz.C10.C10_general_aux
#print axioms Cspuz.C10.C10_general_prim
#print axioms Cspuz.C10.C10_general_total
#print axioms Cspuz.C10.C10_fresh_ok
#print axioms Cspuz.C10.C10_general_implies_exact
