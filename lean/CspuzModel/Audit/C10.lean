import CspuzModel.Properties.C10
#print axioms Cspuz.C10.C10_exact_aux
#print axioms Cspuz.C10.C10_exact_prim
#print axioms Cspuz.C10.C10_total
