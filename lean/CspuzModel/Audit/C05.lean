import CspuzModel.Properties.C05
#print axioms Cspuz.C05.C05_aux_exact
#print axioms Cspuz.C05.C05_prim_exact
#print axioms Cspuz.C05.C05_total
