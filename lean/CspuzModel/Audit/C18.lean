import CspuzModel.Properties.C18
#print axioms Cspuz.C18.C18_step
#print axioms Cspuz.C18.C18_part_step
#print axioms Cspuz.C18.C18_initial
#print axioms Cspuz.C18.C18_reachable
#print axioms Cspuz.C18.C18_pure
#print axioms Cspuz.C18.C18_isConnected
#print axioms Cspuz.C18.C18_split_halves
#print axioms Cspuz.C18.C18_bfs_total
