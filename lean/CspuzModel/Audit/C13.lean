import CspuzModel.Properties.C13
#print axioms Cspuz.C13.C13_getitem
#print axioms Cspuz.C13.C13_reshape
#print axioms Cspuz.C13.C13_nested
#print axioms Cspuz.C13.C13_nested_getitem
