import CspuzModel.Properties.C16
#print axioms Cspuz.C16.C16_url_frame
#print axioms Cspuz.C16.C16_url_roundtrip_nurikabe
#print axioms Cspuz.C16.C16_url_roundtrip_masyu
#print axioms Cspuz.C16.C16_url_roundtrip_slitherlink
#print axioms Cspuz.C16.C16_url_roundtrip_sudoku
#print axioms Cspuz.C16.C16_url_roundtrip_nurimisaki
#print axioms Cspuz.C16.C16_url_roundtrip_yajilin
#print axioms Cspuz.C16.C16_url_roundtrip_heyawake
#print axioms Cspuz.C16.C16_url_roundtrip_lits
#print axioms Cspuz.C16.C16_url_roundtrip_norinori
#print axioms Cspuz.C16.C16_url_roundtrip_compass
#print axioms Cspuz.C16.C16_pzpr_grids
#print axioms Cspuz.C16.C16_pzpr_rooms_partial
#print axioms Cspuz.C16.C16_pzpr_star_battle
#print axioms Cspuz.C16.C16_pzpr_aquarium
#print axioms Cspuz.C16.C16_pzpr_compass
#print axioms Cspuz.C16.C16_legacy_agree
