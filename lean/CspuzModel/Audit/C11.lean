import CspuzModel.Properties.C11All
#print axioms Cspuz.C11.C11_compose
#print axioms Cspuz.C11.Akari.program_iff_rules
#print axioms Cspuz.C11.Akari.total
