import CspuzModel.Properties.C15
#print axioms Cspuz.C15.C15_leaves_local
#print axioms Cspuz.C15.C15_composition
#print axioms Cspuz.C15.C15_roundtrip
#print axioms Cspuz.C15.C15_seq_terminates
#print axioms Cspuz.C15.C15_borders_roundtrip
#print axioms Cspuz.C15.C15_rooms
#print axioms Cspuz.C15.C15_valued_rooms
#print axioms Cspuz.C15.C15_puzzles_wf
#print axioms Cspuz.C15.C15_wf_ctorOk
