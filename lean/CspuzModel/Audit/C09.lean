import CspuzModel.Properties.C09
#print axioms Cspuz.C09.C09_exact
#print axioms Cspuz.C09.C09_total
