import CspuzModel.Properties.C20
#print axioms Cspuz.C20.C20_backend
#print axioms Cspuz.C20.C20_default
#print axioms Cspuz.C20.C20_flags
#print axioms Cspuz.C20.C20_primitive
#print axioms Cspuz.C20.C20_strtobool
#print axioms Cspuz.C20.tables_agree
