import CspuzModel.Properties.C03
#print axioms Cspuz.C03.C03_text_roundtrip
#print axioms Cspuz.C03.C03_wt_printable
#print axioms Cspuz.C03.C03_reply_sat
#print axioms Cspuz.C03.C03_reply_facts
#print axioms Cspuz.C03.C03_five_backends
#print axioms Cspuz.C03.C03_backend_correct
#print axioms Cspuz.C03.C03_native_deduction
#print axioms Cspuz.C03.C03_plain_sugar
#print axioms Cspuz.C03.C03_java_loop
#print axioms Cspuz.C03.C03_solver_exists
