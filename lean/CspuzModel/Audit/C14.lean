import CspuzModel.Properties.C14
#print axioms Cspuz.C14.C14_getitem
#print axioms Cspuz.C14.C14_cell
#print axioms Cspuz.C14.C14_vertex
#print axioms Cspuz.C14.C14_graph
#print axioms Cspuz.C14.C14_names
#print axioms Cspuz.C14.C14_iter
#print axioms Cspuz.C14.C14_dual
