import CspuzModel.Properties.C19
#print axioms Cspuz.C19.C19_xorshift_range
#print axioms Cspuz.C19.C19_randint_range
#print axioms Cspuz.C19.C19_randint_uniform
#print axioms Cspuz.C19.C19_choice
#print axioms Cspuz.C19.C19_shuffle_perm
#print axioms Cspuz.C19.C19_shuffle_bijective
#print axioms Cspuz.C19.C19_random_range
#print axioms Cspuz.C19.C19_sound
#print axioms Cspuz.C19.C19_neighbours
#print axioms Cspuz.C19.C19_array
#print axioms Cspuz.C19.C19_array_initial
