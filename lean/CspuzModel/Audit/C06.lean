import CspuzModel.Properties.C06
#print axioms Cspuz.C06.C06_cycle_regular_aux
#print axioms Cspuz.C06.C06_cycle_regular_prim
#print axioms Cspuz.C06.C06_regular_is_cycle
#print axioms Cspuz.C06.C06_cycle_aux
#print axioms Cspuz.C06.C06_cycle_prim
#print axioms Cspuz.C06.C06_path_regular
#print axioms Cspuz.C06.C06_regular_is_path
#print axioms Cspuz.C06.C06_path
#print axioms Cspuz.C06.C06_path_aux_unimplemented
