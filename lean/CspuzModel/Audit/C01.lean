import CspuzModel.Properties.C01
#print axioms Cspuz.C01.C01_translation_faithful
#print axioms Cspuz.C01.C01_z3_backend_correct
#print axioms Cspuz.C01.C01_find_answer_exact
#print axioms Cspuz.C01.C01_session
