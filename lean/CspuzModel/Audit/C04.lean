import CspuzModel.Properties.C04
#print axioms Cspuz.C04.C04_aux_exact
#print axioms Cspuz.C04.C04_prim_exact
#print axioms Cspuz.C04.C04_dispatch
#print axioms Cspuz.C04.C04_grid
