import CspuzModel.Properties.C12
#print axioms Cspuz.C12.C12_dunder_table
#print axioms Cspuz.C12.C12_pointwise
#print axioms Cspuz.C12.C12_rejects
#print axioms Cspuz.C12.C12_count_true
#print axioms Cspuz.C12.C12_fold_or
#print axioms Cspuz.C12.C12_fold_and
#print axioms Cspuz.C12.C12_alldifferent
#print axioms Cspuz.C12.C12_conv2d
#print axioms Cspuz.C12.C12_four_neighbors
#print axioms Cspuz.C12.C12_scalar_dispatch
