import CspuzModel.Properties.C02
#print axioms Cspuz.C02.C02_exact
#print axioms Cspuz.C02.C02_terminates
