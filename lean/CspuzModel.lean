import CspuzModel.Model.Py
import CspuzModel.Model.Sexp
